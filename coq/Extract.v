(* Extract.v — extraction of the executable model for the correspondence
   check.  Only ExtrOcamlBasic's directives are used (bool, option, unit, list,
   prod, sumbool, sumor -> the OCaml types of the same shape); nat, N, positive
   stay the extracted inductive types.  No Extract Constant. *)
Require Import Model.Base Model.Exec.
From Coq Require Extraction ExtrOcamlBasic.
Extraction Language OCaml.
Extraction "model.ml" run_case.
