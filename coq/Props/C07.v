(* ========================================================================== *)
(* C07 — Set is a correct bounded set: every operation agrees with a reference
         model

   STATEMENT (properties.jsonl):
     "For any sequence of Set operations (insert, replace, contains, get, remove,
      take, retain, clear, drain, extend) every result and the resulting
      membership equal those of an ideal finite set: insert returns true exactly
      when the element was absent, remove/take/contains/get report presence
      truthfully, and membership afterwards is exactly the successful insertions
      not yet removed."
   QUANTIFIER:
     "all finite Set operation sequences, all element values, capacities N >= 0,
      lookups by borrowed form"

   VOCABULARY (Proofs/SetDict.v, Proofs/Spec.v, Proofs/Inv.v, Model/SetOps.v)
     Set<T,N> is Map<T,(),N>: the model of a Set is a [map K unit]; s_insert, s_replace,
     s_contains, s_get, s_remove, s_take, s_retain, s_clear, s_extend (Model/SetOps.v) are the
     thin projections of the Map methods that src/set/methods.rs, src/set/extend.rs are.
     Lawful E ck cq   the user's == is equality of the classes [ck k] (element) / [cq q]
                      (borrowed form Q) and never panics; Drop never panics.
     Spec.elems m     the live prefix slots[0..len) as a list of (element, ()) = what iteration
                      yields, in order.   find_idx ck c l = index of the first entry of class c;
                      lookup ck l c = that entry; l_remove = swap-remove of it (Spec.v);
                      l_retain g .. l = the entries of l kept by g, as Map::retain compacts them
                      (Lawful3.v).
     fset             THE IDEAL SET: a list of elements without duplicates, observed up to order.
     f_mem ck s c     the element of class c in s, if any;   f_del ck s c = s without it.
     sop / sres       one constructor per operation of the property (SoInsert, SoReplace,
                      SoContains, SoGet, SoRemove, SoTake, SoRetain g, SoClear, SoExtend items)
                      / its result (SBool b, SNone, SElem k, SUnit, SPanic = the call unwound).
     f_insert ck n k s   ideal insert under capacity n: (SBool false, s) if an element of k's class
                      is present, (SBool true, s ++ [k]) if absent and |s| < n, (SPanic, s) if
                      absent and full.
     f_extend ck n items s   ideal extend: insert the items one by one; the first overflowing
                      insertion stops it with SPanic and the set as it is at that point.
     fstep ck cq n o s   THE SPECIFICATION: result and next state of the ideal set of capacity n.
                      replace: returns the element it displaces (SElem old / SNone) and stores the
                      NEW one; contains / remove: SBool presence; get / take: SElem stored element
                      or SNone; retain g: filter g; clear: [].
     sstep E debug o  the model of the crate's code for that call (SoGet also reads the element
                      through the returned reference; SoExtend uses a source that never panics).
     SAbs ck m s      := WF m /\ Uniq ck (Spec.elems m) /\ Permutation (map fst (Spec.elems m)) s
                      "the container m represents the ideal set s".
     smrun / fsrun    results of a whole history (a panic is recorded as SPanic and the history
                      continues on the unwound state); smfinal / fsfinal the state after it
                      (smfinal = None iff some step was UB).

   READING GUIDE (clause of the property -> theorem)
     "every result and the resulting membership equal those of an ideal finite set", one call
                                                            C07_sstep_refines
        (Ok: same result, SAbs preserved, capacity unchanged; Panic: the ideal set panics too and
         the container represents the ideal set's state at that point — for every operation but
         extend that is the UNCHANGED set and the container is literally untouched; UB: impossible)
     ... for any sequence, from any represented state      C07_srun_refines, C07_srun_refines_state
     ... for any sequence from Set::new(), any capacity n  C07_srun_refines_new,
                                                            C07_srun_refines_state_new
     what SAbs means for each observer ("membership afterwards"):
          len()                                            C07_sabs_len
          contains()/get() by borrowed form                C07_sabs_mem
          iteration (each element exactly once)            C07_sabs_iter
     "insert returns true exactly when the element was absent"
                                                            C07_insert_true_iff_absent,
                                                            C07_s_insert_lawful
        (and it panics exactly when absent and full, leaving the container untouched; the
         rejected element, a local of the unwinding frame, is destroyed exactly once: the log
         grows by exactly its EvDrop events, the () value's (none for Set) before the element's: the two
         arguments are destroyed in reverse declaration order — same panic clause in C07_s_replace_lawful)
     "remove/take/contains/get report presence truthfully" C07_s_remove_lawful, C07_s_take_lawful,
                                                            C07_s_contains_lawful, C07_s_get_lawful
        (each method computes the list-machine function on elems; they are the per-method
         facts C07_sstep_refines is assembled from), likewise C07_s_replace_lawful,
         C07_s_clear_lawful, C07_s_retain_lawful.
     "membership afterwards is exactly the successful insertions not yet removed"
        is the definition of fstep (s ++ [k] on a successful insert, f_del on remove/take, filter on
        retain, [] on clear) transported by C07_srun_refines_state(_new) + C07_sabs_mem;
        as a theorem about traces: C07_fsfinal2_mem_new, C07_srun2_membership (end of this file).
     drain                                                 C07_sdrain_refines
        (the set is the empty set at once; the range handed to the Drain iterator holds exactly
         the previous elements; what iterating / dropping the Drain does is Props/C10.v).
     extend                                                SoExtend inside the histories;
                                                            C07_f_extend_panic_inv says what the
        ideal set is after an overflowing extend: the items before the failing one have been
        inserted, and the failing one does not fit.
     "lookups by borrowed form": the queries have their own type Q and class function cq.
     "capacities N >= 0": [n : nat] is universally quantified (n = 0 included).
     Both build profiles: [debug : bool] is universally quantified.

   PARTLY COVERED / NOT COVERED BY A THEOREM HERE
     - drain is not a constructor of [sop]: it is specified separately (C07_sdrain_refines) and
       not interleaved inside the histories of C07_srun_refines.  CLOSED at the end of this file:
       [sop2] adds S2Drain and C07_srun2_refines covers histories with drain anywhere.
     - SoRetain takes a pure, non-panicking predicate g : K -> bool; SoExtend's source iterator
       never panics (panicking closures / sources: C04); everything assumes [Lawful E ck cq]
       (unlawful ==: only safety, C17).
     - that Model/SetOps.v is a faithful transcription of src/set/*.rs (each method a projection
       of the Map method) is the correspondence check's business.                              *)
(* ========================================================================== *)
Require Import Model.Base Model.Slots Model.MapOps Model.SetOps Model.Exec.
Require Import Proofs.Hoare Proofs.Inv Proofs.Safety Proofs.Safety2 Proofs.Spec Proofs.Lawful Proofs.Lawful2 Proofs.Lawful3.
Require Import Proofs.Dict Proofs.SetDict Proofs.FmtSerde Proofs.Legacy.
From Coq Require Import Permutation.

(* -------------------------------------------------------------------------- *)
(* 1. every Set method computes the list-machine function on elems             *)

Theorem C07_s_insert_lawful :
  forall (K Q T : Type) (E : env K unit Q T) (debug : bool) (ck : K -> N) (cq : Q -> N),
    Lawful E ck cq ->
    forall (k : K) (w : world K unit T),
      WF (self w) ->
      wp (s_insert E debug k)
         (fun (r : bool) (w' : world K unit T) =>
            WF (self w') /\
            cap (self w') = cap (self w) /\
            r = match find_idx ck (ck k) (Spec.elems (self w)) with
                | Some _ => false
                | None => true
                end /\
            Spec.elems (self w') =
            match find_idx ck (ck k) (Spec.elems (self w)) with
            | Some _ => Spec.elems (self w)
            | None => Spec.elems (self w) ++ [(k, tt)]
            end /\
            (find_idx ck (ck k) (Spec.elems (self w)) = None -> len (self w) < cap (self w)))
         (fun w' : world K unit T =>
            self w' = self w /\
            logged w w' (ev_drops (idV E tt ++ idK E k)) /\
            find_idx ck (ck k) (Spec.elems (self w)) = None /\
            len (self w) = cap (self w))
         w.
Proof. exact (@s_insert_lawful). Qed.
Print Assumptions C07_s_insert_lawful.

Theorem C07_s_replace_lawful :
  forall (K Q T : Type) (E : env K unit Q T) (debug : bool) (ck : K -> N) (cq : Q -> N),
    Lawful E ck cq ->
    forall (k : K) (w : world K unit T),
      WF (self w) ->
      wp (s_replace E debug k)
         (fun (r : option K) (w' : world K unit T) =>
            WF (self w') /\
            cap (self w') = cap (self w) /\
            log w' = log w /\
            r = option_map fst (lookup ck (Spec.elems (self w)) (ck k)) /\
            Spec.elems (self w') =
            match find_idx ck (ck k) (Spec.elems (self w)) with
            | Some i => upd (Spec.elems (self w)) i (k, tt)
            | None => Spec.elems (self w) ++ [(k, tt)]
            end /\
            (find_idx ck (ck k) (Spec.elems (self w)) = None -> len (self w) < cap (self w)))
         (fun w' : world K unit T =>
            self w' = self w /\
            logged w w' (ev_drops (idV E tt ++ idK E k)) /\
            find_idx ck (ck k) (Spec.elems (self w)) = None /\
            len (self w) = cap (self w))
         w.
Proof. exact (@s_replace_lawful). Qed.
Print Assumptions C07_s_replace_lawful.

Theorem C07_s_contains_lawful :
  forall (K Q T : Type) (E : env K unit Q T) (ck : K -> N) (cq : Q -> N),
    Lawful E ck cq ->
    forall (q : Q) (w : world K unit T),
      WF (self w) ->
      wp (s_contains E q)
         (fun (r : bool) (w' : world K unit T) =>
            stable w w' /\
            r = match find_idx ck (cq q) (Spec.elems (self w)) with
                | Some _ => true
                | None => false
                end)
         (fun _ : world K unit T => False)
         w.
Proof. exact (@s_contains_lawful). Qed.
Print Assumptions C07_s_contains_lawful.

Theorem C07_s_get_lawful :
  forall (K Q T : Type) (E : env K unit Q T) (ck : K -> N) (cq : Q -> N),
    Lawful E ck cq ->
    forall (q : Q) (w : world K unit T),
      WF (self w) ->
      wp (s_get E q)
         (fun (r : option nat) (w' : world K unit T) =>
            stable w w' /\ r = find_idx ck (cq q) (Spec.elems (self w)))
         (fun _ : world K unit T => False)
         w.
Proof. exact (@s_get_lawful). Qed.
Print Assumptions C07_s_get_lawful.

Theorem C07_s_remove_lawful :
  forall (K Q T : Type) (E : env K unit Q T) (debug : bool) (ck : K -> N) (cq : Q -> N),
    Lawful E ck cq ->
    forall (q : Q) (w : world K unit T),
      WF (self w) ->
      wp (s_remove E debug q)
         (fun (r : bool) (w' : world K unit T) =>
            WF (self w') /\
            cap (self w') = cap (self w) /\
            r = match find_idx ck (cq q) (Spec.elems (self w)) with
                | Some _ => true
                | None => false
                end /\
            Spec.elems (self w') = fst (l_remove ck (Spec.elems (self w)) (cq q)))
         (fun _ : world K unit T => False)
         w.
Proof. exact (@s_remove_lawful). Qed.
Print Assumptions C07_s_remove_lawful.

Theorem C07_s_take_lawful :
  forall (K Q T : Type) (E : env K unit Q T) (debug : bool) (ck : K -> N) (cq : Q -> N),
    Lawful E ck cq ->
    forall (q : Q) (w : world K unit T),
      WF (self w) ->
      wp (s_take E debug q)
         (fun (r : option K) (w' : world K unit T) =>
            WF (self w') /\
            cap (self w') = cap (self w) /\
            log w' = log w /\
            r = option_map fst (snd (l_remove ck (Spec.elems (self w)) (cq q))) /\
            Spec.elems (self w') = fst (l_remove ck (Spec.elems (self w)) (cq q)))
         (fun _ : world K unit T => False)
         w.
Proof. exact (@s_take_lawful). Qed.
Print Assumptions C07_s_take_lawful.

Theorem C07_s_clear_lawful :
  forall (K Q T : Type) (E : env K unit Q T) (ck : K -> N) (cq : Q -> N),
    Lawful E ck cq ->
    forall w : world K unit T,
      WF (self w) ->
      wp (s_clear E)
         (fun (_ : unit) (w' : world K unit T) =>
            WF (self w') /\ cap (self w') = cap (self w) /\ len (self w') = 0 /\ Spec.elems (self w') = [])
         (fun _ : world K unit T => False)
         w.
Proof. exact (@s_clear_lawful). Qed.
Print Assumptions C07_s_clear_lawful.

Theorem C07_s_retain_lawful :
  forall (K Q T : Type) (E : env K unit Q T) (debug : bool) (ck : K -> N) (cq : Q -> N),
    Lawful E ck cq ->
    forall (f : T -> K -> option bool * T) (g : K -> bool) (w : world K unit T),
      (forall (s : T) (k : K), fst (f s k) = Some (g k)) ->
      WF (self w) ->
      wp (s_retain E debug f)
         (fun (_ : unit) (w' : world K unit T) =>
            WF (self w') /\
            cap (self w') = cap (self w) /\
            Spec.elems (self w') =
            l_retain (fun (k : K) (_ : unit) => (g k, tt)) (length (Spec.elems (self w))) 0
                     (Spec.elems (self w)))
         (fun _ : world K unit T => False)
         w.
Proof. exact (@s_retain_lawful). Qed.
Print Assumptions C07_s_retain_lawful.

(* -------------------------------------------------------------------------- *)
(* 2. one call / any history refines the ideal set                             *)

Theorem C07_sstep_refines :
  forall (K Q T : Type) (E : env K unit Q T) (debug : bool) (ck : K -> N) (cq : Q -> N),
    Lawful E ck cq ->
    forall (n : nat) (o : @sop K Q) (w : world K unit T) (s : @fset K),
      SAbs ck (self w) s ->
      cap (self w) = n ->
      match sstep E debug o w with
      | Ok r w' =>
          fst (fstep ck cq n o s) = r /\
          SAbs ck (self w') (snd (fstep ck cq n o s)) /\
          cap (self w') = n
      | Panic w' =>
          fst (fstep ck cq n o s) = SPanic /\
          SAbs ck (self w') (snd (fstep ck cq n o s)) /\
          cap (self w') = n /\
          match o with
          | SoExtend _ => True
          | _ => snd (fstep ck cq n o s) = s /\ self w' = self w
          end
      | UB => False
      end.
Proof. exact (@sstep_refines). Qed.
Print Assumptions C07_sstep_refines.

Theorem C07_srun_refines :
  forall (K Q T : Type) (E : env K unit Q T) (debug : bool) (ck : K -> N) (cq : Q -> N),
    Lawful E ck cq ->
    forall (n : nat) (ops : list (@sop K Q)) (w : world K unit T) (s : @fset K),
      SAbs ck (self w) s ->
      cap (self w) = n ->
      smrun E debug ops w = fsrun ck cq n ops s.
Proof. exact (@srun_refines). Qed.
Print Assumptions C07_srun_refines.

Theorem C07_srun_refines_new :
  forall (K Q T : Type) (E : env K unit Q T) (debug : bool) (ck : K -> N) (cq : Q -> N),
    Lawful E ck cq ->
    forall (n : nat) (ops : list (@sop K Q)) (t : T) (lg : list event),
      smrun E debug ops {| cb := t; log := lg; self := new_map n |} = fsrun ck cq n ops [].
Proof. exact (@srun_refines_new). Qed.
Print Assumptions C07_srun_refines_new.

Theorem C07_srun_refines_state :
  forall (K Q T : Type) (E : env K unit Q T) (debug : bool) (ck : K -> N) (cq : Q -> N),
    Lawful E ck cq ->
    forall (n : nat) (ops : list (@sop K Q)) (w : world K unit T) (s : @fset K),
      SAbs ck (self w) s ->
      cap (self w) = n ->
      exists wf : world K unit T,
        smfinal E debug ops w = Some wf /\
        SAbs ck (self wf) (fsfinal ck cq n ops s) /\
        cap (self wf) = n.
Proof. exact (@srun_refines_state). Qed.
Print Assumptions C07_srun_refines_state.

Theorem C07_srun_refines_state_new :
  forall (K Q T : Type) (E : env K unit Q T) (debug : bool) (ck : K -> N) (cq : Q -> N),
    Lawful E ck cq ->
    forall (n : nat) (ops : list (@sop K Q)) (t : T) (lg : list event),
      exists wf : world K unit T,
        smfinal E debug ops {| cb := t; log := lg; self := new_map n |} = Some wf /\
        SAbs ck (self wf) (fsfinal ck cq n ops []) /\
        cap (self wf) = n.
Proof. exact (@srun_refines_state_new). Qed.
Print Assumptions C07_srun_refines_state_new.

(* -------------------------------------------------------------------------- *)
(* 3. what is observable of a container that represents s                      *)

Theorem C07_sabs_len :
  forall (K T : Type) (ck : K -> N) (w : world K unit T) (s : @fset K),
    SAbs ck (self w) s -> len (self w) = length s.
Proof. exact (@sabs_len). Qed.
Print Assumptions C07_sabs_len.

Theorem C07_sabs_mem :
  forall (K Q T : Type) (ck : K -> N) (cq : Q -> N) (w : world K unit T) (s : @fset K) (q : Q),
    SAbs ck (self w) s ->
    f_mem ck s (cq q) = option_map fst (lookup ck (Spec.elems (self w)) (cq q)).
Proof. exact (@sabs_mem). Qed.
Print Assumptions C07_sabs_mem.

Theorem C07_sabs_iter :
  forall (K T : Type) (ck : K -> N) (w : world K unit T) (s : @fset K),
    SAbs ck (self w) s ->
    Permutation (List.map fst (Spec.elems (self w))) s /\
    NoDup (List.map (fun p : K * unit => ck (fst p)) (Spec.elems (self w))) /\
    NoDup (List.map ck s).
Proof. exact (@sabs_iter). Qed.
Print Assumptions C07_sabs_iter.

(* -------------------------------------------------------------------------- *)
(* 4. insert returns true exactly when the element was absent                  *)

Theorem C07_insert_true_iff_absent :
  forall (K Q T : Type) (E : env K unit Q T) (debug : bool) (ck : K -> N) (cq : Q -> N),
    Lawful E ck cq ->
    forall (k : K) (w : world K unit T),
      WF (self w) ->
      match s_insert E debug k w with
      | Ok b _ =>
          (b = true <-> ~ In (ck k) (List.map (fun p : K * unit => ck (fst p)) (Spec.elems (self w)))) /\
          (b = true <-> find_idx ck (ck k) (Spec.elems (self w)) = None)
      | Panic w' =>
          ~ In (ck k) (List.map (fun p : K * unit => ck (fst p)) (Spec.elems (self w))) /\
          len (self w) = cap (self w) /\
          self w' = self w
      | UB => False
      end.
Proof. exact (@insert_true_iff_absent). Qed.
Print Assumptions C07_insert_true_iff_absent.

(* -------------------------------------------------------------------------- *)
(* 5. drain                                                                    *)

Theorem C07_sdrain_refines :
  forall (K T : Type) (ck : K -> N) (w : world K unit T) (s : @fset K),
    SAbs ck (self w) s ->
    wp (@drain K unit T)
       (fun (c : cursor) (w' : world K unit T) =>
          c = (0, length s) /\
          SAbs ck (self w') [] /\
          cap (self w') = cap (self w) /\
          Permutation (List.map fst (take_live (slots (self w')) (snd c))) s)
       (fun _ : world K unit T => False)
       w.
Proof. exact (@sdrain_refines). Qed.
Print Assumptions C07_sdrain_refines.

(* -------------------------------------------------------------------------- *)
(* 6. the ideal set after an overflowing extend                                *)

Theorem C07_f_extend_panic_inv :
  forall (K : Type) (ck : K -> N) (n : nat) (items : list K) (s s' : @fset K),
    f_extend ck n items s = (SPanic, s') ->
    exists (pre : list K) (k : K) (post : list K),
      items = pre ++ k :: post /\
      f_extend ck n pre s = (SUnit, s') /\
      f_insert ck n k s' = (SPanic, s').
Proof. exact (@f_extend_panic_inv). Qed.
Print Assumptions C07_f_extend_panic_inv.

(* -------------------------------------------------------------------------- *)
(* Non-vacuity                                                                 *)
Definition C07_sc0 : script := {| sc_adv := false; sc_seed := 0; sc_fk := 0; sc_fa := 0 |}.
Definition C07_s2 : map key unit := {| len := 2; slots := [Some (k_ 1 5, tt); Some (k_ 3 6, tt)] |}.

Example C07_example_honest : honest C07_sc0.
Proof. split; reflexivity. Qed.

Example C07_example_lawful : Lawful (env_set C07_sc0) kcls qcls.
Proof. exact (env_set_lawful C07_sc0 C07_example_honest). Qed.

(* a 2-element container represents the ideal set {K3c6, K1c5}, in any order *)
Example C07_example_SAbs : SAbs kcls C07_s2 [k_ 3 6; k_ 1 5].
Proof.
  split; [|split].
  - split; [cbn; lia|]. intros i Hi. cbn [len C07_s2] in Hi.
    destruct i as [|[|i]]; [eexists; reflexivity | eexists; reflexivity | lia].
  - unfold Uniq. vm_compute. repeat (constructor; [cbn [In]; intuition discriminate|]). constructor.
  - vm_compute. apply perm_swap.
Qed.

(* a history on Set::new() with capacity 2: duplicate insert (false), insert into
   the full set (panic), removal, lookups by class, an extend that overflows at
   its second new element, replace *)
Definition C07_ops : list (@sop key query) :=
  [SoInsert (k_ 1 5); SoInsert (k_ 2 5); SoContains (QCls 5); SoInsert (k_ 3 6); SoInsert (k_ 4 7);
   SoRemove (QCls 5); SoGet (QCls 6); SoTake (QCls 9); SoExtend [k_ 5 6; k_ 6 8; k_ 7 9];
   SoReplace (k_ 8 8)].

Example C07_example_run_model :
  smrun (env_set C07_sc0) false C07_ops {| cb := cs0; log := []; self := new_map 2 |} =
  [SBool true; SBool false; SBool true; SBool true; SPanic; SBool true; SElem (k_ 3 6); SNone; SPanic;
   SElem (k_ 6 8)].
Proof. vm_compute. reflexivity. Qed.

Example C07_example_run_ideal :
  fsrun kcls qcls 2 C07_ops [] =
  [SBool true; SBool false; SBool true; SBool true; SPanic; SBool true; SElem (k_ 3 6); SNone; SPanic;
   SElem (k_ 6 8)].
Proof. vm_compute. reflexivity. Qed.

Example C07_example_final :
  fsfinal kcls qcls 2 C07_ops [] = [k_ 3 6; k_ 8 8] /\
  match smfinal (env_set C07_sc0) false C07_ops {| cb := cs0; log := []; self := new_map 2 |} with
  | Some wf => self wf = {| len := 2; slots := [Some (k_ 3 6, tt); Some (k_ 8 8, tt)] |}
  | None => False
  end.
Proof. split; vm_compute; reflexivity. Qed.

(* ========================================================================== *)
(* HISTORY LEVEL, ALL OPERATIONS OF THE INTERPRETER (Proofs/ExecView.v): the
   components u2 / u3 of the view are the element classes of the two Set
   registers in slot order; [vstep] (a pure list function, see Props/C01.v for
   the reading guide) says what they are after insert, replace, remove, take,
   retain, clear, drain, extend (which stops at the first overflow and keeps
   what it has inserted), iteration, clone / clone_from, collect, serde, Default
   and the set-algebra calls (which change nothing), for every history.        *)
(* ========================================================================== *)
Require Import Proofs.ExecSafe Proofs.ExecUniq Proofs.ExecView.

Theorem C07_history_run_view :
  forall debug sc ops n0 n1 n2 n3,
    honest sc -> Forall safe_op ops ->
    Forall (fun o => match o with ODisjoint _ true qs _ => NoDup qs | _ => True end) ops ->
    view_x (run_final debug sc ops (init_world n0 n1 n2 n3)) =
    fold_left (fun vw o => vstep o vw) ops
      {| v0 := []; v1 := []; u2 := []; u3 := [];
         c0 := nat_of n0; c1 := nat_of n1; c2 := nat_of n2; c3 := nat_of n3 |}.
Proof. exact run_view_init. Qed.
Print Assumptions C07_history_run_view.

(* capacity-3 set in register 2: three inserts, a duplicate, an extend whose second new
   element overflows (5 is a member, 9 does not fit: the call panics and nothing more is
   inserted), take of class 5 (the last element moves into its slot), retain dropping
   class 7, register 3 := clone *)
Example C07_example_vstep :
  let ops := [SInsert 2 (mk 1 5); SInsert 2 (mk 2 6); SInsert 2 (mk 3 7); SInsert 2 (mk 4 6);
              SExtend 2 [mk 5 5; mk 6 9; mk 7 4]; STake 2 (QCls 5); SRetain 2 1 [(7, 0)]; SClone 2 3]%N in
  let vw := fold_left (fun vw o => vstep o vw) ops
              {| v0 := []; v1 := []; u2 := []; u3 := []; c0 := 0; c1 := 0; c2 := 3; c3 := 3 |} in
  u2 vw = [6]%N /\ u3 vw = [6]%N /\
  view_x (run_final false {| sc_adv := false; sc_seed := 0; sc_fk := 0; sc_fa := 0 |} ops (init_world 0 0 3 3)) = vw.
Proof. vm_compute. repeat split; reflexivity. Qed.

(* ========================================================================== *)
(* AUDIT CLOSURE (Proofs/MoreSet.v)

   1. DRAIN INTERLEAVED IN THE HISTORIES.  "For any sequence of Set operations (insert, replace,
      contains, get, remove, take, retain, clear, drain, extend)".
        sop2             := S2Base o (the nine operations of [sop]) | S2Drain take
                            (call drain(), take [take] items from the Drain, drop it: any number of
                            items, the rest is dropped).
        sres2            := R2Base r | R2Drained l (the elements the Drain yielded, in order).
        sstep2 E debug o the model of the crate's code (C07_sstep2_unfold shows it: S2Drain is
                            Map::drain at V = (), IterSpec.drain_run = next() [take] times, drain_drop).
        fnext2 / fstep2  THE SPECIFICATION: the next state of the ideal set is a function
                            (snd fstep, or [] after drain); the result is a relation because the order in
                            which drain yields is unspecified: R2Drained (firstn take p) for SOME
                            permutation p of the set (C07_fstep2_unfold).
        smrun2/smfinal2/fsfinal2/fsruns2   histories, as smrun/smfinal/fsfinal; fsruns2 n ops s rs =
                            "rs is a result list the ideal set allows for ops from s".
      C07_sstep2_refines        one call, drain included (drain never panics: the Panic clause
                                demands an R2Base SPanic result, which fstep2 refuses for S2Drain)
      C07_srun2_refines(_new)   any history, drain anywhere in it; no UB, results allowed by the ideal
                                set, final container represents the ideal set's final state
      C07_fsruns2_base, C07_fsfinal2_base   without drain this is C07_srun_refines' specification.

   2. "membership afterwards is exactly the successful insertions not yet removed", AS A THEOREM
      ABOUT TRACES (no reading of fstep needed).
        stores n o s k   operation o, run on the ideal set s, SUCCEEDS in putting element k into
                         the set: insert k returned true; replace k did not panic; extend reached
                         item k without overflow and its insertion returned true (C07_stores_unfold).
        removes n o s c  operation o, run on s, takes the element of class c out: remove/take with
                         a query of class c; retain whose predicate rejects the stored element of
                         class c; clear; drain (removes2); replace k with k of class c (the stored
                         element is displaced and handed back; [stores] holds for the new one)
                         (C07_removes_unfold, C07_stores2_removes2_unfold).
        noremove n c ops s   no operation of ops, run in sequence from s, removes class c
                         (C07_noremove_unfold).
        fnd s            NoDup (map ck s): what every reachable ideal set satisfies (C07_fsfinal2_fnd).
      C07_fstep_mem            ONE step: k is the member of class c afterwards iff the step stored it
                               or it was the member before and the step did not remove it
      C07_fsfinal2_mem         any history from any duplicate-free s
      C07_fsfinal2_mem_new     from the empty set: f_mem (final) c = Some k  <->  the history splits
                               as pre ++ o :: post with o storing k (class c) and nothing in post
                               removing class c.  "ops = pre ++ o :: post" is "o is the i-th operation,
                               i = length pre"; "noremove .. post .." is "for all j > i".
      C07_fsfinal2_member_new  the same for "class c is a member"
      C07_srun2_membership(_from)   THE MODEL: what a lookup in the final container of the model run
                               finds (for every class c, not only classes of queries) is characterised
                               by the same trace condition.

   3. C07_srun_refines_state_new was already restated above.                                     *)
(* ========================================================================== *)
Require Import Proofs.MoreSet.

Theorem C07_sstep2_unfold :
  forall (K Q T : Type) (E : env K unit Q T) (debug : bool),
    (forall o : @sop K Q, sstep2 E debug (S2Base o) = (r <- sstep E debug o ;; ret (R2Base r))) /\
    (forall take : nat,
        sstep2 E debug (S2Drain take) =
        (c <- drain ;; x <- IterSpec.drain_run take c ;; drain_drop E (snd x) ;;
         ret (R2Drained (List.map fst (fst x))))).
Proof. exact (@sstep2_unfold). Qed.
Print Assumptions C07_sstep2_unfold.

Theorem C07_fstep2_unfold :
  forall (K Q : Type) (ck : K -> N) (cq : Q -> N) (n : nat) (s : @fset K) (r : @sres2 K),
    (forall o : @sop K Q, fstep2 ck cq n (S2Base o) s r <-> r = R2Base (fst (fstep ck cq n o s))) /\
    (forall take : nat,
        fstep2 ck cq n (S2Drain take) s r <->
        exists p : list K, Permutation p s /\ r = R2Drained (firstn take p)) /\
    (forall o : @sop K Q, fnext2 ck cq n (S2Base o) s = snd (fstep ck cq n o s)) /\
    (forall take : nat, fnext2 ck cq n (@S2Drain K Q take) s = []).
Proof. exact (@fstep2_unfold). Qed.
Print Assumptions C07_fstep2_unfold.

Theorem C07_sstep2_refines :
  forall (K Q T : Type) (E : env K unit Q T) (debug : bool) (ck : K -> N) (cq : Q -> N),
    Lawful E ck cq ->
    forall (n : nat) (o : @sop2 K Q) (w : world K unit T) (s : @fset K),
      SAbs ck (self w) s ->
      cap (self w) = n ->
      match sstep2 E debug o w with
      | Ok r w' =>
          fstep2 ck cq n o s r /\ SAbs ck (self w') (fnext2 ck cq n o s) /\ cap (self w') = n
      | Panic w' =>
          fstep2 ck cq n o s (R2Base SPanic) /\
          SAbs ck (self w') (fnext2 ck cq n o s) /\ cap (self w') = n
      | UB => False
      end.
Proof. exact (@sstep2_refines). Qed.
Print Assumptions C07_sstep2_refines.

Theorem C07_srun2_refines :
  forall (K Q T : Type) (E : env K unit Q T) (debug : bool) (ck : K -> N) (cq : Q -> N),
    Lawful E ck cq ->
    forall (n : nat) (ops : list (@sop2 K Q)) (w : world K unit T) (s : @fset K),
      SAbs ck (self w) s ->
      cap (self w) = n ->
      exists wf : world K unit T,
        smfinal2 E debug ops w = Some wf /\
        fsruns2 ck cq n ops s (smrun2 E debug ops w) /\
        SAbs ck (self wf) (fsfinal2 ck cq n ops s) /\
        cap (self wf) = n.
Proof. exact (@srun2_refines). Qed.
Print Assumptions C07_srun2_refines.

Theorem C07_srun2_refines_new :
  forall (K Q T : Type) (E : env K unit Q T) (debug : bool) (ck : K -> N) (cq : Q -> N),
    Lawful E ck cq ->
    forall (n : nat) (ops : list (@sop2 K Q)) (t : T) (lg : list event),
      let w0 := {| cb := t; log := lg; self := new_map n |} in
      exists wf : world K unit T,
        smfinal2 E debug ops w0 = Some wf /\
        fsruns2 ck cq n ops [] (smrun2 E debug ops w0) /\
        SAbs ck (self wf) (fsfinal2 ck cq n ops []) /\
        cap (self wf) = n.
Proof. exact (@srun2_refines_new). Qed.
Print Assumptions C07_srun2_refines_new.

Theorem C07_fsfinal2_base :
  forall (K Q : Type) (ck : K -> N) (cq : Q -> N) (n : nat) (ops : list (@sop K Q)) (s : @fset K),
    fsfinal2 ck cq n (List.map S2Base ops) s = fsfinal ck cq n ops s.
Proof. exact (@fsfinal2_base). Qed.
Print Assumptions C07_fsfinal2_base.

Theorem C07_fsruns2_base :
  forall (K Q : Type) (ck : K -> N) (cq : Q -> N) (n : nat) (ops : list (@sop K Q)) (s : @fset K)
         (rs : list (@sres2 K)),
    fsruns2 ck cq n (List.map S2Base ops) s rs -> rs = List.map R2Base (fsrun ck cq n ops s).
Proof. exact (@fsruns2_base). Qed.
Print Assumptions C07_fsruns2_base.

(* -------------------------------------------------------------------------- *)
(* the trace-level membership theorem                                          *)

Theorem C07_stores_unfold :
  forall (K Q : Type) (ck : K -> N) (cq : Q -> N) (n : nat) (s : @fset K) (k : K),
    (forall k' : K, stores ck cq n (SoInsert k') s k <->
                    k' = k /\ fst (fstep ck cq n (SoInsert k') s) = SBool true) /\
    (forall k' : K, stores ck cq n (SoReplace k') s k <->
                    k' = k /\ fst (fstep ck cq n (SoReplace k') s) <> SPanic) /\
    (forall items : list K,
        stores ck cq n (SoExtend items) s k <->
        exists pre post : list K,
          items = pre ++ k :: post /\
          fst (f_extend ck n pre s) = SUnit /\
          fst (f_insert ck n k (snd (f_extend ck n pre s))) = SBool true) /\
    (forall q : Q, ~ stores ck cq n (SoContains q) s k) /\
    (forall q : Q, ~ stores ck cq n (SoGet q) s k) /\
    (forall q : Q, ~ stores ck cq n (SoRemove q) s k) /\
    (forall q : Q, ~ stores ck cq n (SoTake q) s k) /\
    (forall g : K -> bool, ~ stores ck cq n (SoRetain g) s k) /\
    ~ stores ck cq n SoClear s k.
Proof. exact (@stores_unfold). Qed.
Print Assumptions C07_stores_unfold.

Theorem C07_removes_unfold :
  forall (K Q : Type) (ck : K -> N) (cq : Q -> N) (n : nat) (s : @fset K) (c : N),
    (forall k' : K, removes ck cq n (SoReplace k') s c <->
                    ck k' = c /\ fst (fstep ck cq n (SoReplace k') s) <> SPanic) /\
    (forall q : Q, removes ck cq n (SoRemove q) s c <-> cq q = c) /\
    (forall q : Q, removes ck cq n (SoTake q) s c <-> cq q = c) /\
    (forall g : K -> bool,
        removes ck cq n (SoRetain g) s c <-> exists k0 : K, f_mem ck s c = Some k0 /\ g k0 = false) /\
    (removes ck cq n SoClear s c <-> True) /\
    (forall k' : K, ~ removes ck cq n (SoInsert k') s c) /\
    (forall items : list K, ~ removes ck cq n (SoExtend items) s c) /\
    (forall q : Q, ~ removes ck cq n (SoContains q) s c) /\
    (forall q : Q, ~ removes ck cq n (SoGet q) s c).
Proof. exact (@removes_unfold). Qed.
Print Assumptions C07_removes_unfold.

Theorem C07_stores2_removes2_unfold :
  forall (K Q : Type) (ck : K -> N) (cq : Q -> N) (n : nat) (s : @fset K) (k : K) (c : N),
    (forall o : @sop K Q, stores2 ck cq n (S2Base o) s k <-> stores ck cq n o s k) /\
    (forall take : nat, ~ stores2 ck cq n (S2Drain take) s k) /\
    (forall o : @sop K Q, removes2 ck cq n (S2Base o) s c <-> removes ck cq n o s c) /\
    (forall take : nat, removes2 ck cq n (S2Drain take) s c <-> True).
Proof. exact (@stores2_removes2_unfold). Qed.
Print Assumptions C07_stores2_removes2_unfold.

Theorem C07_noremove_unfold :
  forall (K Q : Type) (ck : K -> N) (cq : Q -> N) (n : nat) (c : N) (s : @fset K),
    (noremove ck cq n c [] s <-> True) /\
    (forall (o : @sop2 K Q) (t : list (@sop2 K Q)),
        noremove ck cq n c (o :: t) s <->
        ~ removes2 ck cq n o s c /\ noremove ck cq n c t (fnext2 ck cq n o s)).
Proof. exact (@noremove_unfold). Qed.
Print Assumptions C07_noremove_unfold.

Theorem C07_fsfinal2_fnd :
  forall (K Q : Type) (ck : K -> N) (cq : Q -> N) (n : nat) (ops : list (@sop2 K Q)) (s : @fset K),
    NoDup (List.map ck s) -> NoDup (List.map ck (fsfinal2 ck cq n ops s)).
Proof. exact (@fsfinal2_fnd). Qed.
Print Assumptions C07_fsfinal2_fnd.

Theorem C07_fstep_mem :
  forall (K Q : Type) (ck : K -> N) (cq : Q -> N) (n : nat) (o : @sop K Q) (s : @fset K) (c : N) (k : K),
    NoDup (List.map ck s) ->
    (f_mem ck (snd (fstep ck cq n o s)) c = Some k <->
     stores ck cq n o s k /\ ck k = c \/ f_mem ck s c = Some k /\ ~ removes ck cq n o s c).
Proof. exact (@fstep_mem). Qed.
Print Assumptions C07_fstep_mem.

Theorem C07_fsfinal2_mem :
  forall (K Q : Type) (ck : K -> N) (cq : Q -> N) (n : nat) (ops : list (@sop2 K Q)) (s : @fset K)
         (c : N) (k : K),
    NoDup (List.map ck s) ->
    (f_mem ck (fsfinal2 ck cq n ops s) c = Some k <->
     f_mem ck s c = Some k /\ noremove ck cq n c ops s \/
     (exists (pre : list (@sop2 K Q)) (o : @sop2 K Q) (post : list (@sop2 K Q)),
         ops = pre ++ o :: post /\
         stores2 ck cq n o (fsfinal2 ck cq n pre s) k /\
         ck k = c /\
         noremove ck cq n c post (fnext2 ck cq n o (fsfinal2 ck cq n pre s)))).
Proof. exact (@fsfinal2_mem). Qed.
Print Assumptions C07_fsfinal2_mem.

Theorem C07_fsfinal2_mem_new :
  forall (K Q : Type) (ck : K -> N) (cq : Q -> N) (n : nat) (ops : list (@sop2 K Q)) (c : N) (k : K),
    f_mem ck (fsfinal2 ck cq n ops []) c = Some k <->
    (exists (pre : list (@sop2 K Q)) (o : @sop2 K Q) (post : list (@sop2 K Q)),
        ops = pre ++ o :: post /\
        stores2 ck cq n o (fsfinal2 ck cq n pre []) k /\
        ck k = c /\
        noremove ck cq n c post (fnext2 ck cq n o (fsfinal2 ck cq n pre []))).
Proof. exact (@fsfinal2_mem_new). Qed.
Print Assumptions C07_fsfinal2_mem_new.

Theorem C07_fsfinal2_member_new :
  forall (K Q : Type) (ck : K -> N) (cq : Q -> N) (n : nat) (ops : list (@sop2 K Q)) (c : N),
    f_mem ck (fsfinal2 ck cq n ops []) c <> None <->
    (exists (k : K) (pre : list (@sop2 K Q)) (o : @sop2 K Q) (post : list (@sop2 K Q)),
        ops = pre ++ o :: post /\
        stores2 ck cq n o (fsfinal2 ck cq n pre []) k /\
        ck k = c /\
        noremove ck cq n c post (fnext2 ck cq n o (fsfinal2 ck cq n pre []))).
Proof. exact (@fsfinal2_member_new). Qed.
Print Assumptions C07_fsfinal2_member_new.

Theorem C07_srun2_membership :
  forall (K Q T : Type) (E : env K unit Q T) (debug : bool) (ck : K -> N) (cq : Q -> N),
    Lawful E ck cq ->
    forall (n : nat) (ops : list (@sop2 K Q)) (t : T) (lg : list event),
      exists wf : world K unit T,
        smfinal2 E debug ops {| cb := t; log := lg; self := new_map n |} = Some wf /\
        cap (self wf) = n /\
        (forall (c : N) (k : K),
            option_map fst (lookup ck (Spec.elems (self wf)) c) = Some k <->
            (exists (pre : list (@sop2 K Q)) (o : @sop2 K Q) (post : list (@sop2 K Q)),
                ops = pre ++ o :: post /\
                stores2 ck cq n o (fsfinal2 ck cq n pre []) k /\
                ck k = c /\
                noremove ck cq n c post (fnext2 ck cq n o (fsfinal2 ck cq n pre [])))).
Proof. exact (@srun2_membership). Qed.
Print Assumptions C07_srun2_membership.

Theorem C07_srun2_membership_from :
  forall (K Q T : Type) (E : env K unit Q T) (debug : bool) (ck : K -> N) (cq : Q -> N),
    Lawful E ck cq ->
    forall (n : nat) (ops : list (@sop2 K Q)) (w : world K unit T) (s : @fset K),
      SAbs ck (self w) s ->
      cap (self w) = n ->
      exists wf : world K unit T,
        smfinal2 E debug ops w = Some wf /\
        cap (self wf) = n /\
        (forall (c : N) (k : K),
            option_map fst (lookup ck (Spec.elems (self wf)) c) = Some k <->
            f_mem ck s c = Some k /\ noremove ck cq n c ops s \/
            (exists (pre : list (@sop2 K Q)) (o : @sop2 K Q) (post : list (@sop2 K Q)),
                ops = pre ++ o :: post /\
                stores2 ck cq n o (fsfinal2 ck cq n pre s) k /\
                ck k = c /\
                noremove ck cq n c post (fnext2 ck cq n o (fsfinal2 ck cq n pre s)))).
Proof. exact (@srun2_membership_from). Qed.
Print Assumptions C07_srun2_membership_from.

(* -------------------------------------------------------------------------- *)
(* Non-vacuity: a history on Set::new() of capacity 3 with drain in the middle: three inserts,
   drain taking 2 of the 3 elements (the model yields them in slot order; the third is dropped
   with the Drain), insert into the now empty set, extend, drain taking more than there is,
   insert, replace of the same class, remove of another class *)
Definition C07_ops2 : list (@sop2 key query) :=
  [S2Base (SoInsert (k_ 1 5)); S2Base (SoInsert (k_ 2 6)); S2Base (SoInsert (k_ 3 7)); S2Drain 2;
   S2Base (SoInsert (k_ 4 5)); S2Base (SoExtend [k_ 5 6; k_ 6 5]); S2Base (SoContains (QCls 7));
   S2Drain 9; S2Base (SoInsert (k_ 7 8)); S2Base (SoReplace (k_ 8 8)); S2Base (SoRemove (QCls 4))].

Example C07_example_run2_model :
  smrun2 (env_set C07_sc0) false C07_ops2 {| cb := cs0; log := []; self := new_map 3 |} =
  [R2Base (SBool true); R2Base (SBool true); R2Base (SBool true); R2Drained [k_ 1 5; k_ 2 6];
   R2Base (SBool true); R2Base SUnit; R2Base (SBool false); R2Drained [k_ 4 5; k_ 5 6];
   R2Base (SBool true); R2Base (SElem (k_ 7 8)); R2Base (SBool false)].
Proof. vm_compute. reflexivity. Qed.

(* ... and the ideal set allows exactly these results (drain: the identity permutation) *)
Example C07_example_run2_ideal :
  fsruns2 kcls qcls 3 C07_ops2 []
    [R2Base (SBool true); R2Base (SBool true); R2Base (SBool true); R2Drained [k_ 1 5; k_ 2 6];
     R2Base (SBool true); R2Base SUnit; R2Base (SBool false); R2Drained [k_ 4 5; k_ 5 6];
     R2Base (SBool true); R2Base (SElem (k_ 7 8)); R2Base (SBool false)] /\
  fsfinal2 kcls qcls 3 C07_ops2 [] = [k_ 8 8].
Proof.
  split; [|vm_compute; reflexivity].
  repeat (apply fsruns2_cons;
          [first [ vm_compute; reflexivity
                 | eexists; split; [apply Permutation_refl | vm_compute; reflexivity] ] |]).
  apply fsruns2_nil.
Qed.

(* the trace condition on that history: the member of class 8 at the end is K8 because the
   replace (10th operation) stored it and the remove after it has another class; K7 (stored by
   the 9th operation) is not, because the replace displaced it *)
Example C07_example_membership :
  (exists pre o post, C07_ops2 = pre ++ o :: post /\
      stores2 kcls qcls 3 o (fsfinal2 kcls qcls 3 pre []) (k_ 8 8) /\
      kcls (k_ 8 8) = 8%N /\
      noremove kcls qcls 3 8%N post (fnext2 kcls qcls 3 o (fsfinal2 kcls qcls 3 pre []))) /\
  f_mem kcls (fsfinal2 kcls qcls 3 C07_ops2 []) 8%N = Some (k_ 8 8) /\
  f_mem kcls (fsfinal2 kcls qcls 3 C07_ops2 []) 5%N = None.
Proof.
  split; [|split; vm_compute; reflexivity].
  exists (firstn 9 C07_ops2), (S2Base (SoReplace (k_ 8 8))), [S2Base (SoRemove (QCls 4))].
  split; [reflexivity|]. split; [split; [reflexivity | vm_compute; discriminate]|].
  split; [reflexivity|]. split; [vm_compute; discriminate | exact I].
Qed.

(* ========================================================================== *)
(* SECOND AUDIT CLOSURE (Proofs/MoreSet.v, section ROUND 2)

   4. THE MEMBERSHIP CHARACTERISATION FROM THE MODEL'S OWN RESULTS.  [stores] reads the IDEAL set's
      result of a call; C07_srun2_results_membership removes that indirection:
        (a) for every position of the history, the result the model returned for that call
            (nth_error (smrun2 ..) (length pre)) IS the ideal set's result (R2Base (fst (fstep ..)));
        (b) the element the final container holds for class c is k  <->  the history splits as
            pre ++ o :: post, the MODEL returned r for o, [stored_by n o r .. k] (insert k: r is
            `true`; replace k: r is not a panic; extend: per item, on the ideal set, because the
            single result of extend does not say which items were new: C07_stored_by_unfold), and
            no operation of post removes class c.
      (C07_history_run_view gives contents only; this is about results AND contents.)

   5. A FORGOTTEN Drain (mem::forget(set.drain())): sop3 := S3Base o (o : sop2) | S3DrainForget take
      = drain(), take [take] items, never drop the Drain (C07_sop3_unfold shows the model code: no
      drain_drop).  The set is the empty set at once, the items taken are the first [take] of the
      elements in some order, the items not taken are leaked: NOTHING is destroyed, the event log is
      unchanged (C07_sstep3_forget, which needs no Lawful: every environment).
        C07_sstep3_refines, C07_srun3_refines(_new)   histories with insert .. extend, drain AND
                                forgotten drains anywhere
        C07_fsfinal3_mem, C07_srun3_membership        the trace-level membership theorem for them
      (sop3 wraps sop2 instead of adding a constructor to it so that the theorems above keep their
       statements; a history of sop2 operations is the history List.map S3Base of sop3.)          *)
(* ========================================================================== *)

Theorem C07_stored_by_unfold :
  forall (K Q : Type) (ck : K -> N) (cq : Q -> N) (n : nat) (r : @sres2 K) (s : @fset K) (k : K),
    (forall k' : K,
        stored_by ck cq n (S2Base (SoInsert k')) r s k <-> k' = k /\ r = R2Base (SBool true)) /\
    (forall k' : K,
        stored_by ck cq n (S2Base (SoReplace k')) r s k <-> k' = k /\ r <> R2Base SPanic) /\
    (forall items : list K,
        stored_by ck cq n (S2Base (SoExtend items)) r s k <-> stores ck cq n (SoExtend items) s k) /\
    (forall q : Q, ~ stored_by ck cq n (S2Base (SoContains q)) r s k) /\
    (forall q : Q, ~ stored_by ck cq n (S2Base (SoGet q)) r s k) /\
    (forall q : Q, ~ stored_by ck cq n (S2Base (SoRemove q)) r s k) /\
    (forall q : Q, ~ stored_by ck cq n (S2Base (SoTake q)) r s k) /\
    (forall g : K -> bool, ~ stored_by ck cq n (S2Base (SoRetain g)) r s k) /\
    ~ stored_by ck cq n (S2Base SoClear) r s k /\
    (forall take : nat, ~ stored_by ck cq n (S2Drain take) r s k).
Proof. exact (@stored_by_unfold). Qed.
Print Assumptions C07_stored_by_unfold.

Theorem C07_srun2_results_membership :
  forall (K Q T : Type) (E : env K unit Q T) (debug : bool) (ck : K -> N) (cq : Q -> N),
    Lawful E ck cq ->
    forall (n : nat) (ops : list (@sop2 K Q)) (t : T) (lg : list event),
      let w0 := {| cb := t; log := lg; self := new_map n |} in
      exists wf : world K unit T,
        smfinal2 E debug ops w0 = Some wf /\
        cap (self wf) = n /\
        (forall (pre : list (@sop2 K Q)) (o : @sop K Q) (post : list (@sop2 K Q)),
            ops = pre ++ S2Base o :: post ->
            nth_error (smrun2 E debug ops w0) (length pre) =
            Some (R2Base (fst (fstep ck cq n o (fsfinal2 ck cq n pre []))))) /\
        (forall (c : N) (k : K),
            option_map fst (lookup ck (Spec.elems (self wf)) c) = Some k <->
            (exists (pre : list (@sop2 K Q)) (o : @sop2 K Q) (post : list (@sop2 K Q)) (r : @sres2 K),
                ops = pre ++ o :: post /\
                nth_error (smrun2 E debug ops w0) (length pre) = Some r /\
                stored_by ck cq n o r (fsfinal2 ck cq n pre []) k /\
                ck k = c /\
                noremove ck cq n c post (fnext2 ck cq n o (fsfinal2 ck cq n pre [])))).
Proof. exact (@srun2_results_membership). Qed.
Print Assumptions C07_srun2_results_membership.

(* -------------------------------------------------------------------------- *)
(* forgotten drains                                                            *)

Theorem C07_sop3_unfold :
  forall (K Q T : Type) (E : env K unit Q T) (debug : bool) (ck : K -> N) (cq : Q -> N) (n : nat)
         (s : @fset K) (r : @sres2 K) (k : K) (c : N),
    (forall o : @sop2 K Q, sstep3 E debug (S3Base o) = sstep2 E debug o) /\
    (forall take : nat,
        sstep3 E debug (S3DrainForget take) =
        (cu <- drain ;; x <- IterSpec.drain_run take cu ;; ret (R2Drained (List.map fst (fst x))))) /\
    (forall o : @sop2 K Q, fstep3 ck cq n (S3Base o) s r <-> fstep2 ck cq n o s r) /\
    (forall take : nat,
        fstep3 ck cq n (S3DrainForget take) s r <->
        (exists p : list K, Permutation p s /\ r = R2Drained (firstn take p))) /\
    (forall o : @sop2 K Q, fnext3 ck cq n (S3Base o) s = fnext2 ck cq n o s) /\
    (forall take : nat, fnext3 ck cq n (@S3DrainForget K Q take) s = []) /\
    (forall o : @sop2 K Q, stores3 ck cq n (S3Base o) s k <-> stores2 ck cq n o s k) /\
    (forall take : nat, ~ stores3 ck cq n (S3DrainForget take) s k) /\
    (forall o : @sop2 K Q, removes3 ck cq n (S3Base o) s c <-> removes2 ck cq n o s c) /\
    (forall take : nat, removes3 ck cq n (S3DrainForget take) s c <-> True) /\
    (noremove3 ck cq n c [] s <-> True) /\
    (forall (o : @sop3 K Q) (t : list (@sop3 K Q)),
        noremove3 ck cq n c (o :: t) s <->
        ~ removes3 ck cq n o s c /\ noremove3 ck cq n c t (fnext3 ck cq n o s)).
Proof. exact (@sop3_unfold). Qed.
Print Assumptions C07_sop3_unfold.

Theorem C07_sstep3_forget :
  forall (K Q T : Type) (E : env K unit Q T) (debug : bool) (ck : K -> N) (cq : Q -> N)
         (n take : nat) (w : world K unit T) (s : @fset K),
    SAbs ck (self w) s ->
    cap (self w) = n ->
    wp (sstep3 E debug (S3DrainForget take))
       (fun (r : @sres2 K) (w' : world K unit T) =>
          fstep3 ck cq n (S3DrainForget take) s r /\
          SAbs ck (self w') [] /\ cap (self w') = n /\ log w' = log w)
       (fun _ : world K unit T => False) w.
Proof. exact (@sstep3_forget). Qed.
Print Assumptions C07_sstep3_forget.

Theorem C07_sstep3_refines :
  forall (K Q T : Type) (E : env K unit Q T) (debug : bool) (ck : K -> N) (cq : Q -> N),
    Lawful E ck cq ->
    forall (n : nat) (o : @sop3 K Q) (w : world K unit T) (s : @fset K),
      SAbs ck (self w) s ->
      cap (self w) = n ->
      match sstep3 E debug o w with
      | Ok r w' =>
          fstep3 ck cq n o s r /\ SAbs ck (self w') (fnext3 ck cq n o s) /\ cap (self w') = n
      | Panic w' =>
          fstep3 ck cq n o s (R2Base SPanic) /\
          SAbs ck (self w') (fnext3 ck cq n o s) /\ cap (self w') = n
      | UB => False
      end.
Proof. exact (@sstep3_refines). Qed.
Print Assumptions C07_sstep3_refines.

Theorem C07_srun3_refines :
  forall (K Q T : Type) (E : env K unit Q T) (debug : bool) (ck : K -> N) (cq : Q -> N),
    Lawful E ck cq ->
    forall (n : nat) (ops : list (@sop3 K Q)) (w : world K unit T) (s : @fset K),
      SAbs ck (self w) s ->
      cap (self w) = n ->
      exists wf : world K unit T,
        smfinal3 E debug ops w = Some wf /\
        fsruns3 ck cq n ops s (smrun3 E debug ops w) /\
        SAbs ck (self wf) (fsfinal3 ck cq n ops s) /\
        cap (self wf) = n.
Proof. exact (@srun3_refines). Qed.
Print Assumptions C07_srun3_refines.

Theorem C07_srun3_refines_new :
  forall (K Q T : Type) (E : env K unit Q T) (debug : bool) (ck : K -> N) (cq : Q -> N),
    Lawful E ck cq ->
    forall (n : nat) (ops : list (@sop3 K Q)) (t : T) (lg : list event),
      let w0 := {| cb := t; log := lg; self := new_map n |} in
      exists wf : world K unit T,
        smfinal3 E debug ops w0 = Some wf /\
        fsruns3 ck cq n ops [] (smrun3 E debug ops w0) /\
        SAbs ck (self wf) (fsfinal3 ck cq n ops []) /\
        cap (self wf) = n.
Proof. exact (@srun3_refines_new). Qed.
Print Assumptions C07_srun3_refines_new.

Theorem C07_fsfinal3_mem :
  forall (K Q : Type) (ck : K -> N) (cq : Q -> N) (n : nat) (ops : list (@sop3 K Q)) (s : @fset K)
         (c : N) (k : K),
    NoDup (List.map ck s) ->
    (f_mem ck (fsfinal3 ck cq n ops s) c = Some k <->
     f_mem ck s c = Some k /\ noremove3 ck cq n c ops s \/
     (exists (pre : list (@sop3 K Q)) (o : @sop3 K Q) (post : list (@sop3 K Q)),
         ops = pre ++ o :: post /\
         stores3 ck cq n o (fsfinal3 ck cq n pre s) k /\
         ck k = c /\
         noremove3 ck cq n c post (fnext3 ck cq n o (fsfinal3 ck cq n pre s)))).
Proof. exact (@fsfinal3_mem). Qed.
Print Assumptions C07_fsfinal3_mem.

Theorem C07_srun3_membership :
  forall (K Q T : Type) (E : env K unit Q T) (debug : bool) (ck : K -> N) (cq : Q -> N),
    Lawful E ck cq ->
    forall (n : nat) (ops : list (@sop3 K Q)) (t : T) (lg : list event),
      exists wf : world K unit T,
        smfinal3 E debug ops {| cb := t; log := lg; self := new_map n |} = Some wf /\
        cap (self wf) = n /\
        (forall (c : N) (k : K),
            option_map fst (lookup ck (Spec.elems (self wf)) c) = Some k <->
            (exists (pre : list (@sop3 K Q)) (o : @sop3 K Q) (post : list (@sop3 K Q)),
                ops = pre ++ o :: post /\
                stores3 ck cq n o (fsfinal3 ck cq n pre []) k /\
                ck k = c /\
                noremove3 ck cq n c post (fnext3 ck cq n o (fsfinal3 ck cq n pre [])))).
Proof. exact (@srun3_membership). Qed.
Print Assumptions C07_srun3_membership.

(* Non-vacuity: two inserts, a forgotten drain that took one of the two elements (the other is
   leaked: the log stays empty), then the set is reusable: insert, a dropped drain, insert *)
Definition C07_ops3 : list (@sop3 key query) :=
  [S3Base (S2Base (SoInsert (k_ 1 5))); S3Base (S2Base (SoInsert (k_ 2 6))); S3DrainForget 1;
   S3Base (S2Base (SoInsert (k_ 3 6))); S3Base (S2Drain 0); S3Base (S2Base (SoInsert (k_ 4 7)))].

Example C07_example_run3 :
  smrun3 (env_set C07_sc0) false C07_ops3 {| cb := cs0; log := []; self := new_map 2 |} =
  [R2Base (SBool true); R2Base (SBool true); R2Drained [k_ 1 5]; R2Base (SBool true); R2Drained [];
   R2Base (SBool true)] /\
  fsfinal3 kcls qcls 2 C07_ops3 [] = [k_ 4 7] /\
  match smfinal3 (env_set C07_sc0) false (firstn 3 C07_ops3) {| cb := cs0; log := []; self := new_map 2 |} with
  | Some wf => log wf = [] /\ len (self wf) = 0
  | None => False
  end.
Proof. vm_compute. repeat split; reflexivity. Qed.

(* the results-based characterisation on the history C07_ops2: the model's 10th result
   (position 9) is SElem K7 — not a panic — for the call replace(K8) *)
Example C07_example_results_membership :
  nth_error (smrun2 (env_set C07_sc0) false C07_ops2 {| cb := cs0; log := []; self := new_map 3 |}) 9
    = Some (R2Base (SElem (k_ 7 8))) /\
  stored_by kcls qcls 3 (S2Base (SoReplace (k_ 8 8))) (R2Base (SElem (k_ 7 8)))
            (fsfinal2 kcls qcls 3 (firstn 9 C07_ops2) []) (k_ 8 8).
Proof. split; [vm_compute; reflexivity | split; [reflexivity | discriminate]]. Qed.

(* ------------------------------------------------------------------------
   Set methods under an OPERAND-DETERMINED == that is no equivalence
   (Proofs/PureEq.v, Proofs/PureEqSet.v: [Related E ck cq R], R an arbitrary
   relation on classes, stored element on the left, needle on the right).
   "insert returns true exactly when the element was absent" keeps the only
   meaning such an == leaves: insert and contains find the SAME slot
   ([find_rel]), because every scan puts its operands the same way round.
   ------------------------------------------------------------------------ *)
Require Import Proofs.PureEq Proofs.PureEqSet.

Theorem C07_insert_contains_agree_any_relation :
  forall (K Q T : Type) (E : env K unit Q T) (debug : bool) (ck : K -> N) (cq : Q -> N) (R : N -> N -> bool)
         (HR : Related E ck cq R) (k : K) (q : Q) (w : world K unit T),
    ck k = cq q -> WF (self w) ->
    wp (s_insert E debug k)
       (fun (r : bool) (_ : world K unit T) =>
          wp (s_contains E q)
             (fun (g : bool) (_ : world K unit T) => (r = false <-> g = true) /\ r = negb g)
             (fun _ : world K unit T => False) w)
       (fun _ : world K unit T =>
          wp (s_contains E q)
             (fun (g : bool) (_ : world K unit T) => g = false /\ len (self w) = cap (self w))
             (fun _ : world K unit T => False) w) w.
Proof. exact (fun K Q T E debug ck cq R HR => set_insert_contains_agree_rel E debug ck cq R HR). Qed.
Print Assumptions C07_insert_contains_agree_any_relation.

Theorem C07_contains_any_relation :
  forall (K Q T : Type) (E : env K unit Q T) (ck : K -> N) (cq : Q -> N) (R : N -> N -> bool)
         (HR : Related E ck cq R) (q : Q) (w : world K unit T),
    WF (self w) ->
    wp (s_contains E q)
       (fun (r : bool) (w' : world K unit T) =>
          stable w w' /\
          r = (match find_rel ck R (cq q) (Spec.elems (self w)) with Some _ => true | None => false end) /\
          (r = true <-> exists i, find_rel ck R (cq q) (Spec.elems (self w)) = Some i))
       (fun _ : world K unit T => False) w.
Proof. exact (fun K Q T E ck cq R HR => set_contains_rel E ck cq R HR). Qed.
Print Assumptions C07_contains_any_relation.

(* non-vacuity: the interpreter's set environment under a script of the fifth kind (asymmetric "<=" on classes) *)
Theorem C07_insert_contains_agree_asym :
  forall (sc : script) (dbg : bool) (k : key) (q : query) (w : world key unit cstate),
    asym sc = true -> sc_fk sc = 0%N -> kcls k = qcls q -> WF (self w) ->
    wp (s_insert (env_set sc) dbg k)
       (fun (r : bool) (_ : world key unit cstate) =>
          wp (s_contains (env_set sc) q)
             (fun (g : bool) (_ : world key unit cstate) => (r = false <-> g = true) /\ r = negb g)
             (fun _ : world key unit cstate => False) w)
       (fun _ : world key unit cstate =>
          wp (s_contains (env_set sc) q)
             (fun (g : bool) (_ : world key unit cstate) => g = false /\ len (self w) = cap (self w))
             (fun _ : world key unit cstate => False) w) w.
Proof.
  exact (fun sc dbg k q w Ha Hf =>
           set_insert_contains_agree_rel (env_set sc) dbg kcls qcls N.leb (env_set_related sc Ha Hf) k q w).
Qed.
Print Assumptions C07_insert_contains_agree_asym.
