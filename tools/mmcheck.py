#!/usr/bin/env python3
"""Driver of the micromap verification checks.

  mmcheck.py setup
  mmcheck.py quick|thorough <Cxx>
  mmcheck.py replay <Cxx> <case-file>

Per property: (1) proof gate  (2) correspondence model <-> /repo on the
property's suite, debug and release  (3) direct oracles of the harness
(4) verdict  (5) evidence.
"""
import signal
import hashlib
import json
import os
import random
import re
import subprocess
import sys
import time

ROOT = os.path.dirname(os.path.dirname(os.path.abspath(__file__)))
REPO = "/repo"   # (tools/parmut.sh rewrites this line in its scratch copies)
CACHE = ROOT + "/.cache"
OUT = ROOT + "/out"
COQ = ROOT + "/coq"
sys.path.insert(0, ROOT + "/tools")
import gen  # noqa: E402

ENV = dict(os.environ, CARGO_NET_OFFLINE="true", CARGO_TARGET_DIR=CACHE + "/target")

ALLOWED_AXIOMS = set()  # every property theorem must be closed under the global context

# which direct-oracle fault kinds speak about which property (None: every property -- a container that destroys
# something twice, keeps a dead slot inside len, reports a wrong length or writes outside itself has left the states
# every property quantifies over, whichever operation of whichever suite produced it)
FAULT_PROPS = {
    "ALLOC": {"C06"},
    "OUTSIDE": {"C06", "C08"},
    "CANARY": None,
    "ALIAS": {"C13", "C17", "C18"},
    "DOUBLE_DROP": None,
    "DROP_GARBAGE": None,
    "DROP_UNKNOWN": None,
    "USE_DEAD": None,
    "USE_GARBAGE": None,
    "DEAD_IN_MAP": None,
    "LEAK": {"C02", "C03", "C10", "C15", "C16"},
    "LEN_MISMATCH": None,
    "LEN_GT_CAP": None,
    "IS_EMPTY": {"C05"},
    "HINT": {"C09", "C10"},
    "ITER_PROVIDED": {"C09", "C10"},
    "FUSED": {"C08"},
    "NOT_LEFT": {"C08", "C06"},
    "PAIR_SPLIT": {"C05", "C12"},
    "SERDE": {"C20"},
    "NE_INCONSISTENT": {"C14"},
    "CLONE_COUNT": {"C15"},
    "CLONE_EQ": {"C15", "C14"},
    "OVERFLOW_OK": {"C03"},
    "OVERFLOW_STATE": {"C03"},
    "SHAPES_PANIC": {"C06"},
    "ITER_DEFAULT": {"C09", "C10"},
    "CLONE_SELF": {"C15"},
    "SERDE_SHAPE": {"C20"},
    "FMT_SHAPE": {"C19"},
    "KEY_IDENTITY": {"C12", "C07", "C05", "C16", "C18"},
    "SHAPE_BORROW": {"C01", "C07", "C05", "C14", "C08"},
    "SHAPE_DISJOINT": {"C13", "C18"},
    "DROP_LEDGER": {"C02", "C10", "C04"},
    "PROVIDED": {"C09", "C10", "C08"},
    "SHAPE_DICT": {"C01", "C03", "C05", "C06", "C09", "C10", "C11", "C12", "C13", "C14", "C15", "C16"},
    "SHAPE_SET": {"C03", "C05", "C06", "C07", "C08", "C09", "C10", "C12", "C14", "C15", "C16"},
    "DUP_KEY": None,  # every property quantifies over reachable states, and those have pairwise different keys
    "EXTEND_REF": {"C16", "C07", "C05", "C12"},
    "SHAPE_UNLAWFUL": {"C01", "C05", "C07", "C11", "C12", "C14", "C15", "C16", "C17"},
    "MIRI": None,
    "CRASH": None,  # every property
}
# suites whose base cases get every fault position of the listed kinds
# (1 eq, 2 clone, 3 drop, 4 closure / source next)
FAULT_SUITES = {"C04": (1, 2, 3, 4), "C10": (3, 4), "C15": (2, 4), "C16": (4,), "C02": (3, 4), "C03": (4,), "C05": (1, 3, 4),
                "C11": (1, 3, 4), "C17": (4,)}
LEVEL = {"C06": "other"}


def sh(cmd, timeout=None, **kw):
    """run a shell command in its own process group; on timeout the WHOLE group is killed (a crate change that makes the
    harness loop forever must end in a report, not in a check that hangs on the pipes of a surviving grandchild)"""
    p = subprocess.Popen(cmd, shell=True, text=True, stdout=subprocess.PIPE, stderr=subprocess.PIPE, env=ENV,
                         start_new_session=True, **kw)
    try:
        o, e = p.communicate(timeout=timeout)
        return subprocess.CompletedProcess(cmd, p.returncode, stdout=o, stderr=e)
    except subprocess.TimeoutExpired:
        try:
            os.killpg(p.pid, signal.SIGKILL)
        except OSError:
            pass
        try:
            o, e = p.communicate(timeout=30)
        except Exception:
            o, e = "", ""
        return subprocess.CompletedProcess(cmd, 124, stdout=o or "", stderr="timeout")


def log(*a):
    print(*a, flush=True)


# ------------------------------------------------------------------ building
def build_model():
    r = sh(ROOT + "/tools/build_model.sh")
    if r.returncode != 0 or not os.path.exists(CACHE + "/ocaml/modelrun"):
        return False, (r.stdout + r.stderr)[-4000:]
    return True, r.stdout + r.stderr


def build_harness(std=False):
    """std=True: the same harness against micromap built with its `std` feature (C06 quantifies over both),
    in its own target directory"""
    msgs = []
    for prof in ("debug", "release"):
        flag = "--release" if prof == "release" else ""
        if std:
            flag += f" --features std --target-dir {CACHE}/target-std"
        r = sh(f"cd {ROOT}/harness && cargo build --offline {flag} 2>&1")
        if r.returncode != 0:
            return False, r.stdout[-4000:]
        msgs.append(r.stdout[-300:])
    return True, "\n".join(msgs)


def setup():
    os.makedirs(CACHE, exist_ok=True)
    os.makedirs(OUT, exist_ok=True)
    ok, msg = build_model()
    log(msg[-2000:])
    if not ok:
        log("setup: Coq/OCaml build failed")
        return 1
    ok, msg = build_harness()
    log(msg[-2000:])
    if not ok:
        log("setup: harness build failed")
        return 1
    # warm the two extra builds the checks use (their absence is not an error here: the checks build them on demand)
    build_harness(std=True)
    sh(f"cd {ROOT}/harness && RUSTFLAGS='-C instrument-coverage' cargo +nightly build --offline --target-dir {CACHE}/target-cov 2>&1", timeout=900)
    log("setup ok")
    return 0


# --------------------------------------------------------------- proof gate
BAD_WORDS = re.compile(
    r"\b(Admitted|admit|Axiom|Axioms|Parameter|Parameters|Conjecture|Conjectures|"
    r"Hypothesis|Hypotheses|Variable|Variables|Abort)\b|Unset\s+Guard|bypass_check|type-in-type|"
    r"Admit\s+Obligations|Unset\s+Universe|impredicative-set")


def strip_comments(src):
    out, depth, i = [], 0, 0
    while i < len(src):
        if src.startswith("(*", i):
            depth += 1
            i += 2
        elif src.startswith("*)", i) and depth > 0:
            depth -= 1
            i += 2
        else:
            if depth == 0:
                out.append(src[i])
            i += 1
    return "".join(out)


def proof_gate(prop):
    """returns (ok, info dict).  ok=False means: the proofs of this property do
    not check on the current development."""
    info = {"obligations": 0, "discharged": 0, "theorems": [], "axioms": [], "notes": []}
    pf = f"{COQ}/Props/{prop}.v"
    if not os.path.exists(pf):
        info["notes"].append("no Props file")
        return False, info
    ok, msg = build_model()
    if not ok:
        info["notes"].append("Coq build failed: " + msg[-1500:])
        return False, info
    # forbidden vernacular anywhere in the development
    listed = [l.strip() for l in open(COQ + "/_CoqProject") if l.strip().endswith(".v")] + ["Extract.v"]
    for rel in listed:
        fp = os.path.join(COQ, rel)
        if not os.path.exists(fp):
            info["notes"].append(f"{rel} listed in _CoqProject is missing")
            return False, info
        src = strip_comments(open(fp).read())
        m = BAD_WORDS.search(src)
        if m:
            info["notes"].append(f"forbidden vernacular '{m.group(0)}' in {rel}")
            return False, info
    # every .v file of the development must be part of the build (nothing proved "on the side")
    for sub in ("Model", "Proofs", "Props"):
        for f in sorted(os.listdir(os.path.join(COQ, sub))):
            if f.endswith(".v") and not f.startswith("Tmp_goal_") and f"{sub}/{f}" not in listed:
                info["notes"].append(f"note: {sub}/{f} is not in _CoqProject (ignored)")
    src = strip_comments(open(pf).read())
    thms = re.findall(r"\b(?:Theorem|Lemma|Corollary)\s+([A-Za-z0-9_']+)", src)
    info["theorems"] = thms
    info["obligations"] = len(thms)
    # recompile the property file to capture Print Assumptions
    os.makedirs(f"{CACHE}/gate", exist_ok=True)
    r = sh(f"cd {COQ} && coqc -noglob -Q Model Model -Q Proofs Proofs -Q Props Props Props/{prop}.v -o {CACHE}/gate/{prop}.vo 2>&1",
           timeout=1200)
    if r.returncode != 0:
        info["notes"].append("property file does not compile: " + r.stdout[-1500:])
        return False, info
    outp = r.stdout
    closed = outp.count("Closed under the global context")
    prints = len(re.findall(r"Print\s+Assumptions", src))
    axioms = re.findall(r"^\s*([A-Za-z0-9_.']+)\s*:", outp[outp.find("Axioms:"):], re.M) if "Axioms:" in outp else []
    info["axioms"] = sorted(set(axioms))
    bad = [a for a in axioms if a not in ALLOWED_AXIOMS]
    if bad:
        info["notes"].append("axioms outside the allow-list: " + ", ".join(bad))
        return False, info
    if prints < len(thms) or closed + (1 if axioms else 0) < prints:
        info["notes"].append(f"{len(thms)} theorems, {prints} Print Assumptions, {closed} closed")
        return False, info
    info["discharged"] = len(thms)
    return True, info


# ----------------------------------------------------------- running suites
def run_model(cases_path, debug, out_path):
    r = sh(f"{CACHE}/ocaml/modelrun {debug} {cases_path} > {out_path}", timeout=3000)
    return r.returncode == 0


def run_impl(cases_path, prof, out_path, faults_path, limit=None, target="target", flip=False):
    """run the harness; a crash or a hang (a broken build can loop or fault on memory it should not touch)
    is reported with the case the marker file names"""
    marker = out_path + ".marker"
    if limit is None:
        try:
            n = sum(1 for _ in open(cases_path))
        except OSError:
            n = 1000
        limit = 60 + n // 20
    cmd = f"{CACHE}/{target}/{prof}/mm-harness {cases_path} {faults_path} {marker}"
    crash = None
    with open(out_path, "w") as fo:
        p = subprocess.Popen(cmd.split(), stdout=fo, stderr=subprocess.DEVNULL, env=(dict(ENV, MM_FLIP="1") if flip else ENV))
        try:
            rc = p.wait(timeout=limit)
        except subprocess.TimeoutExpired:
            p.kill()
            p.wait()
            rc = -9
    if rc != 0:
        try:
            crash = open(marker).read().split("\n")
        except Exception:
            crash = ["?", "?"]
    return rc == 0, crash


def read_obs(path):
    """-> dict case -> list of lines"""
    d = {}
    with open(path) as f:
        for line in f:
            ci, _, _ = line.partition(" ")
            d.setdefault(int(ci), []).append(line.rstrip("\n"))
    return d


def counters_and_drops(lines):
    """from the model's observation of a base case: callback totals and every
    object identity that is destroyed inside an operation"""
    drops = set()
    n_eq = n_clone = n_call = 0
    for ln in lines:
        t = ln.split()[2:]
        i = 0
        while i < len(t):
            if t[i] == "8888":
                j = i + 1
                while j < len(t) and t[j] != "8889":
                    drops.add(int(t[j]))
                    j += 1
                i = j
            elif t[i] == "8890" and i + 4 < len(t) + 1:
                n_eq, n_clone, n_call = int(t[i + 1]), int(t[i + 2]), int(t[i + 3])
                i += 4
            else:
                i += 1
    return n_eq, n_clone, n_call, drops


def add_faults(base_cases, tmp, kinds=(1, 2, 3, 4), limit=None):
    """every single-fault position of every base case.  Variants of histories that use the unsafe fast paths keep
    them when the model (release profile) says the variant never leaves their contract (no UB outcome), and fall
    back to the safe rewriting otherwise."""
    p = tmp + ".base"
    with open(p, "w") as f:
        f.write("\n".join(base_cases) + "\n")
    run_model(p, 1, p + ".m")
    obs = read_obs(p + ".m")
    out = []
    unsafe_idx = []
    # a limited suite gets the fault positions of `limit` base histories spread evenly over the suite
    nb = len(base_cases)
    chosen = set(range(nb)) if limit is None or limit >= nb else set((i * nb) // limit for i in range(limit))
    for ci, line in enumerate(base_cases):
        n_eq, n_clone, n_call, drops = counters_and_drops(obs.get(ci, []))
        out.append(line)
        if limit is not None and ci not in chosen:
            continue
        pos = []
        if 1 in kinds:
            pos += [(1, k) for k in range(n_eq)]
        if 2 in kinds:
            pos += [(2, k) for k in range(n_clone)]
        if 3 in kinds:
            pos += [(3, k) for k in sorted(drops)]
        if 4 in kinds:
            pos += [(4, k) for k in range(n_call)]
        uns = gen.has_unsafe_ops(line)
        for fk, fa in pos:
            if uns and fk != 1:
                # (not for == faults: their position is keyed by the comparison counter, and a harmless change of the
                # NUMBER of comparisons would move the panic, let the history drift out of the contract of the unsafe
                # fast paths and crash a correct build; Clone / Drop / closure positions are observable behaviour)
                unsafe_idx.append((len(out), line, fk, fa))
            out.append(gen.case_with_fault(line, fk, fa))
    if unsafe_idx:
        q = tmp + ".keep"
        with open(q, "w") as f:
            f.write("\n".join(gen.case_with_fault(l, fk, fa, keep_unsafe=True) for (_, l, fk, fa) in unsafe_idx) + "\n")
        run_model(q, 0, q + ".m")
        kobs = read_obs(q + ".m")
        for j, (oi, l, fk, fa) in enumerate(unsafe_idx):
            lines = kobs.get(j, [])
            if lines and not any(ln.split()[2:3] == ["3"] for ln in lines):
                out[oi] = gen.case_with_fault(l, fk, fa, keep_unsafe=True)
    return out


def kernel_sample(cases, model_obs, debug, tmp, want=200):
    """re-evaluate a deterministic sample of the cases inside Coq (vm_compute,
    kernel) and demand the extracted runner's answers: checks extraction and
    the OCaml driver.  returns (n_checked, failures)"""
    n = len(cases)
    if n == 0:
        return 0, []
    step = max(1, n // want)
    idxs = list(range(0, n, step))[:want]
    shards = 8
    procs = []
    for s in range(shards):
        mine = idxs[s::shards]
        if not mine:
            continue
        path = f"{os.path.dirname(tmp)}/sample_{os.path.basename(tmp).replace('.', '_')}_{s}.v"
        with open(path, "w") as f:
            f.write("Require Import Model.Base Model.Exec.\nOpen Scope N_scope.\n")
            for ci in mine:
                segs = [seg.split() for seg in cases[ci].split(";")]
                inp = "[" + "; ".join("[" + "; ".join(seg) + "]" for seg in segs) + "]"
                exp = "[" + "; ".join("[" + "; ".join(l.split()[2:]) + "]" for l in model_obs.get(ci, [])) + "]"
                f.write(f"Example case_{ci} : run_case {'true' if debug else 'false'} {inp} = {exp}.\n"
                        f"Proof. vm_compute. reflexivity. Qed.\n")
        procs.append((mine, path, subprocess.Popen(
            f"cd {COQ} && coqc -noglob -Q Model Model {path} -o {path}o", shell=True, text=True,
            stdout=subprocess.PIPE, stderr=subprocess.STDOUT, env=ENV)))
    fails = []
    for mine, path, p in procs:
        o, _ = p.communicate(timeout=1800)
        if p.returncode != 0:
            fails.append((path, o[-600:]))
    return len(idxs), fails


def nontrivial(line):
    """a history is non-trivial when it contains at least one state-changing
    call that can succeed and at least 3 calls"""
    segs = line.split(";")
    if len(segs) < 4:
        return False
    return any(s.split()[0] in ("10", "11", "12", "13", "50", "62", "110", "111", "135", "162") for s in segs[1:])


def opname(code):
    names = {10: "insert", 11: "insert_key_value", 12: "checked_insert", 13: "insert_unchecked", 20: "get",
             21: "get_mut", 22: "get_key_value", 23: "contains_key", 24: "index", 25: "index_mut", 30: "remove",
             31: "remove_entry", 32: "retain", 33: "clear", 34: "drain", 35: "with_capacity", 40: "iter-session",
             41: "into_iter-session", 42: "iter-nth", 43: "drain-nth", 44: "into_iter-nth", 142: "Set::iter-nth",
             143: "Set::drain-nth", 144: "Set::into_iter-nth", 50: "entry-chain", 51: "get_disjoint_mut", 60: "clone", 61: "eq", 67: "clone_from", 68: "default", 167: "Set::clone_from", 168: "Set::default",
             62: "from_iter", 64: "format", 66: "serde", 110: "Set::insert", 111: "Set::replace",
             122: "Set::get", 123: "Set::contains", 130: "Set::remove", 131: "Set::take", 132: "Set::retain",
             133: "Set::clear", 134: "Set::drain", 135: "Set::extend", 140: "Set::iter-session",
             141: "Set::into_iter-session", 160: "Set::clone", 161: "Set::eq", 162: "Set::from_iter",
             164: "Set::format", 166: "Set::serde", 170: "set-algebra", 171: "set-predicate", 172: "Set::sub"}
    return names.get(code, str(code))


def distribution(cases):
    ops = {}
    faults = {0: 0, 1: 0, 2: 0, 3: 0, 4: 0}
    adv = 0
    lens = []
    for c in cases:
        segs = c.split(";")
        cfg = segs[0].split()
        adv += cfg[0] == "1"
        faults[int(cfg[2])] = faults.get(int(cfg[2]), 0) + 1
        lens.append(len(segs) - 1)
        for s in segs[1:]:
            k = opname(int(s.split()[0]))
            ops[k] = ops.get(k, 0) + 1
    return {"ops_by_kind": ops, "cases_by_fault_kind": {
        "none": faults[0], "eq": faults[1], "clone": faults[2], "drop": faults[3], "closure_or_next": faults[4]},
        "adversarial_cases": adv, "history_length_min_max_mean": [min(lens), max(lens), round(sum(lens) / len(lens), 1)]}


def shrink(case, still_fails):
    """delete operations while the case still fails"""
    segs = case.split(" ; ")
    changed = True
    while changed and len(segs) > 2:
        changed = False
        for i in range(len(segs) - 1, 0, -1):
            cand = segs[:i] + segs[i + 1:]
            if len(cand) >= 2 and still_fails(" ; ".join(cand)):
                segs = cand
                changed = True
    return " ; ".join(segs)


def one_case_fails(prop, tmp, observable=False):
    """predicate used for shrinking: does a single case show a fault of this
    property's kinds or a model/implementation difference"""
    def f(case):
        p = tmp + ".shr"
        with open(p, "w") as fh:
            fh.write(case + "\n")
        for prof, dbg in (("debug", 1), ("release", 0)):
            run_model(p, dbg, p + ".m")
            ok, crash = run_impl(p, prof, p + ".i", p + ".f", limit=10)
            if not ok:
                return True
            a, b = open(p + ".m").read().split("\n"), open(p + ".i").read().split("\n")
            if (strip_internal(a) != strip_internal(b)) if observable else (a != b):
                return True
            for ln in open(p + ".f"):
                if ln.startswith("FAULT") and fault_relevant(prop, ln):
                    return True
        return False
    return f


def surface_check(prop=None):
    """every public function / trait-method override of /repo/src is in coq/MODELLED.tsv (entry -> model
    definition).  For C05 the whole surface counts (it quantifies over every operation); for any other property
    only the files the property is anchored in: a new entry there (e.g. an overridden Iterator::nth or fold)
    means the model no longer describes the code this property is about."""
    import surface
    have = set()
    for ln in open(COQ + "/MODELLED.tsv"):
        if ln.startswith("#") or not ln.strip():
            continue
        have.add(ln.split("\t")[0])
    cur = surface.surface(REPO + "/src")
    missing = [e for e in cur if e not in have]
    if prop in (None, "C05"):
        return missing
    files = set()
    for ln in open(ROOT + "/properties.jsonl"):
        pj = json.loads(ln)
        if pj["id"] == prop:
            files = set(f[len("src/"):] if f.startswith("src/") else f for f in pj["anchors"]["files"])
    return [e for e in missing if e.split(":")[0] in files]


LLVM_BIN_GLOB = os.path.expanduser("~/.rustup/toolchains/nightly-*/lib/rustlib/*/bin")


def property_files(prop):
    """the files of /repo/src a property is anchored in (None: the whole crate -- the properties about global
    invariants / every operation)"""
    if prop in (None, "C02", "C04", "C05", "C17"):
        return None
    for ln in open(ROOT + "/properties.jsonl"):
        pj = json.loads(ln)
        if pj["id"] == prop:
            return set(f[len("src/"):] if f.startswith("src/") else f for f in pj["anchors"]["files"])
    return None


def coverage_suite(tmp):
    """a FIXED set of histories (fixed seed: what it reaches depends only on /repo): a slice of every property's
    quick suite, the panic slice with every fault position"""
    cases = []
    for k in range(1, 21):
        pr = "C%02d" % k
        su = gen.suite(pr, random.Random(7700 + k), "quick")
        cases += su[:120] + su[120::9]
    pb = gen.panic_slice_bases()
    cases += add_faults(pb, tmp + ".covps", (1, 2, 3, 4), None)
    adv = [rand_adv for rand_adv in gen.suite("C17", random.Random(7799), "quick")[:200]]
    # the coverage build has debug assertions on: there, insert_unchecked OUTSIDE its contract (full map, absent key)
    # is a defined panic (in release it is UB, and no other run ever does this), so its debug-only check can be entered
    dbg = ["0 0 0 0 2 2 2 2 ; 13 0 1 5 2 7 ; 13 0 3 6 4 8 ; 13 0 5 7 6 9 ; 20 0 0 5",
           "0 0 0 0 0 0 0 0 ; 13 0 1 5 2 7", "0 0 0 0 1 1 1 1 ; 10 0 1 5 2 7 ; 13 0 3 6 4 8 ; 13 0 5 5 6 9"]
    return cases + adv + dbg


def coverage_tie(prop, own_cases_path, tmp):
    """Region coverage of /repo/src by the correspondence runs (llvm source-based coverage, nightly toolchain): every
    code region must be ENTERED by the fixed coverage suite, this property's own cases or the shape scenarios, except
    the regions listed in coq/COVERAGE_KNOWN.tsv (dead in the crate itself, or error propagation of a failing
    serializer).  A region of the property's files that nothing enters is code the model's tie does not reach.
    returns (list of unentered regions not known, info dict) or (None, reason) when the tooling is unavailable."""
    import glob
    bins = sorted(glob.glob(LLVM_BIN_GLOB))
    bins = [b for b in bins if os.path.exists(b + "/llvm-cov") and os.path.exists(b + "/llvm-profdata")]
    if not bins:
        return None, "llvm-cov / llvm-profdata not found under the nightly toolchain"
    B = bins[-1]
    r = sh(f"cd {ROOT}/harness && RUSTFLAGS='-C instrument-coverage' cargo +nightly build --offline --target-dir {CACHE}/target-cov 2>&1", timeout=900)
    exe = f"{CACHE}/target-cov/debug/mm-harness"
    if r.returncode != 0 or not os.path.exists(exe):
        return None, "instrumented build failed: " + r.stdout[-300:]
    d = tmp + ".cov"
    sh(f"rm -rf {d}; mkdir -p {d}")
    with open(d + "/fixed.cases", "w") as f:
        f.write("\n".join(coverage_suite(tmp)) + "\n")
    env = dict(ENV)
    for i, (cp, lim) in enumerate(((d + "/fixed.cases", 600), (own_cases_path, 600))):
        env["LLVM_PROFILE_FILE"] = f"{d}/r{i}-%p.profraw"
        try:
            subprocess.run([exe, cp, d + f"/f{i}", d + f"/m{i}"], stdout=subprocess.DEVNULL, stderr=subprocess.DEVNULL, env=env, timeout=lim)
        except subprocess.TimeoutExpired:
            pass
    env["LLVM_PROFILE_FILE"] = f"{d}/s-%p.profraw"
    try:
        subprocess.run([exe, "--shapes", d + "/sf"], stdout=subprocess.DEVNULL, stderr=subprocess.DEVNULL, env=env, timeout=300)
    except subprocess.TimeoutExpired:
        pass
    r = sh(f"{B}/llvm-profdata merge -sparse {d}/*.profraw -o {d}/cov.profdata && {B}/llvm-cov export -format=text "
           f"-instr-profile {d}/cov.profdata {exe} --ignore-filename-regex='(registry|rustc|/harness/)' > {d}/cov.json", timeout=600)
    if r.returncode != 0:
        return None, "llvm-cov failed: " + (r.stdout + r.stderr)[-300:]
    data = json.load(open(d + "/cov.json"))["data"][0]
    reg = {}
    for fn in data["functions"]:
        names = fn["filenames"]
        for (l1, c1, l2, c2, cnt, fid, efid, kind) in fn["regions"]:
            if kind != 0:
                continue
            fl = names[fid]
            if not fl.startswith(REPO + "/src/"):
                continue
            k = (fl, l1, c1, l2, c2)
            reg[k] = reg.get(k, 0) + cnt
    known = set()
    try:
        for ln in open(COQ + "/COVERAGE_KNOWN.tsv"):
            if ln.startswith("#") or "\t" not in ln:
                continue
            a, b, c = ln.rstrip("\n").split("\t")[:3]
            known.add((a, b, c))
    except OSError:
        pass
    files = property_files(prop)
    src = {}
    unent, new = [], []
    for (fl, l1, c1, l2, c2), cnt in sorted(reg.items()):
        if cnt:
            continue
        L = src.setdefault(fl, open(fl).read().split("\n"))
        line = L[l1 - 1] if l1 - 1 < len(L) else ""
        txt = (line[c1 - 1:c2 - 1] if l1 == l2 else line[c1 - 1:]).strip()[:80]
        rel = os.path.relpath(fl, REPO + "/src")
        key = (rel, txt, " ".join(line.split())[:120])
        unent.append(key + (l1,))
        if key not in known and (files is None or rel in files):
            new.append(key + (l1,))
    # dead code that was merely REWRITTEN (a known region's text is gone, another unentered region took its place in the
    # same file) is still the same dead code: per file, as many unknown regions are tolerated as known ones vanished
    cur_keys = set(u[:3] for u in unent)
    kept = []
    for rel in sorted(set(u[0] for u in new)):
        vanished = len([k for k in known if k[0] == rel and k not in cur_keys])
        mine = [u for u in new if u[0] == rel]
        if len(mine) > vanished:
            kept += mine
    new = kept
    info = {"regions_of_repo_src": len(reg), "regions_entered": len(reg) - len(unent), "regions_never_entered": len(unent),
            "of_which_listed_in_COVERAGE_KNOWN": len([u for u in unent if u[:3] in known]),
            "functions_of_repo_src_executed": "%d/%d" % (
                sum(f["summary"]["functions"]["covered"] for f in data["files"] if f["filename"].startswith(REPO + "/src/")),
                sum(f["summary"]["functions"]["count"] for f in data["files"] if f["filename"].startswith(REPO + "/src/")))}
    sh(f"rm -rf {d}")
    return new, info, unent



def stream_table_check(tmp):
    """C20: coq/Model/Stream.v (the serde visitors against a streaming format: entries, end, error; polls counted) is
    tied to /repo by running the same 324 streams through the crate's Deserialize impls (`mm-harness --stream-table`,
    debug and release) and demanding, INSIDE THE KERNEL, that the model's table `st_table` equals what the
    implementation printed (vm_compute).  returns (ok, text, rows)"""
    rows = None
    for prof in ("debug", "release"):
        r = sh(f"{CACHE}/target/{prof}/mm-harness --stream-table", timeout=120)
        if r.returncode != 0:
            return False, f"mm-harness --stream-table failed ({prof} build)", 0
        cur = []
        for ln in r.stdout.strip().split("\n"):
            head, _, res = ln.partition(" : ")
            cur.append((head, [int(x) for x in res.split()]))
        if rows is not None and cur != rows:
            bad = [(a[0], a[1], b[1]) for a, b in zip(rows, cur) if a != b][:5]
            return False, "debug and release builds disagree on the stream table: " + str(bad), len(cur)
        rows = cur
    lit = "; ".join("[" + "; ".join(str(x) for x in r_) + "]" for _, r_ in rows)
    d = tmp + ".stream"
    sh(f"rm -rf {d}; mkdir -p {d}")
    with open(d + "/stream_cmp.v", "w") as f:
        f.write("Require Import List NArith. Import ListNotations.\nRequire Import Model.StreamTable.\n"
                f"Example stream_table_ok : st_table = [{lit}]%N.\nProof. vm_compute. reflexivity. Qed.\n")
    r = sh(f"cd {d} && timeout 300 coqc -Q {COQ}/Model Model stream_cmp.v 2>&1", timeout=400)
    if r.returncode == 0:
        sh(f"rm -rf {d}")
        return True, f"{len(rows)} streams: model table = implementation table (kernel, vm_compute)", len(rows)
    # locate the differing rows
    with open(d + "/stream_eval.v", "w") as f:
        f.write("Require Import List NArith. Import ListNotations.\nRequire Import Model.StreamTable.\n"
                "Eval vm_compute in st_table.\n")
    r2 = sh(f"cd {d} && timeout 300 coqc -Q {COQ}/Model Model stream_eval.v 2>&1", timeout=400)
    txt = r2.stdout.replace("%N", "")
    model = [[int(x) for x in re.findall(r"\d+", m_)] for m_ in re.findall(r"\[([0-9;\s]*)\]", txt[txt.find("=") + 1:])]
    diffs = []
    for i, (head, impl) in enumerate(rows):
        mo = model[i] if i < len(model) else None
        if mo != impl:
            diffs.append(f"stream (kind n capacity fail dup) = ({head}): implementation (result len polls late finished) = {impl}, model = {mo}")
    sh(f"rm -rf {d}")
    return False, "\n".join(diffs[:20]) or ("coqc failed: " + r.stdout[-400:]), len(rows)


def rust_code_only(src):
    """strip // comments (incl. doc comments) and string literals, drop #[cfg(test)] tails"""
    src = src.split("#[cfg(test)]")[0]
    out = []
    for line in src.split("\n"):
        line = re.sub(r'"(?:[^"\\]|\\.)*"', '""', line)
        i = line.find("//")
        if i >= 0:
            line = line[:i]
        out.append(line)
    return "\n".join(out)


def nostd_check():
    """C06: the crate builds without the standard library: it still compiles as a library with no
    features, src/lib.rs still declares no_std outside std/doc/test, and no code path names std or alloc.
    When the nightly toolchain can expand the crate, the expansion must carry #![no_std] too.
    returns (ok, text)"""
    for feats in ("", "serde", "std", "serde std"):
        for rel in ("", " --release"):      # code can be selected by cfg(debug_assertions) as well as by features
            r2 = sh("cd " + REPO + " && CARGO_TARGET_DIR=" + CACHE + "/target-nostd cargo build --lib --offline --no-default-features" + rel
                    + (f' --features "{feats}"' if feats else "") + " 2>&1", timeout=900)
            if r2.returncode != 0:
                return False, f"cargo build --lib --no-default-features{rel} --features '{feats}' failed:\n" + r2.stdout[-1500:]
    lib = open(REPO + "/src/lib.rs").read()
    if not re.search(r'#!\[cfg_attr\(\s*all\(not\(feature = "std"\), not\(doc\), not\(test\)\),\s*no_std\s*\)\]', lib):
        return False, "src/lib.rs no longer declares no_std outside std/doc/test"
    code = ""
    for dp, _, fs in os.walk(REPO + "/src"):
        for f in sorted(fs):
            if f.endswith(".rs"):
                code += rust_code_only(open(os.path.join(dp, f)).read()) + "\n"
    bad = re.findall(r"\bextern\s+crate\s+(?:std|alloc)\b|\b(?:std|alloc)::\w+", code)
    if bad:
        return False, "the library code names std/alloc: " + ", ".join(sorted(set(bad))[:6])
    note = "no_std build ok (plain build + source scan)"
    r = sh("cd " + REPO + " && CARGO_TARGET_DIR=" + CACHE + "/target-nostd cargo +nightly rustc --lib --offline -- -Zunpretty=expanded 2>/dev/null",
           timeout=900)
    if r.returncode == 0 and "prelude_import" in r.stdout:
        if "#![no_std]" not in r.stdout or re.search(r"extern crate (std|alloc)\b", r.stdout):
            return False, "the expanded crate is not no_std / links std or alloc"
        note = "no_std build ok (plain build + source scan + nightly expansion)"
    return True, note


MIRI_PROPS = {"C02", "C03", "C04", "C10", "C13", "C15", "C17", "C18"}
MIRI_SHAPE_PROPS = {"C02", "C17"}


def miri_replay(prop, cases, model_obs, tmp, all_faults, shards=12, per_shard=14):
    """corpus + short cases with an injected fault or an adversarial script first, run under
    `cargo +nightly miri run` in parallel shards"""
    idx = [i for i, c in enumerate(cases) if len(c.split(";")) <= 22]
    pri = [i for i in idx if cases[i].split()[0] == "1" or cases[i].split()[2] != "0"]
    rest = [i for i in idx if i not in set(pri)]
    chosen = (pri[: shards * per_shard * 2 // 3] + rest)[: shards * per_shard]
    if not chosen:
        return {"miri_cases": 0}
    env = dict(ENV, MIRIFLAGS="-Zmiri-ignore-leaks -Zmiri-disable-isolation", CARGO_TARGET_DIR=CACHE + "/target-miri")
    b = subprocess.run("cd " + ROOT + "/harness && cargo +nightly miri build --offline 2>&1 || cargo +nightly miri run --offline -- /dev/null /dev/null 2>&1",
                       shell=True, text=True, capture_output=True, env=env, timeout=1800)
    procs = []
    for s in range(shards):
        mine = chosen[s::shards]
        if not mine:
            continue
        cp = f"{tmp}.miri{s}.cases"
        with open(cp, "w") as f:
            f.write("\n".join(cases[i] for i in mine) + "\n")
        op, fp, mk = f"{tmp}.miri{s}.i", f"{tmp}.miri{s}.f", f"{tmp}.miri{s}.marker"
        p = subprocess.Popen(f"cd {ROOT}/harness && cargo +nightly miri run --offline -- {cp} {fp} {mk} > {op} 2> {op}.err", start_new_session=True,
                             shell=True, env=env)
        procs.append((mine, cp, op, fp, mk, p))
    # the element-shape scenario (zero-sized, 1-byte, padded, large, heap-owning layouts; small capacities) under Miri
    shp = None
    if prop in MIRI_SHAPE_PROPS:
        sfp = f"{tmp}.miri.shapes"
        shp = (sfp, subprocess.Popen(f"cd {ROOT}/harness && cargo +nightly miri run --offline -- --shapes {sfp} > {sfp}.out 2> {sfp}.err", start_new_session=True,
                                     shell=True, env=env))
    ub, diff_cases, ran = [], [], 0
    shapes_info = None
    if shp:
        sfp, p = shp
        try:
            rc = p.wait(timeout=3000)
        except subprocess.TimeoutExpired:
            try:
                os.killpg(p.pid, signal.SIGKILL)
            except OSError:
                p.kill()
            rc = -9
        err = open(sfp + ".err").read() if os.path.exists(sfp + ".err") else ""
        if rc == -9:
            shapes_info = "timeout (not counted)"
        elif rc != 0:
            msg = re.search(r"error: Undefined Behavior: ([^\n]*)", err)
            all_faults.append(("miri", -1, f"FAULT -1 op=shapes MIRI {'Undefined Behavior' if msg else 'abnormal exit'} in the element-shape scenario under Miri: {msg.group(1) if msg else err[-200:].strip()}"))
            shapes_info = "failed"
        else:
            shapes_info = "ran clean"
            if os.path.exists(sfp):
                for ln in open(sfp):
                    if ln.startswith("FAULT"):
                        all_faults.append(("miri", -1, ln.strip()))
                        shapes_info = "oracle faults"
    for mine, cp, op, fp, mk, p in procs:
        try:
            rc = p.wait(timeout=2400)
        except subprocess.TimeoutExpired:
            try:
                os.killpg(p.pid, signal.SIGKILL)
            except OSError:
                p.kill()
            rc = -9
        err = open(op + ".err").read() if os.path.exists(op + ".err") else ""
        if rc != 0:
            try:
                k = int(open(mk).read().split("\n")[0])
                ci = mine[k]
            except Exception:
                ci = mine[0]
            what = "Undefined Behavior" if "Undefined Behavior" in err else "abnormal exit"
            msg = re.search(r"error: Undefined Behavior: ([^\n]*)", err)
            all_faults.append(("miri", ci, f"FAULT {ci} op=? MIRI {what} under Miri: {msg.group(1) if msg else err[-200:].strip()}"))
            ub.append(ci)
            continue
        got = read_obs(op)
        for k, ci in enumerate(mine):
            ran += 1
            want = [" ".join(l.split()[2:]) for l in model_obs.get(ci, [])]
            have = [" ".join(l.split()[2:]) for l in got.get(k, [])]
            if want != have:
                diff_cases.append(ci)
        if os.path.exists(fp):
            for ln in open(fp):
                if ln.startswith("FAULT"):
                    k = int(ln.split()[1])
                    all_faults.append(("miri", mine[k] if 0 <= k < len(mine) else -1, ln.strip()))
    return {"miri_cases": ran, "miri_ub": ub, "diff_cases": diff_cases, "miri_shape_scenario": shapes_info}


def coqchk(prop):
    """thorough tier: re-check the property's compiled file and everything it depends on with the independent
    checker; returns (ok, text)"""
    r = sh(f"cd {COQ} && coqchk -o -silent -Q Model Model -Q Proofs Proofs -Q Props Props Props.{prop} 2>&1", timeout=3000)
    out = r.stdout
    ok = r.returncode == 0 and re.search(r"Axioms:\s*<none>", out) is not None
    return ok, out[-1200:]


def fault_kind(line):
    m = re.match(r"FAULT -?\d+ op=\S+ (\S+)", line)
    return m.group(1) if m else "?"


def fault_relevant(prop, line):
    k = fault_kind(line)
    s = FAULT_PROPS.get(k, None)
    return s is None or prop in s


def load_known():
    known = []
    p = ROOT + "/KNOWN_FINDINGS"
    if os.path.exists(p):
        for ln in open(p):
            ln = ln.strip()
            if ln.startswith("known:"):
                m = re.match(r"known:\s+property=(\S+)\s+match=(\S+)\s+(.*)", ln)
                if m:
                    known.append((m.group(1), m.group(2), m.group(3)))
    return known


STAGES = []


def stage_seconds():
    out = {}
    ts = STAGES + [("end", time.time())]
    for (n, t), (_, t2) in zip(ts, ts[1:]):
        out[n] = round(t2 - t, 1)
    return out


def check(prop, tier, replay=None):
    t0 = time.time()
    seed = int(os.environ.get("VERIF_SEED", "20260930"))
    os.makedirs(OUT + "/replay", exist_ok=True)
    os.makedirs(CACHE + "/run", exist_ok=True)
    tmp = f"{CACHE}/run/{prop}.{tier}.{os.getpid()}"
    violations = []   # (text, replay path, has_input)
    notes = []

    STAGES.append(("coq_make", time.time()))
    # 0. the model side is rebuilt whenever the development changed
    ok, msg = build_model()
    if not ok:
        rp = f"{OUT}/replay/{prop}-coqbuild.txt"
        open(rp, "w").write("the Coq development does not build:\n" + msg)
        log(f"VIOLATION property={prop} replay={rp} no-failing-input-found")
        write_evidence(prop, tier, seed, {"notes": ["coq build failed"]}, {}, [], 0, 0, 0, 0, t0, 1, ["coq build failed"])
        return 1

    STAGES.append(("proof_gate", time.time()))
    # 1. proof gate
    gate_ok, gate = proof_gate(prop)
    if not gate_ok:
        notes += gate["notes"]

    chk_note = None
    if tier == "thorough" and gate_ok and not replay:
        okc, txt = coqchk(prop)
        chk_note = "coqchk: " + ("ok, Axioms: <none>" if okc else "FAILED: " + txt[-400:])
        notes.append(chk_note)
        if not okc:
            gate_ok = False
            gate["notes"].append(chk_note)

    STAGES.append(("cargo_build", time.time()))
    # 2. build the implementation side from the current /repo
    ok, msg = build_harness()
    if not ok and prop == "C06":
        ok6, txt6 = nostd_check()
        if not ok6:
            rp = f"{OUT}/replay/{prop}-nostd.txt"
            open(rp, "w").write("property C06: the crate must build without the standard library\n" + txt6 + "\n")
            log(f"VIOLATION property={prop} replay={rp}")
            log("  (no_std build)")
            write_evidence(prop, tier, seed, gate, {}, [], 0, 0, 0, 0, t0, 1, ["no_std build failed"])
            return 1
    if not ok:
        rp = f"{OUT}/replay/{prop}-build.txt"
        open(rp, "w").write("the harness does not build against the current /repo:\n" + msg)
        log(f"VIOLATION property={prop} replay={rp} no-failing-input-found")
        write_evidence(prop, tier, seed, gate, {}, [], 0, 0, 0, 0, t0, 1, ["harness build failed"])
        return 1

    STAGES.append(("generate_cases", time.time()))
    # 3. cases
    if replay:
        cases = [l.strip() for l in open(replay) if l.strip() and not l.startswith("#") and ";" in l]
    else:
        rng = random.Random(seed * 1000003 + int(prop[1:]))
        corpus = []
        cdir = ROOT + "/corpus"
        if os.path.isdir(cdir):
            for f in sorted(os.listdir(cdir)):
                if f.endswith(".case") and (f.startswith(prop) or f.startswith("all")):
                    corpus += [l.strip() for l in open(os.path.join(cdir, f)) if l.strip() and not l.startswith("#")]
        base = gen.suite(prop, rng, tier)
        if prop in FAULT_SUITES:
            base = add_faults(base, tmp, FAULT_SUITES[prop], None if prop == "C04" else ((60 if tier == "quick" else 600) if prop in ("C10", "C15", "C16") else (30 if tier == "quick" else 300)))
        else:
            # every other suite: all fault kinds for a few of ITS OWN histories (post-panic states of the operations
            # the property is about, unsafe fast paths included where the model says the contract still holds)
            base = add_faults(base, tmp, (1, 2, 3, 4), 12 if tier == "quick" else 150)
        if prop != "C04":
            # states reached through a caught panic belong to "every reachable state" of every property: every
            # fault position of every panic-slice base (a property-dependent quarter of them in the quick tier was
            # not enough: seeded change C11h needed one particular Drop position); C04's own suite has them anyway
            nfix = len(gen.known_fault_bases()) + len(gen.clone_fault_bases())
            pb = gen.panic_slice_bases()
            fixed = add_faults(pb[:nfix], tmp + "ps1", (1, 2, 3, 4), None)
            rest = add_faults(pb[nfix:], tmp + "ps2", (1, 2, 3, 4), None)
            base = fixed + rest + base
        cases = corpus + base
    cpath = tmp + ".cases"
    with open(cpath, "w") as f:
        f.write("\n".join(cases) + "\n")

    STAGES.append(("run_model_and_impl", time.time()))
    # 4. run both sides, both profiles
    run_stats = {"calls": 0, "panicking_calls": 0, "cases_with_injected_fault_fired": 0, "objects_tracked_by_ledger": 0}
    diffs = []
    obs_diffs = []   # differences in what a caller can observe, on histories without injected faults or lying ==
    all_faults = []
    validated = 0
    model_obs1 = None
    variants = [("debug", 1, "target"), ("release", 0, "target")]
    if prop == "C06" and not replay:
        # C06 quantifies over "std feature on and off": the same suite and the same oracles on a build with the feature
        oks, msgs = build_harness(std=True)
        if oks:
            variants += [("debug", 1, "target-std"), ("release", 0, "target-std")]
            notes.append("suite and shape oracles also run on micromap built with --features std")
        else:
            rp = f"{OUT}/replay/{prop}-build-std.txt"
            open(rp, "w").write("the harness does not build against /repo with the std feature:\n" + msgs)
            violations.append(("build with the std feature", rp, False))
    for prof0, dbg, tdir in variants:
        prof = prof0 + ("+std" if tdir != "target" else "")
        mp, ip, fp = f"{tmp}.{prof}.m", f"{tmp}.{prof}.i", f"{tmp}.{prof}.f"
        if not run_model(cpath, dbg, mp):
            notes.append("model runner failed")
        ok, crash = run_impl(cpath, prof0, ip, fp, target=tdir)
        mo, io = read_obs(mp), read_obs(ip)
        if dbg == 1:
            model_obs1 = mo
        if not ok:
            ci = int(crash[0]) if crash and crash[0].isdigit() else -1
            all_faults.append((prof, ci, f"FAULT {ci} op=? CRASH the harness process died ({prof} build)"))
        for ci in range(len(cases)):
            if mo.get(ci) != io.get(ci):
                diffs.append((prof, ci))
                if honest_case(cases[ci]) and strip_internal(mo.get(ci)) != strip_internal(io.get(ci)):
                    obs_diffs.append((prof, ci))
            else:
                validated += 1
        if os.path.exists(fp):
            for ln in open(fp):
                if ln.startswith("FAULT"):
                    all_faults.append((prof, int(ln.split()[1]), ln.strip()))
                elif ln.startswith("STAT") and prof == "debug":
                    m = re.search(r"ops=(\d+) panics=(\d+) fired=(\d+) objects=(\d+)", ln)
                    if m:
                        run_stats["calls"] += int(m.group(1))
                        run_stats["panicking_calls"] += int(m.group(2))
                        run_stats["cases_with_injected_fault_fired"] += int(m.group(3))
                        run_stats["objects_tracked_by_ledger"] += int(m.group(4))

    STAGES.append(("shape_oracles", time.time()))
    # 4b. element-shape oracles (no-Drop types with an observable Clone, ZST, Copy, large, heap-owning)
    if not replay:
        for prof0, dbg, tdir in variants:
            prof = prof0 + ("+std" if tdir != "target" else "")
            fp = f"{tmp}.{prof}.shapes"
            r = sh(f"{CACHE}/{tdir}/{prof0}/mm-harness --shapes {fp}", timeout=120)
            if r.returncode != 0:
                all_faults.append((prof, -1, f"FAULT -1 op=shapes CRASH the shape scenario died ({prof} build)"))
            elif os.path.exists(fp):
                for ln in open(fp):
                    if ln.startswith("FAULT"):
                        all_faults.append((prof, -1, ln.strip()))

    STAGES.append(("miri", time.time()))
    # 4c. thorough tier: replay a sample under Miri (the implementation-side observable closest to the model's UB
    #     outcome); Miri's trace must equal the model's as well
    miri_info = {}
    if tier == "thorough" and not replay and prop in MIRI_PROPS:
        miri_info = miri_replay(prop, cases, model_obs1 or {}, tmp, all_faults)
        notes.append("miri replay: %d cases run under Miri, %d with UB reported, %d differing from the model"
                     % (miri_info.get("miri_cases", 0), len(miri_info.get("miri_ub", [])), len(miri_info.get("diff_cases", []))))
        if miri_info.get("diff_cases"):
            for ci in miri_info["diff_cases"][:3]:
                diffs.append(("miri", ci))

    STAGES.append(("kernel_sample", time.time()))
    # 5. kernel cross-check of the extracted runner
    ksample, kfails = (0, [])
    if not replay:
        ksample, kfails = kernel_sample(cases, model_obs1 or {}, True, tmp, want=(120 if tier == "quick" else 600))
        if kfails:
            notes.append("kernel evaluation disagrees with the extracted runner: " + kfails[0][1][-300:])

    STAGES.append(("verdict", time.time()))
    # 6. verdict
    rel_faults = [(p, ci, ln) for (p, ci, ln) in all_faults if fault_relevant(prop, ln)]
    known = load_known()
    reported = set()
    known_lines = []
    fails = one_case_fails(prop, tmp)
    for (prof, ci, ln) in rel_faults[:]:
        if ci in reported:
            continue
        reported.add(ci)
        case = cases[ci] if 0 <= ci < len(cases) else ""
        if ci < 0:
            case = ("# element-shape scenario of harness/src/shapes.rs; re-run: " +
                    ("cd harness && MIRIFLAGS='-Zmiri-ignore-leaks -Zmiri-disable-isolation' cargo +nightly miri run --offline -- --shapes /dev/stdout"
                     if prof == "miri" else ".cache/target" + ("-std" if prof.endswith("+std") else "") + "/" + prof.split("+")[0] + "/mm-harness --shapes /dev/stdout"))
        small = shrink(case, fails) if case and ci >= 0 and len(reported) <= 3 else case
        h = hashlib.sha1(small.encode()).hexdigest()[:10]
        rp = f"{OUT}/replay/{prop}-{h}.case"
        with open(rp, "w") as f:
            f.write(f"# property {prop}: direct oracle fired on the implementation ({prof} build)\n# {ln}\n{small}\n")
        kind = fault_kind(ln)
        k = [x for x in known if x[0] == prop and x[1] == kind]
        if k:
            known_lines.append(f"KNOWN-FINDING: property={prop} {k[0][2]}")
            continue
        violations.append((ln, rp, True))
        if len(violations) >= 5:
            break
    diff_cases = sorted(set(ci for _, ci in diffs))
    if diff_cases and not violations:
        # the model and the implementation disagree; no direct oracle fired.
        # Which difference?  Results, contents, identities, drop / clone events of a call are what a caller observes;
        # the callback counters printed at teardown (how many == / Clone / closure calls were made) are internal,
        # and fault positions and lying answers are keyed by them.  A history WITHOUT injected fault or lying == whose
        # observable part differs is a failing input of a functional property; if only counters differ (or only
        # fault / adversarial variants, whose indexing the counters shift) the tie is broken but no failing input is
        # known.
        obs_cases = sorted(set(ci for _, ci in obs_diffs))
        swap_note = ""
        if obs_cases and all(asym_case(cases[ci]) for ci in obs_cases):
            # every observable difference lies under the operand-determined asymmetric ==.  If the crate agrees with
            # the model on ALL histories of that kind once the harness swaps the operands of its == (MM_FLIP), it uses one
            # relation consistently, only the other way round: results under an unlawful == are then different but no
            # property says which of them is right (C17: "may return wrong answers") -- the tie is broken, no failing input
            if uniform_operand_swap(cases, tmp):
                swap_note = " (the crate agrees with the model on every history under the asymmetric == once the operands of == are swapped: a uniform change of operand order)"
                obs_cases = []
        ci = obs_cases[0] if obs_cases else diff_cases[0]
        small = shrink(cases[ci], one_case_fails(prop, tmp, observable=True) if obs_cases else fails)
        h = hashlib.sha1(small.encode()).hexdigest()[:10]
        rp = f"{OUT}/replay/{prop}-diff-{h}.case"
        p = tmp + ".one"
        open(p, "w").write(small + "\n")
        txt = []
        for prof, dbg in (("debug", 1), ("release", 0)):
            run_model(p, dbg, p + ".m")
            run_impl(p, prof, p + ".i", p + ".f")
            m, i = open(p + ".m").read().split("\n"), open(p + ".i").read().split("\n")
            for a, b in zip(m, i):
                if a != b:
                    txt.append(f"# [{prof}] model: {a}\n# [{prof}] impl : {b}")
                    break
        with open(rp, "w") as f:
            f.write(f"# property {prop}: correspondence between coq/Model and /repo broken\n"
                    f"# ({len(diff_cases)} of {len(cases)} cases differ; first difference, shrunk)\n"
                    + "\n".join(txt) + "\n" + small + "\n")
        violations.append((f"correspondence broken on {len(diff_cases)} cases"
                           + ("" if obs_cases else (swap_note or " (only callback counters / fault-indexed variants differ: no observable difference on an honest history)")),
                           rp, functional_property(prop) and bool(obs_cases)))
    if not replay and not violations:
        missing = surface_check(prop)
        if missing:
            rp = f"{OUT}/replay/{prop}-surface.txt"
            with open(rp, "w") as f:
                f.write(f"property {prop}: these public functions / trait-method overrides of /repo/src (in the files the "
                        "property is anchored in; for C05: anywhere) are not in coq/MODELLED.tsv, so the model and its "
                        "theorems no longer describe this code:\n" + "\n".join(missing) + "\n")
            violations.append(("API surface not covered by the model: " + ", ".join(missing[:4]), rp, False))
    if not replay and not violations:
        STAGES.append(("coverage_tie", time.time()))
        ct = coverage_tie(prop, cpath, tmp)
        if ct[0] is None:
            notes.append("coverage tie not evaluated: " + str(ct[1])[:200])
        else:
            newreg, cinfo, _ = ct
            notes.append("coverage tie: " + json.dumps(cinfo))
            if newreg:
                rp = f"{OUT}/replay/{prop}-coverage.txt"
                with open(rp, "w") as f:
                    f.write(f"property {prop}: these code regions of /repo/src are entered by NO correspondence run (fixed coverage "
                            "suite, this property's cases, shape scenarios) and are not in coq/COVERAGE_KNOWN.tsv: the tie between "
                            "the model and this code is not exercised, so the theorems do not reach it\n"
                            + "\n".join(f"src/{a}:{ln}: `{b}`   in   {c}" for (a, b, c, ln) in newreg) + "\n")
                violations.append((f"{len(newreg)} code regions never entered by the correspondence runs, e.g. src/{newreg[0][0]}:{newreg[0][3]}", rp, False))
        STAGES.append(("verdict2", time.time()))
    if prop == "C20" and not replay:
        oks, txts, nrows = stream_table_check(tmp)
        notes.append("stream table: " + txts[:300])
        if not oks:
            rp = f"{OUT}/replay/{prop}-stream.txt"
            with open(rp, "w") as f:
                f.write("property C20: decoding from a streaming format (coq/Model/Stream.v vs the crate's Deserialize impls)\n"
                        "each line is a failing input: the stream (kind 0 = Map / 1 = Set, number of entries, target capacity, "
                        "position of the broken entry or 9, last entry repeats the first key) and what the two sides did\n" + txts + "\n")
            violations.append(("stream table differs: " + txts.split("\n")[0][:200], rp, True))
    if prop == "C06" and not replay and not violations:
        ok6, txt6 = nostd_check()
        notes.append(txt6[:200])
        if not ok6:
            rp = f"{OUT}/replay/{prop}-nostd.txt"
            with open(rp, "w") as f:
                f.write("property C06: the crate must build without the standard library\n" + txt6 + "\n")
            violations.append(("no_std build", rp, True))
    if not gate_ok and not violations:
        rp = f"{OUT}/replay/{prop}-proof.txt"
        with open(rp, "w") as f:
            f.write(f"property {prop}: proof obligations do not check\n" + "\n".join(gate["notes"]) + "\n")
        violations.append(("proof gate", rp, False))
    if kfails and not violations:
        rp = f"{OUT}/replay/{prop}-kernel.txt"
        with open(rp, "w") as f:
            f.write(f"property {prop}: extracted runner and kernel evaluation disagree\n{kfails[0][1]}\n")
        violations.append(("kernel sample", rp, False))

    for kl in sorted(set(known_lines)):
        log(kl)
    for (txt, rp, has_input) in violations:
        log(f"VIOLATION property={prop} replay={rp}" + ("" if has_input else " no-failing-input-found"))
        log(f"  ({txt})")
    dist = distribution(cases) if cases else {}
    if dist:
        dist["measured_on_the_implementation_debug_build"] = run_stats
    nt = len(set(c for c in cases if nontrivial(c)))
    write_evidence(prop, tier, seed, gate, dist, cases, nt, validated, ksample, len(diff_cases), t0,
                   len(violations), notes, n_faults=len(rel_faults))
    if not replay:
        for f in os.listdir(CACHE + "/run"):
            if f.startswith(f"{prop}.{tier}.{os.getpid()}") or f.startswith(f"sample_{prop}_{tier}_{os.getpid()}_"):
                try:
                    os.remove(os.path.join(CACHE, "run", f))
                except OSError:
                    pass
    log(f"{prop} {tier}: {len(cases)} cases x 2 profiles, {len(diff_cases)} differing, "
        f"{len(rel_faults)} oracle faults, proofs {'ok' if gate_ok else 'NOT OK'} "
        f"({gate['discharged']}/{gate['obligations']}), {time.time() - t0:.0f}s")
    return 1 if violations else 0


def asym_case(line):
    t = line.split(" ; ")[0].split()
    return len(t) >= 4 and t[0] == "1" and int(t[1]) % 5 == 3


def uniform_operand_swap(cases, tmp):
    """do model and crate agree (observable part) on every honest history under the asymmetric == when the harness
    answers == with its operands swapped?"""
    sel = [c for c in cases if asym_case(c) and honest_case(c)]
    if not sel:
        return False
    p = tmp + ".flip"
    with open(p, "w") as f:
        f.write("\n".join(sel) + "\n")
    for prof, dbg in (("debug", 1), ("release", 0)):
        run_model(p, dbg, p + ".m")
        ok, _ = run_impl(p, prof, p + ".i", p + ".f", flip=True)
        if not ok:
            return False
        mo, io = read_obs(p + ".m"), read_obs(p + ".i")
        for ci in range(len(sel)):
            if strip_internal(mo.get(ci)) != strip_internal(io.get(ci)):
                return False
    return True


def honest_case(line):
    """no counter-keyed lying == and no injected == fault: the n-th comparison is an internal position, whereas the Drop of a
    given object, the n-th Clone and the n-th closure / source call are user-visible panic points of the property's
    own quantifier ("every panic point in user code")"""
    t = line.split(" ; ")[0].split()
    if len(t) < 4 or t[2] not in ("0", "2", "3", "4"):
        return False
    # the operand-determined asymmetric == (adv = 1, seed mod 5 = 3) does not depend on any counter either: a
    # difference under it is a difference in WHICH comparison the crate made, i.e. a failing input
    return t[0] == "0" or (t[0] == "1" and int(t[1]) % 5 == 3)


def strip_internal(lines):
    """the observation lines of a case without the callback counters printed after the marker 8890"""
    out = []
    for ln in lines or []:
        t = ln.split()
        if "8890" in t:
            t = t[:t.index("8890")]
        out.append(" ".join(t))
    return out


def functional_property(prop):
    """for the functional properties a model/implementation difference on a
    concrete history IS a failing input of the property (the model is proved to
    meet the property); for the safety properties it is only a broken tie"""
    return prop in {"C01", "C03", "C05", "C07", "C08", "C09", "C10", "C11", "C12", "C13", "C14", "C15", "C16",
                    "C18", "C19", "C20"}


TRUSTED = [
    "Coq 8.16.1 kernel (coqc); vm_compute used for Examples, witnesses and the in-kernel sample; no native_compute",
    "no axioms: every property theorem prints 'Closed under the global context'",
    "hand-written Gallina model of the crate (coq/Model/*.v): value semantics for containers, borrows as cursors, "
    "usize as unbounded nat (all arithmetic is on values <= N), core::iter/slice/fmt behaviour modelled",
    "correspondence check: Rust harness (instrumented Key/Val, ledger, canaries), Python case generator, "
    "extraction with ExtrOcamlBasic directives only (bool, option, unit, list, prod, sumbool, sumor), OCaml driver",
    "rustc/cargo 1.95; the statement of each theorem in coq/Props",
]


def source_audit():
    """files of /repo/src whose content differs from what the model was last read against (informational)"""
    import hashlib, glob
    rec = {}
    try:
        for ln in open(ROOT + "/coq/SOURCE_AUDIT.tsv"):
            if ln.startswith("#") or "\t" not in ln:
                continue
            a, b = ln.rstrip("\n").split("\t")
            rec[a] = b
    except OSError:
        return {"error": "coq/SOURCE_AUDIT.tsv missing"}
    changed, new = [], []
    for f in sorted(glob.glob(REPO + "/src/**/*.rs", recursive=True)):
        rel = os.path.relpath(f, REPO)
        h = hashlib.sha256(open(f, "rb").read()).hexdigest()
        if rel not in rec:
            new.append(rel)
        elif rec[rel] != h:
            changed.append(rel)
    gone = [r for r in rec if not os.path.exists(os.path.join(REPO, r))]
    return {"files_audited": len(rec), "changed_since_model_audit": changed, "new_files": new, "removed_files": gone}


def write_evidence(prop, tier, seed, gate, dist, cases, nt, validated, ksample, ndiff, t0, nviol, notes, n_faults=0):
    os.makedirs(ROOT + "/evidence", exist_ok=True)
    level = LEVEL.get(prop, "proof")
    cov = {
        "obligations": gate.get("obligations", 0),
        "discharged": gate.get("discharged", 0),
        "checker_cmd": f"cd {ROOT}/coq && make -j16 && coqc -Q Model Model -Q Proofs Proofs -Q Props Props Props/{prop}.v",
        "trusted_base": TRUSTED,
        "theorems": gate.get("theorems", []),
        "axioms_reported": gate.get("axioms", []),
        "evaluations": len(cases) * 2,
        "distinct_nontrivial": nt,
        "rule": "histories come from tools/gen.py (corpus, bounded-exhaustive enumerations, seeded random "
                "histories; for C04 every single-fault position of every base history); each runs on the debug "
                "and the release build of /repo and on the model.  distinct_nontrivial = number of distinct case "
                "lines with >= 3 calls of which at least one is an insertion-type call",
        "samples": cases[:2] + cases[len(cases) // 2:len(cases) // 2 + 1],
        "traces_validated_against_impl": validated,
        "cases_differing_model_vs_impl": ndiff,
        "kernel_vm_compute_sample": ksample,
        "direct_oracle_faults": n_faults,
        "input_distribution": dist,
        "exhaustive": False,
        "source_files_vs_model_audit": source_audit(),
        "stage_seconds": stage_seconds(),
        "notes": notes,
    }
    if level == "other":
        cov["explanation"] = ("theorems cover the model-level half (fixed storage, references are slots of the "
                              "container); zero allocator calls, addresses inside the container value and the "
                              "no_std build are runtime/build observations made by the harness on every call")
    ev = {"property_id": prop, "tier": tier, "seed": seed, "level": level, "coverage": cov,
          "assumptions": TRUSTED, "wall_s": round(time.time() - t0, 1), "violations": nviol}
    with open(f"{ROOT}/evidence/{prop}.json", "w") as f:
        json.dump(ev, f, indent=1)


if __name__ == "__main__":
    if len(sys.argv) < 2:
        raise SystemExit(__doc__)
    cmd = sys.argv[1]
    if cmd == "setup":
        sys.exit(setup())
    elif cmd in ("quick", "thorough"):
        sys.exit(check(sys.argv[2], cmd))
    elif cmd == "replay":
        sys.exit(check(sys.argv[2], "quick", replay=sys.argv[3]))
    else:
        raise SystemExit(__doc__)
