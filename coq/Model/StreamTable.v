(* StreamTable.v — the stream model of Model/Stream.v instantiated with the concrete environment of Model/Exec.v, for
   the correspondence check of C20: `harness --stream-table` runs the same family of streams through the crate's
   Deserialize impls (a strict streaming format that counts its polls) and prints the same rows.
   DEFINITIONS ONLY. *)
Require Import List NArith Arith Bool.
Import ListNotations.
Require Import Model.Base Model.Slots Model.MapOps Model.Stream Model.Exec.

Definition st_sc : script := {| sc_adv := false; sc_seed := 0; sc_fk := 0; sc_fa := 0 |}.
Definition st_cb : cstate := {| n_eq := 0; n_clone := 0; n_call := 0; next_id := 100000 |}.

(* entry i has key class 5 + i; with `dup` the last entry repeats the first key *)
Definition st_cls (n : nat) (dup : bool) (i : nat) : N :=
  if dup && Nat.leb 2 n && Nat.eqb i (n - 1) then 5%N else (5 + N.of_nat i)%N.

Definition st_todo {V} (mk : nat -> N -> @sans key V) (n : nat) (fail : option nat) (dup : bool)
  : list (@sans key V) :=
  let items := List.map (fun i => mk i (st_cls n dup i)) (seq 0 n) in
  match fail with
  | None => items
  | Some j => firstn j items ++ [SFail] ++ skipn j items
  end.

Definition st_row {V} (E : env key V query cstate) (mk : nat -> N -> @sans key V)
           (n cap : nat) (fail : option nat) (dup : bool) : list N :=
  let s := @Build_stream key V (st_todo mk n fail dup) false 0 0 in
  match Model.Stream.decode E false s {| cb := st_cb; log := []; self := new_map cap |} with
  | Ok (r, s') w' =>
      (* the number of entries alive in the local container: its length on Ok; on Err it has been dropped *)
      [match r with ROk => 0 | RErr => 1 end;
       nn (length (filter (fun o => match o with Some _ => true | None => false end)
                          (firstn (len (self w')) (slots (self w')))));
       nn (polls s'); nn (late s'); if finished s' then 1 else 0]%N
  | Panic _ => [2%N]
  | UB => [3%N]
  end.

Definition st_row_map (n cap : nat) (fail : option nat) (dup : bool) : list N :=
  st_row (env_map st_sc)
         (fun i c => SItem {| kid := N.of_nat (2 * i + 1); kcls := c |} {| vid := N.of_nat (2 * i + 2); vdat := c + 1000 |})
         n cap fail dup.
Definition st_row_set (n cap : nat) (fail : option nat) (dup : bool) : list N :=
  st_row (env_set st_sc) (fun i c => SItem {| kid := N.of_nat (i + 1); kcls := c |} tt) n cap fail dup.

(* the whole table in the order the harness prints it: kind, n, dup, fail (none first), capacity *)
Definition st_fails (n : nat) : list (option nat) := None :: List.map Some (seq 0 n).
Definition st_table : list (list N) :=
  flat_map (fun kind =>
  flat_map (fun n =>
  flat_map (fun dup => if (dup : bool) && Nat.ltb n 2 then [] else
  flat_map (fun fail =>
  List.map (fun cap => (if Nat.eqb kind 0 then st_row_map else st_row_set) n cap fail dup)
           [0; 1; 2; 3; 4; 8]) (st_fails n)) [false; true]) (seq 0 5)) [0; 1].
