(* SetOps.v — src/set/*.rs: Set<T,N> is a repr(transparent) wrapper of
   Map<T,(),N>; every method is the projection the source says it is.
   Set algebra adaptors are explicit state machines over two shared-borrowed
   operands.  DEFINITIONS ONLY. *)
Require Import Model.Base Model.Slots Model.MapOps.

Section SetOps.
Context {K Q T : Type} (E : env K unit Q T) (debug : bool).
Notation M := (M K unit T).
Notation smap := (map K unit).

Definition is_some {A} (o : option A) : bool := match o with Some _ => true | None => false end.
Definition is_none {A} (o : option A) : bool := negb (is_some o).

(* src/set/methods.rs *)
Definition s_contains (q : Q) : M bool := contains_key E q.
Definition s_remove (q : Q) : M bool := r <- remove E debug q ;; ret (is_some r).
Definition s_insert (k : K) : M bool := r <- insert E debug k tt ;; ret (is_none r).
Definition s_get (q : Q) : M (option nat) := get_key_value E q.
Definition s_take (q : Q) : M (option K) :=
  r <- remove_entry E debug q ;; ret (option_map fst r).
Definition s_replace (k : K) : M (option K) :=
  '(_, e) <- insert_ii E debug k tt true ;; ret (option_map fst e).
Definition s_clear : M unit := clear E.
Definition s_retain (f : T -> K -> option bool * T) : M unit :=
  retain E debug (fun s k u => let '(r, s') := f s k in ((r, u), s')).

(* src/set/extend.rs: for_each(|item| { self.insert(item); }) on &mut self *)
Fixpoint s_extend_loop (nx : T -> ans * T) (items : list K) : M unit :=
  match items with
  | [] => call_next nx
  | k :: rest =>
      on_unwind (unwind_pairs E (List.map (fun x => (x, tt)) items)) (call_next nx) ;;
      on_unwind (unwind_pairs E (List.map (fun x => (x, tt)) rest)) (_ <- s_insert k ;; ret tt) ;;
      s_extend_loop nx rest
  end.
Definition s_extend := s_extend_loop.
(* src/set/from.rs: the set under construction is a local *)
Definition s_from_iter (nx : T -> ans * T) (items : list K) : M unit :=
  finally_drop E (s_extend_loop nx items).

(* ---------- set algebra: operands are parameters (shared borrows) ---------- *)

(* other.contains(item) with Q = T: stored == item *)
Definition contains_in (b : smap) (k : K) : M bool :=
  on_map b (r <- scan (test_k E k) ;; ret (is_some r)).

(* SetIter::next on operand a: the slot yielded *)
Definition siter_next (a : smap) (c : cursor) : M (option nat * cursor) :=
  on_map a (iter_next c).

(* iter.find(|item| other.contains(item) == want) *)
Fixpoint filter_next (a b : smap) (want : bool) (n lo : nat) : M (option nat * cursor) :=
  match n with
  | 0 => ret (None, (lo, lo))
  | S n' =>
      match nth_error (slots a) lo with
      | Some (Some (k, _)) =>
          inb <- contains_in b k ;;
          if Bool.eqb inb want then ret (Some lo, (S lo, S lo + n'))
          else filter_next a b want n' (S lo)
      | _ => ub
      end
  end.

(* Difference, src/set/difference.rs *)
Definition difference (a : smap) : M cursor := on_map a iter.
Definition diff_next (a b : smap) (c : cursor) : M (option nat * cursor) :=
  filter_next a b false (cursor_len c) (fst c).
Definition diff_size_hint (b : smap) (c : cursor) : nat * nat :=
  let n := cursor_len c in
  ((if len b <? n then n - len b else 0), n).

(* Intersection, src/set/intersection.rs *)
Definition inter_next (a b : smap) (c : cursor) : M (option nat * cursor) :=
  filter_next a b true (cursor_len c) (fst c).
Definition inter_size_hint (b : smap) (c : cursor) : nat * nat :=
  (0, Nat.min (cursor_len c) (len b)).

(* the custom fold of Difference / Intersection: visits every remaining item;
   the folded function is "push the slot" *)
Fixpoint filter_fold (a b : smap) (want : bool) (n lo : nat) (acc : list nat) : M (list nat) :=
  match n with
  | 0 => ret acc
  | S n' =>
      match nth_error (slots a) lo with
      | Some (Some (k, _)) =>
          inb <- contains_in b k ;;
          filter_fold a b want n' (S lo) (if Bool.eqb inb want then acc ++ [lo] else acc)
      | _ => ub
      end
  end.
Definition diff_fold (a b : smap) (c : cursor) (acc : list nat) : M (list nat) :=
  filter_fold a b false (cursor_len c) (fst c) acc.
Definition inter_fold (a b : smap) (c : cursor) (acc : list nat) : M (list nat) :=
  filter_fold a b true (cursor_len c) (fst c) acc.

(* core::iter::Chain<A,B>: the front half is cleared once exhausted; the back
   half stays.  Items are tagged with the operand they point into
   (false = first operand of the chain, true = second). *)
Record chain := { front : option cursor; back : cursor }.

(* Union = other.iter().chain(self.difference(other)), src/set/union.rs:26-31.
   a = self, b = other.  front iterates b, back is a \ b. *)
Definition union (a b : smap) : M chain :=
  f <- on_map b iter ;; k <- difference a ;; ret {| front := Some f; back := k |}.
Definition union_next (a b : smap) (u : chain) : M (option (bool * nat) * chain) :=
  match front u with
  | Some c =>
      '(r, c') <- siter_next b c ;;
      match r with
      | Some i => ret (Some (true, i), {| front := Some c'; back := back u |})
      | None =>
          '(r2, k') <- diff_next a b (back u) ;;
          ret (option_map (fun i => (false, i)) r2, {| front := None; back := k' |})
      end
  | None =>
      '(r2, k') <- diff_next a b (back u) ;;
      ret (option_map (fun i => (false, i)) r2, {| front := None; back := k' |})
  end.
Definition union_size_hint (b : smap) (u : chain) : nat * nat :=
  let '(lo2, hi2) := diff_size_hint b (back u) in
  match front u with
  | Some c => (cursor_len c + lo2, cursor_len c + hi2)
  | None => (lo2, hi2)
  end.
(* Chain::fold: front.fold then back.fold *)
Fixpoint siter_fold (b : smap) (n lo : nat) (acc : list (bool * nat)) : M (list (bool * nat)) :=
  match n with
  | 0 => ret acc
  | S n' =>
      match nth_error (slots b) lo with
      | Some (Some _) => siter_fold b n' (S lo) (acc ++ [(true, lo)])
      | _ => ub
      end
  end.
Definition union_fold (a b : smap) (u : chain) : M (list (bool * nat)) :=
  acc <- match front u with
         | Some c => siter_fold b (cursor_len c) (fst c) []
         | None => ret []
         end ;;
  l <- diff_fold a b (back u) [] ;;
  ret (acc ++ List.map (fun i => (false, i)) l).

(* SymmetricDifference = self.difference(other).chain(other.difference(self)),
   src/set/symmetric_difference.rs:25-32.  front is a \ b, back is b \ a. *)
Definition symdiff (a b : smap) : M chain :=
  f <- difference a ;; k <- difference b ;; ret {| front := Some f; back := k |}.
Definition symdiff_next (a b : smap) (u : chain) : M (option (bool * nat) * chain) :=
  match front u with
  | Some c =>
      '(r, c') <- diff_next a b c ;;
      match r with
      | Some i => ret (Some (false, i), {| front := Some c'; back := back u |})
      | None =>
          '(r2, k') <- diff_next b a (back u) ;;
          ret (option_map (fun i => (true, i)) r2, {| front := None; back := k' |})
      end
  | None =>
      '(r2, k') <- diff_next b a (back u) ;;
      ret (option_map (fun i => (true, i)) r2, {| front := None; back := k' |})
  end.
Definition symdiff_size_hint (a b : smap) (u : chain) : nat * nat :=
  let '(lo2, hi2) := diff_size_hint a (back u) in
  match front u with
  | Some c => let '(lo1, hi1) := diff_size_hint b c in (lo1 + lo2, hi1 + hi2)
  | None => (lo2, hi2)
  end.
Definition symdiff_fold (a b : smap) (u : chain) : M (list (bool * nat)) :=
  l1 <- match front u with
        | Some c => diff_fold a b c []
        | None => ret []
        end ;;
  l2 <- diff_fold b a (back u) [] ;;
  ret (List.map (fun i => (false, i)) l1 ++ List.map (fun i => (true, i)) l2).

(* self.iter().all(|v| other.contains(v) == want) *)
Fixpoint all_in (a b : smap) (want : bool) (n lo : nat) : M bool :=
  match n with
  | 0 => ret true
  | S n' =>
      match nth_error (slots a) lo with
      | Some (Some (k, _)) =>
          inb <- contains_in b k ;;
          if Bool.eqb inb want then all_in a b want n' (S lo) else ret false
      | _ => ub
      end
  end.
Definition iter_all (a b : smap) (want : bool) : M bool :=
  c <- on_map a iter ;; all_in a b want (cursor_len c) (fst c).

(* src/set/methods.rs:129-177 *)
Definition is_disjoint (a b : smap) : M bool :=
  if len a <=? len b then iter_all a b false else iter_all b a false.
Definition is_subset (a b : smap) : M bool :=
  if len a <=? len b then iter_all a b true else ret false.
Definition is_superset (a b : smap) : M bool := is_subset b a.

(* src/set/sub.rs: self.difference(rhs).cloned().collect() into Set<T,N>;
   runs with self = Set::new() of the left capacity. *)
Definition clone_key (k : K) : M K :=
  emit (List.map EvCloneK (idK E k)) ;; cbo (fun s => cloneK E s k).

Fixpoint sub_loop (a b : smap) (fuel : nat) (c : cursor) : M unit :=
  match fuel with
  | 0 => ub   (* unreachable: fuel = remaining items + 1 *)
  | S fuel' =>
      '(r, c') <- diff_next a b c ;;
      match r with
      | None => ret tt
      | Some i =>
          match nth_error (slots a) i with
          | Some (Some (k, _)) =>
              k' <- clone_key k ;; _ <- s_insert k' ;; sub_loop a b fuel' c'
          | _ => ub
          end
      end
  end.
Definition set_sub (a b : smap) : M unit :=
  finally_drop E (c <- difference a ;; sub_loop a b (S (cursor_len c)) c).

End SetOps.
