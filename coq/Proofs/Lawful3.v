(* Lawful3.v — the public mutating operations compute the list-machine
   functions of Spec.v under a lawful environment. *)
Require Import Model.Base Model.Slots Model.MapOps Proofs.Hoare Proofs.Inv Proofs.Spec Proofs.Lawful Proofs.Lawful2.

Section Lawful3.
Context {K V Q T : Type} (E : env K V Q T) (debug : bool).
Context (ck : K -> N) (cq : Q -> N) (HL : Lawful E ck cq).
Notation M := (M K V T).
Notation world := (world K V T).
Notation map := (map K V).
Notation kv := (K * V)%type.

Lemma logged_nil (w : world) : logged w w [].
Proof. unfold logged. rewrite app_nil_r. reflexivity. Qed.

Lemma logged_eq_l (w0 w w' : world) evs : log w = log w0 -> logged w w' evs -> logged w0 w' evs.
Proof. unfold logged. intros <- H. exact H. Qed.

Lemma logged_eq_r (w0 w w' : world) evs : log w' = log w -> logged w0 w evs -> logged w0 w' evs.
Proof. unfold logged. intros -> H. exact H. Qed.

Lemma logged_app (w0 w1 w2 : world) e1 e2 : logged w0 w1 e1 -> logged w1 w2 e2 -> logged w0 w2 (e1 ++ e2).
Proof. unfold logged. intros H1 H2. rewrite H2, H1, app_assoc. reflexivity. Qed.

(* ---- 1. keep_value ---- *)
Lemma keep_value_lawful e w :
  wp (keep_value E e)
     (fun r w' => self w' = self w /\ r = option_map snd e /\
                  logged w w' (match e with Some (k', _) => ev_drops (idK E k') | None => [] end))
     (fun _ => False) w.
Proof.
  destruct e as [[k' v']|]; unfold keep_value; cbn [option_map snd].
  - apply wp_bind. eapply wp_mono; [apply (drop_key_lawful E ck cq HL) | | intros ? []]; cbn beta.
    intros _ w1 [Hs Hlg]. apply wp_ret. split; [exact Hs|]. split; [reflexivity | exact Hlg].
  - apply wp_ret. split; [reflexivity|]. split; [reflexivity | apply logged_nil].
Qed.

(* ---- 2. insert ---- *)
Lemma insert_lawful k v w :
  WF (self w) ->
  wp (insert E debug k v)
     (fun r w' => WF (self w') /\ cap (self w') = cap (self w) /\
                  elems (self w') = fst (fst (l_insert ck (elems (self w)) k v false)) /\
                  r = option_map snd (snd (l_insert ck (elems (self w)) k v false)) /\
                  logged w w' (match snd (l_insert ck (elems (self w)) k v false) with
                               | Some (k', _) => ev_drops (idK E k') | None => [] end))
     (fun w' => self w' = self w /\ logged w w' (ev_drops (idV E v ++ idK E k)) /\
                find_idx ck (ck k) (elems (self w)) = None /\ len (self w) = cap (self w)) w.
Proof.
  intros Hw. unfold insert. apply wp_bind.
  eapply wp_mono; [apply (insert_ii_lawful E debug ck cq HL k v false w Hw) | | intros w' H; exact H]; cbn beta.
  intros [i e] w1 (Hw1 & Hc1 & Hl1 & Hins & _). cbn [fst snd] in Hins.
  eapply wp_mono; [apply keep_value_lawful | | intros ? []]; cbn beta.
  intros r w2 (Hs2 & Hr & Hlg). rewrite <- Hins. cbn [fst snd]. rewrite Hs2.
  split; [exact Hw1|]. split; [exact Hc1|]. split; [reflexivity|]. split; [exact Hr|].
  eapply logged_eq_l; [exact Hl1 | exact Hlg].
Qed.

(* ---- 3. insert_key_value ---- *)
Lemma insert_key_value_lawful k v w :
  WF (self w) ->
  wp (insert_key_value E debug k v)
     (fun r w' => WF (self w') /\ cap (self w') = cap (self w) /\ log w' = log w /\
                  elems (self w') = fst (fst (l_insert ck (elems (self w)) k v true)) /\
                  r = snd (l_insert ck (elems (self w)) k v true))
     (fun w' => self w' = self w /\ logged w w' (ev_drops (idV E v ++ idK E k)) /\
                find_idx ck (ck k) (elems (self w)) = None /\ len (self w) = cap (self w)) w.
Proof.
  intros Hw. unfold insert_key_value. apply wp_bind.
  eapply wp_mono; [apply (insert_ii_lawful E debug ck cq HL k v true w Hw) | | intros w' H; exact H]; cbn beta.
  intros [i e] w1 (Hw1 & Hc1 & Hl1 & Hins & _). cbn [fst snd] in Hins.
  apply wp_ret. rewrite <- Hins. cbn [fst snd].
  split; [exact Hw1|]. split; [exact Hc1|]. split; [exact Hl1|]. split; reflexivity.
Qed.

(* ---- 4. checked_insert ---- *)
Lemma insert_ii_for_full_lawful k v w :
  WF (self w) ->
  wp (insert_ii_for_full E k v false)
     (fun r w' =>
        match find_idx ck (ck k) (elems (self w)) with
        | Some i => exists k0 v0, nth_error (elems (self w)) i = Some (k0, v0) /\
                    r = Some (i, (k, v0)) /\ WF (self w') /\ cap (self w') = cap (self w) /\
                    log w' = log w /\ elems (self w') = upd (elems (self w)) i (k0, v)
        | None => r = None /\ self w' = self w /\ logged w w' (ev_drops (idV E v ++ idK E k))
        end)
     (fun _ => False) w.
Proof.
  intros Hw. unfold insert_ii_for_full. apply wp_bind. apply wp_on_unwind_nopanic.
  eapply wp_mono; [apply (scan_lawful ck (test_k E k) (ck k)); [apply (cls_test_k E ck cq HL) | exact Hw] | | intros w' []]; cbn beta.
  intros r w1 [[Hs1 Hl1] ->].
  destruct (find_idx ck (ck k) (elems (self w))) as [i|] eqn:Hf.
  - destruct (find_idx_inv ck (ck k) _ _ Hf) as [[p [Hp Hc]] _].
    destruct (elems_nth_slot _ _ _ Hw Hp) as [Hi Hsl]. destruct p as [k0 v0].
    assert (Hic : i < cap (self w)) by (apply live_lt_cap; eexists; exact Hsl).
    apply wp_bind. eapply wp_p_replace; [rewrite Hs1; exact Hsl|]. apply wp_ret. simp_w. rewrite Hs1.
    exists k0, v0. split; [exact Hp|]. split; [reflexivity|].
    split; [apply WF_set_slot_some; auto|]. split; [apply cap_set_slot|]. split; [exact Hl1|].
    rewrite elems_set_slot by auto. reflexivity.
  - apply wp_bind. eapply wp_mono; [apply (drop_args_lawful E ck cq HL) | | intros ? []]; cbn beta.
    intros _ w2 [Hs2 Hlg]. apply wp_ret. split; [reflexivity|]. split; [congruence|]. eapply logged_eq_l; [exact Hl1 | exact Hlg].
Qed.

Lemma checked_insert_lawful k v w :
  WF (self w) ->
  wp (checked_insert E debug k v)
     (fun r w' => WF (self w') /\ cap (self w') = cap (self w) /\
        match find_idx ck (ck k) (elems (self w)) with
        | Some _ => elems (self w') = fst (fst (l_insert ck (elems (self w)) k v false)) /\
                    r = Some (option_map snd (snd (l_insert ck (elems (self w)) k v false))) /\
                    logged w w' (ev_drops (idK E k))
        | None => if len (self w) <? cap (self w)
                  then elems (self w') = elems (self w) ++ [(k, v)] /\ r = Some None /\ log w' = log w
                  else elems (self w') = elems (self w) /\ self w' = self w /\ r = None /\
                       logged w w' (ev_drops (idV E v ++ idK E k))
        end)
     (fun _ => False) w.
Proof.
  intros Hw. unfold checked_insert.
  apply wp_bind. apply wp_get_len. apply wp_bind. apply wp_get_cap.
  destruct (Nat.ltb_spec (len (self w)) (cap (self w))) as [Hlt|Hge].
  - apply wp_bind.
    eapply wp_mono; [apply (insert_ii_lawful E debug ck cq HL k v false w Hw) | | ]; cbn beta.
    2:{ intros w' (_ & _ & _ & Hfull). lia. }
    intros [i e] w1 (Hw1 & Hc1 & Hl1 & Hins & _). cbn [fst snd] in Hins.
    apply wp_bind. eapply wp_mono; [apply keep_value_lawful | | intros ? []]; cbn beta.
    intros r w2 (Hs2 & Hr & Hlg). apply wp_ret. rewrite Hs2.
    split; [exact Hw1|]. split; [exact Hc1|].
    rewrite <- Hins. cbn [fst snd]. unfold l_insert in Hins.
    destruct (find_idx ck (ck k) (elems (self w))) as [x|] eqn:Hf.
    + destruct (find_idx_inv ck (ck k) _ _ Hf) as [[[k0 v0] [Hp _]] _]. rewrite Hp in Hins.
      injection Hins as He Hi Hee. subst e.
      split; [reflexivity|]. split; [rewrite Hr; reflexivity|].
      eapply logged_eq_l; [exact Hl1 | exact Hlg].
    + injection Hins as He Hi Hee. subst e. cbn [option_map] in Hr.
      split; [exact He|]. split; [rewrite Hr; reflexivity|].
      unfold logged in Hlg. rewrite Hlg, app_nil_r. exact Hl1.
  - apply wp_bind.
    eapply wp_mono; [apply (insert_ii_for_full_lawful k v w Hw) | | intros ? []]; cbn beta.
    intros r w1 Hr. unfold l_insert.
    destruct (find_idx ck (ck k) (elems (self w))) as [x|] eqn:Hf.
    + destruct Hr as (k0 & v0 & Hp & -> & Hw1 & Hc1 & Hl1 & He). rewrite Hp. cbn [fst snd option_map].
      apply wp_bind. eapply wp_mono; [apply (drop_key_lawful E ck cq HL) | | intros ? []]; cbn beta.
      intros _ w2 [Hs2 Hlg]. apply wp_ret. rewrite Hs2.
      split; [exact Hw1|]. split; [exact Hc1|]. split; [exact He|]. split; [reflexivity|].
      eapply logged_eq_l; [exact Hl1 | exact Hlg].
    + destruct Hr as (-> & Hs1 & Hlg). apply wp_ret. rewrite Hs1.
      split; [exact Hw|]. split; [reflexivity|]. split; [reflexivity|]. split; [reflexivity|].
      split; [reflexivity | exact Hlg].
Qed.

(* ---- 5. remove ---- *)
Lemma remove_lawful q w :
  WF (self w) ->
  wp (remove E debug q)
     (fun r w' => WF (self w') /\ cap (self w') = cap (self w) /\
                  elems (self w') = fst (l_remove ck (elems (self w)) (cq q)) /\
                  r = option_map snd (snd (l_remove ck (elems (self w)) (cq q))) /\
                  logged w w' (match snd (l_remove ck (elems (self w)) (cq q)) with
                               | Some (k', _) => ev_drops (idK E k') | None => [] end))
     (fun _ => False) w.
Proof.
  intros Hw. unfold remove. apply wp_bind.
  eapply wp_mono; [apply (scan_lawful ck (test_q E q) (cq q)); [apply (cls_test_q E ck cq HL) | exact Hw] | | intros w' []]; cbn beta.
  intros r w1 [[Hs1 Hl1] ->]. unfold l_remove.
  destruct (find_idx ck (cq q) (elems (self w))) as [i|] eqn:Hf; cbn [fst snd].
  - pose proof (find_idx_lt ck _ _ _ Hf) as Hi. rewrite (elems_length _ Hw) in Hi.
    apply wp_bind.
    eapply wp_mono; [apply (remove_index_read_elems debug i w1); rewrite Hs1; assumption | | intros ? []]; cbn beta.
    intros p w2 (Hw2 & Hc2 & Hl2 & _ & Hp & He). rewrite Hs1 in *.
    apply wp_bind. eapply wp_mono; [apply (drop_key_lawful E ck cq HL) | | intros ? []]; cbn beta.
    intros _ w3 [Hs3 Hlg]. apply wp_ret. rewrite Hs3, Hp. destruct p as [k0 v0]. cbn [fst snd option_map] in *.
    split; [exact Hw2|]. split; [exact Hc2|]. split; [exact He|]. split; [reflexivity|].
    eapply logged_eq_l; [|exact Hlg]. congruence.
  - apply wp_ret. rewrite Hs1. cbn [option_map].
    split; [exact Hw|]. split; [reflexivity|]. split; [reflexivity|]. split; [reflexivity|].
    eapply logged_eq_r; [exact Hl1 | apply logged_nil].
Qed.

(* ---- 6. remove_entry ---- *)
Lemma remove_entry_lawful q w :
  WF (self w) ->
  wp (remove_entry E debug q)
     (fun r w' => WF (self w') /\ cap (self w') = cap (self w) /\ log w' = log w /\
                  elems (self w') = fst (l_remove ck (elems (self w)) (cq q)) /\
                  r = snd (l_remove ck (elems (self w)) (cq q)))
     (fun _ => False) w.
Proof.
  intros Hw. unfold remove_entry. apply wp_bind.
  eapply wp_mono; [apply (scan_lawful ck (test_q E q) (cq q)); [apply (cls_test_q E ck cq HL) | exact Hw] | | intros w' []]; cbn beta.
  intros r w1 [[Hs1 Hl1] ->]. unfold l_remove.
  destruct (find_idx ck (cq q) (elems (self w))) as [i|] eqn:Hf; cbn [fst snd].
  - pose proof (find_idx_lt ck _ _ _ Hf) as Hi. rewrite (elems_length _ Hw) in Hi.
    apply wp_bind.
    eapply wp_mono; [apply (remove_index_read_elems debug i w1); rewrite Hs1; assumption | | intros ? []]; cbn beta.
    intros p w2 (Hw2 & Hc2 & Hl2 & _ & Hp & He). rewrite Hs1 in *.
    apply wp_ret. rewrite Hp.
    split; [exact Hw2|]. split; [exact Hc2|]. split; [congruence|]. split; [exact He | reflexivity].
  - apply wp_ret. rewrite Hs1.
    split; [exact Hw|]. split; [reflexivity|]. split; [exact Hl1|]. split; reflexivity.
Qed.

(* ---- 7. drop_range ---- *)
Lemma skipn_upd_lt {A} (l : list A) i j x : i < j -> skipn j (upd l i x) = skipn j l.
Proof.
  revert i j; induction l as [|h t IH]; intros i j H; [reflexivity|].
  destruct j as [|j]; [lia|]. destruct i as [|i]; cbn [upd skipn]; [reflexivity | apply IH; lia].
Qed.

Lemma take_live_skipn_S (sl : list (option kv)) i n p :
  nth_error sl i = Some (Some p) ->
  take_live (skipn i sl) (S n) = p :: take_live (skipn (S i) sl) n.
Proof.
  revert i; induction sl as [|a t IH]; intros i H; [destruct i; discriminate|].
  destruct i as [|i]; cbn [nth_error] in H.
  - injection H as ->. reflexivity.
  - change (skipn (S i) (a :: t)) with (skipn i t).
    change (skipn (S (S i)) (a :: t)) with (skipn (S i) t). apply IH; exact H.
Qed.

Lemma drop_range_lawful n i w :
  (forall j, i <= j < i + n -> live (self w) j) ->
  wp (drop_range E n i)
     (fun _ w' => len (self w') = len (self w) /\ cap (self w') = cap (self w) /\
                  (forall j, j < i \/ i + n <= j -> nth_error (slots (self w')) j = nth_error (slots (self w)) j) /\
                  (forall j, i <= j < i + n -> nth_error (slots (self w')) j = Some None) /\
                  logged w w' (flat_map (fun p : kv => ev_drops (idK E (fst p) ++ idV E (snd p)))
                                        (take_live (skipn i (slots (self w))) n)))
     (fun _ => False) w.
Proof.
  revert i w; induction n as [|n IH]; intros i w Hl.
  - cbn [drop_range]. apply wp_ret. split; [reflexivity|]. split; [reflexivity|].
    split; [intros j _; reflexivity|]. split; [intros j Hj; lia|].
    cbn [take_live flat_map]. apply logged_nil.
  - cbn [drop_range]. apply wp_bind. unfold p_drop. apply wp_bind.
    destruct (Hl i ltac:(lia)) as [p Hp].
    eapply wp_p_read; [exact Hp|].
    set (w1 := with_self w (set_slot_m (self w) i None)).
    eapply wp_mono; [apply (drop_pair_lawful E ck cq HL) | | intros ? []]; cbn beta.
    intros _ w2 [Hs2 Hlg2].
    eapply wp_mono; [apply (IH (S i) w2) | | intros ? []]; cbn beta.
    + intros j Hj. rewrite Hs2. unfold w1; simp_w. apply live_set_slot_neq; [lia | apply Hl; lia].
    + intros _ w3 (Hlen & Hcap & Hout & Hin & Hlg3). rewrite Hs2 in *. unfold w1 in *; simp_w.
      split; [exact Hlen|]. split; [rewrite Hcap; apply cap_set_slot|].
      split; [|split].
      * intros j Hj. rewrite Hout by lia. apply nth_error_upd_neq. lia.
      * intros j Hj. destruct (Nat.eq_dec j i) as [->|Hne].
        -- rewrite Hout by lia. apply nth_error_upd_eq.
           apply nth_error_Some. rewrite Hp. discriminate.
        -- apply Hin. lia.
      * rewrite (take_live_skipn_S _ i n p Hp). cbn [flat_map].
        eapply logged_app; [exact Hlg2|].
        rewrite skipn_upd_lt in Hlg3 by lia. exact Hlg3.
Qed.

(* ---- 8. clear / Drop for Map ---- *)
Lemma clear_lawful w :
  WF (self w) ->
  wp (clear E)
     (fun _ w' => WF (self w') /\ cap (self w') = cap (self w) /\ len (self w') = 0 /\ elems (self w') = [] /\
                  logged w w' (flat_map (fun p : kv => ev_drops (idK E (fst p) ++ idV E (snd p))) (elems (self w))))
     (fun _ => False) w.
Proof.
  intros Hw. pose proof Hw as [Hle Hlv]. unfold clear.
  apply wp_bind. apply wp_get_len. apply wp_bind. apply wp_set_len.
  eapply wp_mono; [apply drop_range_lawful | | intros ? []]; cbn beta.
  - intros j Hj. simp_w. apply live_set_len. apply Hlv. lia.
  - intros _ w' (Hlen & Hcap & _ & _ & Hlg). simp_w.
    split; [split; [lia | intros j Hj; lia]|].
    split; [exact Hcap|]. split; [exact Hlen|].
    split; [unfold elems; rewrite Hlen; reflexivity|].
    unfold logged in *; simp_w. exact Hlg.
Qed.

Lemma drop_map_lawful w :
  WF (self w) ->
  wp (drop_map E)
     (fun _ w' => logged w w' (flat_map (fun p : kv => ev_drops (idK E (fst p) ++ idV E (snd p))) (elems (self w))))
     (fun _ => False) w.
Proof.
  intros Hw. pose proof Hw as [Hle Hlv]. unfold drop_map.
  apply wp_bind. apply wp_get_len.
  eapply wp_mono; [apply drop_range_lawful | | intros ? []]; cbn beta.
  - intros j Hj. apply Hlv. lia.
  - intros _ w' (_ & _ & _ & _ & Hlg). exact Hlg.
Qed.

(* ---- 9. retain with a lawful predicate ---- *)
Fixpoint l_retain (g : K -> V -> bool * V) (fuel i : nat) (l : list kv) : list kv :=
  match fuel with
  | 0 => l
  | S f => match nth_error l i with
           | None => l
           | Some (k, v) => let '(keep, v') := g k v in
                            if keep then l_retain g f (S i) (upd l i (k, v'))
                            else l_retain g f i (swap_remove (upd l i (k, v')) i)
           end
  end.

Lemma removelast_length' {A} (l : list A) : length (removelast l) = length l - 1.
Proof.
  induction l as [|a t IH]; [reflexivity|]. destruct t as [|b t']; [reflexivity|].
  change (removelast (a :: b :: t')) with (a :: removelast (b :: t')).
  cbn [length] in *. rewrite IH. lia.
Qed.

Lemma swap_remove_length (l : list kv) i : l <> [] -> length (swap_remove l i) = length l - 1.
Proof.
  intros Hne. unfold swap_remove. destruct (nth_error l (length l - 1)) eqn:H.
  - destruct (i =? length l - 1); [|rewrite upd_length]; apply removelast_length'.
  - apply nth_error_None in H. destruct l; [congruence | cbn [length] in H; lia].
Qed.

Lemma wp_call_pred (f : pred_t) i k v b v' (Qn : bool -> world -> Prop) (Qp : world -> Prop) w :
  nth_error (slots (self w)) i = Some (Some (k, v)) ->
  fst (f (cb w) k v) = (Some b, v') ->
  Qn b {| cb := snd (f (cb w) k v); log := log w ++ [EvCall 0];
          self := set_slot_m (self w) i (Some (k, v')) |} ->
  wp (call_pred f i) Qn Qp w.
Proof.
  intros Hp Hf HQ. unfold call_pred. apply wp_bind. eapply wp_p_ref; [exact Hp|].
  unfold wp. cbn [fst snd]. destruct (f (cb w) k v) as [[r v''] s]. cbn [fst snd] in *.
  injection Hf as -> ->. exact HQ.
Qed.

Lemma retain_loop_lawful (f : pred_t) g :
  (forall s k v, fst (f s k v) = (Some (fst (g k v)), snd (g k v))) ->
  forall fuel i w, WF (self w) -> len (self w) - i <= fuel ->
  wp (retain_loop E debug f fuel i)
     (fun _ w' => WF (self w') /\ cap (self w') = cap (self w) /\
                  elems (self w') = l_retain g fuel i (elems (self w)))
     (fun _ => False) w.
Proof.
  intros Hf. induction fuel as [|fuel IH]; intros i w Hw Hfu.
  - cbn [retain_loop]. apply wp_bind. apply wp_get_len.
    destruct (Nat.ltb_spec i (len (self w))) as [Hi|Hi]; [lia|].
    apply wp_ret. cbn [l_retain]. split; [exact Hw|]. split; reflexivity.
  - cbn [retain_loop]. apply wp_bind. apply wp_get_len.
    destruct (Nat.ltb_spec i (len (self w))) as [Hi|Hi].
    + destruct (WF_live _ _ Hw Hi) as [[k v] Hp].
      assert (Hpe : nth_error (elems (self w)) i = Some (k, v)) by (apply elems_nth; auto).
      assert (Hic : i < cap (self w)) by (apply live_lt_cap; eexists; exact Hp).
      cbn [l_retain]. rewrite Hpe. pose proof (Hf (cb w) k v) as Hfk.
      destruct (g k v) as [keep v'] eqn:Hg. cbn [fst snd] in Hfk.
      apply wp_bind. eapply wp_call_pred; [exact Hp | exact Hfk |].
      set (w1 := {| cb := snd (f (cb w) k v); log := log w ++ [EvCall 0];
                    self := set_slot_m (self w) i (Some (k, v')) |}).
      assert (Hw1 : WF (self w1)) by (unfold w1; simp_w; apply WF_set_slot_some; auto).
      assert (He1 : elems (self w1) = upd (elems (self w)) i (k, v'))
        by (unfold w1; simp_w; apply elems_set_slot; auto).
      assert (Hc1 : cap (self w1) = cap (self w)) by (unfold w1; simp_w; apply cap_set_slot).
      assert (Hn1 : len (self w1) = len (self w)) by reflexivity.
      clearbody w1.
      destruct keep.
      * eapply wp_mono; [apply (IH (S i) w1 Hw1) | | intros ? []]; cbn beta; [lia|].
        intros _ w' (Hw' & Hc' & He'). split; [exact Hw'|]. split; [congruence|].
        rewrite He', He1. reflexivity.
      * apply wp_bind. unfold remove_index_drop. apply wp_bind.
        eapply wp_mono; [apply (remove_index_read_elems debug i w1 Hw1); lia | | intros ? []]; cbn beta.
        intros p w2 (Hw2 & Hc2 & _ & _ & _ & He2).
        eapply wp_mono; [apply (drop_pair_lawful E ck cq HL) | | intros ? []]; cbn beta.
        intros _ w3 [Hs3 _].
        assert (Hn3 : len (self w3) = len (self w) - 1).
        { rewrite Hs3. rewrite <- (elems_length _ Hw2), He2, swap_remove_length.
          - rewrite (elems_length _ Hw1). lia.
          - intros Hnil. pose proof (elems_length _ Hw1) as Hx. rewrite Hnil in Hx. cbn [length] in Hx. lia. }
        eapply wp_mono; [apply (IH i w3) | | intros ? []]; cbn beta.
        -- rewrite Hs3. exact Hw2.
        -- lia.
        -- intros _ w' (Hw' & Hc' & He'). split; [exact Hw'|]. split; [congruence|].
           rewrite He', Hs3, He2, He1. reflexivity.
    + apply wp_ret. cbn [l_retain].
      assert (Hnone : nth_error (elems (self w)) i = None).
      { apply nth_error_None. rewrite (elems_length _ Hw). exact Hi. }
      rewrite Hnone. split; [exact Hw|]. split; reflexivity.
Qed.

Lemma retain_lawful (f : pred_t) g w :
  (forall s k v, fst (f s k v) = (Some (fst (g k v)), snd (g k v))) ->
  WF (self w) ->
  wp (retain E debug f)
     (fun _ w' => WF (self w') /\ cap (self w') = cap (self w) /\
                  elems (self w') = l_retain g (length (elems (self w))) 0 (elems (self w)))
     (fun _ => False) w.
Proof.
  intros Hf Hw. unfold retain. apply wp_bind. apply wp_get_len.
  rewrite (elems_length _ Hw).
  apply (retain_loop_lawful f g Hf); [exact Hw | lia].
Qed.

End Lawful3.
