(* SetDict.v — property C07: for every history of Set operations the container
   answers, and afterwards contains, exactly what an ideal finite set of the
   same capacity does.  Set<T,N> is Map<T,(),N>: everything is obtained from
   the Map facts (Lawful*.v, Dict.v) at V = unit.  Both build profiles
   ([debug] is a section variable), every capacity. *)
Require Import Model.Base Model.Slots Model.MapOps Model.SetOps Proofs.Hoare Proofs.Inv Proofs.Safety Proofs.Safety2 Proofs.Safety3 Proofs.Spec Proofs.Lawful Proofs.Lawful2 Proofs.Lawful3 Proofs.Dict Proofs.Bulk.
From Coq Require Import Permutation.

Section SetDict.
Context {K Q T : Type} (E : env K unit Q T) (debug : bool).
Context (ck : K -> N) (cq : Q -> N) (HL : Lawful E ck cq).
Notation M := (M K unit T). Notation world := (world K unit T). Notation smap := (map K unit). Notation kv := (K * unit)%type.

(* ======================================================================== *)
(* 1. Every Set method computes the list-machine function on [elems].        *)

Lemma s_insert_lawful k w :
  WF (self w) ->
  wp (s_insert E debug k)
     (fun r w' => WF (self w') /\ cap (self w') = cap (self w) /\
                  r = (match find_idx ck (ck k) (elems (self w)) with Some _ => false | None => true end) /\
                  elems (self w') = (match find_idx ck (ck k) (elems (self w)) with
                                     | Some _ => elems (self w)
                                     | None => elems (self w) ++ [(k, tt)]
                                     end) /\
                  (find_idx ck (ck k) (elems (self w)) = None -> len (self w) < cap (self w)))
     (fun w' => self w' = self w /\ logged w w' (ev_drops (idV E tt ++ idK E k)) /\
                find_idx ck (ck k) (elems (self w)) = None /\ len (self w) = cap (self w)) w.
Proof.
  intros Hw. unfold s_insert. apply wp_bind.
  eapply wp_mono; [apply (insert_lawful E debug ck cq HL k tt w Hw) | | intros w' H; exact H]; cbn beta.
  intros r w' (Hw' & Hc' & He & Hr & _). apply wp_ret.
  split; [exact Hw'|]. split; [exact Hc'|].
  unfold l_insert in He, Hr.
  destruct (find_idx ck (ck k) (elems (self w))) as [i|] eqn:Hf.
  - destruct (find_idx_inv ck _ _ _ Hf) as [[[k0 []] [Hp _]] _]. rewrite Hp in He, Hr.
    cbn [fst snd option_map] in He, Hr. subst r.
    split; [reflexivity|]. split; [|discriminate].
    rewrite He. apply d_upd_same. exact Hp.
  - cbn [fst snd option_map] in He, Hr. subst r.
    split; [reflexivity|]. split; [exact He|]. intros _.
    pose proof (elems_length _ Hw') as Hl. rewrite He, app_length in Hl. cbn [length] in Hl.
    rewrite (elems_length _ Hw) in Hl. pose proof (WF_len_le_cap _ Hw'). lia.
Qed.

Lemma s_replace_lawful k w :
  WF (self w) ->
  wp (s_replace E debug k)
     (fun r w' => WF (self w') /\ cap (self w') = cap (self w) /\ log w' = log w /\
                  r = option_map fst (lookup ck (elems (self w)) (ck k)) /\
                  elems (self w') = (match find_idx ck (ck k) (elems (self w)) with
                                     | Some i => upd (elems (self w)) i (k, tt)
                                     | None => elems (self w) ++ [(k, tt)]
                                     end) /\
                  (find_idx ck (ck k) (elems (self w)) = None -> len (self w) < cap (self w)))
     (fun w' => self w' = self w /\ logged w w' (ev_drops (idV E tt ++ idK E k)) /\
                find_idx ck (ck k) (elems (self w)) = None /\ len (self w) = cap (self w)) w.
Proof.
  intros Hw. unfold s_replace. apply wp_bind.
  eapply wp_mono; [apply (insert_ii_lawful E debug ck cq HL k tt true w Hw) | | intros w' H; exact H]; cbn beta.
  intros [i e] w' (Hw' & Hc' & Hl' & Hins & Hfull). cbn [fst snd] in Hins. apply wp_ret.
  split; [exact Hw'|]. split; [exact Hc'|]. split; [exact Hl'|].
  unfold l_insert in Hins. unfold lookup.
  destruct (find_idx ck (ck k) (elems (self w))) as [x|] eqn:Hf.
  - destruct (find_idx_inv ck _ _ _ Hf) as [[[k0 []] [Hp _]] _]. rewrite Hp in Hins |- *.
    injection Hins as He Hi Hee. subst e.
    split; [reflexivity|]. split; [exact He | discriminate].
  - injection Hins as He Hi Hee. subst e.
    split; [reflexivity|]. split; [exact He | exact Hfull].
Qed.

Lemma s_contains_lawful q w :
  WF (self w) ->
  wp (s_contains E q)
     (fun r w' => stable w w' /\
                  r = match find_idx ck (cq q) (elems (self w)) with Some _ => true | None => false end)
     (fun _ => False) w.
Proof. intros Hw. unfold s_contains. apply (contains_key_lawful E ck cq HL q w Hw). Qed.

Lemma s_get_lawful q w :
  WF (self w) ->
  wp (s_get E q) (fun r w' => stable w w' /\ r = find_idx ck (cq q) (elems (self w))) (fun _ => False) w.
Proof. intros Hw. unfold s_get. apply (get_key_value_lawful E ck cq HL q w Hw). Qed.

Lemma s_remove_lawful q w :
  WF (self w) ->
  wp (s_remove E debug q)
     (fun r w' => WF (self w') /\ cap (self w') = cap (self w) /\
                  r = (match find_idx ck (cq q) (elems (self w)) with Some _ => true | None => false end) /\
                  elems (self w') = fst (l_remove ck (elems (self w)) (cq q)))
     (fun _ => False) w.
Proof.
  intros Hw. unfold s_remove. apply wp_bind.
  eapply wp_mono; [apply (remove_lawful E debug ck cq HL q w Hw) | | intros ? []]; cbn beta.
  intros r w' (Hw' & Hc' & He & Hr & _). apply wp_ret.
  split; [exact Hw'|]. split; [exact Hc'|]. split; [|exact He].
  subst r. unfold l_remove.
  destruct (find_idx ck (cq q) (elems (self w))) as [i|] eqn:Hf; cbn [snd]; [|reflexivity].
  destruct (find_idx_inv ck _ _ _ Hf) as [[p [Hp _]] _]. rewrite Hp. reflexivity.
Qed.

Lemma s_take_lawful q w :
  WF (self w) ->
  wp (s_take E debug q)
     (fun r w' => WF (self w') /\ cap (self w') = cap (self w) /\ log w' = log w /\
                  r = option_map fst (snd (l_remove ck (elems (self w)) (cq q))) /\
                  elems (self w') = fst (l_remove ck (elems (self w)) (cq q)))
     (fun _ => False) w.
Proof.
  intros Hw. unfold s_take. apply wp_bind.
  eapply wp_mono; [apply (remove_entry_lawful E debug ck cq HL q w Hw) | | intros ? []]; cbn beta.
  intros r w' (Hw' & Hc' & Hl' & He & Hr). apply wp_ret. subst r.
  split; [exact Hw'|]. split; [exact Hc'|]. split; [exact Hl'|]. split; [reflexivity | exact He].
Qed.

Lemma s_clear_lawful w :
  WF (self w) ->
  wp (s_clear E)
     (fun _ w' => WF (self w') /\ cap (self w') = cap (self w) /\ len (self w') = 0 /\ elems (self w') = [])
     (fun _ => False) w.
Proof.
  intros Hw. unfold s_clear.
  eapply wp_mono; [apply (clear_lawful E ck cq HL w Hw) | | intros ? []]; cbn beta.
  intros _ w' (Hw' & Hc' & Hn & He & _). auto.
Qed.

Lemma s_retain_lawful (f : T -> K -> option bool * T) (g : K -> bool) w :
  (forall s k, fst (f s k) = Some (g k)) ->
  WF (self w) ->
  wp (s_retain E debug f)
     (fun _ w' => WF (self w') /\ cap (self w') = cap (self w) /\
                  elems (self w') = l_retain (fun k _ => (g k, tt)) (length (elems (self w))) 0 (elems (self w)))
     (fun _ => False) w.
Proof.
  intros Hf Hw. unfold s_retain.
  apply (retain_lawful E debug ck cq HL
           (fun s k u => let '(r, s') := f s k in ((r, u), s')) (fun k _ => (g k, tt)) w); [|exact Hw].
  intros s k []. cbn [fst snd]. pose proof (Hf s k) as H.
  destruct (f s k) as [r s']. cbn [fst] in H |- *. rewrite H. reflexivity.
Qed.

(* ======================================================================== *)
(* 2. The ideal set: a duplicate-free list of elements, observed up to order. *)

Definition fset := list K.
Definition f_mem (s : fset) (c : N) : option K := find (fun k => N.eqb (ck k) c) s.
Definition f_del (s : fset) (c : N) : fset := filter (fun k => negb (N.eqb (ck k) c)) s.

Inductive sop :=
| SoInsert (k : K) | SoReplace (k : K) | SoContains (q : Q) | SoGet (q : Q)
| SoRemove (q : Q) | SoTake (q : Q) | SoRetain (g : K -> bool) | SoClear | SoExtend (items : list K).

Inductive sres := SBool (b : bool) | SNone | SElem (k : K) | SUnit | SPanic.

(* one insertion; [n] is the capacity *)
Definition f_insert (n : nat) (k : K) (s : fset) : sres * fset :=
  match f_mem s (ck k) with
  | Some _ => (SBool false, s)
  | None => if length s <? n then (SBool true, s ++ [k]) else (SPanic, s)
  end.

(* extend = insert the items one by one; the first overflow stops the loop
   with the set as it is at that point *)
Fixpoint f_extend (n : nat) (items : list K) (s : fset) : sres * fset :=
  match items with
  | [] => (SUnit, s)
  | k :: rest =>
      let '(r, s') := f_insert n k s in
      match r with SPanic => (SPanic, s') | _ => f_extend n rest s' end
  end.

Definition fstep (n : nat) (o : sop) (s : fset) : sres * fset :=
  match o with
  | SoInsert k => f_insert n k s
  | SoReplace k =>
      match f_mem s (ck k) with
      | Some k0 => (SElem k0, List.map (fun x => if N.eqb (ck x) (ck k) then k else x) s)
      | None => if length s <? n then (SNone, s ++ [k]) else (SPanic, s)
      end
  | SoContains q => (SBool (match f_mem s (cq q) with Some _ => true | None => false end), s)
  | SoGet q => match f_mem s (cq q) with Some k0 => (SElem k0, s) | None => (SNone, s) end
  | SoRemove q => (SBool (match f_mem s (cq q) with Some _ => true | None => false end), f_del s (cq q))
  | SoTake q => match f_mem s (cq q) with Some k0 => (SElem k0, f_del s (cq q)) | None => (SNone, s) end
  | SoRetain g => (SUnit, filter g s)
  | SoClear => (SUnit, [])
  | SoExtend items => f_extend n items s
  end.

(* the unfolded form of f_extend given in the task *)
Lemma f_extend_cons n k rest s :
  f_extend n (k :: rest) s =
  match f_mem s (ck k) with
  | Some _ => f_extend n rest s
  | None => if length s <? n then f_extend n rest (s ++ [k]) else (SPanic, s)
  end.
Proof.
  cbn [f_extend]. unfold f_insert. destruct (f_mem s (ck k)); [reflexivity|].
  destruct (length s <? n); reflexivity.
Qed.

(* extend either completes or stops at an overflowing insertion; in the latter
   case its state is the one reached by inserting the items before the failing
   one, and that item indeed does not fit *)
Lemma f_extend_result n items : forall s,
  fst (f_extend n items s) = SUnit \/ fst (f_extend n items s) = SPanic.
Proof.
  induction items as [|k rest IH]; intros s; [left; reflexivity|].
  rewrite f_extend_cons. destruct (f_mem s (ck k)); [apply IH|].
  destruct (length s <? n); [apply IH | right; reflexivity].
Qed.

Lemma f_extend_panic_inv n items : forall s s',
  f_extend n items s = (SPanic, s') ->
  exists pre k post, items = pre ++ k :: post /\ f_extend n pre s = (SUnit, s') /\
                     f_insert n k s' = (SPanic, s').
Proof.
  induction items as [|k rest IH]; intros s s' H; [cbn [f_extend] in H; discriminate|].
  rewrite f_extend_cons in H. destruct (f_mem s (ck k)) as [k0|] eqn:Hm.
  - destruct (IH s s' H) as (pre & k' & post & -> & Hpre & Hk). exists (k :: pre), k', post.
    split; [reflexivity|]. split; [|exact Hk]. rewrite f_extend_cons, Hm. exact Hpre.
  - destruct (length s <? n) eqn:Hl.
    + destruct (IH (s ++ [k]) s' H) as (pre & k' & post & -> & Hpre & Hk). exists (k :: pre), k', post.
      split; [reflexivity|]. split; [|exact Hk]. rewrite f_extend_cons, Hm, Hl. exact Hpre.
    + injection H as <-. exists [], k, rest. split; [reflexivity|]. split; [reflexivity|].
      unfold f_insert. rewrite Hm, Hl. reflexivity.
Qed.

(* membership in the ideal set after an insertion / a deletion *)
Lemma f_mem_app s k c :
  f_mem (s ++ [k]) c = match f_mem s c with Some k0 => Some k0 | None => if N.eqb (ck k) c then Some k else None end.
Proof.
  unfold f_mem. induction s as [|h t IH]; cbn [app find]; [reflexivity|].
  destruct (N.eqb (ck h) c); [reflexivity | exact IH].
Qed.

Lemma f_mem_del s c c' : f_mem (f_del s c) c' = if N.eqb c c' then None else f_mem s c'.
Proof.
  unfold f_mem, f_del. induction s as [|h t IH]; cbn [filter find]; [destruct (N.eqb c c'); reflexivity|].
  destruct (N.eqb_spec (ck h) c) as [Hc|Hc]; cbn [negb find].
  - rewrite IH. destruct (N.eqb_spec c c') as [Hcc|Hcc]; [reflexivity|].
    destruct (N.eqb_spec (ck h) c'); [congruence | reflexivity].
  - rewrite IH. destruct (N.eqb_spec (ck h) c') as [Hh|Hh]; [|reflexivity].
    destruct (N.eqb_spec c c'); [congruence | reflexivity].
Qed.

(* the source iterator of extend: never panics *)
Definition nx0 : T -> ans * T := fun s => (No, s).

(* the model side, built from the SetOps functions *)
Definition sstep (o : sop) : M sres :=
  match o with
  | SoInsert k => b <- s_insert E debug k ;; ret (SBool b)
  | SoReplace k => r <- s_replace E debug k ;; ret (match r with Some k0 => SElem k0 | None => SNone end)
  | SoContains q => b <- s_contains E q ;; ret (SBool b)
  | SoGet q => r <- s_get E q ;; match r with None => ret SNone | Some i => p <- p_ref i ;; ret (SElem (fst p)) end
  | SoRemove q => b <- s_remove E debug q ;; ret (SBool b)
  | SoTake q => r <- s_take E debug q ;; ret (match r with Some k0 => SElem k0 | None => SNone end)
  | SoRetain g => s_retain E debug (fun s k => (Some (g k), s)) ;; ret SUnit
  | SoClear => s_clear E ;; ret SUnit
  | SoExtend items => s_extend E debug nx0 items ;; ret SUnit
  end.

(* the abstraction relation *)
Definition SAbs (m : smap) (s : fset) : Prop :=
  WF m /\ Uniq ck (elems m) /\ Permutation (List.map fst (elems m)) s.

(* ======================================================================== *)
(* Pure facts: an ideal set is an ideal dictionary with values in unit.      *)

Definition inj (k : K) : kv := (k, tt).

Lemma inj_fst (l : list kv) : List.map inj (List.map fst l) = l.
Proof. induction l as [|[k []] t IH]; cbn [List.map fst]; [reflexivity|]. unfold inj at 1. rewrite IH. reflexivity. Qed.

Lemma fst_inj (s : fset) : List.map fst (List.map inj s) = s.
Proof. induction s as [|k t IH]; cbn [List.map fst inj]; [reflexivity | rewrite IH; reflexivity]. Qed.

Lemma sp_lift (l : list kv) s : Permutation (List.map fst l) s -> Permutation l (List.map inj s).
Proof. intros H. rewrite <- (inj_fst l). apply Permutation_map. exact H. Qed.

Lemma sp_unlift (l : list kv) s : Permutation l (List.map inj s) -> Permutation (List.map fst l) s.
Proof. intros H. rewrite <- (fst_inj s). apply Permutation_map. exact H. Qed.

Lemma f_mem_inj s c : d_find ck (List.map inj s) c = option_map inj (f_mem s c).
Proof.
  induction s as [|k t IH]; [reflexivity|]. unfold d_find, f_mem in *. cbn [List.map find inj fst].
  destruct (N.eqb (ck k) c); [reflexivity | exact IH].
Qed.

Lemma f_del_inj s c : d_del ck (List.map inj s) c = List.map inj (f_del s c).
Proof.
  induction s as [|k t IH]; [reflexivity|]. unfold d_del, f_del in *. cbn [List.map filter inj fst].
  destruct (N.eqb (ck k) c); cbn [negb List.map]; [exact IH | rewrite IH; reflexivity].
Qed.

Lemma f_set_inj s c k :
  d_set ck (List.map inj s) c (fun _ => inj k) = List.map inj (List.map (fun x => if N.eqb (ck x) c then k else x) s).
Proof.
  induction s as [|h t IH]; [reflexivity|]. unfold d_set in *. cbn [List.map inj fst].
  rewrite IH. destruct (N.eqb (ck h) c); reflexivity.
Qed.

Lemma f_keep_inj (g : K -> bool) s :
  flat_map (d_keep (fun k (_ : unit) => (g k, tt))) (List.map inj s) = List.map inj (filter g s).
Proof.
  induction s as [|h t IH]; [reflexivity|]. cbn [List.map flat_map filter]. rewrite IH.
  unfold d_keep, inj at 1. cbn [fst snd]. destruct (g h); reflexivity.
Qed.

(* what the scan finds is what the set holds *)
Lemma sp_some (l : list kv) s c i :
  Uniq ck l -> Permutation (List.map fst l) s -> find_idx ck c l = Some i ->
  exists k0, nth_error l i = Some (k0, tt) /\ ck k0 = c /\ f_mem s c = Some k0.
Proof.
  intros Hu Hp Hf. destruct (d_abs_some ck l _ c i Hu (sp_lift l s Hp) Hf) as ([k0 []] & Hpi & Hpc & Hd).
  exists k0. split; [exact Hpi|]. split; [exact Hpc|].
  rewrite f_mem_inj in Hd. destruct (f_mem s c) as [k1|]; cbn [option_map inj] in Hd; [|discriminate].
  injection Hd as ->. reflexivity.
Qed.

Lemma sp_none (l : list kv) s c :
  Uniq ck l -> Permutation (List.map fst l) s -> find_idx ck c l = None ->
  f_mem s c = None /\ forall p, In p l -> ck (fst p) <> c.
Proof.
  intros Hu Hp Hf. destruct (d_abs_none ck l _ c Hu (sp_lift l s Hp) Hf) as [Hd Hn].
  split; [|exact Hn]. rewrite f_mem_inj in Hd. destruct (f_mem s c); [discriminate | reflexivity].
Qed.

Lemma sp_set (l : list kv) s c i k0 k :
  Uniq ck l -> Permutation (List.map fst l) s -> nth_error l i = Some (k0, tt) -> ck k0 = c -> ck k = c ->
  Uniq ck (upd l i (k, tt)) /\
  Permutation (List.map fst (upd l i (k, tt))) (List.map (fun x => if N.eqb (ck x) c then k else x) s).
Proof.
  intros Hu Hp Hi Hc Hk.
  destruct (d_abs_set ck l _ c i (k0, tt) (fun _ => inj k) Hu (sp_lift l s Hp) Hi Hc Hk) as [Hu' Hp'].
  split; [exact Hu'|]. apply sp_unlift. rewrite <- f_set_inj. exact Hp'.
Qed.

Lemma sp_app (l : list kv) s k :
  Uniq ck l -> Permutation (List.map fst l) s -> (forall p, In p l -> ck (fst p) <> ck k) ->
  Uniq ck (l ++ [(k, tt)]) /\ Permutation (List.map fst (l ++ [(k, tt)])) (s ++ [k]).
Proof.
  intros Hu Hp Hn. destruct (d_abs_app ck l _ k tt Hu (sp_lift l s Hp) Hn) as [Hu' Hp'].
  split; [exact Hu'|]. apply sp_unlift. rewrite map_app. exact Hp'.
Qed.

Lemma sp_del (l : list kv) s c i p :
  Uniq ck l -> Permutation (List.map fst l) s -> nth_error l i = Some p -> ck (fst p) = c ->
  Uniq ck (swap_remove l i) /\ Permutation (List.map fst (swap_remove l i)) (f_del s c).
Proof.
  intros Hu Hp Hi Hc. destruct (d_abs_del ck l _ c i p Hu (sp_lift l s Hp) Hi Hc) as [Hu' Hp'].
  split; [exact Hu'|]. apply sp_unlift. rewrite <- f_del_inj. exact Hp'.
Qed.

Lemma sp_retain (g : K -> bool) (l : list kv) s :
  Uniq ck l -> Permutation (List.map fst l) s ->
  Uniq ck (l_retain (fun k _ => (g k, tt)) (length l) 0 l) /\
  Permutation (List.map fst (l_retain (fun k _ => (g k, tt)) (length l) 0 l)) (filter g s).
Proof.
  intros Hu Hp. destruct (d_abs_retain ck (fun k (_ : unit) => (g k, tt)) l _ Hu (sp_lift l s Hp)) as [Hu' Hp'].
  split; [exact Hu'|]. apply sp_unlift. rewrite <- f_keep_inj. exact Hp'.
Qed.

Lemma sabs_length (m : smap) s : SAbs m s -> length s = len m.
Proof.
  intros (Hw & _ & Hp). rewrite <- (Permutation_length Hp), map_length. apply elems_length. exact Hw.
Qed.

(* ======================================================================== *)
(* 3. One step of the container refines one step of the ideal set.           *)

Definition sstep_ok (n : nat) (o : sop) (s : fset) (r : sres) (w' : world) : Prop :=
  fst (fstep n o s) = r /\ SAbs (self w') (snd (fstep n o s)) /\ cap (self w') = n.

(* a panic happens exactly where the ideal set says so; the container then
   abstracts to the ideal set's state (for every operation but extend that is
   the state before the call, and the container is untouched) *)
Definition sstep_panic (n : nat) (o : sop) (s : fset) (w w' : world) : Prop :=
  fst (fstep n o s) = SPanic /\ SAbs (self w') (snd (fstep n o s)) /\ cap (self w') = n /\
  match o with SoExtend _ => True | _ => snd (fstep n o s) = s /\ self w' = self w end.

(* the core of insert, shared with extend *)
Lemma s_insert_abs n k w s :
  SAbs (self w) s -> cap (self w) = n ->
  wp (s_insert E debug k)
     (fun b w' => fst (f_insert n k s) = SBool b /\ SAbs (self w') (snd (f_insert n k s)) /\ cap (self w') = n)
     (fun w' => f_insert n k s = (SPanic, s) /\ self w' = self w) w.
Proof.
  intros Ha Hc. pose proof Ha as (Hw & Hu & Hp).
  eapply wp_mono; [apply (s_insert_lawful k w Hw) | |]; cbn beta.
  - intros r w' (Hw' & Hc' & Hr & He & Hfull). unfold f_insert.
    destruct (find_idx ck (ck k) (elems (self w))) as [i|] eqn:Hf.
    + destruct (sp_some _ _ _ _ Hu Hp Hf) as (k0 & _ & _ & Hd). rewrite Hd. cbn [fst snd]. subst r.
      split; [reflexivity|]. split; [|congruence]. split; [exact Hw'|]. rewrite He. split; assumption.
    + destruct (sp_none _ _ _ Hu Hp Hf) as [Hd Hn]. rewrite Hd.
      rewrite (sabs_length _ _ Ha). specialize (Hfull eq_refl).
      destruct (Nat.ltb_spec (len (self w)) n) as [_|Hge]; [|lia]. cbn [fst snd]. subst r.
      split; [reflexivity|]. split; [|congruence]. split; [exact Hw'|]. rewrite He.
      apply sp_app; assumption.
  - intros w' (Hs & _ & Hf & Hlen). split; [|exact Hs]. unfold f_insert.
    destruct (sp_none _ _ _ Hu Hp Hf) as [Hd _]. rewrite Hd. rewrite (sabs_length _ _ Ha).
    destruct (Nat.ltb_spec (len (self w)) n) as [Hlt|_]; [lia | reflexivity].
Qed.

Lemma sstep_insert n k w s :
  SAbs (self w) s -> cap (self w) = n ->
  wp (sstep (SoInsert k)) (sstep_ok n (SoInsert k) s) (sstep_panic n (SoInsert k) s w) w.
Proof.
  intros Ha Hc. cbn [sstep]. apply wp_bind.
  eapply wp_mono; [apply (s_insert_abs n k w s Ha Hc) | |]; cbn beta.
  - intros b w' (Hr & Ha' & Hc'). apply wp_ret. unfold sstep_ok. cbn [fstep]. auto.
  - intros w' [Hf Hs]. unfold sstep_panic. cbn [fstep]. rewrite Hf. cbn [fst snd]. rewrite Hs. auto.
Qed.

Lemma sstep_replace n k w s :
  SAbs (self w) s -> cap (self w) = n ->
  wp (sstep (SoReplace k)) (sstep_ok n (SoReplace k) s) (sstep_panic n (SoReplace k) s w) w.
Proof.
  intros Ha Hc. pose proof Ha as (Hw & Hu & Hp). cbn [sstep]. apply wp_bind.
  eapply wp_mono; [apply (s_replace_lawful k w Hw) | |]; cbn beta.
  - intros r w' (Hw' & Hc' & _ & Hr & He & Hfull). apply wp_ret. unfold sstep_ok. cbn [fstep].
    unfold lookup in Hr.
    destruct (find_idx ck (ck k) (elems (self w))) as [i|] eqn:Hf.
    + destruct (sp_some _ _ _ _ Hu Hp Hf) as (k0 & Hpi & Hpc & Hd). rewrite Hd.
      rewrite Hpi in Hr. cbn [option_map fst] in Hr. subst r. cbn [fst snd].
      split; [reflexivity|]. split; [|congruence]. split; [exact Hw'|]. rewrite He.
      apply (sp_set _ _ _ _ k0 k); auto.
    + destruct (sp_none _ _ _ Hu Hp Hf) as [Hd Hn]. rewrite Hd.
      rewrite (sabs_length _ _ Ha). specialize (Hfull eq_refl).
      destruct (Nat.ltb_spec (len (self w)) n) as [_|Hge]; [|lia]. cbn [fst snd option_map] in *. subst r.
      split; [reflexivity|]. split; [|congruence]. split; [exact Hw'|]. rewrite He.
      apply sp_app; assumption.
  - intros w' (Hs & _ & Hf & Hlen). unfold sstep_panic. cbn [fstep].
    destruct (sp_none _ _ _ Hu Hp Hf) as [Hd _]. rewrite Hd. rewrite (sabs_length _ _ Ha).
    destruct (Nat.ltb_spec (len (self w)) n) as [Hlt|_]; [lia|]. cbn [fst snd]. rewrite Hs. auto.
Qed.

Lemma sstep_contains n q w s :
  SAbs (self w) s -> cap (self w) = n ->
  wp (sstep (SoContains q)) (sstep_ok n (SoContains q) s) (sstep_panic n (SoContains q) s w) w.
Proof.
  intros Ha Hc. pose proof Ha as (Hw & Hu & Hp). cbn [sstep]. apply wp_bind.
  eapply wp_mono; [apply (s_contains_lawful q w Hw) | | intros ? []]; cbn beta.
  intros r w1 [[Hs1 _] ->]. apply wp_ret. unfold sstep_ok. cbn [fstep fst snd]. rewrite Hs1.
  split; [|split; [exact Ha | exact Hc]]. f_equal.
  destruct (find_idx ck (cq q) (elems (self w))) as [i|] eqn:Hf.
  - destruct (sp_some _ _ _ _ Hu Hp Hf) as (k0 & _ & _ & Hd). rewrite Hd. reflexivity.
  - destruct (sp_none _ _ _ Hu Hp Hf) as [Hd _]. rewrite Hd. reflexivity.
Qed.

Lemma sstep_get n q w s :
  SAbs (self w) s -> cap (self w) = n ->
  wp (sstep (SoGet q)) (sstep_ok n (SoGet q) s) (sstep_panic n (SoGet q) s w) w.
Proof.
  intros Ha Hc. pose proof Ha as (Hw & Hu & Hp). cbn [sstep]. apply wp_bind.
  eapply wp_mono; [apply (s_get_lawful q w Hw) | | intros ? []]; cbn beta.
  intros r w1 [[Hs1 _] ->]. unfold sstep_ok. cbn [fstep].
  destruct (find_idx ck (cq q) (elems (self w))) as [i|] eqn:Hf.
  - destruct (sp_some _ _ _ _ Hu Hp Hf) as (k0 & Hpi & Hpc & Hd). rewrite Hd.
    apply wp_bind. eapply d_wp_ref_at; [exact Hw | exact Hs1 | exact Hpi|]. apply wp_ret.
    cbn [fst snd]. rewrite Hs1. split; [reflexivity|]. split; [exact Ha | exact Hc].
  - destruct (sp_none _ _ _ Hu Hp Hf) as [Hd _]. rewrite Hd. apply wp_ret.
    cbn [fst snd]. rewrite Hs1. split; [reflexivity|]. split; [exact Ha | exact Hc].
Qed.

Lemma sstep_remove n q w s :
  SAbs (self w) s -> cap (self w) = n ->
  wp (sstep (SoRemove q)) (sstep_ok n (SoRemove q) s) (sstep_panic n (SoRemove q) s w) w.
Proof.
  intros Ha Hc. pose proof Ha as (Hw & Hu & Hp). cbn [sstep]. apply wp_bind.
  eapply wp_mono; [apply (s_remove_lawful q w Hw) | | intros ? []]; cbn beta.
  intros r w' (Hw' & Hc' & Hr & He). apply wp_ret. unfold sstep_ok. cbn [fstep fst snd].
  unfold l_remove in He.
  destruct (find_idx ck (cq q) (elems (self w))) as [i|] eqn:Hf; cbn [fst snd] in He.
  - destruct (sp_some _ _ _ _ Hu Hp Hf) as (k0 & Hpi & Hpc & Hd). rewrite Hd. subst r.
    split; [reflexivity|]. split; [|congruence]. split; [exact Hw'|]. rewrite He.
    apply (sp_del _ _ _ _ (k0, tt)); assumption.
  - destruct (sp_none _ _ _ Hu Hp Hf) as [Hd Hn]. rewrite Hd. subst r.
    split; [reflexivity|]. split; [|congruence]. split; [exact Hw'|]. rewrite He.
    split; [exact Hu|].
    replace (f_del s (cq q)) with s; [exact Hp|]. symmetry. unfold f_del.
    assert (Hall : forall x, In x s -> negb (N.eqb (ck x) (cq q)) = true).
    { intros x Hx. pose proof (find_none _ _ Hd x Hx) as Hb. cbn beta in Hb. rewrite Hb. reflexivity. }
    clear - Hall. induction s as [|h t IH]; [reflexivity|]. cbn [filter].
    rewrite (Hall h (or_introl eq_refl)). f_equal. apply IH. intros x Hx. apply Hall. right. exact Hx.
Qed.

Lemma sstep_take n q w s :
  SAbs (self w) s -> cap (self w) = n ->
  wp (sstep (SoTake q)) (sstep_ok n (SoTake q) s) (sstep_panic n (SoTake q) s w) w.
Proof.
  intros Ha Hc. pose proof Ha as (Hw & Hu & Hp). cbn [sstep]. apply wp_bind.
  eapply wp_mono; [apply (s_take_lawful q w Hw) | | intros ? []]; cbn beta.
  intros r w' (Hw' & Hc' & _ & Hr & He). apply wp_ret. unfold sstep_ok. cbn [fstep].
  unfold l_remove in He, Hr.
  destruct (find_idx ck (cq q) (elems (self w))) as [i|] eqn:Hf; cbn [fst snd] in He, Hr.
  - destruct (sp_some _ _ _ _ Hu Hp Hf) as (k0 & Hpi & Hpc & Hd). rewrite Hd.
    rewrite Hpi in Hr. cbn [option_map fst] in Hr. subst r. cbn [fst snd].
    split; [reflexivity|]. split; [|congruence]. split; [exact Hw'|]. rewrite He.
    apply (sp_del _ _ _ _ (k0, tt)); assumption.
  - destruct (sp_none _ _ _ Hu Hp Hf) as [Hd _]. rewrite Hd. cbn [option_map] in Hr. subst r.
    cbn [fst snd]. split; [reflexivity|]. split; [|congruence]. split; [exact Hw'|]. rewrite He.
    split; assumption.
Qed.

Lemma sstep_retain n g w s :
  SAbs (self w) s -> cap (self w) = n ->
  wp (sstep (SoRetain g)) (sstep_ok n (SoRetain g) s) (sstep_panic n (SoRetain g) s w) w.
Proof.
  intros Ha Hc. pose proof Ha as (Hw & Hu & Hp). cbn [sstep]. apply wp_bind.
  eapply wp_mono;
    [apply (s_retain_lawful (fun s k => (Some (g k), s)) g w); [intros s0 k; reflexivity | exact Hw]
    | | intros ? []]; cbn beta.
  intros _ w' (Hw' & Hc' & He). apply wp_ret. unfold sstep_ok. cbn [fstep fst snd].
  split; [reflexivity|]. split; [|congruence]. split; [exact Hw'|]. rewrite He.
  apply sp_retain; assumption.
Qed.

Lemma sstep_clear n w s :
  SAbs (self w) s -> cap (self w) = n ->
  wp (sstep SoClear) (sstep_ok n SoClear s) (sstep_panic n SoClear s w) w.
Proof.
  intros Ha Hc. pose proof Ha as (Hw & Hu & Hp). cbn [sstep]. apply wp_bind.
  eapply wp_mono; [apply (s_clear_lawful w Hw) | | intros ? []]; cbn beta.
  intros _ w' (Hw' & Hc' & _ & He). apply wp_ret. unfold sstep_ok. cbn [fstep fst snd].
  split; [reflexivity|]. split; [|congruence]. split; [exact Hw'|]. rewrite He.
  split; [apply NoDup_nil | apply perm_nil].
Qed.

(* extend: the loop follows f_extend insertion by insertion; when an insertion
   overflows, the container holds the items inserted so far *)
Lemma s_extend_abs n items : forall w s,
  SAbs (self w) s -> cap (self w) = n ->
  wp (s_extend_loop E debug nx0 items)
     (fun _ w' => fst (f_extend n items s) = SUnit /\ SAbs (self w') (snd (f_extend n items s)) /\ cap (self w') = n)
     (fun w' => fst (f_extend n items s) = SPanic /\ SAbs (self w') (snd (f_extend n items s)) /\ cap (self w') = n) w.
Proof.
  assert (Hnx : forall t : T, fst (nx0 t) <> Boom) by (intros t; cbn [nx0 fst]; discriminate).
  induction items as [|k rest IH]; intros w s Ha Hc; cbn [s_extend_loop f_extend].
  - eapply wp_mono; [apply call_next_lawful; exact Hnx | | intros ? []]; cbn beta.
    intros _ w1 [Hs1 _]. cbn [fst snd]. rewrite Hs1. auto.
  - apply wp_bind. apply wp_on_unwind_nopanic.
    eapply wp_mono; [apply call_next_lawful; exact Hnx | | intros ? []]; cbn beta.
    intros _ w1 [Hs1 _].
    apply wp_bind. apply wp_on_unwind_frame; [apply frame_unwind_pairs|].
    apply wp_bind. eapply wp_mono; [apply (s_insert_abs n k w1 s); rewrite Hs1; assumption | |]; cbn beta.
    + intros b w2 (Hr & Ha2 & Hc2). apply wp_ret.
      destruct (f_insert n k s) as [r s'] eqn:Hfi. cbn [fst snd] in *.
      subst r. apply (IH w2 s' Ha2 Hc2).
    + intros w2 [Hfi Hs2] w3 Hs3. rewrite Hfi. cbn [fst snd]. rewrite Hs3, Hs2, Hs1. auto.
Qed.

Lemma sstep_extend n items w s :
  SAbs (self w) s -> cap (self w) = n ->
  wp (sstep (SoExtend items)) (sstep_ok n (SoExtend items) s) (sstep_panic n (SoExtend items) s w) w.
Proof.
  intros Ha Hc. cbn [sstep]. unfold s_extend. apply wp_bind.
  eapply wp_mono; [apply (s_extend_abs n items w s Ha Hc) | |]; cbn beta.
  - intros _ w' (Hr & Ha' & Hc'). apply wp_ret. unfold sstep_ok. cbn [fstep]. auto.
  - intros w' (Hr & Ha' & Hc'). unfold sstep_panic. cbn [fstep]. auto.
Qed.

Lemma sstep_refines_wp n o w s :
  SAbs (self w) s -> cap (self w) = n ->
  wp (sstep o) (sstep_ok n o s) (sstep_panic n o s w) w.
Proof.
  intros Ha Hc. destruct o.
  - apply sstep_insert; assumption.
  - apply sstep_replace; assumption.
  - apply sstep_contains; assumption.
  - apply sstep_get; assumption.
  - apply sstep_remove; assumption.
  - apply sstep_take; assumption.
  - apply sstep_retain; assumption.
  - apply sstep_clear; assumption.
  - apply sstep_extend; assumption.
Qed.

(* Every operation: never UB; a normal return gives the ideal set's result and
   a container that abstracts to the ideal set's new state; a panic happens
   exactly where the ideal set says so, and the container then abstracts to
   the ideal set's state at that point: the unchanged set (and the untouched
   container) for insert / replace, the items inserted so far for extend. *)
Theorem sstep_refines n o w s :
  SAbs (self w) s -> cap (self w) = n ->
  match sstep o w with
  | Ok r w' => fst (fstep n o s) = r /\ SAbs (self w') (snd (fstep n o s)) /\ cap (self w') = n
  | Panic w' => fst (fstep n o s) = SPanic /\ SAbs (self w') (snd (fstep n o s)) /\ cap (self w') = n /\
                match o with SoExtend _ => True | _ => snd (fstep n o s) = s /\ self w' = self w end
  | UB => False
  end.
Proof. intros Ha Hc. exact (sstep_refines_wp n o w s Ha Hc). Qed.

(* ======================================================================== *)
(* Histories.                                                                *)

Fixpoint smrun (ops : list sop) (w : world) : list sres :=
  match ops with
  | [] => []
  | o :: t => match sstep o w with
              | Ok r w' => r :: smrun t w'
              | Panic w' => SPanic :: smrun t w'
              | UB => []
              end
  end.

Fixpoint fsrun (n : nat) (ops : list sop) (s : fset) : list sres :=
  match ops with
  | [] => []
  | o :: t => let '(r, s') := fstep n o s in r :: fsrun n t s'
  end.

Fixpoint smfinal (ops : list sop) (w : world) : option world :=
  match ops with
  | [] => Some w
  | o :: t => match sstep o w with
              | Ok _ w' => smfinal t w'
              | Panic w' => smfinal t w'
              | UB => None
              end
  end.

Fixpoint fsfinal (n : nat) (ops : list sop) (s : fset) : fset :=
  match ops with
  | [] => s
  | o :: t => fsfinal n t (snd (fstep n o s))
  end.

Theorem srun_refines n ops w s :
  SAbs (self w) s -> cap (self w) = n -> smrun ops w = fsrun n ops s.
Proof.
  revert w s; induction ops as [|o t IH]; intros w s Ha Hc; [reflexivity|].
  cbn [smrun fsrun]. pose proof (sstep_refines n o w s Ha Hc) as Hs.
  destruct (fstep n o s) as [r' s'] eqn:Hd. cbn [fst snd] in Hs.
  destruct (sstep o w) as [r w'|w'|].
  - destruct Hs as (<- & Ha' & Hc'). f_equal. apply IH; assumption.
  - destruct Hs as (-> & Ha' & Hc' & _). f_equal. apply IH; assumption.
  - destruct Hs.
Qed.

(* after ANY history there is a final world (no UB on the way), it still
   abstracts to the ideal set's final state, and the capacity is the same *)
Theorem srun_refines_state n ops w s :
  SAbs (self w) s -> cap (self w) = n ->
  exists wf, smfinal ops w = Some wf /\ SAbs (self wf) (fsfinal n ops s) /\ cap (self wf) = n.
Proof.
  revert w s; induction ops as [|o t IH]; intros w s Ha Hc.
  - exists w. split; [reflexivity|]. split; assumption.
  - cbn [smfinal fsfinal]. pose proof (sstep_refines n o w s Ha Hc) as Hs.
    destruct (sstep o w) as [r w'|w'|].
    + destruct Hs as (_ & Ha' & Hc'). apply IH; assumption.
    + destruct Hs as (_ & Ha' & Hc' & _). apply IH; assumption.
    + destruct Hs.
Qed.

Lemma SAbs_new n : SAbs (@new_map K unit n) [].
Proof.
  split; [apply WF_new|]. unfold elems, new_map; cbn [len slots take_live List.map].
  split; [apply NoDup_nil | apply perm_nil].
Qed.

Theorem srun_refines_new n ops t lg :
  smrun ops {| cb := t; log := lg; self := new_map n |} = fsrun n ops [].
Proof. apply srun_refines; cbn [self]; [apply SAbs_new | apply cap_new]. Qed.

Theorem srun_refines_state_new n ops t lg :
  exists wf, smfinal ops {| cb := t; log := lg; self := new_map n |} = Some wf /\
             SAbs (self wf) (fsfinal n ops []) /\ cap (self wf) = n.
Proof. apply srun_refines_state; cbn [self]; [apply SAbs_new | apply cap_new]. Qed.

(* the ideal set stays duplicate-free and within capacity: whatever abstracts
   to it has these properties *)
Lemma sabs_nodup (m : smap) s : SAbs m s -> NoDup (List.map ck s).
Proof.
  intros (_ & Hu & Hp). unfold Uniq in Hu.
  eapply Permutation_NoDup; [apply (Permutation_map ck); exact Hp|].
  rewrite map_map. exact Hu.
Qed.

(* ======================================================================== *)
(* 4. What is observable of a container that abstracts to s.                *)

Lemma sabs_len (w : world) s : SAbs (self w) s -> len (self w) = length s.
Proof. intros Ha. symmetry. apply sabs_length. exact Ha. Qed.

Lemma sabs_mem (w : world) s q :
  SAbs (self w) s -> f_mem s (cq q) = option_map fst (lookup ck (elems (self w)) (cq q)).
Proof.
  intros (_ & Hu & Hp). unfold lookup.
  destruct (find_idx ck (cq q) (elems (self w))) as [i|] eqn:Hf.
  - destruct (sp_some _ _ _ _ Hu Hp Hf) as (k0 & Hpi & _ & Hd). rewrite Hd, Hpi. reflexivity.
  - destruct (sp_none _ _ _ Hu Hp Hf) as [Hd _]. rewrite Hd. reflexivity.
Qed.

(* the same for a lookup by an element (the class insert / replace scan for) *)
Lemma sabs_mem_k (w : world) s k :
  SAbs (self w) s -> f_mem s (ck k) = option_map fst (lookup ck (elems (self w)) (ck k)).
Proof.
  intros (_ & Hu & Hp). unfold lookup.
  destruct (find_idx ck (ck k) (elems (self w))) as [i|] eqn:Hf.
  - destruct (sp_some _ _ _ _ Hu Hp Hf) as (k0 & Hpi & _ & Hd). rewrite Hd, Hpi. reflexivity.
  - destruct (sp_none _ _ _ Hu Hp Hf) as [Hd _]. rewrite Hd. reflexivity.
Qed.

(* iteration (slots 0..len in order) yields exactly the elements, each once *)
Lemma sabs_iter (w : world) s :
  SAbs (self w) s ->
  Permutation (List.map fst (elems (self w))) s /\
  NoDup (List.map (fun p => ck (fst p)) (elems (self w))) /\
  NoDup (List.map ck s).
Proof.
  intros Ha. pose proof Ha as (_ & Hu & Hp).
  split; [exact Hp|]. split; [exact Hu | eapply sabs_nodup; exact Ha].
Qed.

Lemma sabs_is_empty (w : world) s : SAbs (self w) s -> ((len (self w) =? 0) = true <-> s = []).
Proof.
  intros Ha. rewrite (sabs_len w s Ha). rewrite Nat.eqb_eq.
  destruct s; cbn [length]; split; intros H; try reflexivity; try discriminate.
Qed.

Lemma sabs_len_le_cap (w : world) s : SAbs (self w) s -> length s <= cap (self w).
Proof. intros Ha. rewrite <- (sabs_len w s Ha). destruct Ha as (Hw & _). apply WF_len_le_cap. exact Hw. Qed.

(* insert returns true exactly when no stored element has the class of k *)
Theorem insert_true_iff_absent k w :
  WF (self w) ->
  match s_insert E debug k w with
  | Ok b w' => (b = true <-> ~ In (ck k) (List.map (fun p => ck (fst p)) (elems (self w)))) /\
               (b = true <-> find_idx ck (ck k) (elems (self w)) = None)
  | Panic w' => ~ In (ck k) (List.map (fun p => ck (fst p)) (elems (self w))) /\
                len (self w) = cap (self w) /\ self w' = self w
  | UB => False
  end.
Proof.
  intros Hw. pose proof (s_insert_lawful k w Hw) as H. unfold wp in H.
  destruct (s_insert E debug k w) as [b w'|w'|]; [| |exact H].
  - destruct H as (_ & _ & Hb & _). subst b.
    destruct (find_idx ck (ck k) (elems (self w))) as [i|] eqn:Hf.
    + split; split; try discriminate. intros Hn. exfalso. apply Hn. eapply find_idx_in. exact Hf.
    + split; split; try reflexivity. intros _. apply find_idx_notin. exact Hf.
  - destruct H as (Hs & _ & Hf & Hlen). split; [apply find_idx_notin; exact Hf|]. split; assumption.
Qed.

(* the same through the ideal set *)
Theorem insert_true_iff_absent_set k w s :
  SAbs (self w) s ->
  match s_insert E debug k w with
  | Ok b w' => (b = true <-> f_mem s (ck k) = None) /\ (b = true <-> ~ In (ck k) (List.map ck s))
  | Panic w' => f_mem s (ck k) = None /\ length s = cap (self w)
  | UB => False
  end.
Proof.
  intros Ha. pose proof Ha as (Hw & Hu & Hp).
  assert (Hcls : forall c, In c (List.map ck s) <-> In c (List.map (fun p : kv => ck (fst p)) (elems (self w)))).
  { intros c. rewrite <- (map_map fst ck). split; apply Permutation_in; apply Permutation_map;
      [apply Permutation_sym|]; exact Hp. }
  pose proof (insert_true_iff_absent k w Hw) as H.
  destruct (s_insert E debug k w) as [b w'|w'|]; [| |exact H].
  - destruct H as [H1 H2]. split; [|rewrite Hcls; exact H1]. rewrite H2.
    destruct (find_idx ck (ck k) (elems (self w))) as [i|] eqn:Hf.
    + destruct (sp_some _ _ _ _ Hu Hp Hf) as (k0 & _ & _ & Hd). rewrite Hd. split; discriminate.
    + destruct (sp_none _ _ _ Hu Hp Hf) as [Hd _]. rewrite Hd. split; reflexivity.
  - destruct H as (Hn & Hlen & _). split; [|rewrite (sabs_length _ _ Ha); exact Hlen].
    destruct (f_mem s (ck k)) as [k0|] eqn:Hd; [|reflexivity]. exfalso. apply Hn. apply Hcls.
    apply find_some in Hd. destruct Hd as [Hin Hb]. apply N.eqb_eq in Hb. rewrite <- Hb.
    apply in_map. exact Hin.
Qed.

(* drain(): Set::drain is Map::drain at V = unit.  The container is the empty
   set at once, and the range handed to the Drain iterator holds exactly the
   former elements. *)
Lemma SAbs_Abs (m : smap) s : SAbs m s <-> Abs ck m (List.map inj s).
Proof.
  unfold SAbs, Abs. split; intros (Hw & Hu & Hp); (split; [exact Hw|]; split; [exact Hu|]).
  - apply sp_lift. exact Hp.
  - apply sp_unlift. exact Hp.
Qed.

Lemma sdrain_refines (w : world) s :
  SAbs (self w) s ->
  wp (@drain K unit T)
     (fun c w' => c = (0, length s) /\ SAbs (self w') [] /\ cap (self w') = cap (self w) /\
                  Permutation (List.map fst (take_live (slots (self w')) (snd c))) s)
     (fun _ => False) w.
Proof.
  intros Ha. apply SAbs_Abs in Ha.
  eapply wp_mono; [apply (drain_refines ck w _ Ha) | | intros ? []]; cbn beta.
  intros c w' (Hc & Ha' & Hcap & Hp). rewrite map_length in Hc.
  split; [exact Hc|]. split; [apply (SAbs_Abs (self w') []); exact Ha'|]. split; [exact Hcap|].
  apply sp_unlift. exact Hp.
Qed.

End SetDict.
