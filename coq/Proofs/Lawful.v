(* Lawful.v — under a lawful environment every map operation of the model
   computes exactly the list-machine function of Spec.v on the live prefix:
   same result, same resulting list (order included), same destroyed objects. *)
Require Import Model.Base Model.Slots Model.MapOps Proofs.Hoare Proofs.Inv Proofs.Spec.

Section Lawful.
Context {K V Q T : Type} (E : env K V Q T) (debug : bool).
Context (ck : K -> N) (cq : Q -> N) (HL : Lawful E ck cq).
Notation M := (M K V T).
Notation world := (world K V T).
Notation map := (map K V).
Notation kv := (K * V)%type.

(* container and event log untouched (callback state may change) *)
Definition stable (w w' : world) : Prop := self w' = self w /\ log w' = log w.

Lemma stable_refl w : stable w w. Proof. split; reflexivity. Qed.
Lemma stable_trans w1 w2 w3 : stable w1 w2 -> stable w2 w3 -> stable w1 w3.
Proof. intros [A B] [C D]. split; congruence. Qed.
Lemma stable_cb w s : stable w (with_cb w s). Proof. split; reflexivity. Qed.

(* a test that decides "the stored key has class c" and does nothing else *)
Definition cls_test (test : kv -> M bool) (c : N) : Prop :=
  forall p w, wp (test p) (fun b w' => b = N.eqb (ck (fst p)) c /\ stable w w') (fun _ => False) w.

Lemma cls_test_q q : cls_test (test_q E q) (cq q).
Proof.
  intros p w. unfold test_q. apply wp_cbk_eq. rewrite (law_eqKQ E ck cq HL).
  destruct (N.eqb (ck (fst p)) (cq q)); split; auto using stable_cb.
Qed.
Lemma cls_test_k k : cls_test (test_k E k) (ck k).
Proof.
  intros p w. unfold test_k. apply wp_cbk_eq. rewrite (law_eqK E ck cq HL).
  destruct (N.eqb (ck (fst p)) (ck k)); split; auto using stable_cb.
Qed.

(* ---- pure characterisation of find_idx ---- *)
Lemma find_idx_none c (l : list kv) :
  (forall j p, nth_error l j = Some p -> ck (fst p) <> c) -> find_idx ck c l = None.
Proof.
  induction l as [|p t IH]; intros H; cbn [find_idx]; [reflexivity|].
  destruct (N.eqb_spec (ck (fst p)) c) as [Heq|Hne].
  - exfalso. apply (H 0 p); [reflexivity | exact Heq].
  - rewrite IH; [reflexivity|]. intros j q Hj. apply (H (S j) q). exact Hj.
Qed.

Lemma find_idx_some c (l : list kv) x p :
  nth_error l x = Some p -> ck (fst p) = c ->
  (forall j q, j < x -> nth_error l j = Some q -> ck (fst q) <> c) -> find_idx ck c l = Some x.
Proof.
  revert x; induction l as [|h t IH]; intros x Hx Hc Hb; [destruct x; discriminate|].
  cbn [find_idx]. destruct x as [|x].
  - cbn [nth_error] in Hx. injection Hx as ->. rewrite Hc, N.eqb_refl. reflexivity.
  - destruct (N.eqb_spec (ck (fst h)) c) as [Heq|Hne].
    + exfalso. apply (Hb 0 h); [lia | reflexivity | exact Heq].
    + rewrite (IH x); [reflexivity | exact Hx | exact Hc |].
      intros j q Hj Hq. apply (Hb (S j) q); [lia | exact Hq].
Qed.

Lemma find_idx_inv c (l : list kv) x :
  find_idx ck c l = Some x ->
  (exists p, nth_error l x = Some p /\ ck (fst p) = c) /\
  (forall j q, j < x -> nth_error l j = Some q -> ck (fst q) <> c).
Proof.
  revert x; induction l as [|h t IH]; intros x H; cbn [find_idx] in H; [discriminate|].
  destruct (N.eqb_spec (ck (fst h)) c) as [Heq|Hne].
  - injection H as <-. split; [exists h; auto | intros j q Hj; lia].
  - destruct (find_idx ck c t) as [y|] eqn:Hy; cbn [option_map] in H; [|discriminate].
    injection H as <-. destruct (IH y eq_refl) as [[p [Hp Hc]] Hb].
    split; [exists p; auto|]. intros [|j] q Hj Hq.
    + cbn [nth_error] in Hq. injection Hq as <-. exact Hne.
    + apply (Hb j q); [lia | exact Hq].
Qed.

Lemma find_idx_none_inv c (l : list kv) :
  find_idx ck c l = None -> forall j p, nth_error l j = Some p -> ck (fst p) <> c.
Proof.
  induction l as [|h t IH]; intros H j p Hj; [destruct j; discriminate|].
  cbn [find_idx] in H. destruct (N.eqb_spec (ck (fst h)) c) as [Heq|Hne]; [discriminate|].
  destruct (find_idx ck c t) eqn:Ht; [discriminate|].
  destruct j as [|j]; cbn [nth_error] in Hj; [injection Hj as <-; exact Hne | eapply IH; eauto].
Qed.

Lemma find_idx_lt c (l : list kv) x : find_idx ck c l = Some x -> x < length l.
Proof.
  intros H. destruct (find_idx_inv c l x H) as [[p [Hp _]] _].
  apply nth_error_Some. rewrite Hp. discriminate.
Qed.

(* ---- the scan is find_idx on the live prefix ---- *)
Lemma scan_loop_lawful test c :
  cls_test test c ->
  forall n i w,
    (forall j, i <= j < i + n -> live (self w) j) ->
    wp (scan_loop test n i)
       (fun r w' =>
          stable w w' /\
          match r with
          | Some x => i <= x < i + n /\
                      (exists p, nth_error (slots (self w)) x = Some (Some p) /\ ck (fst p) = c) /\
                      (forall j p, i <= j < x -> nth_error (slots (self w)) j = Some (Some p) -> ck (fst p) <> c)
          | None => forall j p, i <= j < i + n -> nth_error (slots (self w)) j = Some (Some p) -> ck (fst p) <> c
          end)
       (fun _ => False) w.
Proof.
  intros Ht. induction n as [|n IH]; intros i w Hl; cbn [scan_loop].
  - apply wp_ret. split; [apply stable_refl | intros j p Hj; lia].
  - destruct (Hl i ltac:(lia)) as [p Hp].
    apply wp_bind. eapply wp_p_ref; [exact Hp|].
    apply wp_bind. eapply wp_mono; [apply Ht | | auto]; cbn beta.
    intros b w1 [Hb Hst]. destruct (N.eqb_spec (ck (fst p)) c) as [Heq|Hne]; subst b.
    + apply wp_ret. split; [exact Hst|]. split; [lia|]. split; [exists p; auto | intros j q Hj; lia].
    + destruct Hst as [Hs1 Hl1].
      eapply wp_mono; [apply (IH (S i) w1) | | auto]; cbn beta.
      * intros j Hj. rewrite Hs1. apply Hl. lia.
      * intros r w2 [Hst2 Hr]. split; [eapply stable_trans; [split; eassumption | exact Hst2]|].
        rewrite Hs1 in Hr. destruct r as [x|].
        -- destruct Hr as (Hx & Hex & Hb). split; [lia|]. split; [exact Hex|].
           intros j q Hj Hq. destruct (Nat.eq_dec j i) as [->|Hji].
           ++ rewrite Hp in Hq. injection Hq as <-. exact Hne.
           ++ apply (Hb j q); [lia | exact Hq].
        -- intros j q Hj Hq. destruct (Nat.eq_dec j i) as [->|Hji].
           ++ rewrite Hp in Hq. injection Hq as <-. exact Hne.
           ++ apply (Hr j q); [lia | exact Hq].
Qed.

Lemma scan_lawful test c w :
  cls_test test c -> WF (self w) ->
  wp (scan test) (fun r w' => stable w w' /\ r = find_idx ck c (elems (self w))) (fun _ => False) w.
Proof.
  intros Ht Hw. pose proof Hw as [Hl Hs]. unfold scan.
  apply wp_bind. apply wp_p_prefix; [intros _ | lia].
  apply wp_bind. apply wp_get_len.
  eapply wp_mono; [apply (scan_loop_lawful test c Ht (len (self w)) 0 w) | | auto]; cbn beta.
  - intros j Hj. apply Hs. lia.
  - intros r w' [Hst Hr]. split; [exact Hst|]. symmetry. destruct r as [x|].
    + destruct Hr as (Hx & [p [Hp Hc]] & Hb).
      apply (find_idx_some c (elems (self w)) x p).
      * apply (elems_nth (self w) x p Hw); [lia | exact Hp].
      * exact Hc.
      * intros j q Hj Hq. destruct (elems_nth_slot _ _ _ Hw Hq) as [Hj' Hq'].
        apply (Hb j q); [lia | exact Hq'].
    + apply find_idx_none. intros j p Hp.
      destruct (elems_nth_slot _ _ _ Hw Hp) as [Hj' Hp'].
      apply (Hr j p); [lia | exact Hp'].
Qed.

(* the events logged by a call: log w' = log w ++ evs *)
Definition logged (w w' : world) (evs : list event) : Prop := log w' = log w ++ evs.

(* ---- Drop under a lawful environment: logs the identities, never panics ---- *)
Lemma drop_key_lawful k w :
  wp (drop_key E k)
     (fun _ w' => self w' = self w /\ logged w w' (ev_drops (idK E k))) (fun _ => False) w.
Proof.
  unfold drop_key. apply wp_bind. apply wp_emit. apply wp_bind. apply wp_cbd_eq.
  rewrite (law_dropK E ck cq HL). apply wp_ret. simp_w. split; reflexivity.
Qed.
Lemma drop_val_lawful v w :
  wp (drop_val E v)
     (fun _ w' => self w' = self w /\ logged w w' (ev_drops (idV E v))) (fun _ => False) w.
Proof.
  unfold drop_val. apply wp_bind. apply wp_emit. apply wp_bind. apply wp_cbd_eq.
  rewrite (law_dropV E ck cq HL). apply wp_ret. simp_w. split; reflexivity.
Qed.
Lemma drop_pair_lawful p w :
  wp (drop_pair E p)
     (fun _ w' => self w' = self w /\ logged w w' (ev_drops (idK E (fst p) ++ idV E (snd p))))
     (fun _ => False) w.
Proof.
  unfold drop_pair. apply wp_bind. apply wp_emit. apply wp_bind. apply wp_cbd_eq.
  rewrite (law_dropK E ck cq HL). apply wp_bind. apply wp_cbd_eq.
  rewrite (law_dropV E ck cq HL). cbn [orb]. apply wp_ret. simp_w. split; reflexivity.
Qed.

(* unwinding destructors under a lawful environment: log the identities *)
Lemma unwind_pair_lawful p w :
  wp (unwind_pair E p)
     (fun _ w' => self w' = self w /\ logged w w' (ev_drops (idK E (fst p) ++ idV E (snd p))))
     (fun _ => False) w.
Proof.
  unfold unwind_pair. apply wp_bind. apply wp_emit. apply wp_bind. apply wp_cbd_eq.
  apply wp_bind. apply wp_cbd_eq. apply wp_ret. simp_w. split; reflexivity.
Qed.

Lemma unwind_args_lawful k v w :
  wp (unwind_args E k v)
     (fun _ w' => self w' = self w /\ logged w w' (ev_drops (idV E v ++ idK E k)))
     (fun _ => False) w.
Proof.
  unfold unwind_args. apply wp_bind. apply wp_emit. apply wp_bind. apply wp_cbd_eq.
  apply wp_bind. apply wp_cbd_eq. apply wp_ret. simp_w. split; reflexivity.
Qed.
Lemma unwind_val_lawful v w :
  wp (unwind_val E v)
     (fun _ w' => self w' = self w /\ logged w w' (ev_drops (idV E v)))
     (fun _ => False) w.
Proof.
  unfold unwind_val. apply wp_bind. apply wp_emit. apply wp_bind. apply wp_cbd_eq.
  apply wp_ret. simp_w. split; reflexivity.
Qed.
(* two parameters going out of scope: the value first, then the key *)
Lemma drop_args_lawful k v w :
  wp (drop_args E k v)
     (fun _ w' => self w' = self w /\ logged w w' (ev_drops (idV E v ++ idK E k)))
     (fun _ => False) w.
Proof.
  unfold drop_args. apply wp_bind. apply wp_emit. apply wp_bind. apply wp_cbd_eq.
  rewrite (law_dropV E ck cq HL). apply wp_bind. apply wp_cbd_eq.
  rewrite (law_dropK E ck cq HL). cbn [orb]. apply wp_ret. simp_w. split; reflexivity.
Qed.

(* ---- lookups ---- *)
Lemma get_lawful q w :
  WF (self w) ->
  wp (get E q) (fun r w' => stable w w' /\ r = find_idx ck (cq q) (elems (self w))) (fun _ => False) w.
Proof. intros Hw. apply scan_lawful; [apply cls_test_q | exact Hw]. Qed.
Lemma get_mut_lawful q w :
  WF (self w) ->
  wp (get_mut E q) (fun r w' => stable w w' /\ r = find_idx ck (cq q) (elems (self w))) (fun _ => False) w.
Proof. intros Hw. apply scan_lawful; [apply cls_test_q | exact Hw]. Qed.
Lemma get_key_value_lawful q w :
  WF (self w) ->
  wp (get_key_value E q) (fun r w' => stable w w' /\ r = find_idx ck (cq q) (elems (self w))) (fun _ => False) w.
Proof. intros Hw. apply scan_lawful; [apply cls_test_q | exact Hw]. Qed.
Lemma contains_key_lawful q w :
  WF (self w) ->
  wp (contains_key E q)
     (fun r w' => stable w w' /\ r = match find_idx ck (cq q) (elems (self w)) with Some _ => true | None => false end)
     (fun _ => False) w.
Proof.
  intros Hw. unfold contains_key. apply wp_bind.
  eapply wp_mono; [apply scan_lawful; [apply cls_test_q | exact Hw] | | auto]; cbn beta.
  intros r w' [Hst ->]. apply wp_ret. split; [exact Hst | reflexivity].
Qed.

(* Index / IndexMut: panic exactly when the key is absent *)
Lemma index_lawful q w :
  WF (self w) ->
  wp (index E q)
     (fun i w' => stable w w' /\ find_idx ck (cq q) (elems (self w)) = Some i)
     (fun w' => stable w w' /\ find_idx ck (cq q) (elems (self w)) = None) w.
Proof.
  intros Hw. unfold index. apply wp_bind.
  eapply wp_mono; [apply get_lawful; exact Hw | | intros w' []]; cbn beta.
  intros r w' [Hst ->]. destruct (find_idx ck (cq q) (elems (self w))); [apply wp_ret | apply wp_panic]; auto.
Qed.
Lemma index_mut_lawful q w :
  WF (self w) ->
  wp (index_mut E q)
     (fun i w' => stable w w' /\ find_idx ck (cq q) (elems (self w)) = Some i)
     (fun w' => stable w w' /\ find_idx ck (cq q) (elems (self w)) = None) w.
Proof.
  intros Hw. unfold index_mut. apply wp_bind.
  eapply wp_mono; [apply get_mut_lawful; exact Hw | | intros w' []]; cbn beta.
  intros r w' [Hst ->]. destruct (find_idx ck (cq q) (elems (self w))); [apply wp_ret | apply wp_panic]; auto.
Qed.

End Lawful.
