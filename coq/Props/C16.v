(* ========================================================================== *)
(* C16 — Bulk construction equals inserting the items one by one in order

   STATEMENT (properties.jsonl):
     "Building a Map or Set from an iterator or array (FromIterator/collect,
      From<[_; N]>, Extend) gives exactly the container obtained by inserting
      the items one at a time in order: for repeated keys the last value wins
      and the first key object is kept, repeats do not consume capacity, and
      the source is consumed exactly once, front to back."
   QUANTIFIER:
     "all item sequences (with arbitrary repetition patterns, lengths below, at
      and above N) for all capacities"

   READING GUIDE
   -------------
   Model (Model/MapOps.v, Model/SetOps.v):
     extend_loop E debug nx items   — the loop `for (k, v) in iter { self.insert(k, v); }`
                                      of src/from.rs (and of Extend); [items] is the
                                      sequence the source yields, [nx] is the source's
                                      next() as a callback (it may panic), called once
                                      before every item and once more for the final None;
                                      each call is logged by the model as [EvCall 1];
                                      [on_unwind (unwind_pairs E l) c] (Model/Slots.v) = run c,
                                      and if c panics destroy the pairs of l (EvDrop events +
                                      Drop callbacks) before unwinding further: the items not
                                      yet yielded are locals of the loop's frame (they belong
                                      to the source iterator) and die with it.  It does
                                      nothing when c returns normally;
     from_iter E debug nx items     — the same loop on a fresh container (self = Map::new(),
                                      len 0), with the destructor of the partly built
                                      container run on unwinding (finally_drop).
                                      FromIterator and From<[(K,V); N]> are both this
                                      function (an array source is one whose next() never
                                      panics);
     s_extend_loop / s_from_iter    — the same for Set (src/set/extend.rs, src/set/from.rs),
                                      each item k being inserted as (k, ()).
   Specification vocabulary (Proofs/Spec.v, Proofs/Bulk.v):
     Spec.elems m                   — the live prefix of m as a list, in slot/iteration order;
     l_insert ck l k v false        — the pure single insert on such a list (find the first
                                      entry whose key has class [ck k]: overwrite its VALUE,
                                      keep its KEY; else append (k, v)); it is what
                                      Map::insert computes (Lawful3.insert_lawful, Props/C03.v,
                                      Props/C12.v);
     l_extend ck N l items          — Some l' if inserting the items one by one, in order,
                                      into l under capacity N succeeds with result l';
                                      None if some item of a NEW class arrives while the
                                      list already has N entries (Map::insert panics);
     first_key ck c items           — the key object of the FIRST item of class c;
     last_val ck c items            — the value of the LAST item of class c;
     lookup ck l c                  — the entry of l stored for class c (dictionary view);
     is_pull e                      — "event e is a call of the source's next()" (EvCall 1).
   Premises: [Lawful E ck cq] (== is equality of classes and never panics, Drop never
   panics), [forall s, fst (nx s) <> Boom] (the source's next() does not panic), [WF (self w)]
   (representation invariant; true of every reachable state).

   * "gives exactly the container obtained by inserting the items one at a time in order"
       C16_extend_loop_is_inserts : the loop IS, syntactically, pull / insert / drop the
         displaced value / continue, item by item from the head of the sequence (each of the
         two steps wrapped in the unwinding cleanup of the items the source still holds:
         all remaining items if next() panics, those after the current one if insert or the
         Drop of the displaced value panics);
       C16_extend_loop_lawful     : from ANY well-formed starting container (Extend) it ends
         with elems = the l_extend of the starting elems (capacity unchanged), and it panics
         only if l_extend = None;
       C16_from_iter_lawful       : FromIterator / From<[_; N]>: the same from the empty
         container;
       C16_l_extend_fold          : l_extend is literally a left fold of the single insert
         l_insert over the items, with the overflow check;
       C16_s_extend_loop_lawful, C16_s_from_iter_lawful : the same for Set.
   * "for repeated keys the last value wins and the first key object is kept"
       C16_bulk_lookup : in the result, class c maps to (first_key c items, last_val c items),
         and to nothing if no item has class c.   C16_bulk_uniq : the result has pairwise
         different keys.
   * "repeats do not consume capacity" / lengths below, at and above N
       C16_bulk_size     : the result has exactly as many entries as there are DISTINCT
         classes among the items, however long the sequence is;
       C16_bulk_overflow : the build fails (panics: see the panic postcondition of
         C16_from_iter_lawful) if and only if the items contain MORE than N distinct
         classes.  So a sequence longer than N with at most N distinct keys succeeds.
   * "the source is consumed exactly once, front to back"
       C16_source_pulled_once, C16_from_iter_pulled_once : on normal return the log grew by
         a list of events containing exactly (length items + 1) calls of next(): one per
         item plus the final one that returns None.  "Front to back" is the order in which
         C16_extend_loop_is_inserts / l_extend walk the list (head first).
       C16_s_source_pulled_once : the same count for Set (s_extend_loop).

   PARTLY COVERED / NOT COVERED BY A THEOREM
     [The first item below is now CLOSED by the section "AUDIT CLOSURE" appended at the
      end of this file: pull counts on the overflow exit (C16_*_full_pulls), the Set twin
      C16_s_from_iter_pulled_once, the exact event log (C16_extend_loop_exact_log), the
      general (non-empty start) versions C16_bulk_*_gen / C16_l_extend_sound, and a
      precise account of what the list abstraction of the source hides (item 7 there).]
     - the pull count is stated for normal return only (panic postcondition True); the Set
       twin is now C16_s_source_pulled_once (for the loop s_extend_loop; there is no Set
       analogue of C16_from_iter_pulled_once: s_from_iter is `finally_drop` around that loop).
     - a source whose next() panics, or an unlawful ==: only memory safety and the absence of
       leaks/double drops are claimed (Safety2.from_iter_safe, Safety2.keeps_extend_loop,
       Safety3.s_from_iter_safe in Props/C04.v; Owned.from_iter_acct in Props/C02.v).
     - that Rust's FromIterator, From<[_; N]> and Extend impls are this loop, and that the
       array source cannot panic, is the correspondence check's business (ops OFromIter with
       arr = true/false, SFromIter, SExtend).
     - `Extend<&T> for Set` (src/set/extend.rs) is not modelled: it is a one-line delegation
       `self.extend(iter.into_iter().copied())` to the Extend<T> modelled here (s_extend); that
       it behaves as Extend<T> on the copied items (repeats charged no capacity, same overflow
       point) is checked at run time by the shape oracle EXTEND_REF (harness/src/shapes.rs),
       not by a theorem.                                                                    *)
(* ========================================================================== *)
Require Import Model.Base Model.Slots Model.MapOps Model.SetOps Model.Exec.
Require Import Proofs.Hoare Proofs.Inv Proofs.Safety Proofs.Safety2 Proofs.Spec Proofs.Lawful Proofs.Lawful2 Proofs.Lawful3.
Require Import Proofs.Bulk Proofs.FmtSerde Proofs.Legacy.

(* -------------------------------------------------------------------------- *)
(* Bulk.extend_loop_is_inserts                                                 *)
Theorem C16_extend_loop_is_inserts :
  forall (K V Q T : Type) (E : env K V Q T) (debug : bool) (nx : T -> ans * T) (items : list (K * V)),
    extend_loop E debug nx items =
    (fix go (its : list (K * V)) : M K V T unit :=
       match its with
       | [] => call_next nx
       | (k, v) :: rest =>
           on_unwind (unwind_pairs E its) (call_next nx) ;;
           on_unwind (unwind_pairs E rest) (old <- insert E debug k v ;; drop_opt_val E old) ;;
           go rest
       end) items.
Proof. exact (@extend_loop_is_inserts). Qed.
Print Assumptions C16_extend_loop_is_inserts.

(* -------------------------------------------------------------------------- *)
(* Bulk.extend_loop_lawful                                                     *)
Theorem C16_extend_loop_lawful :
  forall (K V Q T : Type) (E : env K V Q T) (debug : bool) (ck : K -> N) (cq : Q -> N),
    Lawful E ck cq ->
    forall (nx : T -> ans * T) (items : list (K * V)) (w : world K V T),
      (forall s : T, fst (nx s) <> Boom) ->
      WF (self w) ->
      wp (extend_loop E debug nx items)
         (fun (_ : unit) (w' : world K V T) =>
            WF (self w') /\
            cap (self w') = cap (self w) /\
            l_extend ck (cap (self w)) (Spec.elems (self w)) items = Some (Spec.elems (self w')))
         (fun w' : world K V T =>
            WF (self w') /\
            cap (self w') = cap (self w) /\
            l_extend ck (cap (self w)) (Spec.elems (self w)) items = None)
         w.
Proof. exact (@extend_loop_lawful). Qed.
Print Assumptions C16_extend_loop_lawful.

(* -------------------------------------------------------------------------- *)
(* Bulk.source_pulled_once                                                     *)
Theorem C16_source_pulled_once :
  forall (K V Q T : Type) (E : env K V Q T) (debug : bool) (ck : K -> N) (cq : Q -> N),
    Lawful E ck cq ->
    forall (nx : T -> ans * T) (items : list (K * V)) (w : world K V T),
      (forall s : T, fst (nx s) <> Boom) ->
      WF (self w) ->
      wp (extend_loop E debug nx items)
         (fun (_ : unit) (w' : world K V T) =>
            exists evs : list event,
              log w' = log w ++ evs /\ length (filter is_pull evs) = S (length items))
         (fun _ : world K V T => True)
         w.
Proof. exact (@source_pulled_once). Qed.
Print Assumptions C16_source_pulled_once.

(* -------------------------------------------------------------------------- *)
(* Bulk.from_iter_lawful                                                       *)
Theorem C16_from_iter_lawful :
  forall (K V Q T : Type) (E : env K V Q T) (debug : bool) (ck : K -> N) (cq : Q -> N),
    Lawful E ck cq ->
    forall (nx : T -> ans * T) (items : list (K * V)) (w : world K V T),
      (forall s : T, fst (nx s) <> Boom) ->
      WF (self w) ->
      len (self w) = 0 ->
      wp (from_iter E debug nx items)
         (fun (_ : unit) (w' : world K V T) =>
            WF (self w') /\
            cap (self w') = cap (self w) /\
            l_extend ck (cap (self w)) [] items = Some (Spec.elems (self w')))
         (fun _ : world K V T => l_extend ck (cap (self w)) [] items = None)
         w.
Proof. exact (@from_iter_lawful). Qed.
Print Assumptions C16_from_iter_lawful.

(* -------------------------------------------------------------------------- *)
(* Bulk.from_iter_pulled_once                                                  *)
Theorem C16_from_iter_pulled_once :
  forall (K V Q T : Type) (E : env K V Q T) (debug : bool) (ck : K -> N) (cq : Q -> N),
    Lawful E ck cq ->
    forall (nx : T -> ans * T) (items : list (K * V)) (w : world K V T),
      (forall s : T, fst (nx s) <> Boom) ->
      WF (self w) ->
      wp (from_iter E debug nx items)
         (fun (_ : unit) (w' : world K V T) =>
            exists evs : list event,
              log w' = log w ++ evs /\ length (filter is_pull evs) = S (length items))
         (fun _ : world K V T => True)
         w.
Proof. exact (@from_iter_pulled_once). Qed.
Print Assumptions C16_from_iter_pulled_once.

(* -------------------------------------------------------------------------- *)
(* Bulk.bulk_uniq, bulk_lookup, bulk_size, bulk_overflow — the pure content     *)
Theorem C16_bulk_uniq :
  forall (K V : Type) (ck : K -> N) (n : nat) (items res : list (K * V)),
    l_extend ck n [] items = Some res -> Uniq ck res.
Proof. exact (@bulk_uniq). Qed.
Print Assumptions C16_bulk_uniq.

Theorem C16_bulk_lookup :
  forall (K V : Type) (ck : K -> N) (n : nat) (items res : list (K * V)) (c : N),
    l_extend ck n [] items = Some res ->
    lookup ck res c =
    match first_key ck c items, last_val ck c items with
    | Some k, Some v => Some (k, v)
    | _, _ => None
    end.
Proof. exact (@bulk_lookup). Qed.
Print Assumptions C16_bulk_lookup.

Theorem C16_bulk_size :
  forall (K V : Type) (ck : K -> N) (n : nat) (items res : list (K * V)),
    l_extend ck n [] items = Some res ->
    length res = length (nodup N.eq_dec (List.map (fun p : K * V => ck (fst p)) items)).
Proof. exact (@bulk_size). Qed.
Print Assumptions C16_bulk_size.

Theorem C16_bulk_overflow :
  forall (K V : Type) (ck : K -> N) (n : nat) (items : list (K * V)),
    l_extend ck n [] items = None <->
    n < length (nodup N.eq_dec (List.map (fun p : K * V => ck (fst p)) items)).
Proof. exact (@bulk_overflow). Qed.
Print Assumptions C16_bulk_overflow.

(* -------------------------------------------------------------------------- *)
(* Bulk.s_extend_loop_lawful, s_from_iter_lawful — Set                         *)
Theorem C16_s_extend_loop_lawful :
  forall (K Q T : Type) (E : env K unit Q T) (debug : bool) (ck : K -> N) (cq : Q -> N),
    Lawful E ck cq ->
    forall (nx : T -> ans * T) (items : list K) (w : world K unit T),
      (forall s : T, fst (nx s) <> Boom) ->
      WF (self w) ->
      wp (s_extend_loop E debug nx items)
         (fun (_ : unit) (w' : world K unit T) =>
            WF (self w') /\
            cap (self w') = cap (self w) /\
            l_extend ck (cap (self w)) (Spec.elems (self w)) (List.map (fun k : K => (k, tt)) items) =
            Some (Spec.elems (self w')))
         (fun w' : world K unit T =>
            WF (self w') /\
            cap (self w') = cap (self w) /\
            l_extend ck (cap (self w)) (Spec.elems (self w)) (List.map (fun k : K => (k, tt)) items) = None)
         w.
Proof. exact (@s_extend_loop_lawful). Qed.
Print Assumptions C16_s_extend_loop_lawful.

Theorem C16_s_from_iter_lawful :
  forall (K Q T : Type) (E : env K unit Q T) (debug : bool) (ck : K -> N) (cq : Q -> N),
    Lawful E ck cq ->
    forall (nx : T -> ans * T) (items : list K) (w : world K unit T),
      (forall s : T, fst (nx s) <> Boom) ->
      WF (self w) ->
      len (self w) = 0 ->
      wp (s_from_iter E debug nx items)
         (fun (_ : unit) (w' : world K unit T) =>
            WF (self w') /\
            cap (self w') = cap (self w) /\
            l_extend ck (cap (self w)) [] (List.map (fun k : K => (k, tt)) items) =
            Some (Spec.elems (self w')))
         (fun _ : world K unit T =>
            l_extend ck (cap (self w)) [] (List.map (fun k : K => (k, tt)) items) = None)
         w.
Proof. exact (@s_from_iter_lawful). Qed.
Print Assumptions C16_s_from_iter_lawful.

(* Bulk.s_source_pulled_once: the Set twin of C16_source_pulled_once - Set::extend
   (and hence collect / From<[T; N]>) pulls its source exactly length items + 1
   times on normal return *)
Theorem C16_s_source_pulled_once :
  forall (K Q T : Type) (E : env K unit Q T) (debug : bool) (ck : K -> N) (cq : Q -> N),
    Lawful E ck cq ->
    forall (nx : T -> ans * T) (items : list K) (w : world K unit T),
      (forall s : T, fst (nx s) <> Boom) ->
      WF (self w) ->
      wp (s_extend_loop E debug nx items)
         (fun (_ : unit) (w' : world K unit T) =>
            exists evs : list event,
              log w' = log w ++ evs /\ length (filter is_pull evs) = S (length items))
         (fun _ : world K unit T => True)
         w.
Proof. exact (@s_source_pulled_once). Qed.
Print Assumptions C16_s_source_pulled_once.

(* -------------------------------------------------------------------------- *)
(* Bulk.l_extend_fold                                                          *)
Theorem C16_l_extend_fold :
  forall (K V : Type) (ck : K -> N) (n : nat) (l items : list (K * V)),
    l_extend ck n l items =
    fold_left
      (fun (acc : option (list (K * V))) (p : K * V) =>
         match acc with
         | Some a =>
             if length (fst (fst (l_insert ck a (fst p) (snd p) false))) <=? n
             then Some (fst (fst (l_insert ck a (fst p) (snd p) false)))
             else
               if match find_idx ck (ck (fst p)) a with
                  | Some _ => true
                  | None => false
                  end
               then Some (fst (fst (l_insert ck a (fst p) (snd p) false)))
               else None
         | None => None
         end)
      items (Some l).
Proof. exact (@l_extend_fold). Qed.
Print Assumptions C16_l_extend_fold.

(* -------------------------------------------------------------------------- *)
(* Non-vacuity.  Three items, two distinct keys (classes 5, 6, 5), capacity 2:
   longer than N but at most N distinct keys.                                  *)
Definition C16_sc0 : script := {| sc_adv := false; sc_seed := 0; sc_fk := 0; sc_fa := 0 |}.
Definition C16_items : list (key * vobj) := [(k_ 1 5, v_ 2 7); (k_ 3 6, v_ 4 8); (k_ 5 5, v_ 6 9)].

Example C16_example_honest : honest C16_sc0.
Proof. split; reflexivity. Qed.

Example C16_example_lawful_map : Lawful (env_map C16_sc0) kcls qcls.
Proof. exact (env_map_lawful C16_sc0 C16_example_honest). Qed.

Example C16_example_lawful_set : Lawful (env_set C16_sc0) kcls qcls.
Proof. exact (env_set_lawful C16_sc0 C16_example_honest). Qed.

Example C16_example_source_ok : forall s : cstate, fst (nx_none s) <> Boom.
Proof. intros s. cbn. discriminate. Qed.

Example C16_example_start :
  WF (self (w_of (new_map 2))) /\ len (self (w_of (new_map 2))) = 0.
Proof. split; [apply WF_new | reflexivity]. Qed.

(* Extend starts from a non-empty container as well *)
Example C16_example_start_nonempty : WF (self (w_of m3)).
Proof. exact m3_WF. Qed.

(* the pure machine: the first key object of class 5 (K1) is kept, the last
   value of class 5 (V6 d9) wins, two entries for three items *)
Example C16_example_l_extend :
  l_extend kcls 2 [] C16_items = Some [(k_ 1 5, v_ 6 9); (k_ 3 6, v_ 4 8)].
Proof. vm_compute. reflexivity. Qed.

Example C16_example_lookup :
  lookup kcls [(k_ 1 5, v_ 6 9); (k_ 3 6, v_ 4 8)] 5 = Some (k_ 1 5, v_ 6 9) /\
  first_key kcls 5 C16_items = Some (k_ 1 5) /\ last_val kcls 5 C16_items = Some (v_ 6 9).
Proof. vm_compute. repeat split. Qed.

(* capacity 1 is too small for two distinct keys *)
Example C16_example_overflow :
  l_extend kcls 1 [] C16_items = None /\
  length (nodup N.eq_dec (List.map (fun p : key * vobj => kcls (fst p)) C16_items)) = 2.
Proof. vm_compute. split; reflexivity. Qed.

(* the model run: 4 calls of next() (EvCall 1) for 3 items; the duplicate key
   object K5 and the displaced value V2 are destroyed *)
Example C16_example_run :
  from_iter (env_map C16_sc0) false nx_none C16_items (w_of (new_map 2)) =
  Ok tt
     {| cb := {| n_eq := 2; n_clone := 0; n_call := 0; next_id := 100000 |};
        log := [EvCall 1; EvCall 1; EvCall 1; EvDrop 5; EvDrop 2; EvCall 1];
        self := {| len := 2;
                   slots := [Some (k_ 1 5, v_ 6 9); Some (k_ 3 6, v_ 4 8)] |} |}.
Proof. vm_compute. reflexivity. Qed.

Example C16_example_run_overflow :
  match from_iter (env_map C16_sc0) false nx_none C16_items (w_of (new_map 1)) with
  | Panic _ => True
  | _ => False
  end.
Proof. vm_compute. exact I. Qed.

Example C16_example_run_set :
  s_from_iter (env_set C16_sc0) false nx_none [k_ 1 5; k_ 3 6; k_ 5 5]
              {| cb := cs0; log := []; self := new_map 2 |} =
  Ok tt
     {| cb := {| n_eq := 2; n_clone := 0; n_call := 0; next_id := 100000 |};
        log := [EvCall 1; EvCall 1; EvCall 1; EvDrop 5; EvCall 1];
        self := {| len := 2; slots := [Some (k_ 1 5, tt); Some (k_ 3 6, tt)] |} |}.
Proof. vm_compute. reflexivity. Qed.

(* Set::extend onto a non-empty set: 3 items, 4 pulls (EvCall 1 is next()) *)
Example C16_example_run_set_extend :
  match s_extend_loop (env_set C16_sc0) false nx_none [k_ 1 5; k_ 3 6; k_ 5 5]
                      {| cb := cs0; log := []; self := new_map 2 |} with
  | Ok _ w' => length (filter is_pull (log w')) = 4 /\ len (self w') = 2
  | _ => False
  end.
Proof. vm_compute. split; reflexivity. Qed.

(* ========================================================================== *)
(* AUDIT CLOSURE (appended).  Proofs/Bulk.v (general lemmas that existed but were
   not restated) and Proofs/MoreBulk.v (new).

   4. Extend onto a NON-EMPTY container.  C16_bulk_lookup / _size / _uniq /
      _overflow above start from the empty list [].  The general versions start
      from any list l (the elems of the container being extended):
        C16_bulk_lookup_gen  : class c maps, in the result, to
              bulk_view ck c (lookup ck l c) items
          where (C16_bulk_view_def)  bulk_view ck c start items  is
              key   = the key object ALREADY STORED for c (start = Some (k0, _)),
                      else the key object of the FIRST item of class c;
              value = the value of the LAST item of class c,
                      else the value already stored;
              nothing if c is neither stored nor among the items.
          So the stored key object of an existing key SURVIVES an Extend and its
          value is replaced by the last one supplied.
        C16_l_extend_sound   : keys stay pairwise different; the classes of the
          result are exactly those of l plus those of the items.
        C16_bulk_size_gen    : its length = number of DISTINCT classes of l and
          items together (repeats - of stored keys too - consume no capacity).
        C16_bulk_overflow_gen: overflow iff that number exceeds N.
      Premise  Uniq ck l  (keys of the start pairwise different) holds of every
      reachable container (Props/C01.v), and  length l <= N  is WF.
   5. Set twin of C16_from_iter_pulled_once: C16_s_from_iter_pulled_once.
   6. The pull count on the OVERFLOW exit: C16_extend_loop_full_pulls,
      C16_from_iter_full_pulls, C16_s_extend_loop_full_pulls,
      C16_s_from_iter_full_pulls: items = pre ++ x :: post, the container holds
      what pre built, and the source was pulled exactly S (length pre) times:
      once per stored item plus once for the overflowing one, and NOT AGAIN.
   7. "consumed exactly once, front to back" - what is proved and what the list
      abstraction hides.  In the model the source is NOT a function producing the
      items: extend_loop takes the LIST [items] the source is going to yield plus
      a hook  nx : T -> ans * T  that is called (call_next nx, logged as EvCall 1)
      at every point where the loop calls Iterator::next(): once before each item
      and once more after the last one (the call that returns None).  nx may
      advance the callback state and may panic; its Yes/No answer is ignored.
      Proved against this model:
        - C16_extend_loop_exact_log: the EXACT event log of the loop.  It is
              ext_evs E ck (elems) items ++ [EvCall 1]
          i.e. for item 1, 2, ... in list order: ONE EvCall 1, then the Drop
          events its insertion causes (C16_ext_evs_def), and after the last item
          ONE more EvCall 1.  Hence item i is inserted after exactly i pulls and
          before pull i+1 (front to back, no look-ahead, no re-pull); on overflow
          the log ends with the pull of the overflowing item followed by Drop
          events only: no pull is made after the overflow.
        - C16_pulls_ext_evs: that log contains exactly one pull per item.
      Hidden by the abstraction (closed by the correspondence check, not by a
      theorem): (a) that the i-th item inserted IS the value returned by the
      i-th call of next() - in the model the list is given, not produced by nx;
      (b) that the loop stops calling next() at the first None (fusedness of the
      source is not assumed by the crate; the model simply makes no call after
      the final one); (c) that size_hint() is never relied upon.  The harness
      closes these: its source `Src` (harness/src/ops.rs) wraps a Vec iterator,
      bumps the call counter n_call in every next() (nx_cb / call_tick in
      Model/Exec.v) and reports lying size hints; after every operation the
      counter n_call is compared with the model's (token 8890), so one call too
      many or too few - e.g. a second call after None - diverges; the container
      contents compared after the call pin the item order.
      C16_example_run_counter below shows the counter for 3 items: 4 calls.
   8. Examples: C16_example_extend_nonempty (non-empty start, repeated key),
      C16_example_overflow_midway (contents at the panic).
   ========================================================================== *)
Require Import Proofs.MoreBulk.

(* -------------------------------------------------------------------------- *)
(* 4. Bulk.bulk_view, bulk_lookup_gen, l_extend_sound, bulk_size_gen,
   bulk_overflow_gen                                                           *)
Theorem C16_bulk_view_def :
  forall (K V : Type) (ck : K -> N) (c : N) (start : option (K * V)) (items : list (K * V)),
    bulk_view ck c start items =
    match (match start with Some (k0, _) => Some k0 | None => first_key ck c items end),
          (match last_val ck c items with Some v => Some v | None => option_map snd start end) with
    | Some k, Some v => Some (k, v)
    | _, _ => None
    end.
Proof. reflexivity. Qed.
Print Assumptions C16_bulk_view_def.

(* l = the elems of the container being extended; "for repeated keys the last
   value wins and the first key object is kept" where "first" includes the key
   object already stored *)
Theorem C16_bulk_lookup_gen :
  forall (K V : Type) (ck : K -> N) (n : nat) (items l res : list (K * V)) (c : N),
    l_extend ck n l items = Some res ->
    lookup ck res c = bulk_view ck c (lookup ck l c) items.
Proof. exact (@bulk_lookup_gen). Qed.
Print Assumptions C16_bulk_lookup_gen.

Theorem C16_l_extend_sound :
  forall (K V : Type) (ck : K -> N) (n : nat) (items l res : list (K * V)),
    l_extend ck n l items = Some res ->
    Uniq ck l ->
    Uniq ck res /\
    forall c : N,
      In c (List.map (fun p : K * V => ck (fst p)) res) <->
      In c (List.map (fun p : K * V => ck (fst p)) l ++ List.map (fun p : K * V => ck (fst p)) items).
Proof. exact (@l_extend_sound). Qed.
Print Assumptions C16_l_extend_sound.

(* "repeats do not consume capacity", repeats of already stored keys included *)
Theorem C16_bulk_size_gen :
  forall (K V : Type) (ck : K -> N) (n : nat) (items l res : list (K * V)),
    l_extend ck n l items = Some res ->
    Uniq ck l ->
    length res =
    length (nodup N.eq_dec (List.map (fun p : K * V => ck (fst p)) l ++
                            List.map (fun p : K * V => ck (fst p)) items)).
Proof. exact (@bulk_size_gen). Qed.
Print Assumptions C16_bulk_size_gen.

Theorem C16_bulk_overflow_gen :
  forall (K V : Type) (ck : K -> N) (n : nat) (items l : list (K * V)),
    Uniq ck l ->
    length l <= n ->
    (l_extend ck n l items = None <->
     n < length (nodup N.eq_dec (List.map (fun p : K * V => ck (fst p)) l ++
                                 List.map (fun p : K * V => ck (fst p)) items))).
Proof. exact (@bulk_overflow_gen). Qed.
Print Assumptions C16_bulk_overflow_gen.

(* -------------------------------------------------------------------------- *)
(* 5. MoreBulk.s_from_iter_pulled_once: collect / From<[T; N]> into a Set pulls
   its source exactly length items + 1 times on normal return                  *)
Theorem C16_s_from_iter_pulled_once :
  forall (K Q T : Type) (E : env K unit Q T) (debug : bool) (ck : K -> N) (cq : Q -> N),
    Lawful E ck cq ->
    forall (nx : T -> ans * T) (items : list K) (w : world K unit T),
      (forall s : T, fst (nx s) <> Boom) ->
      WF (self w) ->
      wp (s_from_iter E debug nx items)
         (fun (_ : unit) (w' : world K unit T) =>
            exists evs : list event,
              log w' = log w ++ evs /\ length (filter is_pull evs) = S (length items))
         (fun _ : world K unit T => True)
         w.
Proof. exact (@s_from_iter_pulled_once). Qed.
Print Assumptions C16_s_from_iter_pulled_once.

(* -------------------------------------------------------------------------- *)
(* 6. pull counts on BOTH exits.  On overflow items = pre ++ x :: post with x the
   overflowing item: the container holds what pre built and the log grew by
   events containing exactly S (length pre) pulls (pre's, plus the one that
   yielded x): the source is not called again while unwinding.                *)
Theorem C16_extend_loop_full_pulls :
  forall (K V Q T : Type) (E : env K V Q T) (debug : bool) (ck : K -> N) (cq : Q -> N),
    Lawful E ck cq ->
    forall (nx : T -> ans * T) (items : list (K * V)),
      (forall s : T, fst (nx s) <> Boom) ->
      forall w : world K V T,
      WF (self w) ->
      wp (extend_loop E debug nx items)
         (fun (_ : unit) (w' : world K V T) =>
            WF (self w') /\
            cap (self w') = cap (self w) /\
            l_extend ck (cap (self w)) (Spec.elems (self w)) items = Some (Spec.elems (self w')) /\
            exists evs : list event,
              log w' = log w ++ evs /\ length (filter is_pull evs) = S (length items))
         (fun w' : world K V T =>
            WF (self w') /\
            cap (self w') = cap (self w) /\
            l_extend ck (cap (self w)) (Spec.elems (self w)) items = None /\
            exists (pre : list (K * V)) (x : K * V) (post : list (K * V)) (evs : list event),
              items = pre ++ x :: post /\
              l_extend ck (cap (self w)) (Spec.elems (self w)) pre = Some (Spec.elems (self w')) /\
              log w' = log w ++ evs /\
              length (filter is_pull evs) = S (length pre))
         w.
Proof. exact (@extend_loop_full_pulls). Qed.
Print Assumptions C16_extend_loop_full_pulls.

(* collect / From: res is the partial container at the overflow (destroyed by
   the unwinding: C03_from_iter_overflow) *)
Theorem C16_from_iter_full_pulls :
  forall (K V Q T : Type) (E : env K V Q T) (debug : bool) (ck : K -> N) (cq : Q -> N),
    Lawful E ck cq ->
    forall (nx : T -> ans * T) (items : list (K * V)) (w : world K V T),
      (forall s : T, fst (nx s) <> Boom) ->
      WF (self w) ->
      len (self w) = 0 ->
      wp (from_iter E debug nx items)
         (fun (_ : unit) (w' : world K V T) =>
            exists evs : list event,
              log w' = log w ++ evs /\ length (filter is_pull evs) = S (length items))
         (fun w' : world K V T =>
            exists (pre : list (K * V)) (x : K * V) (post res : list (K * V)) (evs : list event),
              items = pre ++ x :: post /\
              l_extend ck (cap (self w)) [] pre = Some res /\
              log w' = log w ++ evs /\
              length (filter is_pull evs) = S (length pre))
         w.
Proof. exact (@from_iter_full_pulls). Qed.
Print Assumptions C16_from_iter_full_pulls.

Theorem C16_s_extend_loop_full_pulls :
  forall (K Q T : Type) (E : env K unit Q T) (debug : bool) (ck : K -> N) (cq : Q -> N),
    Lawful E ck cq ->
    forall (nx : T -> ans * T) (items : list K),
      (forall s : T, fst (nx s) <> Boom) ->
      forall w : world K unit T,
      WF (self w) ->
      wp (s_extend_loop E debug nx items)
         (fun (_ : unit) (w' : world K unit T) =>
            WF (self w') /\
            cap (self w') = cap (self w) /\
            l_extend ck (cap (self w)) (Spec.elems (self w)) (unit_items items) = Some (Spec.elems (self w')) /\
            exists evs : list event,
              log w' = log w ++ evs /\ length (filter is_pull evs) = S (length items))
         (fun w' : world K unit T =>
            WF (self w') /\
            cap (self w') = cap (self w) /\
            l_extend ck (cap (self w)) (Spec.elems (self w)) (unit_items items) = None /\
            exists (pre : list K) (x : K) (post : list K) (evs : list event),
              items = pre ++ x :: post /\
              l_extend ck (cap (self w)) (Spec.elems (self w)) (unit_items pre) = Some (Spec.elems (self w')) /\
              log w' = log w ++ evs /\
              length (filter is_pull evs) = S (length pre))
         w.
Proof. exact (@s_extend_loop_full_pulls). Qed.
Print Assumptions C16_s_extend_loop_full_pulls.

Theorem C16_s_from_iter_full_pulls :
  forall (K Q T : Type) (E : env K unit Q T) (debug : bool) (ck : K -> N) (cq : Q -> N),
    Lawful E ck cq ->
    forall (nx : T -> ans * T) (items : list K) (w : world K unit T),
      (forall s : T, fst (nx s) <> Boom) ->
      WF (self w) ->
      len (self w) = 0 ->
      wp (s_from_iter E debug nx items)
         (fun (_ : unit) (w' : world K unit T) =>
            exists evs : list event,
              log w' = log w ++ evs /\ length (filter is_pull evs) = S (length items))
         (fun w' : world K unit T =>
            exists (pre : list K) (x : K) (post : list K) (res : list (K * unit)) (evs : list event),
              items = pre ++ x :: post /\
              l_extend ck (cap (self w)) [] (unit_items pre) = Some res /\
              log w' = log w ++ evs /\
              length (filter is_pull evs) = S (length pre))
         w.
Proof. exact (@s_from_iter_full_pulls). Qed.
Print Assumptions C16_s_from_iter_full_pulls.

(* -------------------------------------------------------------------------- *)
(* 7. the order clause: the exact log.  pair_drops E p = the Drop events of the
   pair p; ext_evs E ck l items = per item, in list order, one pull (EvCall 1)
   followed by the Drop events its insertion causes (supplied key object and
   displaced value when the key was already present; nothing otherwise).      *)
Theorem C16_pair_drops_def :
  forall (K V Q T : Type) (E : env K V Q T) (p : K * V),
  pair_drops E p = ev_drops (idK E (fst p) ++ idV E (snd p)).
Proof. reflexivity. Qed.
Print Assumptions C16_pair_drops_def.

(* the rejected ARGUMENTS of the overflowing insert: value first, then key (two
   parameters are destroyed in reverse declaration order) *)
Theorem C16_arg_drops_def :
  forall (K V Q T : Type) (E : env K V Q T) (p : K * V),
  arg_drops E p = ev_drops (idV E (snd p) ++ idK E (fst p)).
Proof. reflexivity. Qed.
Print Assumptions C16_arg_drops_def.

Theorem C16_ext_evs_def :
  forall (K V Q T : Type) (E : env K V Q T) (ck : K -> N) (l : list (K * V)),
  ext_evs E ck l [] = [] /\
  forall (k : K) (v : V) (rest : list (K * V)),
    ext_evs E ck l ((k, v) :: rest) =
    [EvCall 1] ++
    match snd (l_insert ck l k v false) with
    | Some (k', v0) => ev_drops (idK E k') ++ ev_drops (idV E v0)
    | None => []
    end ++
    ext_evs E ck (fst (fst (l_insert ck l k v false))) rest.
Proof. intros. split; reflexivity. Qed.
Print Assumptions C16_ext_evs_def.

Theorem C16_pulls_ext_evs :
  forall (K V Q T : Type) (E : env K V Q T) (ck : K -> N) (items l : list (K * V)),
  length (filter is_pull (ext_evs E ck l items)) = length items.
Proof. exact (@pulls_ext_evs). Qed.
Print Assumptions C16_pulls_ext_evs.

Theorem C16_extend_loop_exact_log :
  forall (K V Q T : Type) (E : env K V Q T) (debug : bool) (ck : K -> N) (cq : Q -> N),
    Lawful E ck cq ->
    forall (nx : T -> ans * T) (items : list (K * V)),
      (forall s : T, fst (nx s) <> Boom) ->
      forall w : world K V T,
      WF (self w) ->
      wp (extend_loop E debug nx items)
         (fun (_ : unit) (w' : world K V T) =>
            WF (self w') /\
            cap (self w') = cap (self w) /\
            l_extend ck (cap (self w)) (Spec.elems (self w)) items = Some (Spec.elems (self w')) /\
            log w' = log w ++ ext_evs E ck (Spec.elems (self w)) items ++ [EvCall 1])
         (fun w' : world K V T =>
            WF (self w') /\
            cap (self w') = cap (self w) /\
            l_extend ck (cap (self w)) (Spec.elems (self w)) items = None /\
            exists (pre : list (K * V)) (x : K * V) (post : list (K * V)),
              items = pre ++ x :: post /\
              l_extend ck (cap (self w)) (Spec.elems (self w)) pre = Some (Spec.elems (self w')) /\
              find_idx ck (ck (fst x)) (Spec.elems (self w')) = None /\
              length (Spec.elems (self w')) = cap (self w) /\
              log w' = log w ++ ext_evs E ck (Spec.elems (self w)) pre ++ [EvCall 1] ++
                                arg_drops E x ++ flat_map (pair_drops E) post)
         w.
Proof. exact (@extend_loop_overflow). Qed.
Print Assumptions C16_extend_loop_exact_log.

(* -------------------------------------------------------------------------- *)
(* 8. Examples.  A non-empty start (2 of 3 slots: K1 class 5, K3 class 6) is
   extended with items of classes 6, 7, 6: the key object ALREADY STORED for
   class 6 (K3) is kept - not K11, the first of the items -, the LAST value for
   class 6 (V18) wins, class 7 is appended, the repeats take no capacity.     *)
Definition C16_m2 : map key vobj :=
  {| len := 2; slots := [Some (k_ 1 5, v_ 2 7); Some (k_ 3 6, v_ 4 8); None] |}.
Definition C16_items2 : list (key * vobj) := [(k_ 11 6, v_ 12 1); (k_ 13 7, v_ 14 2); (k_ 17 6, v_ 18 4)].

Example C16_example_nonempty_start :
  WF (self (w_of C16_m2)) /\ Uniq kcls (Spec.elems C16_m2) /\ length (Spec.elems C16_m2) <= 3.
Proof.
  split.
  - split; [vm_compute; lia|]. intros i Hi. cbn [len w_of C16_m2 self] in Hi.
    destruct i as [|[|i]]; try lia; eexists; reflexivity.
  - split; [|vm_compute; lia]. unfold Uniq. vm_compute.
    repeat constructor; cbn [In]; intuition discriminate.
Qed.

Example C16_example_extend_nonempty :
  l_extend kcls 3 (Spec.elems C16_m2) C16_items2
    = Some [(k_ 1 5, v_ 2 7); (k_ 3 6, v_ 18 4); (k_ 13 7, v_ 14 2)] /\
  bulk_view kcls 6 (lookup kcls (Spec.elems C16_m2) 6) C16_items2 = Some (k_ 3 6, v_ 18 4) /\
  bulk_view kcls 7 (lookup kcls (Spec.elems C16_m2) 7) C16_items2 = Some (k_ 13 7, v_ 14 2) /\
  bulk_view kcls 5 (lookup kcls (Spec.elems C16_m2) 5) C16_items2 = Some (k_ 1 5, v_ 2 7) /\
  bulk_view kcls 9 (lookup kcls (Spec.elems C16_m2) 9) C16_items2 = None.
Proof. vm_compute. repeat split; reflexivity. Qed.

(* the model run of that Extend, with the COUNTING source nx_cb: 4 calls of
   next() for 3 items (n_call = 4); the log is ext_evs ++ [EvCall 1]: pull,
   Drop of supplied key K11 and displaced V4, pull, pull, Drop of supplied key
   K17 and displaced V12, final pull *)
Example C16_example_run_counter :
  extend_loop (env_map C16_sc0) false (nx_cb C16_sc0) C16_items2 (w_of C16_m2) =
  Ok tt
     {| cb := {| n_eq := 6; n_clone := 0; n_call := 4; next_id := 100000 |};
        log := [EvCall 1; EvDrop 11; EvDrop 4; EvCall 1; EvCall 1; EvDrop 17; EvDrop 12; EvCall 1];
        self := {| len := 3;
                   slots := [Some (k_ 1 5, v_ 2 7); Some (k_ 3 6, v_ 18 4); Some (k_ 13 7, v_ 14 2)] |} |} /\
  ext_evs (env_map C16_sc0) kcls (Spec.elems C16_m2) C16_items2 =
    [EvCall 1; EvDrop 11; EvDrop 4; EvCall 1; EvCall 1; EvDrop 17; EvDrop 12].
Proof. vm_compute. split; reflexivity. Qed.

(* an overflow midway: the same start extended with classes 6, 7, 8, 5.  Item 3
   (class 8) does not fit.  At the panic the container holds exactly what items
   1-2 built; 3 pulls (not 5); the rejected item 3 (V16, then K15) and the never-yielded item 4
   (K17, V18) are destroyed once. *)
Definition C16_items3 : list (key * vobj) :=
  [(k_ 11 6, v_ 12 1); (k_ 13 7, v_ 14 2); (k_ 15 8, v_ 16 3); (k_ 17 5, v_ 18 4)].

Example C16_example_overflow_midway :
  l_extend kcls 3 (Spec.elems C16_m2) C16_items3 = None /\
  match extend_loop (env_map C16_sc0) false (nx_cb C16_sc0) C16_items3 (w_of C16_m2) with
  | Panic w' =>
      Spec.elems (self w') = [(k_ 1 5, v_ 2 7); (k_ 3 6, v_ 12 1); (k_ 13 7, v_ 14 2)] /\
      l_extend kcls 3 (Spec.elems C16_m2) [(k_ 11 6, v_ 12 1); (k_ 13 7, v_ 14 2)]
        = Some (Spec.elems (self w')) /\
      n_call (cb w') = 3%N /\
      length (filter is_pull (log w')) = 3 /\
      log w' = [EvCall 1; EvDrop 11; EvDrop 4; EvCall 1; EvCall 1;
                EvDrop 16; EvDrop 15; EvDrop 17; EvDrop 18]
  | _ => False
  end.
Proof. vm_compute. repeat split; reflexivity. Qed.

(* Set: collect of 5 elements (classes 5,5,6,7,8) into capacity 2 overflows at
   the 4th: 4 pulls; the repeated K3, the rejected K7, the never-yielded K9 and
   the partial set {K1, K5} are destroyed once *)
Example C16_example_set_overflow_midway :
  match s_from_iter (env_set C16_sc0) false nx_none [k_ 1 5; k_ 3 5; k_ 5 6; k_ 7 7; k_ 9 8]
                    {| cb := cs0; log := []; self := new_map 2 |} with
  | Panic w' =>
      log w' = [EvCall 1; EvCall 1; EvDrop 3; EvCall 1; EvCall 1; EvDrop 7; EvDrop 9; EvDrop 1; EvDrop 5]
  | _ => False
  end.
Proof. vm_compute. reflexivity. Qed.

(* ========================================================================== *)
(* AUDIT CLOSURE, ROUND 2 (appended).  Proofs/MoreBulk.v, section 4.

   (4) From<[(K,V); N]> / From<[T; N]> CANNOT overflow: they hand exactly N items
       to a fresh container of capacity N.  C16_l_extend_fits: at most n items
       never overflow capacity n (they have at most n distinct classes);
       C16_from_iter_no_overflow / C16_s_from_iter_no_overflow: with
       length items <= cap the build never panics (panic postcondition False)
       and gives l_extend of the items; C16_from_iter_no_overflow_returns: the
       run IS a normal return.  Hypotheses: len (self w) = 0 is "the fresh
       Map::new()/Set::new()", length items <= cap (self w) is "an array of N
       items into capacity N" (also any shorter source), nx never panics (an
       array's iterator does not).
   (5) The exact event log on BOTH exits, with its pull-count reading, for the
       other three bulk entry points (C16_extend_loop_exact_log covers Extend
       for Map): C16_from_iter_exact_log (collect / From for Map),
       C16_s_extend_loop_exact_log (Set::extend), C16_s_from_iter_exact_log
       (collect / From for Set).  Reading: ext_evs / s_ext_evs contain exactly
       one pull (EvCall 1) per item, in list order, each followed only by the
       Drop events of that item's insertion (C16_pulls_ext_evs,
       C16_pulls_s_ext_evs); on return one more pull closes the log
       (S (length items) pulls); on overflow the log is "pre's events, the pull
       that yielded x, then Drop events only" (S (length pre) pulls, none after
       the overflow): arg_drops x (the rejected arguments), pair_drops of every
       never-yielded item of post, and for collect / From the entries of the
       partial container res.
   ========================================================================== *)

Theorem C16_l_extend_fits :
  forall (K V : Type) (ck : K -> N) (n : nat) (items : list (K * V)),
    length items <= n -> l_extend ck n [] items <> None.
Proof. exact (@l_extend_fits). Qed.
Print Assumptions C16_l_extend_fits.

Theorem C16_from_iter_no_overflow :
  forall (K V Q T : Type) (E : env K V Q T) (debug : bool) (ck : K -> N) (cq : Q -> N),
    Lawful E ck cq ->
    forall (nx : T -> ans * T) (items : list (K * V)) (w : world K V T),
      WF (self w) ->
      len (self w) = 0 ->
      length items <= cap (self w) ->
      (forall s : T, fst (nx s) <> Boom) ->
      wp (from_iter E debug nx items)
         (fun (_ : unit) (w' : world K V T) =>
            WF (self w') /\
            cap (self w') = cap (self w) /\
            l_extend ck (cap (self w)) [] items = Some (Spec.elems (self w')) /\
            log w' = log w ++ ext_evs E ck [] items ++ [EvCall 1])
         (fun _ : world K V T => False)
         w.
Proof. exact (@from_iter_no_overflow). Qed.
Print Assumptions C16_from_iter_no_overflow.

Theorem C16_from_iter_no_overflow_returns :
  forall (K V Q T : Type) (E : env K V Q T) (debug : bool) (ck : K -> N) (cq : Q -> N),
    Lawful E ck cq ->
    forall (nx : T -> ans * T) (items : list (K * V)) (w : world K V T),
      WF (self w) ->
      len (self w) = 0 ->
      length items <= cap (self w) ->
      (forall s : T, fst (nx s) <> Boom) ->
      exists w' : world K V T,
        from_iter E debug nx items w = Ok tt w' /\
        WF (self w') /\
        cap (self w') = cap (self w) /\
        l_extend ck (cap (self w)) [] items = Some (Spec.elems (self w')).
Proof. exact (@from_iter_no_overflow_returns). Qed.
Print Assumptions C16_from_iter_no_overflow_returns.

Theorem C16_s_from_iter_no_overflow :
  forall (K Q T : Type) (E : env K unit Q T) (debug : bool) (ck : K -> N) (cq : Q -> N),
    Lawful E ck cq ->
    forall (nx : T -> ans * T) (items : list K) (w : world K unit T),
      WF (self w) ->
      len (self w) = 0 ->
      length items <= cap (self w) ->
      (forall s : T, fst (nx s) <> Boom) ->
      wp (s_from_iter E debug nx items)
         (fun (_ : unit) (w' : world K unit T) =>
            WF (self w') /\
            cap (self w') = cap (self w) /\
            l_extend ck (cap (self w)) [] (unit_items items) = Some (Spec.elems (self w')) /\
            log w' = log w ++ s_ext_evs E ck [] items ++ [EvCall 1])
         (fun _ : world K unit T => False)
         w.
Proof. exact (@s_from_iter_no_overflow). Qed.
Print Assumptions C16_s_from_iter_no_overflow.

(* an array of 3 items with a repeated key (classes 5, 6, 5) into capacity 3:
   the hypotheses hold, the build returns, 2 entries *)
Example C16_example_array_fits :
  WF (self (w_of (new_map 3))) /\ len (self (w_of (new_map 3))) = 0 /\
  length C16_items <= cap (self (w_of (new_map 3))) /\
  match from_iter (env_map C16_sc0) false nx_none C16_items (w_of (new_map 3)) with
  | Ok _ w' => Spec.elems (self w') = [(k_ 1 5, v_ 6 9); (k_ 3 6, v_ 4 8)]
  | _ => False
  end.
Proof. split; [apply WF_new|]. split; [reflexivity|]. split; [vm_compute; lia|]. vm_compute. reflexivity. Qed.

(* -------------------------------------------------------------------------- *)
(* (5) exact logs of the other bulk entry points *)
Theorem C16_s_ext_evs_def :
  forall (K Q T : Type) (E : env K unit Q T) (ck : K -> N) (l : list (K * unit)),
  s_ext_evs E ck l [] = [] /\
  forall (k : K) (rest : list K),
    s_ext_evs E ck l (k :: rest) =
    [EvCall 1] ++
    match snd (l_insert ck l k tt false) with
    | Some (k', _) => ev_drops (idK E k')
    | None => []
    end ++
    s_ext_evs E ck (fst (fst (l_insert ck l k tt false))) rest.
Proof. intros. split; reflexivity. Qed.
Print Assumptions C16_s_ext_evs_def.

Theorem C16_pulls_s_ext_evs :
  forall (K Q T : Type) (E : env K unit Q T) (ck : K -> N) (items : list K) (l : list (K * unit)),
  length (filter is_pull (s_ext_evs E ck l items)) = length items.
Proof. exact (@pulls_s_ext_evs). Qed.
Print Assumptions C16_pulls_s_ext_evs.

Theorem C16_from_iter_exact_log :
  forall (K V Q T : Type) (E : env K V Q T) (debug : bool) (ck : K -> N) (cq : Q -> N),
    Lawful E ck cq ->
    forall (nx : T -> ans * T) (items : list (K * V)) (w : world K V T),
      (forall s : T, fst (nx s) <> Boom) ->
      WF (self w) ->
      len (self w) = 0 ->
      wp (from_iter E debug nx items)
         (fun (_ : unit) (w' : world K V T) =>
            WF (self w') /\
            cap (self w') = cap (self w) /\
            l_extend ck (cap (self w)) [] items = Some (Spec.elems (self w')) /\
            log w' = log w ++ ext_evs E ck [] items ++ [EvCall 1])
         (fun w' : world K V T =>
            l_extend ck (cap (self w)) [] items = None /\
            exists (pre : list (K * V)) (x : K * V) (post res : list (K * V)),
              items = pre ++ x :: post /\
              l_extend ck (cap (self w)) [] pre = Some res /\
              find_idx ck (ck (fst x)) res = None /\
              length res = cap (self w) /\
              log w' = log w ++ ext_evs E ck [] pre ++ [EvCall 1] ++
                                arg_drops E x ++ flat_map (pair_drops E) post ++
                                flat_map (pair_drops E) res)
         w.
Proof. exact (@from_iter_overflow). Qed.
Print Assumptions C16_from_iter_exact_log.

Theorem C16_s_extend_loop_exact_log :
  forall (K Q T : Type) (E : env K unit Q T) (debug : bool) (ck : K -> N) (cq : Q -> N),
    Lawful E ck cq ->
    forall (nx : T -> ans * T) (items : list K),
      (forall s : T, fst (nx s) <> Boom) ->
      forall w : world K unit T,
      WF (self w) ->
      wp (s_extend_loop E debug nx items)
         (fun (_ : unit) (w' : world K unit T) =>
            WF (self w') /\
            cap (self w') = cap (self w) /\
            l_extend ck (cap (self w)) (Spec.elems (self w)) (unit_items items) = Some (Spec.elems (self w')) /\
            log w' = log w ++ s_ext_evs E ck (Spec.elems (self w)) items ++ [EvCall 1])
         (fun w' : world K unit T =>
            WF (self w') /\
            cap (self w') = cap (self w) /\
            l_extend ck (cap (self w)) (Spec.elems (self w)) (unit_items items) = None /\
            exists (pre : list K) (x : K) (post : list K),
              items = pre ++ x :: post /\
              l_extend ck (cap (self w)) (Spec.elems (self w)) (unit_items pre) = Some (Spec.elems (self w')) /\
              find_idx ck (ck x) (Spec.elems (self w')) = None /\
              length (Spec.elems (self w')) = cap (self w) /\
              log w' = log w ++ s_ext_evs E ck (Spec.elems (self w)) pre ++ [EvCall 1] ++
                                arg_drops E (x, tt) ++ flat_map (pair_drops E) (unit_items post))
         w.
Proof. exact (@s_extend_loop_overflow). Qed.
Print Assumptions C16_s_extend_loop_exact_log.

Theorem C16_s_from_iter_exact_log :
  forall (K Q T : Type) (E : env K unit Q T) (debug : bool) (ck : K -> N) (cq : Q -> N),
    Lawful E ck cq ->
    forall (nx : T -> ans * T) (items : list K) (w : world K unit T),
      (forall s : T, fst (nx s) <> Boom) ->
      WF (self w) ->
      len (self w) = 0 ->
      wp (s_from_iter E debug nx items)
         (fun (_ : unit) (w' : world K unit T) =>
            WF (self w') /\
            cap (self w') = cap (self w) /\
            l_extend ck (cap (self w)) [] (unit_items items) = Some (Spec.elems (self w')) /\
            log w' = log w ++ s_ext_evs E ck [] items ++ [EvCall 1])
         (fun w' : world K unit T =>
            l_extend ck (cap (self w)) [] (unit_items items) = None /\
            exists (pre : list K) (x : K) (post : list K) (res : list (K * unit)),
              items = pre ++ x :: post /\
              l_extend ck (cap (self w)) [] (unit_items pre) = Some res /\
              find_idx ck (ck x) res = None /\
              length res = cap (self w) /\
              log w' = log w ++ s_ext_evs E ck [] pre ++ [EvCall 1] ++
                                arg_drops E (x, tt) ++ flat_map (pair_drops E) (unit_items post) ++
                                flat_map (pair_drops E) res)
         w.
Proof. exact (@s_from_iter_overflow). Qed.
Print Assumptions C16_s_from_iter_exact_log.

(* ------------------------------------------------------------------------
   "Exactly the container obtained by inserting the items one at a time in
   order" for ANY operand-determined == (Proofs/PureEqBulk.v, [Related E ck cq R],
   R an arbitrary relation on classes): [bulk_rel] is the fold of the one-step
   insert of Proofs/PureEq.v over the items, None = overflow.
   ------------------------------------------------------------------------ *)
Require Import Proofs.PureEq Proofs.PureEqBulk.

Theorem C16_extend_any_relation :
  forall (K V Q T : Type) (E : env K V Q T) (debug : bool) (ck : K -> N) (cq : Q -> N) (R : N -> N -> bool)
         (HR : Related E ck cq R) (nx : T -> ans * T) (items : list (K * V)),
    (forall s, fst (nx s) <> Boom) -> forall w : world K V T, WF (self w) ->
    wp (extend_loop E debug nx items)
       (fun (_ : unit) (w' : world K V T) =>
          WF (self w') /\ cap (self w') = cap (self w) /\
          bulk_rel ck R (Spec.elems (self w)) items (cap (self w)) = Some (Spec.elems (self w')))
       (fun w' : world K V T =>
          WF (self w') /\ cap (self w') = cap (self w) /\
          bulk_rel ck R (Spec.elems (self w)) items (cap (self w)) = None /\
          exists items1 k v items2,
            items = items1 ++ (k, v) :: items2 /\
            bulk_rel ck R (Spec.elems (self w)) items1 (cap (self w)) = Some (Spec.elems (self w')) /\
            find_rel ck R (ck k) (Spec.elems (self w')) = None /\
            len (self w') = cap (self w')) w.
Proof. exact (fun K V Q T E debug ck cq R HR => extend_loop_rel E debug ck cq R HR). Qed.
Print Assumptions C16_extend_any_relation.

Theorem C16_from_iter_any_relation :
  forall (K V Q T : Type) (E : env K V Q T) (debug : bool) (ck : K -> N) (cq : Q -> N) (R : N -> N -> bool)
         (HR : Related E ck cq R) (nx : T -> ans * T) (items : list (K * V)) (w : world K V T),
    (forall s, fst (nx s) <> Boom) -> WF (self w) -> len (self w) = 0 ->
    wp (from_iter E debug nx items)
       (fun (_ : unit) (w' : world K V T) =>
          WF (self w') /\ cap (self w') = cap (self w) /\
          bulk_rel ck R [] items (cap (self w)) = Some (Spec.elems (self w')))
       (fun _ : world K V T => bulk_rel ck R [] items (cap (self w)) = None) w.
Proof. exact (fun K V Q T E debug ck cq R HR => from_iter_rel E debug ck cq R HR). Qed.
Print Assumptions C16_from_iter_any_relation.

(* the fold is the one-at-a-time insertion, and for R = equality of classes it is the lawful list machine *)
Theorem C16_bulk_rel_is_fold :
  forall (K V : Type) (ck : K -> N) (R : N -> N -> bool) (l items : list (K * V)) (cap : nat),
    bulk_rel ck R l items cap = fold_left (bulk_step ck R cap) items (Some l).
Proof. exact (fun K V => @bulk_rel_is_fold_insert K V). Qed.
Print Assumptions C16_bulk_rel_is_fold.

Theorem C16_bulk_rel_lawful :
  forall (K V : Type) (ck : K -> N) (R : N -> N -> bool) (l items : list (K * V)) (cap : nat),
    (forall a b, R a b = N.eqb a b) -> bulk_rel ck R l items cap = Bulk.l_extend ck cap l items.
Proof. exact (fun K V => @bulk_rel_eqb K V). Qed.
Print Assumptions C16_bulk_rel_lawful.

(* under "<=" the order of the items decides how many entries there are, and whether the build overflows *)
Theorem C16_example_order_matters :
  bulk_rel (fun n : N => n) N.leb [] [(5%N, 50); (3%N, 30); (4%N, 40)] 3 = Some [(5%N, 50); (3%N, 40)] /\
  bulk_rel (fun n : N => n) N.leb [] [(3%N, 30); (4%N, 40); (5%N, 50)] 3 = Some [(3%N, 50)] /\
  bulk_rel (fun n : N => n) N.leb [] [(5%N, 50); (4%N, 40); (3%N, 30)] 2 = None.
Proof. exact (conj bulk_rel_leb_534 (conj bulk_rel_leb_345 (proj1 bulk_rel_leb_overflow))). Qed.
Print Assumptions C16_example_order_matters.
