(* Legacy.v — the three functions of the ORIGINAL tree that violated C04
   (exception safety), kept as definitions with machine-checked witnesses.
   They were repaired in /repo by the commits recorded in /verif/KNOWN_FINDINGS;
   Model/MapOps.v describes the repaired code.  If a fix is ever reverted the
   correspondence check diverges from the model exactly on these histories
   (corpus/C04-findings.case). *)
Require Import Model.Base Model.Slots Model.MapOps Model.Exec Proofs.Inv.

Section Legacy.
Context {K V Q T : Type} (E : env K V Q T) (debug : bool).
Notation M := (M K V T).

(* F2: src/map.rs clear() before the fix: the length was reset AFTER the drop loop *)
Definition clear_legacy : M unit :=
  n <- get_len ;; drop_range E n 0 ;; set_len 0.

(* F3: src/map.rs remove_index_drop before the fix: the slot was destroyed
   BEFORE len -= 1 and the compaction *)
Definition remove_index_drop_legacy (i : nat) : M unit :=
  p_drop E i ;;
  dec_len debug ;;
  n <- get_len ;;
  if i =? n then ret tt else (value <- p_read n ;; p_write i value).

Fixpoint retain_loop_legacy (f : pred_t) (fuel i : nat) : M unit :=
  n <- get_len ;;
  if i <? n then
    match fuel with
    | 0 => ub
    | S fuel' =>
        keep <- call_pred f i ;;
        if keep then retain_loop_legacy f fuel' (S i)
        else (remove_index_drop_legacy i ;; retain_loop_legacy f fuel' i)
    end
  else ret tt.
Definition retain_legacy (f : pred_t) : M unit :=
  n <- get_len ;; retain_loop_legacy f n 0.

(* F1: src/clone.rs before the fix: m.len = self.len was published BEFORE any
   element clone had been written *)
Fixpoint clone_loop_legacy (src : map K V) (n i : nat) : M unit :=
  match n with
  | 0 => ret tt
  | S n' =>
      match nth_error (slots src) i with
      | Some (Some p) => p' <- clone_pair E p ;; p_write i p' ;; clone_loop_legacy src n' (S i)
      | _ => ub
      end
  end.
Definition clone_from_src_legacy (src : map K V) : M unit :=
  finally_drop E (
    c <- get_cap ;;
    set_len (len src) ;;
    if len src <=? cap src then clone_loop_legacy src (Nat.min c (len src)) 0 else panic).

End Legacy.

(* ---------- witnesses (the histories of corpus/C04-findings.case) ---------- *)
Definition k_ (i c : N) : key := {| kid := i; kcls := c |}.
Definition v_ (i d : N) : vobj := {| vid := i; vdat := d |}.
Definition m3 : map key vobj :=
  {| len := 3; slots := [Some (k_ 1 5, v_ 2 7); Some (k_ 3 6, v_ 4 8); Some (k_ 5 7, v_ 6 9)] |}.
Definition cs0 : cstate := {| n_eq := 0; n_clone := 0; n_call := 0; next_id := 100000 |}.
Definition sc_drop (id : N) : script := {| sc_adv := false; sc_seed := 0; sc_fk := 3; sc_fa := id |}.
Definition sc_clone (n : N) : script := {| sc_adv := false; sc_seed := 0; sc_fk := 2; sc_fa := n |}.
Definition w_of (m : map key vobj) : world key vobj cstate := {| cb := cs0; log := []; self := m |}.

Lemma m3_WF : WF m3.
Proof.
  split; [cbn; lia|]. intros i Hi. cbn [len m3] in Hi.
  destruct i as [|[|[|i]]]; try lia; eexists; reflexivity.
Qed.

(* F2: Drop of the 2nd key (id 3) panics inside clear(): the container is left
   with len = 3 over destroyed slots; dropping it afterwards is UB *)
Lemma clear_legacy_refuted :
  exists sc w, WF (self w) /\
    match clear_legacy (env_map sc) w with
    | Panic w' => drop_map (env_map sc) w' = UB
    | _ => False
    end.
Proof. exists (sc_drop 3), (w_of m3). split; [exact m3_WF | vm_compute; reflexivity]. Qed.

(* F3: retain(|_,_| false), Drop of the first removed key panics *)
Definition pred_false : pred_t (K:=key) (V:=vobj) (T:=cstate) := fun s _ v => ((Some false, v), s).
Lemma retain_legacy_refuted :
  exists sc w, WF (self w) /\
    match retain_legacy (env_map sc) false pred_false w with
    | Panic w' => drop_map (env_map sc) w' = UB
    | _ => False
    end.
Proof. exists (sc_drop 1), (w_of m3). split; [exact m3_WF | vm_compute; reflexivity]. Qed.

(* F1: the 2nd element clone panics: unwinding drops the partial clone, whose
   len already covers never-written slots *)
Lemma clone_legacy_refuted :
  exists sc src w, WF src /\ WF (self w) /\ len (self w) = 0 /\
    clone_from_src_legacy (env_map sc) src w = UB.
Proof.
  exists (sc_clone 2), m3, (w_of (new_map 3)).
  split; [exact m3_WF|]. split; [apply WF_new|]. split; [reflexivity | vm_compute; reflexivity].
Qed.

(* the repaired functions on the same histories: no UB, container well-formed *)
Lemma clear_fixed_same_history :
  match clear (env_map (sc_drop 3)) (w_of m3) with
  | Panic w' => len (self w') = 0 /\ drop_map (env_map (sc_drop 3)) w' <> UB
  | _ => False
  end.
Proof. vm_compute. split; [reflexivity | discriminate]. Qed.
Lemma clone_fixed_same_history :
  match clone_from_src (env_map (sc_clone 2)) m3 (w_of (new_map 3)) with
  | Panic _ => True
  | _ => False
  end.
Proof. vm_compute. exact I. Qed.
