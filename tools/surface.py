#!/usr/bin/env python3
"""API-surface tie: every public method of an inherent impl and every method of a trait impl in /repo/src must be
listed in coq/MODELLED.tsv (entry -> model definition).  An entry that is not in the table means the theorems
quantifying over "any operation" no longer cover the API.  Brace depth is tracked, so that free functions (private
helpers, also `pub fn` in the crate's private modules), functions nested in bodies and everything inside
`macro_rules!` definitions are NOT entries (a behaviour-preserving refactor adds those freely); the correspondence and
the coverage tie still run over whatever code they contain."""
import os, re, sys


def _strip(line):
    """drop line comments and the contents of string / char literals (good enough for brace counting)"""
    line = re.sub(r'"(?:\\.|[^"\\])*"', '""', line)
    line = re.sub(r"'(?:\\.|[^'\\])'", "' '", line)
    i = line.find("//")
    return line if i < 0 else line[:i]


def _norm_hdr(h):
    hdr = re.sub(r"<[^<>]*>", "", h)
    hdr = re.sub(r"<[^<>]*>", "", hdr)
    hdr = re.sub(r"\s+", " ", hdr).replace("{", "").strip()
    return re.sub(r"\bwhere\b.*", "", hdr).strip()


def _crate_items(root):
    """names of the crate's PUBLIC types, and of the PRIVATE types and traits it defines (helper types of a refactor
    and their trait impls are not API surface)"""
    pub_types, priv_types, priv_traits = set(), set(), set()
    for dp, _, fs in os.walk(root):
        for f in fs:
            if not f.endswith(".rs"):
                continue
            src = open(os.path.join(dp, f)).read().split("#[cfg(test)]")[0]
            for m in re.finditer(r"^\s*(pub(?:\([a-z: ]+\))?\s+)?(struct|enum|union|trait)\s+(\w+)", src, re.M):
                vis, kind, name = m.group(1), m.group(2), m.group(3)
                public = vis is not None and "(" not in vis
                if kind == "trait":
                    if not public:
                        priv_traits.add(name)
                elif public:
                    pub_types.add(name)
                else:
                    priv_types.add(name)
    return pub_types, priv_types - pub_types, priv_traits


def surface(root="/repo/src"):
    out = []
    pub_types, priv_types, priv_traits = _crate_items(root)
    for dp, _, fs in os.walk(root):
        for f in sorted(fs):
            if not f.endswith(".rs"):
                continue
            p = os.path.join(dp, f)
            rel = os.path.relpath(p, root)
            src = open(p).read().split("#[cfg(test)]")[0]
            # join multi-line impl headers into one line
            lines, pending = [], None
            for raw in src.split("\n"):
                st = _strip(raw).strip()
                if not st:
                    continue
                if pending is not None:
                    pending += " " + st
                    if "{" in st or st.endswith(";"):
                        lines.append(pending)
                        pending = None
                    continue
                if re.match(r"(unsafe\s+)?impl\b", st) and "{" not in st and not st.endswith(";"):
                    pending = st
                    continue
                lines.append(st)
            depth = 0
            ctx = []          # stack of (kind, depth inside the block, inherent header, trait-impl name)
            for s in lines:
                opener = None
                if re.match(r"macro_rules!", s):
                    opener = ("macro", None, None)
                else:
                    m = re.match(r"(unsafe\s+)?impl\b(.*)", s)
                    if m and "{" in s:
                        hs = re.sub(r"<[^<>]*>", "", s)
                        hs = re.sub(r"<[^<>]*>", "", hs)
                        hs = re.sub(r"<[^<>]*>", "", hs)
                        mt = re.match(r"(?:unsafe\s+)?impl\b\s*(\S+)\s+for\s+(\S+)", hs)
                        if mt:
                            t = mt.group(1).split("::")[-1]
                            for_ = mt.group(2).replace("{", "").split("::")[-1]
                            if t in priv_traits or for_ in priv_types:
                                opener = ("private", None, None)     # a crate-private trait or helper type
                            else:
                                opener = ("trait", None, f"impl {t} for {for_}")
                        else:
                            hdr = _norm_hdr(m.group(2))
                            opener = ("private", None, None) if hdr.split("::")[-1] in priv_types else ("inherent", hdr, None)
                in_macro = any(c[0] == "macro" for c in ctx)
                top = ctx[-1] if ctx else None
                if opener and opener[0] == "trait" and not in_macro:
                    out.append(f"{rel}:{opener[2]}")
                if top and not in_macro and depth == top[1]:
                    if top[0] == "inherent":
                        m = re.match(r"pub\s+(?:const\s+)?(?:unsafe\s+)?fn\s+(\w+)", s)
                        if m:
                            out.append(f"{rel}:{top[2]}::{m.group(1)}")
                    elif top[0] == "trait":
                        m = re.match(r"(?:unsafe\s+)?fn\s+(\w+)", s)
                        if m:
                            out.append(f"{rel}:{top[3]}::{m.group(1)}")
                for ch in s:
                    if ch == "{":
                        depth += 1
                        if opener is not None:
                            ctx.append((opener[0], depth, opener[1], opener[2]))
                            opener = None
                    elif ch == "}":
                        depth -= 1
                        while ctx and depth < ctx[-1][1]:
                            ctx.pop()
    return sorted(set(out))


if __name__ == "__main__":
    for e in surface(sys.argv[1] if len(sys.argv) > 1 else "/repo/src"):
        print(e)
