#!/bin/bash
# goal.sh <file.v> <line> : print the proof state after line <line>
f=$1; n=$2
d=$(dirname $f); b=$(basename $f .v)
tmp=/verif/coq/Proofs/Tmp_goal_$$.v
head -n $n $f > $tmp; echo "Show." >> $tmp
cd /verif/coq && coqc -Q Model Model -Q Proofs Proofs -Q Props Props $tmp 2>&1 | grep -v "^Warning" | head -${3:-60}
rm -f /verif/coq/Proofs/Tmp_goal_$$.*  /verif/coq/Proofs/.Tmp_goal_$$.*
