(* Lawful2.v — insertion and removal compute the list-machine functions. *)
Require Import Model.Base Model.Slots Model.MapOps Proofs.Hoare Proofs.Inv Proofs.Spec Proofs.Lawful.

Section Lawful2.
Context {K V Q T : Type} (E : env K V Q T) (debug : bool).
Context (ck : K -> N) (cq : Q -> N) (HL : Lawful E ck cq).
Notation M := (M K V T).
Notation world := (world K V T).
Notation map := (map K V).
Notation kv := (K * V)%type.

(* what a mutating call may change: the container (capacity fixed) and the log *)
Definition same_cb_log (w w' : world) : Prop := log w' = log w.

(* ---- insert_ii ---- *)
(* on overflow the rejected key and value are destroyed (once) by the unwinding
   and the container is untouched; this holds for both values of [debug] *)
Lemma insert_ii_lawful k v u w :
  WF (self w) ->
  wp (insert_ii E debug k v u)
     (fun r w' =>
        WF (self w') /\ cap (self w') = cap (self w) /\ log w' = log w /\
        (elems (self w'), fst r, snd r) = l_insert ck (elems (self w)) k v u /\
        (find_idx ck (ck k) (elems (self w)) = None -> len (self w) < cap (self w)))
     (fun w' =>
        self w' = self w /\ logged w w' (ev_drops (idV E v ++ idK E k)) /\
        find_idx ck (ck k) (elems (self w)) = None /\ len (self w) = cap (self w)) w.
Proof.
  intros Hw. unfold insert_ii. apply wp_bind. apply wp_on_unwind_nopanic.
  eapply wp_mono; [apply (scan_lawful ck (test_k E k) (ck k)); [apply (cls_test_k E ck cq HL) | exact Hw] | | intros w' []]; cbn beta.
  intros r w1 [[Hs1 Hl1] ->]. unfold l_insert.
  destruct (find_idx ck (ck k) (elems (self w))) as [i|] eqn:Hf.
  - destruct (find_idx_inv ck (ck k) _ _ Hf) as [[p [Hp Hc]] _].
    destruct (elems_nth_slot _ _ _ Hw Hp) as [Hi Hsl]. rewrite Hp. destruct p as [k0 v0].
    assert (Hic : i < cap (self w)) by (apply live_lt_cap; eexists; exact Hsl).
    destruct u.
    + apply wp_bind. eapply wp_p_replace; [rewrite Hs1; exact Hsl|]. apply wp_ret. simp_w. rewrite Hs1.
      split; [apply WF_set_slot_some; auto|]. split; [apply cap_set_slot|]. split; [exact Hl1|].
      split; [|discriminate]. rewrite elems_set_slot by auto. reflexivity.
    + apply wp_bind. eapply wp_p_replace; [rewrite Hs1; exact Hsl|]. apply wp_ret. simp_w. rewrite Hs1.
      split; [apply WF_set_slot_some; auto|]. split; [apply cap_set_slot|]. split; [exact Hl1|].
      split; [|discriminate]. rewrite elems_set_slot by auto. reflexivity.
  - apply wp_bind. apply wp_get_len. apply wp_bind. apply wp_get_cap. rewrite Hs1.
    assert (Hover : forall w2, self w2 = self w1 -> log w2 = log w1 -> cap (self w) <= len (self w) ->
              wp (unwind_args E k v)
                 (fun _ w' => self w' = self w /\ logged w w' (ev_drops (idV E v ++ idK E k)) /\
                              @None nat = None /\ len (self w) = cap (self w))
                 (fun w' => self w' = self w /\ logged w w' (ev_drops (idV E v ++ idK E k)) /\
                              @None nat = None /\ len (self w) = cap (self w)) w2).
    { intros w2 Hs2 Hl2 Hc.
      eapply wp_mono; [apply (unwind_args_lawful E k v w2) | | intros w' []]; cbn beta.
      intros _ w' [Hs3 Hl3].
      split; [congruence|]. split; [unfold logged in *; congruence|]. split; [reflexivity|].
      pose proof (WF_len_le_cap _ Hw). lia. }
    apply wp_bind. apply wp_on_unwind. apply wp_bind. apply wp_dbg_assert.
    + intros _. apply wp_check_index; rewrite Hs1.
      * intros Hc. apply wp_bind. apply wp_p_write_checked; rewrite Hs1.
        -- intros _. apply wp_bind. apply wp_set_len. apply wp_ret. simp_w.
           split; [apply WF_append; auto|]. split; [rewrite cap_set_len, cap_set_slot; reflexivity|].
           split; [exact Hl1|]. split; [|intros _; exact Hc].
           rewrite elems_append by auto. rewrite (elems_length _ Hw). reflexivity.
        -- intros Hc'. lia.
      * intros Hc. apply Hover; auto.
    + intros _ Hc. apply Nat.ltb_ge in Hc. apply Hover; auto.
Qed.

(* ---- remove_index_read is swap_remove (no callbacks: any environment) ---- *)
Lemma remove_index_read_elems i w :
  WF (self w) -> i < len (self w) ->
  wp (remove_index_read debug i)
     (fun p (w' : world) =>
        WF (self w') /\ cap (self w') = cap (self w) /\ log w' = log w /\ cb w' = cb w /\
        nth_error (elems (self w)) i = Some p /\
        elems (self w') = swap_remove (elems (self w)) i)
     (fun _ => False) w.
Proof.
  intros Hw Hi. pose proof Hw as [Hl Hs]. unfold remove_index_read.
  destruct (Hs i Hi) as [p Hp].
  apply wp_bind. eapply wp_p_read; [exact Hp|].
  destruct (len (self w)) as [|n] eqn:Hn; [lia|].
  apply wp_bind. eapply wp_dec_len; [simp_w; exact Hn|].
  apply wp_bind. apply wp_get_len. simp_w.
  assert (Hlen : length (elems (self w)) = S n) by (rewrite (elems_length _ Hw); exact Hn).
  assert (Hpe : nth_error (elems (self w)) i = Some p).
  { apply (elems_nth (self w) i p Hw); [lia | exact Hp]. }
  destruct (Hs n ltac:(lia)) as [q Hq].
  assert (Hqe : nth_error (elems (self w)) n = Some q).
  { apply (elems_nth (self w) n q Hw); [lia | exact Hq]. }
  assert (Hshr : take_live (slots (self w)) n = removelast (elems (self w))).
  { unfold elems. rewrite Hn. apply take_live_shrink; [unfold cap in Hl; lia|].
    intros j Hj. apply Hs. lia. }
  unfold swap_remove. rewrite Hlen. replace (S n - 1) with n by lia. rewrite Hqe.
  destruct (Nat.eqb_spec i n) as [->|Hne].
  - apply wp_bind. apply wp_ret. apply wp_ret. simp_w.
    split.
    { split; simp_w.
      - unfold cap; simp_w. rewrite upd_length. fold (cap (self w)). lia.
      - intros j Hj. unfold live; simp_w. rewrite nth_error_upd_neq by lia. apply Hs. lia. }
    split; [unfold cap; simp_w; apply upd_length|].
    split; [reflexivity|]. split; [reflexivity|]. split; [exact Hpe|].
    unfold elems; simp_w. rewrite take_live_upd_ge by lia. exact Hshr.
  - apply wp_bind. apply wp_bind.
    eapply wp_p_read with (p := q).
    { simp_w. rewrite nth_error_upd_neq by auto. exact Hq. }
    simp_w.
    apply wp_p_write.
    { unfold cap; simp_w. rewrite !upd_length. fold (cap (self w)). lia. }
    apply wp_ret. simp_w.
    split.
    { split; simp_w.
      - unfold cap; simp_w. rewrite !upd_length. fold (cap (self w)). lia.
      - intros j Hj. unfold live; simp_w.
        destruct (Nat.eq_dec i j) as [<-|Hij].
        + exists q. apply nth_error_upd_eq. rewrite !upd_length. fold (cap (self w)). lia.
        + rewrite nth_error_upd_neq by exact Hij. rewrite nth_error_upd_neq by lia.
          rewrite nth_error_upd_neq by exact Hij. apply Hs. lia. }
    split; [unfold cap; simp_w; rewrite !upd_length; reflexivity|].
    split; [reflexivity|]. split; [reflexivity|]. split; [exact Hpe|].
    unfold elems; simp_w.
    rewrite (take_live_ext _ (upd (slots (self w)) i (Some q)) n).
    + rewrite take_live_upd; [rewrite Hshr; reflexivity | lia | unfold cap in Hl; lia |].
      intros j Hj. apply Hs. lia.
    + intros j Hj. destruct (Nat.eq_dec i j) as [<-|Hij].
      * rewrite !nth_error_upd_eq; [reflexivity | unfold cap in Hl; lia |].
        rewrite !upd_length. unfold cap in Hl. lia.
      * rewrite !nth_error_upd_neq by (first [exact Hij | lia]). reflexivity.
    + rewrite !upd_length. unfold cap in Hl. lia.
Qed.

End Lawful2.
