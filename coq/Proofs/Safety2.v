(* Safety2.v — safety of the remaining operations, for EVERY environment. *)
Require Import Model.Base Model.Slots Model.MapOps Proofs.Hoare Proofs.Inv Proofs.Safety.

Section Safety2.
Context {K V Q T : Type} (E : env K V Q T) (debug : bool).
Notation M := (M K V T).
Notation world := (world K V T).
Notation map := (map K V).

(* ---------- 1. insert_ii_for_full ---------- *)
Lemma keeps_insert_ii_for_full k v u : keeps (insert_ii_for_full E k v u).
Proof.
  intros w Hw. unfold insert_ii_for_full. apply wp_bind.
  apply wp_on_unwind_frame; [apply frame_unwind_args|].
  eapply wp_mono; [apply scan_spec; [intros; apply frame_test_k | exact Hw] | |]; cbn beta.
  - intros [i|] w' [Hs Hi].
    + destruct (WF_live _ _ Hw Hi) as [p Hp].
      assert (Hic : i < cap (self w)) by (apply live_lt_cap; exists p; exact Hp).
      destruct u.
      * apply wp_bind. eapply wp_p_replace; [rewrite Hs; exact Hp|].
        apply wp_ret. unfold inv_post. simp_w. rewrite Hs.
        split; [apply WF_set_slot_some; auto | apply cap_set_slot].
      * apply wp_bind. eapply wp_p_replace; [rewrite Hs; exact Hp|].
        apply wp_ret. unfold inv_post. simp_w. rewrite Hs.
        split; [apply WF_set_slot_some; auto | apply cap_set_slot].
    + apply wp_bind. apply wp_frame; [apply frame_drop_args | |].
      * intros _ w'' Hs'. apply wp_ret. apply inv_post_refl; [exact Hw | congruence].
      * intros w'' Hs'. apply inv_post_refl; [exact Hw | congruence].
  - intros w' Hs w'' Hs''. apply inv_post_refl; [exact Hw | congruence].
Qed.

(* ---------- 2. keep_value ---------- *)
Lemma frame_keep_value e : frame (keep_value E e).
Proof.
  unfold keep_value. destruct e as [[k' v']|].
  - apply frame_bind; [apply frame_drop_key|]. intros _. apply frame_ret.
  - apply frame_ret.
Qed.

Lemma keeps_keep_value e : keeps (keep_value E e).
Proof. apply frame_keeps. apply frame_keep_value. Qed.

(* sequencing a [keeps] computation with a frame computation *)
Lemma wp_keeps_then_frame {A B} (c : M A) (f : A -> M B) w w0 :
  wp c (fun _ => inv_post w0) (inv_post w0) w ->
  (forall a, frame (f a)) ->
  wp (bind c f) (fun _ => inv_post w0) (inv_post w0) w.
Proof.
  intros Hc Hf. apply wp_bind. eapply wp_mono; [exact Hc | |]; cbn beta.
  - intros a w' H. apply wp_frame; [apply Hf | |].
    + intros _ w'' Hs. eapply inv_post_frame; eauto.
    + intros w'' Hs. eapply inv_post_frame; eauto.
  - auto.
Qed.

(* ---------- 3. insert ---------- *)
Lemma keeps_insert k v : keeps (insert E debug k v).
Proof.
  intros w Hw. unfold insert. apply wp_keeps_then_frame.
  - apply keeps_insert_ii. exact Hw.
  - intros [t e]. apply frame_keep_value.
Qed.

(* ---------- 4. checked_insert ---------- *)
Lemma keeps_checked_insert k v : keeps (checked_insert E debug k v).
Proof.
  intros w Hw. unfold checked_insert.
  apply wp_bind. apply wp_get_len. apply wp_bind. apply wp_get_cap.
  destruct (len (self w) <? cap (self w)).
  - apply wp_keeps_then_frame.
    + apply keeps_insert_ii. exact Hw.
    + intros [t e]. apply frame_bind; [apply frame_keep_value|]. intros r. apply frame_ret.
  - apply wp_keeps_then_frame.
    + apply keeps_insert_ii_for_full. exact Hw.
    + intros [[t [k' v']]|].
      * apply frame_bind; [apply frame_drop_key|]. intros _. apply frame_ret.
      * apply frame_ret.
Qed.

(* ---------- 5. insert_key_value ---------- *)
Lemma keeps_insert_key_value k v : keeps (insert_key_value E debug k v).
Proof.
  intros w Hw. unfold insert_key_value. apply wp_keeps_then_frame.
  - apply keeps_insert_ii. exact Hw.
  - intros [t e]. apply frame_ret.
Qed.

(* ---------- 6. insert_i / insert_unchecked ---------- *)
Lemma insert_i_loop_spec k : forall fuel i w,
  WF (self w) -> fuel + i = len (self w) ->
  (debug = true \/ len (self w) < cap (self w)) ->
  wp (insert_i_loop E debug k fuel i)
     (fun r w' =>
        match snd r with
        | None => self w' = self w /\ fst r = len (self w) /\ len (self w) < cap (self w)
        | Some _ => fst r < len (self w) /\ len (self w') = len (self w) /\
                    cap (self w') = cap (self w) /\
                    (forall j, j <> fst r -> nth_error (slots (self w')) j = nth_error (slots (self w)) j)
        end)
     (fun w' => self w' = self w) w.
Proof.
  induction fuel as [|fuel IH]; intros i w Hw Hf Hd.
  - cbn [insert_i_loop]. apply wp_bind. apply wp_get_len.
    destruct (Nat.eqb_spec i (len (self w))) as [_|Hne]; [|lia].
    apply wp_bind. apply wp_get_cap. apply wp_bind. apply wp_dbg_assert.
    + intros Hc. apply wp_ret. cbn [fst snd]. split; [reflexivity|]. split; [reflexivity|].
      destruct Hc as [Hc|Hc].
      * apply Nat.ltb_lt. exact Hc.
      * destruct Hd as [Hd|Hd]; [congruence | exact Hd].
    + intros _ _. reflexivity.
  - cbn [insert_i_loop]. apply wp_bind. apply wp_get_len.
    destruct (Nat.eqb_spec i (len (self w))) as [Heq|Hne]; [lia|].
    assert (Hi : i < len (self w)) by lia.
    destruct (WF_live _ _ Hw Hi) as [p Hp].
    apply wp_bind. eapply wp_p_ref; [exact Hp|].
    apply wp_bind. apply wp_frame; [apply frame_test_k | |].
    + intros b w' Hs. destruct b.
      * apply wp_bind. eapply wp_p_read; [rewrite Hs; exact Hp|].
        apply wp_ret. cbn [fst snd]. simp_w. rewrite Hs.
        split; [exact Hi|]. split; [reflexivity|]. split; [apply cap_set_slot|].
        intros j Hj. apply nth_error_upd_neq. auto.
      * eapply wp_mono; [apply (IH (S i) w') | |]; cbn beta.
        -- rewrite Hs. exact Hw.
        -- rewrite Hs. lia.
        -- rewrite Hs. exact Hd.
        -- intros r w''. rewrite Hs. auto.
        -- intros w'' Hs'. congruence.
    + intros w' Hs. exact Hs.
Qed.

Lemma keeps_insert_i k v u w :
  WF (self w) -> (debug = true \/ len (self w) < cap (self w)) ->
  wp (insert_i E debug k v u) (fun _ => inv_post w) (inv_post w) w.
Proof.
  intros Hw Hd. unfold insert_i. apply wp_bind. apply wp_get_len. apply wp_bind.
  apply wp_on_unwind_frame; [apply frame_unwind_args|].
  eapply wp_mono; [apply (insert_i_loop_spec k (len (self w)) 0 w Hw); [lia | exact Hd] | |]; cbn beta.
  - intros [target existing] w'. cbn [fst snd]. destruct existing as [[old_k old_v]|].
    + intros (Ht & Hl & Hc & Hsl).
      destruct (Nat.eqb_spec target (len (self w))) as [Heq|Hne]; [lia|].
      apply wp_bind. apply wp_ret.
      assert (Hcw : len (self w) <= cap (self w)) by (apply WF_len_le_cap; exact Hw).
      assert (Hfin : forall x, inv_post w (with_self w' (set_slot_m (self w') target (Some x)))).
      { intros x. unfold inv_post. simp_w. split; [|rewrite cap_set_slot; exact Hc].
        split.
        - rewrite cap_set_slot, len_set_slot. lia.
        - intros j Hj. rewrite len_set_slot in Hj.
          destruct (Nat.eq_dec target j) as [<-|Hn].
          + apply live_set_slot_eq. lia.
          + apply live_set_slot_neq; [exact Hn|]. unfold live. rewrite Hsl by auto.
            apply (WF_live _ _ Hw). lia. }
      destruct u.
      * apply wp_bind. apply wp_p_write; [lia|]. apply wp_ret. apply Hfin.
      * apply wp_bind. apply wp_p_write; [lia|]. apply wp_ret. apply Hfin.
    + intros (Hs & Ht & Hc). subst target. rewrite Nat.eqb_refl.
      apply wp_bind. apply wp_set_len.
      assert (Hfin : forall x, inv_post w (with_self (with_self w' (set_len_m (self w') (S (len (self w)))))
                 (set_slot_m (self (with_self w' (set_len_m (self w') (S (len (self w)))))) (len (self w)) (Some x)))).
      { intros x. unfold inv_post. simp_w. rewrite Hs.
        split; [|rewrite cap_set_slot; reflexivity].
        split.
        - rewrite cap_set_slot, len_set_slot. cbn [set_len_m len]. rewrite cap_set_len. lia.
        - intros j Hj. rewrite len_set_slot in Hj. cbn [set_len_m len] in Hj.
          destruct (Nat.eq_dec (len (self w)) j) as [<-|Hn].
          + apply live_set_slot_eq. rewrite cap_set_len. exact Hc.
          + apply live_set_slot_neq; [exact Hn|]. apply live_set_len. apply (WF_live _ _ Hw). lia. }
      destruct u.
      * apply wp_bind. apply wp_p_write; [simp_w; rewrite Hs; exact Hc|]. apply wp_ret. apply Hfin.
      * apply wp_bind. apply wp_p_write; [simp_w; rewrite Hs; exact Hc|]. apply wp_ret. apply Hfin.
  - intros w' Hs w'' Hs''. apply inv_post_refl; [exact Hw | congruence].
Qed.

Lemma keeps_insert_unchecked k v w :
  WF (self w) -> (debug = true \/ len (self w) < cap (self w)) ->
  wp (insert_unchecked E debug k v) (fun _ => inv_post w) (inv_post w) w.
Proof.
  intros Hw Hd. unfold insert_unchecked. apply wp_keeps_then_frame.
  - apply keeps_insert_i; assumption.
  - intros [t e]. apply frame_keep_value.
Qed.

(* ---------- 7. retain ---------- *)
Lemma inv_post_trans (w w' w'' : world) : inv_post w w' -> inv_post w' w'' -> inv_post w w''.
Proof. unfold inv_post. intros [H1 H2] [H3 H4]. split; [exact H3 | congruence]. Qed.

Lemma call_pred_spec (f : pred_t) i w :
  WF (self w) -> i < len (self w) ->
  let post := fun w' : world => inv_post w w' /\ len (self w') = len (self w) in
  wp (call_pred f i) (fun _ => post) post w.
Proof.
  intros Hw Hi post. destruct (WF_live _ _ Hw Hi) as [p Hp].
  assert (Hic : i < cap (self w)) by (apply live_lt_cap; exists p; exact Hp).
  unfold call_pred. apply wp_bind. eapply wp_p_ref; [exact Hp|].
  unfold wp. destruct (f (cb w) (fst p) (snd p)) as [[r v'] s].
  assert (Hpost : forall l, post {| cb := s; log := l;
            self := {| len := len (self w); slots := upd (slots (self w)) i (Some (fst p, v')) |} |}).
  { intros l. unfold post, inv_post. simp_w. split; [|reflexivity]. split.
    - apply (WF_set_slot_some (self w) i (fst p, v') Hw Hic).
    - apply (cap_set_slot (self w) i (Some (fst p, v'))). }
  destruct r; apply Hpost.
Qed.

Lemma retain_loop_spec (f : pred_t) : forall fuel i w,
  WF (self w) -> len (self w) - i <= fuel ->
  wp (retain_loop E debug f fuel i) (fun _ => inv_post w) (inv_post w) w.
Proof.
  induction fuel as [|fuel IH]; intros i w Hw Hf; cbn [retain_loop].
  - apply wp_bind. apply wp_get_len.
    destruct (Nat.ltb_spec i (len (self w))) as [Hi|Hi]; [lia|].
    apply wp_ret. apply inv_post_refl; auto.
  - apply wp_bind. apply wp_get_len.
    destruct (Nat.ltb_spec i (len (self w))) as [Hi|Hi].
    + apply wp_bind. eapply wp_mono; [apply call_pred_spec; assumption | |]; cbn beta.
      * intros keep w1 [H1 Hl1]. assert (Hw1 : WF (self w1)) by apply H1. destruct keep.
        -- eapply wp_mono; [apply (IH (S i) w1 Hw1); lia | |]; cbn beta.
           ++ intros _ w2 H2. eapply inv_post_trans; eauto.
           ++ intros w2 H2. eapply inv_post_trans; eauto.
        -- apply wp_bind.
           eapply wp_mono; [apply (keeps_remove_index_drop E debug i w1 Hw1); lia | |]; cbn beta.
           ++ intros _ w2 [H2 Hl2]. assert (Hw2 : WF (self w2)) by apply H2.
              eapply wp_mono; [apply (IH i w2 Hw2); lia | |]; cbn beta.
              ** intros _ w3 H3. eapply inv_post_trans; [exact H1|]. eapply inv_post_trans; eauto.
              ** intros w3 H3. eapply inv_post_trans; [exact H1|]. eapply inv_post_trans; eauto.
           ++ intros w2 [H2 _]. eapply inv_post_trans; eauto.
      * intros w1 [H1 _]. exact H1.
    + apply wp_ret. apply inv_post_refl; auto.
Qed.

Lemma keeps_retain (f : pred_t) : keeps (retain E debug f).
Proof.
  intros w Hw. unfold retain. apply wp_bind. apply wp_get_len.
  apply retain_loop_spec; [exact Hw | lia].
Qed.

(* ---------- 8. get_disjoint_unchecked_mut / get_disjoint_mut ---------- *)
Lemma frame_position ks p : forall j, frame (position E ks p j).
Proof.
  induction ks as [|k ks IH]; intros j; cbn [position].
  - apply frame_ret.
  - apply frame_bind; [apply frame_cbk|]. intros [|]; [apply frame_ret | apply IH].
Qed.

Lemma fill_stack_frame ks J : forall n i stack w,
  (forall j, i <= j < i + n -> live (self w) j) ->
  wp (fill_stack E ks J n i stack) (fun _ w' => self w' = self w) (fun w' => self w' = self w) w.
Proof.
  induction n as [|n IH]; intros i stack w Hl; cbn [fill_stack].
  - apply wp_ret. reflexivity.
  - destruct (Hl i ltac:(lia)) as [p Hp].
    apply wp_bind. eapply wp_p_ref; [exact Hp|].
    apply wp_bind. apply wp_frame; [apply frame_position | |].
    + intros r w' Hs.
      assert (Hrec : forall st, wp (fill_stack E ks J n (S i) st)
                (fun _ w'' => self w'' = self w) (fun w'' => self w'' = self w) w').
      { intros st. eapply wp_mono; [apply IH | |]; cbn beta.
        - intros j Hj. rewrite Hs. apply Hl. lia.
        - intros _ w'' Hs'. congruence.
        - intros w'' Hs'. congruence. }
      destruct r as [j|]; [|apply Hrec].
      destruct (length stack <? J); [apply Hrec | apply wp_panic; exact Hs].
    + intros w' Hs. exact Hs.
Qed.

(* what split_back has handed out so far: slots in [rest, n), each at most once *)
Definition OutOK (n rest : nat) (out : list (option nat)) : Prop :=
  (forall j i, nth_error out j = Some (Some i) -> rest <= i < n) /\
  (forall j1 j2 i, nth_error out j1 = Some (Some i) -> nth_error out j2 = Some (Some i) -> j1 = j2).

Lemma OutOK_upd n rest out ks_i pair_i :
  OutOK n rest out -> pair_i < rest -> rest <= n -> OutOK n pair_i (upd out ks_i (Some pair_i)).
Proof.
  intros [H1 H2] Hp Hr. split.
  - intros j i. rewrite nth_error_upd. destruct (Nat.eqb_spec ks_i j) as [Heq|Hne].
    + destruct (j <? length out); intros H; inversion H; lia.
    + intros H. apply H1 in H. lia.
  - intros j1 j2 i. rewrite !nth_error_upd.
    destruct (Nat.eqb_spec ks_i j1) as [Heq1|Hne1]; destruct (Nat.eqb_spec ks_i j2) as [Heq2|Hne2].
    + intros; congruence.
    + destruct (j1 <? length out); intros Ha Hb; inversion Ha. apply H1 in Hb. lia.
    + destruct (j2 <? length out); intros Ha Hb; inversion Hb. apply H1 in Ha. lia.
    + apply H2.
Qed.

Lemma OutOK_repeat n rest J : OutOK n rest (repeat None J).
Proof.
  split.
  - intros j i H. apply nth_error_In in H. apply repeat_spec in H. discriminate.
  - intros j1 j2 i H. apply nth_error_In in H. apply repeat_spec in H. discriminate.
Qed.

Lemma split_back_spec J : forall st rest out (w : world),
  WF (self w) -> rest <= len (self w) -> OutOK (len (self w)) rest out ->
  wp (split_back J st rest out)
     (fun r w' => self w' = self w /\ length r = length out /\ exists rest', OutOK (len (self w)) rest' r)
     (fun w' => self w' = self w) w.
Proof.
  induction st as [|[pair_i ks_i] st IH]; intros rest out w Hw Hr Ho; cbn [split_back].
  - apply wp_ret. split; [reflexivity|]. split; [reflexivity|]. exists rest. exact Ho.
  - destruct (Nat.leb_spec pair_i rest) as [Hle|Hgt]; [|apply wp_panic; reflexivity].
    destruct (Nat.ltb_spec pair_i rest) as [Hlt|Hge]; [|apply wp_panic; reflexivity].
    assert (Hi : pair_i < len (self w)) by lia.
    destruct (WF_live _ _ Hw Hi) as [p Hp].
    apply wp_bind. eapply wp_p_ref; [exact Hp|].
    destruct (ks_i <? J); [|apply wp_panic; reflexivity].
    eapply wp_mono; [apply (IH pair_i (upd out ks_i (Some pair_i)) w Hw) | |]; cbn beta.
    + lia.
    + eapply OutOK_upd; eauto.
    + intros r w' (H1 & H2 & H3). rewrite upd_length in H2. auto.
    + auto.
Qed.

Lemma disjoint_unchecked_safe ks w :
  WF (self w) ->
  wp (get_disjoint_unchecked_mut E ks)
     (fun r w' => self w' = self w /\ length r = length ks /\
                  (forall j i, nth_error r j = Some (Some i) -> i < len (self w)) /\
                  (forall j1 j2 i, nth_error r j1 = Some (Some i) -> nth_error r j2 = Some (Some i) -> j1 = j2))
     (fun w' => self w' = self w) w.
Proof.
  intros Hw. unfold get_disjoint_unchecked_mut. destruct ks as [|k [|k2 ks']]; cbv zeta.
  - apply wp_ret. split; [reflexivity|]. split; [reflexivity|].
    split; [intros [|j] i H; cbn [nth_error] in H; discriminate | intros [|j1] j2 i H; cbn [nth_error] in H; discriminate].
  - apply wp_bind. unfold get_mut.
    eapply wp_mono; [apply scan_spec; [intros; apply frame_test_q | exact Hw] | |]; cbn beta; [|auto].
    intros r w' [Hs Hr]. apply wp_ret. split; [exact Hs|]. split; [reflexivity|]. split.
    + intros [|j] i H; cbn [nth_error] in H.
      * inversion H; subst r. exact Hr.
      * destruct j; discriminate.
    + intros [|j1] [|j2] i Ha Hb; cbn [nth_error] in Ha, Hb; auto.
      * destruct j2; discriminate.
      * destruct j1; discriminate.
      * destruct j1; discriminate.
  - remember (k :: k2 :: ks') as ks eqn:Hks. clear Hks.
    apply wp_bind. apply wp_get_len. apply wp_bind.
    eapply wp_mono; [apply fill_stack_frame | |]; cbn beta; [| |auto].
    + intros j Hj. apply (WF_live _ _ Hw). lia.
    + intros stack w' Hs. apply wp_bind.
      apply wp_p_prefix; [intros _ | intros _; exact Hs].
      eapply wp_mono; [apply split_back_spec with (w := w') | |]; cbn beta.
      * rewrite Hs. exact Hw.
      * rewrite Hs. lia.
      * apply OutOK_repeat.
      * intros r w'' (H1 & H2 & rest' & H3 & H4). rewrite Hs in *.
        split; [congruence|]. split; [rewrite H2; apply repeat_length|].
        split; [|exact H4]. intros j i H. apply H3 in H. lia.
      * intros w'' H1. congruence.
Qed.

Lemma frame_assert_ne_all k rest : frame (assert_ne_all E k rest).
Proof.
  induction rest as [|k' rest IH]; cbn [assert_ne_all].
  - apply frame_ret.
  - apply frame_bind; [apply frame_cbk|]. intros [|]; [|exact IH].
    intros w. apply wp_panic. reflexivity.
Qed.

Lemma frame_assert_distinct ks : frame (assert_distinct E ks).
Proof.
  induction ks as [|k rest IH]; cbn [assert_distinct].
  - apply frame_ret.
  - apply frame_bind; [apply frame_assert_ne_all|]. intros _. exact IH.
Qed.

Lemma disjoint_safe ks w :
  WF (self w) ->
  wp (get_disjoint_mut E ks)
     (fun r w' => self w' = self w /\ length r = length ks /\
                  (forall j i, nth_error r j = Some (Some i) -> i < len (self w)) /\
                  (forall j1 j2 i, nth_error r j1 = Some (Some i) -> nth_error r j2 = Some (Some i) -> j1 = j2))
     (fun w' => self w' = self w) w.
Proof.
  intros Hw. unfold get_disjoint_mut. destruct ks as [|k ks'].
  - apply wp_ret. split; [reflexivity|]. split; [reflexivity|].
    split; [intros [|j] i H; cbn [nth_error] in H; discriminate | intros [|j1] j2 i H; cbn [nth_error] in H; discriminate].
  - apply wp_bind. apply wp_frame; [apply frame_assert_distinct | |].
    + intros _ w' Hs. eapply wp_mono; [apply disjoint_unchecked_safe; rewrite Hs; exact Hw | |]; cbn beta.
      * intros r w''. rewrite Hs. auto.
      * intros w'' H. congruence.
    + auto.
Qed.

(* ---------- 9. clone_from_src ---------- *)
Lemma unwind_pair_nopanic p (w : world) :
  wp (unwind_pair E p) (fun _ w' => self w' = self w) (fun _ => False) w.
Proof.
  unfold unwind_pair. apply wp_bind. apply wp_emit.
  apply wp_bind. apply wp_cbd. intros bk s1.
  apply wp_bind. apply wp_cbd. intros bv s2.
  apply wp_ret. reflexivity.
Qed.

(* destructors running while unwinding: slots [i, i+n) must be live; never panics *)

Lemma unwind_range_spec n : forall i w,
  (forall j, i <= j < i + n -> live (self w) j) ->
  wp (unwind_range E n i)
     (fun _ w' => len (self w') = len (self w) /\ cap (self w') = cap (self w) /\
        (forall j, j < i \/ i + n <= j -> nth_error (slots (self w')) j = nth_error (slots (self w)) j) /\
        (forall j, i <= j < i + n -> nth_error (slots (self w')) j = Some None))
     (fun _ => False) w.
Proof.
  induction n as [|n IH]; intros i w Hl; cbn [unwind_range].
  - apply wp_ret. split; [reflexivity|]. split; [reflexivity|]. split; [reflexivity|]. intros j Hj; lia.
  - destruct (Hl i ltac:(lia)) as [p Hp].
    assert (Hic : i < cap (self w)) by (apply live_lt_cap; exists p; exact Hp).
    apply wp_bind. eapply wp_p_read; [exact Hp|].
    apply wp_bind. eapply wp_mono; [apply unwind_pair_nopanic | |]; cbn beta.
    + intros _ w' Hs.
      eapply wp_mono; [apply IH | |]; cbn beta.
      * intros j Hj. rewrite Hs. cbn [with_self self]. apply live_set_slot_neq; [lia | apply Hl; lia].
      * intros _ w'' (H1 & H2 & H3 & H4). rewrite Hs in H1, H2, H3.
        cbn [with_self self set_slot_m len slots] in H1, H2, H3.
        split; [exact H1|]. split; [rewrite H2; apply cap_set_slot|]. split.
        -- intros j Hj. rewrite H3 by lia. apply nth_error_upd_neq. lia.
        -- intros j Hj. destruct (Nat.eq_dec i j) as [<-|Hn].
           ++ rewrite H3 by lia. apply nth_error_upd_eq. exact Hic.
           ++ apply H4. lia.
      * auto.
    + intros w' [].
Qed.

Lemma unwind_map_safe w :
  WF (self w) -> wp (unwind_map E) (fun _ _ => True) (fun _ => False) w.
Proof.
  intros [Hl Hs]. unfold unwind_map. apply wp_bind. apply wp_get_len.
  eapply wp_mono; [apply unwind_range_spec | |]; cbn beta; auto.
  intros j Hj. apply Hs. lia.
Qed.

Lemma wp_finally_drop {A} (c : M A) (Qn : A -> world -> Prop) w :
  wp c Qn (fun w' => WF (self w')) w -> wp (finally_drop E c) Qn (fun _ => True) w.
Proof.
  unfold wp at 1 2. unfold finally_drop. destruct (c w) as [a w'|w'|]; auto.
  intros H. pose proof (unwind_map_safe w' H) as Hd. unfold wp in Hd.
  destruct (unwind_map E w'); auto.
Qed.

Lemma frame_clone_pair p : frame (clone_pair E p).
Proof.
  unfold clone_pair. apply frame_bind; [apply frame_emit|]. intros _.
  apply frame_bind; [apply frame_cbo|]. intros k'.
  apply frame_bind; [apply frame_emit|]. intros _.
  apply frame_bind; [apply frame_on_unwind; [apply frame_unwind_key | apply frame_cbo]|]. intros v'. apply frame_ret.
Qed.

Lemma clone_loop_spec src : WF src -> forall n i w,
  WF (self w) -> len (self w) = i -> i + n <= cap (self w) -> i + n <= len src ->
  wp (clone_loop E src n i)
     (fun _ w' => inv_post w w' /\ len (self w') = i + n)
     (inv_post w) w.
Proof.
  intros Hsrc. induction n as [|n IH]; intros i w Hw Hl Hc Hn; cbn [clone_loop].
  - apply wp_ret. split; [apply inv_post_refl; auto | lia].
  - assert (Hi : i < len src) by lia.
    destruct (WF_live _ _ Hsrc Hi) as [p Hp]. rewrite Hp.
    apply wp_bind. apply wp_frame; [apply frame_clone_pair | |].
    + intros p' w1 Hs1. apply wp_bind. apply wp_p_write; [rewrite Hs1; lia|].
      apply wp_bind. apply wp_set_len. simp_w. rewrite Hs1.
      set (w2 := with_self _ _).
      assert (H2 : inv_post w w2).
      { unfold inv_post, w2. simp_w. rewrite <- Hl.
        split; [apply WF_append; [exact Hw | lia] | rewrite cap_set_len, cap_set_slot; reflexivity]. }
      assert (Hw2 : WF (self w2)) by apply H2.
      assert (Hc2 : cap (self w2) = cap (self w)) by apply H2.
      eapply wp_mono; [apply (IH (S i) w2 Hw2) | |]; cbn beta.
      * reflexivity.
      * rewrite Hc2. lia.
      * lia.
      * intros _ w3 [H3 Hl3]. split; [eapply inv_post_trans; eauto | lia].
      * intros w3 H3. eapply inv_post_trans; eauto.
    + intros w1 Hs1. apply inv_post_refl; auto.
Qed.

Lemma clone_safe src w :
  WF src -> WF (self w) -> len (self w) = 0 -> cap (self w) = cap src ->
  wp (clone_from_src E src) (fun _ w' => inv_post w w' /\ len (self w') = len src) (fun _ => True) w.
Proof.
  intros Hsrc Hw Hl Hc. unfold clone_from_src. apply wp_finally_drop.
  apply wp_bind. apply wp_get_cap.
  pose proof (WF_len_le_cap _ Hsrc) as Hle.
  destruct (Nat.leb_spec (len src) (cap src)) as [_|Hgt]; [|lia].
  replace (Nat.min (cap (self w)) (len src)) with (len src) by lia.
  eapply wp_mono; [apply (clone_loop_spec src Hsrc (len src) 0 w Hw Hl); lia | |]; cbn beta.
  - intros _ w' [H1 H2]. split; [exact H1 | lia].
  - intros w' H. apply H.
Qed.

(* ---------- 10. map_eq ---------- *)
Lemma wp_on_map {A} (m : map) (c : M A) (Qn : A -> world -> Prop) (Qp : world -> Prop) w :
  wp c (fun a w' => Qn a (with_self w' (self w))) (fun w' => Qp (with_self w' (self w))) (with_self w m) ->
  wp (on_map m c) Qn Qp w.
Proof.
  unfold wp, on_map, with_self. destruct (c _); auto.
Qed.

Lemma eq_loop_frame a b : WF a -> WF b -> forall n i w,
  i + n <= len a ->
  wp (eq_loop E a b n i) (fun _ w' => self w' = self w) (fun w' => self w' = self w) w.
Proof.
  intros Ha Hb. induction n as [|n IH]; intros i w Hn; cbn [eq_loop].
  - apply wp_ret. reflexivity.
  - assert (Hi : i < len a) by lia.
    destruct (WF_live _ _ Ha Hi) as [[k v] Hp]. rewrite Hp.
    apply wp_bind. apply wp_on_map.
    eapply wp_mono; [apply scan_spec; [intros; apply frame_test_k | exact Hb] | |]; cbn beta.
    + intros [j|] w1 [Hs1 Hj]; simp_w.
      * destruct (WF_live _ _ Hb Hj) as [[k' v'] Hq]. rewrite Hq.
        apply wp_bind. apply wp_frame; [apply frame_cbk | |].
        -- intros e w2 Hs2. simp_w. destruct e.
           ++ eapply wp_mono; [apply IH; lia | |]; cbn beta; intros; congruence.
           ++ apply wp_ret. exact Hs2.
        -- intros w2 Hs2. exact Hs2.
      * apply wp_ret. reflexivity.
    + intros w1 _. reflexivity.
Qed.

Lemma map_eq_frame a b w :
  WF a -> WF b ->
  wp (map_eq E a b) (fun _ w' => self w' = self w) (fun w' => self w' = self w) w.
Proof.
  intros Ha Hb. unfold map_eq. destruct (len a =? len b).
  - destruct (len a <=? cap a).
    + apply eq_loop_frame; auto.
    + apply wp_panic. reflexivity.
  - apply wp_ret. reflexivity.
Qed.

(* ---------- 11. extend / from_iter ---------- *)
Lemma keeps_bind {A B} (c : M A) (f : A -> M B) :
  keeps c -> (forall a, keeps (f a)) -> keeps (bind c f).
Proof.
  intros Hc Hf w Hw. apply wp_bind. eapply wp_mono; [apply Hc; exact Hw | |]; cbn beta.
  - intros a w1 H1. assert (Hw1 : WF (self w1)) by apply H1.
    eapply wp_mono; [apply Hf; exact Hw1 | |]; cbn beta.
    + intros _ w2 H2. eapply inv_post_trans; eauto.
    + intros w2 H2. eapply inv_post_trans; eauto.
  - auto.
Qed.

Lemma keeps_on_unwind {A} (cleanup : M unit) (c : M A) :
  frame cleanup -> keeps c -> keeps (on_unwind cleanup c).
Proof.
  intros Hf Hc w Hw. apply wp_on_unwind_frame; [exact Hf|].
  eapply wp_mono; [apply Hc; exact Hw | |]; cbn beta.
  - auto.
  - intros w' H w'' Hs. eapply inv_post_frame; eauto.
Qed.

Lemma frame_call_next (nx : T -> ans * T) : frame (@call_next K V T nx).
Proof.
  unfold call_next. apply frame_bind; [apply frame_emit|]. intros _.
  apply frame_bind; [apply frame_cbk|]. intros _. apply frame_ret.
Qed.

Lemma frame_drop_opt_val o : frame (drop_opt_val E o).
Proof. destruct o; cbn [drop_opt_val]; [apply frame_drop_val | apply frame_ret]. Qed.

Lemma keeps_extend_loop nx items : keeps (extend_loop E debug nx items).
Proof.
  induction items as [|[k v] rest IH]; cbn [extend_loop].
  - apply frame_keeps. apply frame_call_next.
  - apply keeps_bind.
    { apply keeps_on_unwind; [apply frame_unwind_pairs|]. apply frame_keeps; apply frame_call_next. }
    intros _. apply keeps_bind; [|intros _; exact IH].
    apply keeps_on_unwind; [apply frame_unwind_pairs|].
    apply keeps_bind; [apply keeps_insert|]. intros old.
    apply frame_keeps; apply frame_drop_opt_val.
Qed.

Lemma from_iter_safe nx items w :
  WF (self w) -> wp (from_iter E debug nx items) (fun _ => inv_post w) (fun _ => True) w.
Proof.
  intros Hw. unfold from_iter. apply wp_finally_drop.
  eapply wp_mono; [apply keeps_extend_loop; exact Hw | |]; cbn beta.
  - auto.
  - intros w' H. apply H.
Qed.

(* ---------- 12. drain sessions ---------- *)
Definition DrainInv (c : cursor) (m : map) : Prop :=
  len m = 0 /\ snd c <= cap m /\ forall j, fst c <= j < snd c -> live m j.

Lemma DrainInv_WF c m : DrainInv c m -> WF m.
Proof. intros (Hl & _ & _). split; [lia | intros i Hi; lia]. Qed.

Lemma drain_spec (w : world) :
  WF (self w) ->
  wp (drain) (fun c w' => DrainInv c (self w') /\ cap (self w') = cap (self w) /\ cursor_len c = len (self w))
     (fun w' => self w' = self w) w.
Proof.
  intros [Hl Hs]. unfold drain.
  apply wp_bind. apply wp_p_prefix; [intros _ | lia].
  apply wp_bind. apply wp_get_len. apply wp_bind. apply wp_set_len. apply wp_ret. simp_w.
  split; [|split].
  - unfold DrainInv. cbn [fst snd set_len_m len]. split; [reflexivity|]. split.
    + rewrite cap_set_len. exact Hl.
    + intros j Hj. apply live_set_len. apply Hs. lia.
  - apply cap_set_len.
  - unfold cursor_len. cbn [fst snd]. lia.
Qed.

Lemma drain_next_spec c (w : world) :
  DrainInv c (self w) ->
  wp (drain_next c)
     (fun r w' => DrainInv (snd r) (self w') /\ cap (self w') = cap (self w) /\
                  (match fst r with
                   | Some _ => cursor_len (snd r) + 1 = cursor_len c
                   | None => cursor_len c = 0 /\ snd r = c
                   end))
     (fun _ => False) w.
Proof.
  destruct c as [lo hi]. intros (Hl & Hc & Hs). cbn [fst snd] in Hc, Hs.
  unfold drain_next. destruct (Nat.ltb_spec lo hi) as [Hlt|Hge].
  - destruct (Hs lo ltac:(lia)) as [p Hp].
    apply wp_bind. eapply wp_p_read; [exact Hp|]. apply wp_ret. simp_w. cbn [fst snd].
    split; [|split].
    + unfold DrainInv. cbn [fst snd]. rewrite cap_set_slot, len_set_slot.
      split; [exact Hl|]. split; [exact Hc|].
      intros j Hj. apply live_set_slot_neq; [lia | apply Hs; lia].
    + apply cap_set_slot.
    + unfold cursor_len. cbn [fst snd]. lia.
  - apply wp_ret. cbn [fst snd]. split; [|split].
    + unfold DrainInv. cbn [fst snd]. auto.
    + reflexivity.
    + unfold cursor_len. cbn [fst snd]. split; [lia | reflexivity].
Qed.

Lemma drain_drop_spec c (w : world) :
  DrainInv c (self w) ->
  wp (drain_drop E c)
     (fun _ w' => WF (self w') /\ len (self w') = 0 /\ cap (self w') = cap (self w))
     (fun w' => WF (self w') /\ len (self w') = 0 /\ cap (self w') = cap (self w)) w.
Proof.
  intros (Hl & Hc & Hs).
  set (post := fun w' : world => WF (self w') /\ len (self w') = 0 /\ cap (self w') = cap (self w)).
  unfold drain_drop, cursor_len.
  assert (Hpost : forall w' : world, len (self w') = len (self w) -> cap (self w') = cap (self w) -> post w').
  { intros w' H1 H2. unfold post. split; [|split].
    - split; [lia | intros i Hi; lia].
    - lia.
    - exact H2. }
  eapply wp_mono; [apply drop_range_spec | |]; cbn beta.
  - intros j Hj. apply Hs. lia.
  - intros _ w' (H1 & H2 & _). apply Hpost; assumption.
  - intros w' (H1 & H2 & _). apply Hpost; assumption.
Qed.

(* ---------- 13. borrowing / consuming iterators ---------- *)
Lemma iter_spec (w : world) :
  WF (self w) ->
  wp iter (fun c w' => self w' = self w /\ c = (0, len (self w))) (fun w' => self w' = self w) w.
Proof.
  intros [Hl Hs]. unfold iter.
  apply wp_bind. apply wp_p_prefix; [intros _ | lia].
  apply wp_bind. apply wp_get_len. apply wp_ret. split; reflexivity.
Qed.

Lemma iter_next_spec c (w : world) :
  WF (self w) -> snd c <= len (self w) ->
  wp (iter_next c)
     (fun r w' => self w' = self w /\
                  match fst r with
                  | Some i => i = fst c /\ fst c < snd c /\ snd r = (S (fst c), snd c)
                  | None => snd c <= fst c /\ snd r = c
                  end)
     (fun _ => False) w.
Proof.
  destruct c as [lo hi]. cbn [fst snd]. intros Hw Hc.
  unfold iter_next. destruct (Nat.ltb_spec lo hi) as [Hlt|Hge].
  - assert (Hi : lo < len (self w)) by lia.
    destruct (WF_live _ _ Hw Hi) as [p Hp].
    apply wp_bind. eapply wp_p_ref; [exact Hp|]. apply wp_ret. cbn [fst snd]. auto.
  - apply wp_ret. cbn [fst snd]. auto.
Qed.

Lemma into_iter_next_spec (w : world) :
  WF (self w) ->
  wp into_iter_next
     (fun r w' => inv_post w w' /\
                  match r with
                  | Some _ => S (len (self w')) = len (self w)
                  | None => len (self w) = 0 /\ self w' = self w
                  end)
     (fun _ => False) w.
Proof.
  intros Hw. unfold into_iter_next. apply wp_bind. apply wp_get_len.
  destruct (len (self w)) as [|n] eqn:Hn.
  - apply wp_ret. split; [apply inv_post_refl; auto | auto].
  - assert (Hi : n < len (self w)) by lia.
    destruct (WF_live _ _ Hw Hi) as [p Hp].
    apply wp_bind. apply wp_set_len. apply wp_bind.
    eapply wp_p_read; [simp_w; exact Hp|]. apply wp_ret. simp_w.
    split; [|reflexivity]. unfold inv_post. simp_w.
    split; [|rewrite cap_set_slot; apply cap_set_len].
    apply WF_set_slot_none_ge; [|cbn [set_len_m len]; lia].
    apply WF_set_len_le; [exact Hw | lia].
Qed.

Lemma keeps_into_iter_next : keeps (@into_iter_next K V T).
Proof.
  intros w Hw. eapply wp_mono; [apply into_iter_next_spec; exact Hw | |]; cbn beta.
  - intros r w' [H _]. exact H.
  - intros w' [].
Qed.

End Safety2.
