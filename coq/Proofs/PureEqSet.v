(* PureEqSet.v — PureEq.v carried over to Set<T,N> (Model/SetOps.v) and to the
   whole-operand predicates is_subset / is_superset / is_disjoint.
   [Related E ck cq R]: the user's == answers an ARBITRARY relation R on the
   classes of its operands (stored key on the left, needle on the right); R need
   be neither reflexive nor symmetric nor transitive.  Every Set method is still
   a pure function of the live prefix: it acts on the FIRST stored key k with
   R (ck k) (class of the needle), i.e. on [find_rel].  In particular
   [s_insert k] answers false exactly when [s_contains q] answers true for every
   q of the same class as k, whatever R is. *)
Require Import Model.Base Model.Slots Model.MapOps Model.EntryOps Model.SetOps Model.Exec.
Require Import Proofs.Hoare Proofs.Inv Proofs.Safety Proofs.Safety2 Proofs.Safety3
               Proofs.Spec Proofs.Lawful Proofs.Lawful2 Proofs.Lawful3 Proofs.PureEq Proofs.Algebra.

Section PureEqSet.
Context {K Q T : Type} (E : env K unit Q T) (debug : bool) (ck : K -> N) (cq : Q -> N)
        (R : N -> N -> bool) (HR : Related E ck cq R).
Notation M := (M K unit T).
Notation world := (world K unit T).
Notation smap := (map K unit).
Notation kv := (K * unit)%type.
Notation frel := (find_rel ck R).

(* a list fact *)
Lemma upd_same_rel {A} (l : list A) i x : nth_error l i = Some x -> upd l i x = l.
Proof.
  revert i; induction l as [|h t IH]; intros [|i] H; cbn [nth_error] in H; cbn [upd]; try discriminate.
  - injection H as ->. reflexivity.
  - f_equal. apply IH. exact H.
Qed.

(* ======================================================================== *)
(* 1. contains                                                               *)
Lemma set_contains_rel q (w : world) :
  WF (self w) ->
  wp (s_contains E q)
     (fun r w' => stable w w' /\
                  r = (match frel (cq q) (elems (self w)) with Some _ => true | None => false end) /\
                  (r = true <-> exists i, frel (cq q) (elems (self w)) = Some i))
     (fun _ => False) w.
Proof.
  intros Hw. unfold s_contains.
  eapply wp_mono; [apply (contains_key_rel E ck cq R HR q w Hw) | | auto]; cbn beta.
  intros r w' [Hst ->]. split; [exact Hst|]. split; [reflexivity|].
  destruct (frel (cq q) (elems (self w))) as [i|].
  - split; [intros _; exists i; reflexivity | reflexivity].
  - split; [discriminate | intros [i Hi]; discriminate].
Qed.

(* ======================================================================== *)
(* 2. get: the slot of the first related stored key                          *)
Lemma set_get_rel q (w : world) :
  WF (self w) ->
  wp (s_get E q) (fun r w' => stable w w' /\ r = frel (cq q) (elems (self w))) (fun _ => False) w.
Proof. intros Hw. unfold s_get. apply (get_key_value_rel E ck cq R HR q w Hw). Qed.

(* ======================================================================== *)
(* 3. insert                                                                 *)
Lemma set_insert_rel k (w : world) :
  WF (self w) ->
  wp (s_insert E debug k)
     (fun r w' =>
        WF (self w') /\ cap (self w') = cap (self w) /\
        elems (self w') = fst (fst (l_insert_rel ck R (elems (self w)) k tt false)) /\
        match frel (ck k) (elems (self w)) with
        | Some i => r = false /\ elems (self w') = elems (self w) /\
                    (exists k0, nth_error (elems (self w)) i = Some (k0, tt) /\ R (ck k0) (ck k) = true) /\
                    logged w w' (ev_drops (idK E k))
        | None => r = true /\ len (self w) < cap (self w) /\
                  elems (self w') = elems (self w) ++ [(k, tt)] /\ log w' = log w
        end)
     (fun w' => self w' = self w /\ logged w w' (ev_drops (idV E tt ++ idK E k)) /\
                frel (ck k) (elems (self w)) = None /\ len (self w) = cap (self w)) w.
Proof.
  intros Hw. unfold s_insert. apply wp_bind.
  eapply wp_mono; [apply (insert_rel E debug ck cq R HR k tt w Hw) | | intros w' H; exact H]; cbn beta.
  intros r w' (Hw' & Hc' & He & Hr & Hlg). apply wp_ret.
  split; [exact Hw'|]. split; [exact Hc'|]. split; [exact He|].
  unfold l_insert_rel in He, Hr, Hlg.
  destruct (frel (ck k) (elems (self w))) as [i|] eqn:Hf.
  - destruct (find_rel_inv ck R _ _ _ Hf) as [[[k0 []] [Hp Hrel]] _]. rewrite Hp in He, Hr, Hlg.
    cbn [fst snd option_map] in He, Hr, Hlg, Hrel. subst r.
    split; [reflexivity|]. split; [rewrite He; apply upd_same_rel; exact Hp|].
    split; [exists k0; auto | exact Hlg].
  - cbn [fst snd option_map] in He, Hr, Hlg. subst r.
    split; [reflexivity|]. split; [|split; [exact He|]].
    + pose proof (elems_length _ Hw') as Hl. rewrite He, app_length in Hl. cbn [length] in Hl.
      rewrite (elems_length _ Hw) in Hl. pose proof (WF_len_le_cap _ Hw'). lia.
    + unfold logged in Hlg. rewrite Hlg, app_nil_r. reflexivity.
Qed.

(* ======================================================================== *)
(* 4. remove / take                                                          *)
Lemma set_remove_rel q (w : world) :
  WF (self w) ->
  wp (s_remove E debug q)
     (fun r w' =>
        match frel (cq q) (elems (self w)) with
        | Some i => exists k0, nth_error (elems (self w)) i = Some (k0, tt) /\ R (ck k0) (cq q) = true /\
                      r = true /\ WF (self w') /\ cap (self w') = cap (self w) /\
                      elems (self w') = swap_remove (elems (self w)) i /\
                      logged w w' (ev_drops (idK E k0))
        | None => r = false /\ stable w w'
        end)
     (fun _ => False) w.
Proof.
  intros Hw. unfold s_remove. apply wp_bind.
  eapply wp_mono; [apply (remove_rel_cases E debug ck cq R HR q w Hw) | | intros ? []]; cbn beta.
  intros r w' Hr. apply wp_ret.
  destruct (frel (cq q) (elems (self w))) as [i|] eqn:Hf.
  - destruct Hr as (k0 & [] & Hp & -> & Hw' & Hc' & He & Hlg).
    destruct (find_rel_inv ck R _ _ _ Hf) as [[p [Hp' Hrel]] _].
    rewrite Hp in Hp'. injection Hp' as <-. cbn [fst] in Hrel.
    exists k0. cbn [is_some]. auto 10.
  - destruct Hr as [-> Hst]. cbn [is_some]. auto.
Qed.

Lemma set_take_rel q (w : world) :
  WF (self w) ->
  wp (s_take E debug q)
     (fun r w' =>
        match frel (cq q) (elems (self w)) with
        | Some i => exists k0, nth_error (elems (self w)) i = Some (k0, tt) /\ R (ck k0) (cq q) = true /\
                      r = Some k0 /\ WF (self w') /\ cap (self w') = cap (self w) /\
                      elems (self w') = swap_remove (elems (self w)) i /\
                      log w' = log w
        | None => r = None /\ stable w w'
        end)
     (fun _ => False) w.
Proof.
  intros Hw. unfold s_take, remove_entry. apply wp_bind. apply wp_bind.
  eapply wp_mono; [apply (scan_rel ck R (test_q E q) (cq q)); [apply (rel_test_q E ck cq R HR) | exact Hw]
                  | | intros w' []]; cbn beta.
  intros r w1 [[Hs1 Hl1] ->].
  destruct (frel (cq q) (elems (self w))) as [i|] eqn:Hf.
  - pose proof (find_rel_lt ck R _ _ _ Hf) as Hi. rewrite (elems_length _ Hw) in Hi.
    destruct (find_rel_inv ck R _ _ _ Hf) as [[[k0 []] [Hp0 Hrel]] _]. cbn [fst] in Hrel.
    apply wp_bind.
    eapply wp_mono; [apply (remove_index_read_elems debug i w1); rewrite Hs1; assumption | | intros ? []]; cbn beta.
    intros p w2 (Hw2 & Hc2 & Hl2 & _ & Hp & He). rewrite Hs1 in *.
    apply wp_ret. apply wp_ret. rewrite Hp0 in Hp. injection Hp as <-. cbn [option_map fst].
    exists k0. split; [exact Hp0|]. split; [exact Hrel|]. split; [reflexivity|].
    split; [exact Hw2|]. split; [exact Hc2|]. split; [exact He | congruence].
  - apply wp_ret. apply wp_ret. cbn [option_map]. split; [reflexivity|]. split; assumption.
Qed.

(* ======================================================================== *)
(* 5. replace: the SUPPLIED key goes into the slot, the stored one comes back *)
Lemma set_replace_rel k (w : world) :
  WF (self w) ->
  wp (s_replace E debug k)
     (fun r w' =>
        WF (self w') /\ cap (self w') = cap (self w) /\ log w' = log w /\
        match frel (ck k) (elems (self w)) with
        | Some i => exists k0, nth_error (elems (self w)) i = Some (k0, tt) /\ R (ck k0) (ck k) = true /\
                      r = Some k0 /\ elems (self w') = upd (elems (self w)) i (k, tt)
        | None => r = None /\ len (self w) < cap (self w) /\
                  elems (self w') = elems (self w) ++ [(k, tt)]
        end)
     (fun w' => self w' = self w /\ logged w w' (ev_drops (idV E tt ++ idK E k)) /\
                frel (ck k) (elems (self w)) = None /\ len (self w) = cap (self w)) w.
Proof.
  intros Hw. unfold s_replace. apply wp_bind.
  eapply wp_mono; [apply (insert_ii_rel E debug ck cq R HR k tt true w Hw) | | intros w' H; exact H]; cbn beta.
  intros [i e] w' (Hw' & Hc' & Hl' & Hins & Hroom). cbn [fst snd] in Hins. apply wp_ret.
  split; [exact Hw'|]. split; [exact Hc'|]. split; [exact Hl'|].
  unfold l_insert_rel in Hins.
  destruct (frel (ck k) (elems (self w))) as [x|] eqn:Hf.
  - destruct (find_rel_inv ck R _ _ _ Hf) as [[[k0 []] [Hp Hrel]] _]. rewrite Hp in Hins. cbn [fst] in Hrel.
    injection Hins as He Hi Hee. subst e. cbn [option_map fst].
    exists k0. auto.
  - injection Hins as He Hi Hee. subst e. cbn [option_map].
    split; [reflexivity|]. split; [apply Hroom; reflexivity | exact He].
Qed.

(* ======================================================================== *)
(* 6. THE SET AGREEMENT THEOREM: whatever R is, insert answers false exactly
   when contains (run in the original world) answers true; and an insert that
   overflows is an insert of an element that contains does not find. *)
Lemma set_insert_contains_agree_rel k q (w : world) :
  ck k = cq q -> WF (self w) ->
  wp (s_insert E debug k)
     (fun r _ => wp (s_contains E q)
                    (fun g _ => (r = false <-> g = true) /\ r = negb g)
                    (fun _ => False) w)
     (fun _ => wp (s_contains E q)
                  (fun g _ => g = false /\ len (self w) = cap (self w))
                  (fun _ => False) w) w.
Proof.
  intros Hc Hw.
  eapply wp_mono; [apply (set_insert_rel k w Hw) | |]; cbn beta.
  - intros r w' (_ & _ & _ & Hr).
    eapply wp_mono; [apply (set_contains_rel q w Hw) | | intros w'' []]; cbn beta.
    intros g w'' (_ & -> & _). rewrite Hc in Hr.
    destruct (frel (cq q) (elems (self w))) as [i|].
    + destruct Hr as [-> _]. split; [split; reflexivity | reflexivity].
    + destruct Hr as [-> _]. split; [split; discriminate | reflexivity].
  - intros w' (_ & _ & Hf & Hfull).
    eapply wp_mono; [apply (set_contains_rel q w Hw) | | intros w'' []]; cbn beta.
    intros g w'' (_ & -> & _). rewrite Hc in Hf. rewrite Hf. split; [reflexivity | exact Hfull].
Qed.

(* the same for the other lookup and the other writers *)
Lemma set_insert_get_agree_rel k q (w : world) :
  ck k = cq q -> WF (self w) ->
  wp (s_insert E debug k)
     (fun r _ => wp (s_get E q)
                    (fun g _ => r = match g with Some _ => false | None => true end)
                    (fun _ => False) w)
     (fun _ => wp (s_get E q) (fun g _ => g = None) (fun _ => False) w) w.
Proof.
  intros Hc Hw.
  eapply wp_mono; [apply (set_insert_rel k w Hw) | |]; cbn beta.
  - intros r w' (_ & _ & _ & Hr).
    eapply wp_mono; [apply (set_get_rel q w Hw) | | intros w'' []]; cbn beta.
    intros g w'' (_ & ->). rewrite Hc in Hr.
    destruct (frel (cq q) (elems (self w))) as [i|]; destruct Hr as [-> _]; reflexivity.
  - intros w' (_ & _ & Hf & _).
    eapply wp_mono; [apply (set_get_rel q w Hw) | | intros w'' []]; cbn beta.
    intros g w'' (_ & ->). rewrite Hc in Hf. exact Hf.
Qed.

Lemma set_replace_get_agree_rel k q (w : world) :
  ck k = cq q -> WF (self w) ->
  wp (s_replace E debug k)
     (fun r _ => wp (s_get E q)
                    (fun g _ => match g with
                                | Some i => exists k0, r = Some k0 /\ nth_error (elems (self w)) i = Some (k0, tt)
                                | None => r = None
                                end)
                    (fun _ => False) w)
     (fun _ => wp (s_get E q) (fun g _ => g = None) (fun _ => False) w) w.
Proof.
  intros Hc Hw.
  eapply wp_mono; [apply (set_replace_rel k w Hw) | |]; cbn beta.
  - intros r w' (_ & _ & _ & Hr).
    eapply wp_mono; [apply (set_get_rel q w Hw) | | intros w'' []]; cbn beta.
    intros g w'' (_ & ->). rewrite Hc in Hr.
    destruct (frel (cq q) (elems (self w))) as [i|].
    + destruct Hr as (k0 & Hp & _ & -> & _). exists k0. auto.
    + destruct Hr as [-> _]. reflexivity.
  - intros w' (_ & _ & Hf & _).
    eapply wp_mono; [apply (set_get_rel q w Hw) | | intros w'' []]; cbn beta.
    intros g w'' (_ & ->). rewrite Hc in Hf. exact Hf.
Qed.

Lemma set_remove_contains_agree_rel q q' (w : world) :
  cq q = cq q' -> WF (self w) ->
  wp (s_remove E debug q)
     (fun r _ => wp (s_contains E q') (fun g _ => r = g) (fun _ => False) w)
     (fun _ => False) w.
Proof.
  intros Hc Hw.
  eapply wp_mono; [apply (set_remove_rel q w Hw) | | intros ? []]; cbn beta.
  intros r w' Hr.
  eapply wp_mono; [apply (set_contains_rel q' w Hw) | | intros w'' []]; cbn beta.
  intros g w'' (_ & -> & _). rewrite Hc in Hr.
  destruct (frel (cq q') (elems (self w))) as [i|].
  - destruct Hr as (k0 & _ & _ & -> & _). reflexivity.
  - destruct Hr as [-> _]. reflexivity.
Qed.

Lemma set_take_get_agree_rel q q' (w : world) :
  cq q = cq q' -> WF (self w) ->
  wp (s_take E debug q)
     (fun r _ => wp (s_get E q')
                    (fun g _ => match g with
                                | Some i => exists k0, r = Some k0 /\ nth_error (elems (self w)) i = Some (k0, tt)
                                | None => r = None
                                end)
                    (fun _ => False) w)
     (fun _ => False) w.
Proof.
  intros Hc Hw.
  eapply wp_mono; [apply (set_take_rel q w Hw) | | intros ? []]; cbn beta.
  intros r w' Hr.
  eapply wp_mono; [apply (set_get_rel q' w Hw) | | intros w'' []]; cbn beta.
  intros g w'' (_ & ->). rewrite Hc in Hr.
  destruct (frel (cq q') (elems (self w))) as [i|].
  - destruct Hr as (k0 & Hp & _ & -> & _). exists k0. auto.
  - destruct Hr as [-> _]. reflexivity.
Qed.

(* sequentially: contains asked AFTER a successful or refused insert of the same
   class, in the world the insert left.  Under an arbitrary R the inserted key
   need not be found afterwards (R need not be reflexive): what IS determined is
   that a refused insert leaves the answer true. *)
Lemma set_insert_then_contains_rel k q (w : world) :
  ck k = cq q -> WF (self w) ->
  wp (r <- s_insert E debug k ;; g <- s_contains E q ;; ret (r, g))
     (fun rg _ => (fst rg = false -> snd rg = true) /\
                  (fst rg = true -> snd rg = R (ck k) (cq q)))
     (fun w' => self w' = self w /\ frel (cq q) (elems (self w)) = None /\ len (self w) = cap (self w)) w.
Proof.
  intros Hc Hw. apply wp_bind.
  eapply wp_mono; [apply (set_insert_rel k w Hw) | |]; cbn beta.
  - intros r w1 (Hw1 & _ & _ & Hr). apply wp_bind.
    eapply wp_mono; [apply (set_contains_rel q w1 Hw1) | | intros w'' []]; cbn beta.
    intros g w2 (_ & -> & _). apply wp_ret. cbn [fst snd]. rewrite Hc in Hr.
    destruct (frel (cq q) (elems (self w))) as [i|] eqn:Hf.
    + destruct Hr as (-> & He & _). rewrite He, Hf. split; [reflexivity | discriminate].
    + destruct Hr as (-> & _ & He & _). split; [discriminate|]. intros _. rewrite He.
      (* the appended key is the only candidate *)
      assert (Hall : forall j p, nth_error (elems (self w)) j = Some p -> R (ck (fst p)) (cq q) = false)
        by (apply (find_rel_none_inv ck R); exact Hf).
      destruct (R (ck k) (cq q)) eqn:Hkk.
      * rewrite (find_rel_some ck R (cq q) (elems (self w) ++ [(k, tt)]) (length (elems (self w))) (k, tt)).
        -- reflexivity.
        -- rewrite nth_error_app2 by lia. rewrite Nat.sub_diag. reflexivity.
        -- exact Hkk.
        -- intros j p Hj Hp. rewrite nth_error_app1 in Hp by lia. eapply Hall; exact Hp.
      * rewrite (find_rel_none ck R); [reflexivity|].
        intros j p Hp. destruct (Nat.lt_ge_cases j (length (elems (self w)))) as [Hj|Hj].
        -- rewrite nth_error_app1 in Hp by lia. eapply Hall; exact Hp.
        -- rewrite nth_error_app2 in Hp by lia.
           destruct (j - length (elems (self w))) as [|[|n]]; cbn [nth_error] in Hp; try discriminate.
           injection Hp as <-. exact Hkk.
  - intros w' (Hs & _ & Hf & Hfull). rewrite Hc in Hf. auto.
Qed.

(* ======================================================================== *)
(* 7. the whole-operand predicates.  other.contains(item) has the stored key of
   [b] on the left of == and the item of [a] on the right. *)
Definition mem_rel (b : smap) (k : K) : bool :=
  match frel (ck k) (elems b) with Some _ => true | None => false end.
Definition memi_rel (a b : smap) (i : nat) : bool :=
  match nth_error (elems a) i with Some p => mem_rel b (fst p) | None => false end.

Lemma contains_in_rel (b : smap) (k : K) (w : world) :
  WF b ->
  wp (contains_in E b k) (fun r w' => stable w w' /\ r = mem_rel b k) (fun _ => False) w.
Proof.
  intros Hb. unfold contains_in. apply wp_on_map_stable. intros w0 Hs.
  apply wp_bind.
  eapply wp_mono; [apply (scan_rel ck R (test_k E k) (ck k) w0);
                   [apply (rel_test_k E ck cq R HR) | rewrite Hs; exact Hb] | | auto]; cbn beta.
  intros r w' [Hst ->]. apply wp_ret. split; [exact Hst|]. rewrite Hs. unfold mem_rel, is_some. reflexivity.
Qed.

Lemma memi_rel_slot (a b : smap) lo k u :
  WF a -> lo < len a -> nth_error (slots a) lo = Some (Some (k, u)) -> memi_rel a b lo = mem_rel b k.
Proof.
  intros Ha Hlo Hp. unfold memi_rel.
  apply (elems_nth a lo (k, u) Ha Hlo) in Hp. rewrite Hp. reflexivity.
Qed.

Lemma all_in_rel (a b : smap) want n : forall lo (w : world),
  WF a -> WF b -> lo + n <= len a ->
  wp (all_in E a b want n lo)
     (fun r w' => stable w w' /\ r = forallb (fun i => Bool.eqb (memi_rel a b i) want) (seq lo n))
     (fun _ => False) w.
Proof.
  induction n as [|n IH]; intros lo w Ha Hb Hn; cbn [all_in].
  - apply wp_ret. split; [apply stable_refl | reflexivity].
  - assert (Hlo : lo < len a) by lia.
    destruct (WF_live _ _ Ha Hlo) as [[k u] Hp]. rewrite Hp. cbn beta iota.
    apply wp_bind. eapply wp_mono; [apply contains_in_rel; exact Hb | | auto]; cbn beta.
    intros inb w' [Hst ->]. cbn [seq forallb]. rewrite (memi_rel_slot a b lo k u Ha Hlo Hp).
    destruct (Bool.eqb (mem_rel b k) want); cbn [andb].
    + eapply wp_mono; [apply IH; [exact Ha | exact Hb | lia] | | auto]; cbn beta.
      intros r w'' [Hst' ->]. split; [eapply stable_trans; eauto | reflexivity].
    + apply wp_ret. split; [exact Hst | reflexivity].
Qed.

Lemma iter_all_rel (a b : smap) want (w : world) :
  WF a -> WF b ->
  wp (iter_all E a b want)
     (fun r w' => stable w w' /\ r = forallb (fun p => Bool.eqb (mem_rel b (fst p)) want) (elems a))
     (fun _ => False) w.
Proof.
  intros Ha Hb. unfold iter_all. apply wp_bind.
  eapply wp_mono; [apply on_map_iter_lawful; exact Ha | | auto]; cbn beta.
  intros c w' [Hst ->]. unfold cursor_len. cbn [fst snd].
  eapply wp_mono; [apply all_in_rel; [exact Ha | exact Hb | lia] | | auto]; cbn beta.
  intros r w'' [Hst' ->]. split; [eapply stable_trans; eauto|].
  rewrite Nat.sub_0_r. rewrite <- (elems_length a Ha). unfold memi_rel.
  apply (forallb_seq_nth
           (fun o : option kv => Bool.eqb (match o with Some p => mem_rel b (fst p) | None => false end) want)
           (fun p : kv => Bool.eqb (mem_rel b (fst p)) want)
           (fun x => eq_refl) (elems a) []).
Qed.

Lemma is_subset_rel (a b : smap) (w : world) :
  WF a -> WF b ->
  wp (is_subset E a b)
     (fun r w' => stable w w' /\
                  r = (len a <=? len b) &&
                      forallb (fun p => match frel (ck (fst p)) (elems b) with Some _ => true | None => false end)
                              (elems a))
     (fun _ => False) w.
Proof.
  intros Ha Hb. unfold is_subset. destruct (len a <=? len b); cbn [andb].
  - eapply wp_mono; [apply iter_all_rel; assumption | | auto]; cbn beta.
    intros r w' [Hst ->]. split; [exact Hst|].
    apply forallb_ext'. intros p. unfold mem_rel. destruct (frel (ck (fst p)) (elems b)); reflexivity.
  - apply wp_ret. split; [apply stable_refl | reflexivity].
Qed.

Lemma is_superset_rel (a b : smap) (w : world) :
  WF a -> WF b ->
  wp (is_superset E a b)
     (fun r w' => stable w w' /\
                  r = (len b <=? len a) &&
                      forallb (fun p => match frel (ck (fst p)) (elems a) with Some _ => true | None => false end)
                              (elems b))
     (fun _ => False) w.
Proof. intros Ha Hb. unfold is_superset. apply is_subset_rel; assumption. Qed.

(* is_disjoint iterates the SHORTER operand and probes the longer one: under a
   non-symmetric R the answer depends on which operand is on which side. *)
Lemma is_disjoint_rel (a b : smap) (w : world) :
  WF a -> WF b ->
  wp (is_disjoint E a b)
     (fun r w' => stable w w' /\
                  r = if len a <=? len b
                      then forallb (fun p => match frel (ck (fst p)) (elems b) with Some _ => false | None => true end)
                                   (elems a)
                      else forallb (fun p => match frel (ck (fst p)) (elems a) with Some _ => false | None => true end)
                                   (elems b))
     (fun _ => False) w.
Proof.
  intros Ha Hb. unfold is_disjoint. destruct (len a <=? len b).
  - eapply wp_mono; [apply iter_all_rel; assumption | | auto]; cbn beta.
    intros r w' [Hst ->]. split; [exact Hst|].
    apply forallb_ext'. intros p. unfold mem_rel. destruct (frel (ck (fst p)) (elems b)); reflexivity.
  - eapply wp_mono; [apply iter_all_rel; assumption | | auto]; cbn beta.
    intros r w' [Hst ->]. split; [exact Hst|].
    apply forallb_ext'. intros p. unfold mem_rel. destruct (frel (ck (fst p)) (elems a)); reflexivity.
Qed.

(* is_subset a b agrees with asking b.contains about every element of a, in the
   sense of the agreement theorem: if it answers true then for every element k
   of a, [s_contains] run on b with a query of k's class answers true *)
Lemma is_subset_contains_agree_rel (a b : smap) k u q (w wb : world) :
  WF a -> WF b -> self wb = b -> In (k, u) (elems a) -> ck k = cq q ->
  wp (is_subset E a b)
     (fun r _ => r = true -> wp (s_contains E q) (fun g _ => g = true) (fun _ => False) wb)
     (fun _ => False) w.
Proof.
  intros Ha Hb Hs Hin Hc.
  eapply wp_mono; [apply (is_subset_rel a b w Ha Hb) | | auto]; cbn beta.
  intros r w' [_ ->] Ht. apply andb_true_iff in Ht. destruct Ht as [_ Hall].
  rewrite forallb_forall in Hall. specialize (Hall (k, u) Hin). cbn [fst] in Hall.
  assert (Hwb : WF (self wb)) by (rewrite Hs; exact Hb).
  eapply wp_mono; [apply (set_contains_rel q wb Hwb) | | intros ? []]; cbn beta.
  intros g w'' (_ & -> & _). rewrite Hs, <- Hc. exact Hall.
Qed.

End PureEqSet.

(* ======================================================================== *)
(* the lawful lemmas are the instance R = N.eqb *)
Lemma mem_rel_eqb {K : Type} (ck : K -> N) (b : map K unit) k :
  mem_rel ck N.eqb b k = Algebra.mem ck b k.
Proof. unfold mem_rel, Algebra.mem. rewrite (find_rel_eqb ck N.eqb); reflexivity. Qed.

(* ======================================================================== *)
(* 8. NON-VACUITY: the interpreter's asymmetric == ("stored <= needle") *)
Section Instance.

Example set_insert_contains_agree_asym sc k q (w : world key unit cstate) :
  asym sc = true -> sc_fk sc = 0%N -> kcls k = qcls q -> WF (self w) ->
  forall debug,
  wp (s_insert (env_set sc) debug k)
     (fun r _ => wp (s_contains (env_set sc) q)
                    (fun g _ => (r = false <-> g = true) /\ r = negb g)
                    (fun _ => False) w)
     (fun _ => wp (s_contains (env_set sc) q)
                  (fun g _ => g = false /\ len (self w) = cap (self w))
                  (fun _ => False) w) w.
Proof.
  intros Has Hf Hc Hw debug.
  exact (set_insert_contains_agree_rel (env_set sc) debug kcls qcls N.leb
           (env_set_related sc Has Hf) k q w Hc Hw).
Qed.

Example set_contains_asym sc q (w : world key unit cstate) :
  asym sc = true -> sc_fk sc = 0%N -> WF (self w) ->
  wp (s_contains (env_set sc) q)
     (fun r w' => stable w w' /\
                  r = (match find_rel kcls N.leb (qcls q) (elems (self w)) with Some _ => true | None => false end) /\
                  (r = true <-> exists i, find_rel kcls N.leb (qcls q) (elems (self w)) = Some i))
     (fun _ => False) w.
Proof.
  intros Has Hf Hw.
  exact (set_contains_rel (env_set sc) kcls qcls N.leb (env_set_related sc Has Hf) q w Hw).
Qed.

Example is_disjoint_asym sc (a b : map key unit) (w : world key unit cstate) :
  asym sc = true -> sc_fk sc = 0%N -> WF a -> WF b ->
  wp (is_disjoint (env_set sc) a b)
     (fun r w' => stable w w' /\
                  r = if len a <=? len b
                      then forallb (fun p => match find_rel kcls N.leb (kcls (fst p)) (elems b) with
                                             | Some _ => false | None => true end) (elems a)
                      else forallb (fun p => match find_rel kcls N.leb (kcls (fst p)) (elems a) with
                                             | Some _ => false | None => true end) (elems b))
     (fun _ => False) w.
Proof.
  intros Has Hf Ha Hb.
  exact (is_disjoint_rel (env_set sc) kcls qcls N.leb (env_set_related sc Has Hf) a b w Ha Hb).
Qed.

(* the pure content of is_disjoint is NOT symmetric under <= : {5} against {2;3}
   ("some stored element of the longer operand is <= the item") *)
Example disjoint_leb_not_symmetric :
  let f := fun (x y : list (N * unit)) =>
             forallb (fun p => match find_rel (fun n : N => n) N.leb (fst p) y with
                               | Some _ => false | None => true end) x in
  f [(5%N, tt)] [(2%N, tt); (3%N, tt)] = false /\
  f [(2%N, tt); (3%N, tt)] [(5%N, tt)] = true.
Proof. split; reflexivity. Qed.

End Instance.
