(* MoreSet.v — closes audit findings for C07 (Set histories) and C08 (set
   algebra):
     C07  drain INTERLEAVED in the Set histories (sop2 = the nine operations of
          SetDict.v + drain: take any number of items, drop the rest);
          the trace-level reading of "membership afterwards is exactly the
          successful insertions not yet removed" (fsfinal2_mem and corollaries),
          transported to the model's final container (srun2_membership);
     C08  every prefix length of consumption for Union / SymmetricDifference,
          size hints at EVERY stage (the cursor / chain reached by the model's
          own next() after j calls), uniqueness of the '-' result, fold for an
          ARBITRARY accumulator function, and the Exec-level "operands
          unchanged" fact.
   Both build profiles, every capacity. *)
Require Import Model.Base Model.Slots Model.MapOps Model.EntryOps Model.SetOps Model.Exec.
Require Import Proofs.Hoare Proofs.Inv Proofs.Safety Proofs.Safety2 Proofs.Safety3 Proofs.Spec
               Proofs.Lawful Proofs.Lawful2 Proofs.Lawful3 Proofs.Dict Proofs.IterSpec Proofs.EntrySpec
               Proofs.Bulk Proofs.SetDict Proofs.Dict2 Proofs.Algebra Proofs.Algebra2
               Proofs.ExecSafe Proofs.ExecUniq.
From Coq Require Import Permutation.

(* ------------------------------------------------------------------ *)
(* pure list helpers                                                   *)
(* ------------------------------------------------------------------ *)
Section ListHelpers3.
Context {A B : Type}.

Lemma fold_left_map_l (F : B -> A -> B) {C} (g : C -> A) (l : list C) (acc : B) :
  fold_left F (List.map g l) acc = fold_left (fun x i => F x (g i)) l acc.
Proof. revert acc. induction l as [|x t IH]; intros acc; cbn [List.map fold_left]; [reflexivity | apply IH]. Qed.

Lemma fold_left_push (l : list A) (acc : list A) :
  fold_left (fun x i => x ++ [i]) l acc = acc ++ l.
Proof.
  revert acc. induction l as [|x t IH]; intros acc; cbn [fold_left]; [rewrite app_nil_r; reflexivity|].
  rewrite IH, <- app_assoc. reflexivity.
Qed.

Lemma firstn_S_hd_tl (j : nat) (l : list A) :
  (match hd_error l with Some x => [x] | None => [] end) ++ firstn j (tl l) = firstn (S j) l.
Proof. destruct l as [|x t]; cbn [hd_error tl firstn app]; [apply firstn_nil | reflexivity]. Qed.

Lemma skipn_S_tl (j : nat) (l : list A) : skipn j (tl l) = skipn (S j) l.
Proof. destruct l as [|x t]; cbn [tl skipn]; [apply skipn_nil | reflexivity]. Qed.

End ListHelpers3.

(* ================================================================== *)
Section MoreSet.
Context {K Q T : Type} (E : env K unit Q T) (debug : bool).
Context (ck : K -> N) (cq : Q -> N) (HL : Lawful E ck cq).
Notation M := (M K unit T). Notation world := (world K unit T). Notation smap := (map K unit). Notation kv := (K * unit)%type.
Notation sop := (@sop K Q). Notation sres := (@sres K). Notation fset := (@fset K).
Notation f_mem := (f_mem ck). Notation f_del := (f_del ck). Notation f_insert := (f_insert ck).
Notation f_extend := (f_extend ck). Notation fstep := (fstep ck cq). Notation SAbs := (SAbs ck).

(* ================================================================== *)
(* C07.1  Set histories with drain interleaved.                        *)
(* ================================================================== *)

Inductive sop2 :=
| S2Base (o : sop)            (* the nine operations of SetDict.v *)
| S2Drain (take : nat).       (* drain(), take [take] items, drop the Drain *)

Inductive sres2 := R2Base (r : sres) | R2Drained (l : list K).

(* the model side: S2Drain is Set::drain = Map::drain at V = (), the Drain
   iterator is stepped [take] times and then dropped *)
Definition sstep2 (o : sop2) : M sres2 :=
  match o with
  | S2Base o => r <- sstep E debug o ;; ret (R2Base r)
  | S2Drain take =>
      c <- drain ;; x <- drain_run take c ;; drain_drop E (snd x) ;;
      ret (R2Drained (List.map fst (fst x)))
  end.

(* the ideal set: next state (a function) and allowed result (a relation: the
   order in which drain yields is unspecified) *)
Definition fnext2 (n : nat) (o : sop2) (s : fset) : fset :=
  match o with S2Base o => snd (fstep n o s) | S2Drain _ => [] end.

Definition fstep2 (n : nat) (o : sop2) (s : fset) (r : sres2) : Prop :=
  match o with
  | S2Base o => r = R2Base (fst (fstep n o s))
  | S2Drain take => exists p, Permutation p s /\ r = R2Drained (firstn take p)
  end.

Lemma sstep2_drain n take w s :
  SAbs (self w) s -> cap (self w) = n ->
  wp (sstep2 (S2Drain take))
     (fun r w' => fstep2 n (S2Drain take) s r /\ SAbs (self w') [] /\ cap (self w') = n)
     (fun _ => False) w.
Proof.
  intros Ha Hc. apply (SAbs_Abs ck) in Ha.
  pose proof (step2_drain E debug ck cq HL n take w _ Ha Hc) as Hd. cbn [mstep2] in Hd.
  cbn [sstep2]. apply wp_bind. apply wp_bind_inv in Hd.
  eapply wp_mono; [exact Hd | |]; cbn beta.
  - intros c w1 H1. apply wp_bind. apply wp_bind_inv in H1.
    eapply wp_mono; [exact H1 | |]; cbn beta.
    + intros x w2 H2. apply wp_bind. apply wp_bind_inv in H2.
      eapply wp_mono; [exact H2 | |]; cbn beta.
      * intros u w3 H3. apply wp_ret. unfold wp, ret in H3.
        destruct H3 as (d' & Hst & Ha' & Hc'). cbn [dstep2] in Hst.
        destruct Hst as (-> & p & Hp & Hr). injection Hr as Hr.
        split; [|split; [apply (SAbs_Abs ck (self w3) []); exact Ha' | exact Hc']].
        cbn [fstep2]. exists (List.map fst p). split.
        -- rewrite <- (fst_inj s). apply Permutation_map. exact Hp.
        -- rewrite Hr, firstn_map. reflexivity.
      * intros w3 (d' & Hst & _). cbn [dstep2] in Hst. destruct Hst as (_ & p & _ & Hr). discriminate Hr.
    + intros w2 (d' & Hst & _). cbn [dstep2] in Hst. destruct Hst as (_ & p & _ & Hr). discriminate Hr.
  - intros w1 (d' & Hst & _). cbn [dstep2] in Hst. destruct Hst as (_ & p & _ & Hr). discriminate Hr.
Qed.

(* Every operation, drain included: never UB; a normal return is a result the
   ideal set allows, and the container abstracts to the ideal set's next
   state; a panic happens exactly where the ideal set says so (never for
   drain). *)
Theorem sstep2_refines n o w s :
  SAbs (self w) s -> cap (self w) = n ->
  match sstep2 o w with
  | Ok r w' => fstep2 n o s r /\ SAbs (self w') (fnext2 n o s) /\ cap (self w') = n
  | Panic w' => fstep2 n o s (R2Base SPanic) /\ SAbs (self w') (fnext2 n o s) /\ cap (self w') = n
  | UB => False
  end.
Proof.
  intros Ha Hc. destruct o as [o|take].
  - pose proof (sstep_refines E debug ck cq HL n o w s Ha Hc) as Hs.
    cbn [sstep2 fstep2 fnext2]. unfold bind, ret.
    destruct (sstep E debug o w) as [r w'|w'|]; [| |exact Hs].
    + destruct Hs as (<- & Ha' & Hc'). auto.
    + destruct Hs as (-> & Ha' & Hc' & _). auto.
  - pose proof (sstep2_drain n take w s Ha Hc) as Hd. unfold wp in Hd. cbn [fnext2].
    destruct (sstep2 (S2Drain take) w) as [r w'|w'|]; [exact Hd | destruct Hd | exact Hd].
Qed.

(* histories *)
Fixpoint smrun2 (ops : list sop2) (w : world) : list sres2 :=
  match ops with
  | [] => []
  | o :: t => match sstep2 o w with
              | Ok r w' => r :: smrun2 t w'
              | Panic w' => R2Base SPanic :: smrun2 t w'
              | UB => []
              end
  end.

Fixpoint smfinal2 (ops : list sop2) (w : world) : option world :=
  match ops with
  | [] => Some w
  | o :: t => match sstep2 o w with
              | Ok _ w' => smfinal2 t w'
              | Panic w' => smfinal2 t w'
              | UB => None
              end
  end.

Fixpoint fsfinal2 (n : nat) (ops : list sop2) (s : fset) : fset :=
  match ops with
  | [] => s
  | o :: t => fsfinal2 n t (fnext2 n o s)
  end.

Inductive fsruns2 (n : nat) : list sop2 -> fset -> list sres2 -> Prop :=
| fsruns2_nil s : fsruns2 n [] s []
| fsruns2_cons o ops s r rs :
    fstep2 n o s r -> fsruns2 n ops (fnext2 n o s) rs -> fsruns2 n (o :: ops) s (r :: rs).

(* After ANY history mixing insert, replace, contains, get, remove, take,
   retain, clear, extend and drain: no UB on the way, the results are results
   of the ideal set, the final container abstracts to the ideal set's final
   state, capacity unchanged. *)
Theorem srun2_refines n ops w s :
  SAbs (self w) s -> cap (self w) = n ->
  exists wf, smfinal2 ops w = Some wf /\ fsruns2 n ops s (smrun2 ops w) /\
             SAbs (self wf) (fsfinal2 n ops s) /\ cap (self wf) = n.
Proof.
  revert w s; induction ops as [|o t IH]; intros w s Ha Hc.
  - exists w. split; [reflexivity|]. split; [apply fsruns2_nil|]. split; assumption.
  - cbn [smrun2 smfinal2 fsfinal2]. pose proof (sstep2_refines n o w s Ha Hc) as Hs.
    destruct (sstep2 o w) as [r w'|w'|]; [| |destruct Hs].
    + destruct Hs as (Hst & Ha' & Hc').
      destruct (IH w' _ Ha' Hc') as (wf & Hf & Hr & Haf & Hcf).
      exists wf. split; [exact Hf|]. split; [|split; assumption].
      apply fsruns2_cons; assumption.
    + destruct Hs as (Hst & Ha' & Hc').
      destruct (IH w' _ Ha' Hc') as (wf & Hf & Hr & Haf & Hcf).
      exists wf. split; [exact Hf|]. split; [|split; assumption].
      apply fsruns2_cons; assumption.
Qed.

Theorem srun2_refines_new n ops t lg :
  let w0 := {| cb := t; log := lg; self := new_map n |} in
  exists wf, smfinal2 ops w0 = Some wf /\ fsruns2 n ops [] (smrun2 ops w0) /\
             SAbs (self wf) (fsfinal2 n ops []) /\ cap (self wf) = n.
Proof. intros w0. apply srun2_refines; cbn [w0 self]; [apply SAbs_new | apply cap_new]. Qed.

(* a history without drain is a history of SetDict.v *)
Lemma fsfinal2_base n (ops : list sop) s :
  fsfinal2 n (List.map S2Base ops) s = fsfinal ck cq n ops s.
Proof. revert s. induction ops as [|o t IH]; intros s; cbn [List.map fsfinal2 fsfinal fnext2]; [reflexivity | apply IH]. Qed.

Lemma fsruns2_base n (ops : list sop) : forall s rs,
  fsruns2 n (List.map S2Base ops) s rs -> rs = List.map R2Base (fsrun ck cq n ops s).
Proof.
  induction ops as [|o t IH]; intros s rs H; cbn [List.map] in H; inversion H; subst; [reflexivity|].
  match goal with Hs : fstep2 _ (S2Base _) _ _ |- _ => cbn [fstep2] in Hs; subst end.
  match goal with Hr : fsruns2 _ _ _ _ |- _ => apply IH in Hr; subst end.
  cbn [fsrun fnext2]. destruct (fstep n o s) as [r0 s0]. reflexivity.
Qed.

Lemma fsruns2_length n ops s rs : fsruns2 n ops s rs -> length rs = length ops.
Proof. induction 1 as [|o ops' s0 r rs' _ _ IH]; [reflexivity|]. cbn [length]. rewrite IH. reflexivity. Qed.

(* ================================================================== *)
(* C07.2  membership afterwards is exactly the successful insertions    *)
(*        not yet removed, as a theorem about traces.                   *)
(* ================================================================== *)

(* the ideal set never holds two elements of one class *)
Definition fnd (s : fset) : Prop := NoDup (List.map ck s).

Lemma f_mem_none_iff (s : fset) c : f_mem s c = None <-> ~ In c (List.map ck s).
Proof.
  unfold SetDict.f_mem. induction s as [|h t IH]; cbn [find List.map In]; [tauto|].
  destruct (N.eqb_spec (ck h) c) as [Hc|Hc]; [split; [discriminate | intros H; exfalso; apply H; left; exact Hc]|].
  rewrite IH. tauto.
Qed.

Lemma f_mem_some_class (s : fset) c k : f_mem s c = Some k -> ck k = c /\ In k s.
Proof.
  unfold SetDict.f_mem. intros H. apply find_some in H. destruct H as [Hin Hb].
  apply N.eqb_eq in Hb. split; assumption.
Qed.

Lemma fnd_app (s : fset) k : fnd s -> f_mem s (ck k) = None -> fnd (s ++ [k]).
Proof.
  unfold fnd. intros Hn Hm. apply f_mem_none_iff in Hm. rewrite map_app. cbn [List.map].
  apply NoDup_app_intro; [exact Hn | constructor; [intros [] | constructor]|].
  intros x Hx [<-|[]]. exact (Hm Hx).
Qed.

Lemma f_insert_fnd n k s : fnd s -> fnd (snd (f_insert n k s)).
Proof.
  intros Hn. unfold SetDict.f_insert. destruct (f_mem s (ck k)) eqn:Hm; [exact Hn|].
  destruct (length s <? n); cbn [snd]; [apply fnd_app; assumption | exact Hn].
Qed.

Lemma f_extend_fnd n items : forall s, fnd s -> fnd (snd (f_extend n items s)).
Proof.
  induction items as [|k rest IH]; intros s Hn; [exact Hn|]. rewrite f_extend_cons.
  destruct (f_mem s (ck k)) eqn:Hm; [apply IH; exact Hn|].
  destruct (length s <? n); [apply IH; apply fnd_app; assumption | exact Hn].
Qed.

Lemma map_ck_set k (s : fset) :
  List.map ck (List.map (fun x => if N.eqb (ck x) (ck k) then k else x) s) = List.map ck s.
Proof.
  induction s as [|h t IH]; cbn [List.map]; [reflexivity|]. rewrite IH. f_equal.
  destruct (N.eqb_spec (ck h) (ck k)) as [Hc|Hc]; [symmetry; exact Hc | reflexivity].
Qed.

Lemma fstep_fnd n o s : fnd s -> fnd (snd (fstep n o s)).
Proof.
  intros Hn. destruct o; cbn [SetDict.fstep].
  - apply f_insert_fnd. exact Hn.
  - destruct (f_mem s (ck k)) eqn:Hm; cbn [snd].
    + unfold fnd. rewrite map_ck_set. exact Hn.
    + destruct (length s <? n); cbn [snd]; [apply fnd_app; assumption | exact Hn].
  - exact Hn.
  - destruct (f_mem s (cq q)); exact Hn.
  - cbn [snd]. unfold fnd, SetDict.f_del. apply NoDup_map_filter. exact Hn.
  - destruct (f_mem s (cq q)); cbn [snd]; [|exact Hn].
    unfold fnd, SetDict.f_del. apply NoDup_map_filter. exact Hn.
  - cbn [snd]. unfold fnd. apply NoDup_map_filter. exact Hn.
  - cbn [snd]. constructor.
  - apply f_extend_fnd. exact Hn.
Qed.

Lemma fnext2_fnd n o s : fnd s -> fnd (fnext2 n o s).
Proof. intros Hn. destruct o; cbn [fnext2]; [apply fstep_fnd; exact Hn | constructor]. Qed.

Lemma fsfinal2_fnd n ops : forall s, fnd s -> fnd (fsfinal2 n ops s).
Proof. induction ops as [|o t IH]; intros s Hn; cbn [fsfinal2]; [exact Hn | apply IH, fnext2_fnd, Hn]. Qed.

(* membership after replace / retain *)
Lemma f_mem_set (s : fset) k c :
  f_mem (List.map (fun x => if N.eqb (ck x) (ck k) then k else x) s) c =
  if N.eqb (ck k) c then match f_mem s c with Some _ => Some k | None => None end else f_mem s c.
Proof.
  unfold SetDict.f_mem. induction s as [|h t IH]; cbn [List.map find]; [destruct (N.eqb (ck k) c); reflexivity|].
  rewrite IH. clear IH.
  destruct (N.eqb_spec (ck h) (ck k)) as [Hhk|Hhk].
  - destruct (N.eqb_spec (ck k) c) as [Hkc|Hkc].
    + assert (Hh : N.eqb (ck h) c = true) by (apply N.eqb_eq; congruence). rewrite Hh. reflexivity.
    + assert (Hh : N.eqb (ck h) c = false) by (apply N.eqb_neq; congruence). rewrite Hh. reflexivity.
  - destruct (N.eqb_spec (ck h) c) as [Hhc|Hhc]; [|reflexivity].
    assert (Hk : N.eqb (ck k) c = false) by (apply N.eqb_neq; congruence). rewrite Hk. reflexivity.
Qed.

Lemma f_mem_filter (g : K -> bool) (s : fset) c :
  fnd s ->
  f_mem (filter g s) c = match f_mem s c with Some k0 => if g k0 then Some k0 else None | None => None end.
Proof.
  unfold fnd. induction s as [|h t IH]; intros Hn; [reflexivity|].
  cbn [List.map] in Hn. inversion Hn as [|x l Hnin Hn']; subst. specialize (IH Hn').
  change (f_mem (h :: t) c) with (if N.eqb (ck h) c then Some h else f_mem t c).
  cbn [filter]. destruct (N.eqb_spec (ck h) c) as [Hc|Hc].
  - destruct (g h).
    + change (f_mem (h :: filter g t) c) with (if N.eqb (ck h) c then Some h else f_mem (filter g t) c).
      rewrite (proj2 (N.eqb_eq _ _) Hc). reflexivity.
    + rewrite IH. rewrite <- Hc. rewrite (proj2 (f_mem_none_iff t (ck h)) Hnin). reflexivity.
  - destruct (g h); [|exact IH].
    change (f_mem (h :: filter g t) c) with (if N.eqb (ck h) c then Some h else f_mem (filter g t) c).
    rewrite (proj2 (N.eqb_neq _ _) Hc). exact IH.
Qed.

(* [stores n o s k]: operation o, run on the ideal set s (capacity n), succeeds
   in putting the element k into the set.
     insert k      returned true;
     replace k     did not panic (it stored k, displacing the element of that
                   class if there was one);
     extend items  k is one of the items, the loop reached it without an
                   overflow, and its insertion returned true. *)
Definition stores (n : nat) (o : sop) (s : fset) (k : K) : Prop :=
  match o with
  | SoInsert k' => k' = k /\ fst (fstep n o s) = SBool true
  | SoReplace k' => k' = k /\ fst (fstep n o s) <> SPanic
  | SoExtend items =>
      exists pre post, items = pre ++ k :: post /\ fst (f_extend n pre s) = SUnit /\
                       fst (f_insert n k (snd (f_extend n pre s))) = SBool true
  | _ => False
  end.

(* [removes n o s c]: operation o, run on s, takes the element of class c (if
   any) out of the set.
     remove q / take q   the query has class c;
     retain g            g rejects the stored element of class c;
     clear               always;
     replace k           k has class c and the call did not panic: the stored
                         element of that class is displaced (handed back to the
                         caller) — [stores] holds for the new one. *)
Definition removes (n : nat) (o : sop) (s : fset) (c : N) : Prop :=
  match o with
  | SoReplace k' => ck k' = c /\ fst (fstep n o s) <> SPanic
  | SoRemove q | SoTake q => cq q = c
  | SoRetain g => exists k0, f_mem s c = Some k0 /\ g k0 = false
  | SoClear => True
  | _ => False
  end.

(* extend: the members afterwards are the former members plus the items whose
   insertion returned true *)
Lemma f_extend_mem n items : forall s c k,
  f_mem (snd (f_extend n items s)) c = Some k <->
  (stores n (SoExtend items) s k /\ ck k = c) \/ f_mem s c = Some k.
Proof.
  induction items as [|k1 rest IH]; intros s c k.
  - cbn [SetDict.f_extend snd stores]. split; [intros H; right; exact H|].
    intros [[(pre & post & Hnil & _) _]|H]; [|exact H]. destruct pre; discriminate Hnil.
  - rewrite f_extend_cons. cbn [stores].
    destruct (f_mem s (ck k1)) as [k0|] eqn:Hm.
    + rewrite IH. cbn [stores]. split.
      * intros [[(pre & post & -> & Hpre & Hins) Hc]|H]; [left | right; exact H].
        split; [|exact Hc]. exists (k1 :: pre), post. split; [reflexivity|].
        rewrite f_extend_cons, Hm. split; assumption.
      * intros [[(pre & post & Hit & Hpre & Hins) Hc]|H]; [|right; exact H].
        destruct pre as [|k1' pre'].
        -- cbn [app] in Hit. injection Hit as -> ->. cbn [SetDict.f_extend snd] in Hins.
           unfold SetDict.f_insert in Hins. rewrite Hm in Hins. discriminate Hins.
        -- cbn [app] in Hit. injection Hit as <- ->. rewrite f_extend_cons, Hm in Hpre, Hins.
           left. split; [|exact Hc]. exists pre', post. auto.
    + destruct (length s <? n) eqn:Hl.
      * rewrite IH. cbn [stores]. rewrite f_mem_app. split.
        -- intros [[(pre & post & -> & Hpre & Hins) Hc]|H].
           ++ left. split; [|exact Hc]. exists (k1 :: pre), post. split; [reflexivity|].
              rewrite f_extend_cons, Hm, Hl. split; assumption.
           ++ destruct (f_mem s c) as [k0|] eqn:Hmc; [right; exact H|].
              destruct (N.eqb_spec (ck k1) c) as [Hc|Hc]; [|discriminate H]. injection H as <-.
              left. split; [|exact Hc]. exists [], rest. split; [reflexivity|].
              cbn [SetDict.f_extend fst snd]. split; [reflexivity|].
              unfold SetDict.f_insert. rewrite Hm, Hl. reflexivity.
        -- intros [[(pre & post & Hit & Hpre & Hins) Hc]|H].
           ++ destruct pre as [|k1' pre'].
              ** cbn [app] in Hit. injection Hit as -> ->. right.
                 subst c. rewrite Hm, N.eqb_refl. reflexivity.
              ** cbn [app] in Hit. injection Hit as <- ->. rewrite f_extend_cons, Hm, Hl in Hpre, Hins.
                 left. split; [|exact Hc]. exists pre', post. auto.
           ++ right. rewrite H. reflexivity.
      * cbn [snd]. split; [intros H; right; exact H|].
        intros [[(pre & post & Hit & Hpre & Hins) Hc]|H]; [exfalso | exact H].
        destruct pre as [|k1' pre'].
        -- cbn [app] in Hit. injection Hit as -> ->. cbn [SetDict.f_extend snd] in Hins.
           unfold SetDict.f_insert in Hins. rewrite Hm, Hl in Hins. discriminate Hins.
        -- cbn [app] in Hit. injection Hit as <- ->. rewrite f_extend_cons, Hm, Hl in Hpre.
           discriminate Hpre.
Qed.

(* ONE STEP: k is the member of class c afterwards iff the step stored it, or
   it was the member of class c before and the step did not remove it *)
Lemma fstep_mem n o s c k :
  fnd s ->
  (f_mem (snd (fstep n o s)) c = Some k <->
   (stores n o s k /\ ck k = c) \/ (f_mem s c = Some k /\ ~ removes n o s c)).
Proof.
  intros Hn. destruct o as [k'|k'|q|q|q|q|g| |items]; cbn [stores removes].
  - (* insert *)
    cbn [SetDict.fstep]. unfold SetDict.f_insert.
    destruct (f_mem s (ck k')) as [k0|] eqn:Hm; [|destruct (length s <? n)]; cbn [fst snd].
    + split; [intros H; right; tauto|]. intros [[[_ H] _]|[H _]]; [discriminate H | exact H].
    + rewrite f_mem_app. split.
      * intros H. destruct (f_mem s c) as [k1|] eqn:Hmc; [right; tauto|].
        destruct (N.eqb_spec (ck k') c) as [Hc|Hc]; [|discriminate H]. injection H as <-. left. auto.
      * intros [[[-> _] Hc]|[H _]]; [|rewrite H; reflexivity].
        subst c. rewrite Hm, N.eqb_refl. reflexivity.
    + split; [intros H; right; tauto|]. intros [[[_ H] _]|[H _]]; [discriminate H | exact H].
  - (* replace *)
    cbn [SetDict.fstep].
    destruct (f_mem s (ck k')) as [k0|] eqn:Hm; [|destruct (length s <? n)]; cbn [fst snd].
    + rewrite f_mem_set. destruct (N.eqb_spec (ck k') c) as [Hc|Hc].
      * subst c. rewrite Hm. split.
        -- intros H. injection H as <-. left. split; [split; [reflexivity | discriminate] | reflexivity].
        -- intros [[[-> _] _]|[_ H]]; [reflexivity|]. exfalso. apply H. split; [reflexivity | discriminate].
      * split; [intros H; right; split; [exact H | intros [H' _]; exact (Hc H')]|].
        intros [[[-> _] H]|[H _]]; [exfalso; exact (Hc H) | exact H].
    + rewrite f_mem_app. split.
      * intros H. destruct (f_mem s c) as [k1|] eqn:Hmc.
        -- right. split; [exact H|]. intros [Hc _]. subst c. rewrite Hm in Hmc. discriminate Hmc.
        -- destruct (N.eqb_spec (ck k') c) as [Hc|Hc]; [|discriminate H]. injection H as <-.
           left. split; [split; [reflexivity | discriminate] | exact Hc].
      * intros [[[-> _] Hc]|[H _]]; [|rewrite H; reflexivity].
        subst c. rewrite Hm, N.eqb_refl. reflexivity.
    + split.
      * intros H. right. split; [exact H|]. intros [_ Hp]. apply Hp. reflexivity.
      * intros [[[_ Hp] _]|[H _]]; [exfalso; apply Hp; reflexivity | exact H].
  - (* contains *) cbn [SetDict.fstep snd]. tauto.
  - (* get *) cbn [SetDict.fstep]. destruct (f_mem s (cq q)); cbn [snd]; tauto.
  - (* remove *)
    cbn [SetDict.fstep snd]. rewrite f_mem_del. destruct (N.eqb_spec (cq q) c) as [Hc|Hc].
    + split; [discriminate|]. intros [[[] _]|[_ H]]. exfalso. exact (H Hc).
    + tauto.
  - (* take *)
    cbn [SetDict.fstep]. destruct (f_mem s (cq q)) as [k0|] eqn:Hm; cbn [snd].
    + rewrite f_mem_del. destruct (N.eqb_spec (cq q) c) as [Hc|Hc].
      * split; [discriminate|]. intros [[[] _]|[_ H]]. exfalso. exact (H Hc).
      * tauto.
    + split; [|tauto]. intros H. right. split; [exact H|]. intros Hc. subst c. rewrite Hm in H. discriminate H.
  - (* retain *)
    cbn [SetDict.fstep snd]. rewrite (f_mem_filter g s c Hn).
    destruct (f_mem s c) as [k0|] eqn:Hm.
    + destruct (g k0) eqn:Hg.
      * split.
        -- intros H. right. split; [exact H|]. intros (k1 & Hk1 & Hg1). injection Hk1 as <-. congruence.
        -- intros [[[] _]|[H _]]. exact H.
      * split; [discriminate|]. intros [[[] _]|[H Hno]]. exfalso. apply Hno. exists k0. auto.
    + split; [discriminate|]. intros [[[] _]|[H _]]. discriminate H.
  - (* clear *)
    cbn [SetDict.fstep snd]. split; [discriminate|]. intros [[[] _]|[_ H]]. exfalso. exact (H I).
  - (* extend *)
    cbn [SetDict.fstep]. rewrite f_extend_mem. cbn [stores]. tauto.
Qed.

(* the same for the operations with drain *)
Definition stores2 (n : nat) (o : sop2) (s : fset) (k : K) : Prop :=
  match o with S2Base o => stores n o s k | S2Drain _ => False end.
Definition removes2 (n : nat) (o : sop2) (s : fset) (c : N) : Prop :=
  match o with S2Base o => removes n o s c | S2Drain _ => True end.

Lemma fnext2_mem n o s c k :
  fnd s ->
  (f_mem (fnext2 n o s) c = Some k <->
   (stores2 n o s k /\ ck k = c) \/ (f_mem s c = Some k /\ ~ removes2 n o s c)).
Proof.
  intros Hn. destruct o as [o|take]; cbn [fnext2 stores2 removes2]; [apply fstep_mem; exact Hn|].
  split; [discriminate|]. intros [[[] _]|[_ H]]. exfalso. exact (H I).
Qed.

(* no operation of the history [ops], run from the ideal set s, removes class c *)
Fixpoint noremove (n : nat) (c : N) (ops : list sop2) (s : fset) : Prop :=
  match ops with
  | [] => True
  | o :: t => ~ removes2 n o s c /\ noremove n c t (fnext2 n o s)
  end.

(* TRACES: after the history [ops] from the ideal set s, the member of class c
   is k exactly when
     - k was the member of class c in s and no operation removed class c, or
     - some operation o of the history (ops = pre ++ o :: post) stored k, and
       no later operation (those of post) removed class c. *)
Theorem fsfinal2_mem n ops : forall s c k,
  fnd s ->
  (f_mem (fsfinal2 n ops s) c = Some k <->
   (f_mem s c = Some k /\ noremove n c ops s) \/
   (exists pre o post, ops = pre ++ o :: post /\
      stores2 n o (fsfinal2 n pre s) k /\ ck k = c /\
      noremove n c post (fnext2 n o (fsfinal2 n pre s)))).
Proof.
  induction ops as [|o t IH]; intros s c k Hn.
  - cbn [fsfinal2 noremove]. split; [intros H; left; auto|].
    intros [[H _]|(pre & o & post & Hnil & _)]; [exact H|]. destruct pre; discriminate Hnil.
  - cbn [fsfinal2]. rewrite (IH (fnext2 n o s) c k (fnext2_fnd n o s Hn)).
    rewrite (fnext2_mem n o s c k Hn). cbn [noremove]. split.
    + intros [[[[Hst Hc]|[Hm Hno]] Hrest]|(pre & o' & post & -> & Hst & Hc & Hrest)].
      * right. exists [], o, t. cbn [app fsfinal2]. auto.
      * left. auto.
      * right. exists (o :: pre), o', post. cbn [app fsfinal2]. auto.
    + intros [(Hm & Hno & Hrest)|(pre & o' & post & Hops & Hst & Hc & Hrest)].
      * left. auto.
      * destruct pre as [|o1 pre'].
        -- cbn [app] in Hops. injection Hops as -> ->. cbn [fsfinal2] in Hst, Hrest. left. auto.
        -- cbn [app] in Hops. injection Hops as <- ->. cbn [fsfinal2] in Hst, Hrest.
           right. exists pre', o', post. auto.
Qed.

(* from the empty set: exactly the successful insertions not yet removed *)
Theorem fsfinal2_mem_new n ops c k :
  f_mem (fsfinal2 n ops []) c = Some k <->
  exists pre o post, ops = pre ++ o :: post /\
     stores2 n o (fsfinal2 n pre []) k /\ ck k = c /\
     noremove n c post (fnext2 n o (fsfinal2 n pre [])).
Proof.
  rewrite (fsfinal2_mem n ops [] c k (NoDup_nil _)). split; [|intros H; right; exact H].
  intros [[H _]|H]; [discriminate H | exact H].
Qed.

(* at the level of classes *)
Corollary fsfinal2_member_new n ops c :
  f_mem (fsfinal2 n ops []) c <> None <->
  exists k pre o post, ops = pre ++ o :: post /\
     stores2 n o (fsfinal2 n pre []) k /\ ck k = c /\
     noremove n c post (fnext2 n o (fsfinal2 n pre [])).
Proof.
  split.
  - intros H. destruct (f_mem (fsfinal2 n ops []) c) as [k|] eqn:Hm; [|exfalso; apply H; reflexivity].
    exists k. apply fsfinal2_mem_new. exact Hm.
  - intros (k & H). apply fsfinal2_mem_new in H. rewrite H. discriminate.
Qed.

(* what a lookup in a container that abstracts to s finds, for ANY class *)
Lemma sabs_mem_c (m : smap) s c :
  SAbs m s -> option_map fst (lookup ck (elems m) c) = f_mem s c.
Proof.
  intros (_ & Hu & Hp). unfold lookup.
  destruct (find_idx ck c (elems m)) as [i|] eqn:Hf.
  - destruct (sp_some ck _ _ _ _ Hu Hp Hf) as (k0 & Hpi & _ & Hd). rewrite Hd, Hpi. reflexivity.
  - destruct (sp_none ck _ _ _ Hu Hp Hf) as [Hd _]. rewrite Hd. reflexivity.
Qed.

(* THE MODEL: after any history (drain included) on Set::new() of capacity n
   there is a final container (no UB), and the element it holds for class c —
   what contains / get / iteration observe — is k exactly when some operation
   of the history stored k and no later one removed class c. *)
Theorem srun2_membership n ops t lg :
  exists wf, smfinal2 ops {| cb := t; log := lg; self := new_map n |} = Some wf /\
             cap (self wf) = n /\
             forall c k,
               option_map fst (lookup ck (elems (self wf)) c) = Some k <->
               exists pre o post, ops = pre ++ o :: post /\
                  stores2 n o (fsfinal2 n pre []) k /\ ck k = c /\
                  noremove n c post (fnext2 n o (fsfinal2 n pre [])).
Proof.
  destruct (srun2_refines_new n ops t lg) as (wf & Hf & _ & Ha & Hc).
  exists wf. split; [exact Hf|]. split; [exact Hc|]. intros c k.
  rewrite (sabs_mem_c (self wf) _ c Ha). apply fsfinal2_mem_new.
Qed.

(* from any represented state *)
Theorem srun2_membership_from n ops w s :
  SAbs (self w) s -> cap (self w) = n ->
  exists wf, smfinal2 ops w = Some wf /\ cap (self wf) = n /\
             forall c k,
               option_map fst (lookup ck (elems (self wf)) c) = Some k <->
               (f_mem s c = Some k /\ noremove n c ops s) \/
               (exists pre o post, ops = pre ++ o :: post /\
                  stores2 n o (fsfinal2 n pre s) k /\ ck k = c /\
                  noremove n c post (fnext2 n o (fsfinal2 n pre s))).
Proof.
  intros Ha Hc. destruct (srun2_refines n ops w s Ha Hc) as (wf & Hf & _ & Ha' & Hc').
  exists wf. split; [exact Hf|]. split; [exact Hc'|]. intros c k.
  rewrite (sabs_mem_c (self wf) _ c Ha'). apply fsfinal2_mem. eapply sabs_nodup. exact Ha.
Qed.

(* ================================================================== *)
(* C08.  Set algebra: every stage of consumption.                      *)
(* ================================================================== *)
Notation sel := (sel ck). Notation mem := (mem ck).
Notation union_items := (union_items ck). Notation symdiff_items := (symdiff_items ck).

(* ---- calling next() j times, whatever it answers, keeping the state the
   iterator is left in (filter_run / union_run / symdiff_run of Algebra*.v stop
   at the first None and forget the state) ---- *)
Section Steps.
Context {X St : Type} (next : St -> M (option X * St)).

Fixpoint nsteps (j : nat) (s : St) : M (list X * St) :=
  match j with
  | 0 => ret ([], s)
  | S j' => x <- next s ;;
            r <- nsteps j' (snd x) ;;
            ret ((match fst x with Some it => [it] | None => [] end) ++ fst r, snd r)
  end.

(* an iterator whose next() pops the head of a list of pending items: after j
   calls it has yielded the first j of them and the rest is still pending *)
Lemma steps_lawful (ok : St -> Prop) (items : St -> list X) :
  (forall s (w : world), ok s ->
     wp (next s)
        (fun x w' => stable w w' /\ ok (snd x) /\ fst x = hd_error (items s) /\
                     items (snd x) = tl (items s))
        (fun _ => False) w) ->
  forall j s (w : world), ok s ->
    wp (nsteps j s)
       (fun r w' => stable w w' /\ ok (snd r) /\ fst r = firstn j (items s) /\
                    items (snd r) = skipn j (items s))
       (fun _ => False) w.
Proof.
  intros Hnext. induction j as [|j IH]; intros s w Hok; cbn [nsteps].
  - apply wp_ret. cbn [fst snd firstn skipn]. split; [apply stable_refl|]. auto.
  - apply wp_bind. eapply wp_mono; [apply Hnext; exact Hok | | auto]; cbn beta.
    intros x w1 (Hst1 & Hok1 & Hhd & Htl). apply wp_bind.
    eapply wp_mono; [apply (IH (snd x) w1 Hok1) | | auto]; cbn beta.
    intros r w2 (Hst2 & Hok2 & Hfst & Hrest). apply wp_ret. cbn [fst snd].
    split; [eapply stable_trans; eauto|]. split; [exact Hok2|].
    rewrite Hfst, Hrest, Hhd, Htl. split; [apply firstn_S_hd_tl | apply skipn_S_tl].
Qed.

(* the same for a run that stops at the first None (the shape of filter_run,
   union_run, symdiff_run): EVERY fuel j, not only a sufficient one *)
Lemma run_steps_gen (run : nat -> St -> M (list X)) (ok : St -> Prop) (items : St -> list X) :
  (forall f s, run (S f) s =
               (x <- next s ;;
                match fst x with
                | None => ret []
                | Some it => r <- run f (snd x) ;; ret (it :: r)
                end)) ->
  (forall s, run 0 s = ret []) ->
  (forall s (w : world), ok s ->
     wp (next s)
        (fun x w' => stable w w' /\ ok (snd x) /\ fst x = hd_error (items s) /\
                     items (snd x) = tl (items s))
        (fun _ => False) w) ->
  forall j s (w : world), ok s ->
    wp (run j s) (fun r w' => stable w w' /\ r = firstn j (items s)) (fun _ => False) w.
Proof.
  intros Hrun Hrun0 Hnext. induction j as [|j IH]; intros s w Hok.
  - rewrite Hrun0. apply wp_ret. split; [apply stable_refl | reflexivity].
  - rewrite Hrun. apply wp_bind.
    eapply wp_mono; [apply Hnext; exact Hok | | auto]; cbn beta.
    intros x w1 (Hst & Hok1 & Hhd & Htl). rewrite Hhd.
    destruct (items s) as [|it rest] eqn:Hi; cbn [hd_error tl] in *.
    + apply wp_ret. split; [exact Hst | reflexivity].
    + apply wp_bind. eapply wp_mono; [apply (IH (snd x) w1 Hok1) | | auto]; cbn beta.
      intros r w2 [Hst2 ->]. apply wp_ret. split; [eapply stable_trans; eauto|].
      rewrite Htl. reflexivity.
Qed.

End Steps.

(* ---- the three kinds of adaptor in that form ---- *)
Definition cur_ok (a : smap) (c : cursor) : Prop := fst c <= snd c /\ snd c <= len a.

Lemma filter_next_items (a b : smap) want (c : cursor) (w : world) :
  WF a -> WF b -> cur_ok a c ->
  wp (filter_next E a b want (cursor_len c) (fst c))
     (fun x w' => stable w w' /\ cur_ok a (snd x) /\
                  fst x = hd_error (sel a b want (fst c) (cursor_len c)) /\
                  sel a b want (fst (snd x)) (cursor_len (snd x))
                  = tl (sel a b want (fst c) (cursor_len c)))
     (fun _ => False) w.
Proof.
  intros Ha Hb [H1 H2].
  assert (Hc : fst c + cursor_len c = snd c) by (unfold cursor_len; lia).
  eapply wp_mono; [apply (filter_next_lawful E ck cq HL); [exact Ha | exact Hb | lia] | | auto]; cbn beta.
  intros [r c'] w' (Hst & Hr1 & Hr2). cbn [fst snd] in *. subst r c'.
  split; [exact Hst|]. unfold cur_ok.
  destruct (Algebra.sel ck a b want (fst c) (cursor_len c)) as [|i rest] eqn:Hsel; cbn [hd_error tl fst snd].
  - split; [lia|]. split; [reflexivity|]. unfold cursor_len. cbn [fst snd]. rewrite Nat.sub_diag. reflexivity.
  - destruct (sel_cons ck a b want _ _ _ _ Hsel) as [Hi Hrest].
    split; [lia|]. split; [reflexivity|]. unfold cursor_len at 1. cbn [fst snd]. symmetry. exact Hrest.
Qed.

Definition filter_steps (a b : smap) (want : bool) : nat -> cursor -> M (list nat * cursor) :=
  nsteps (fun c => filter_next E a b want (cursor_len c) (fst c)).
Definition union_steps (a b : smap) : nat -> chain -> M (list (bool * nat) * chain) :=
  nsteps (union_next E a b).
Definition symdiff_steps (a b : smap) : nat -> chain -> M (list (bool * nat) * chain) :=
  nsteps (symdiff_next E a b).

(* Difference / Intersection after j calls of next(): the first j items have
   been yielded, the cursor is inside the operand, and what it will still
   yield is the rest *)
Lemma filter_steps_lawful (a b : smap) want j (c : cursor) (w : world) :
  WF a -> WF b -> cur_ok a c ->
  wp (filter_steps a b want j c)
     (fun r w' => stable w w' /\ cur_ok a (snd r) /\
                  fst r = firstn j (sel a b want (fst c) (cursor_len c)) /\
                  sel a b want (fst (snd r)) (cursor_len (snd r))
                  = skipn j (sel a b want (fst c) (cursor_len c)))
     (fun _ => False) w.
Proof.
  intros Ha Hb Hc. unfold filter_steps.
  apply (steps_lawful (fun c => filter_next E a b want (cursor_len c) (fst c)) (cur_ok a)
           (fun c => sel a b want (fst c) (cursor_len c))); [|exact Hc].
  intros s w0 Hs. apply filter_next_items; assumption.
Qed.

Lemma union_steps_lawful (a b : smap) j (u : chain) (w : world) :
  WF a -> WF b -> chain_ok (len b) (len a) u ->
  wp (union_steps a b j u)
     (fun r w' => stable w w' /\ chain_ok (len b) (len a) (snd r) /\
                  fst r = firstn j (union_items a b u) /\
                  union_items a b (snd r) = skipn j (union_items a b u))
     (fun _ => False) w.
Proof.
  intros Ha Hb Hu. unfold union_steps.
  apply (steps_lawful (union_next E a b) (chain_ok (len b) (len a)) (union_items a b)); [|exact Hu].
  intros s w0 Hs. apply (union_next_lawful E ck cq HL); assumption.
Qed.

Lemma symdiff_steps_lawful (a b : smap) j (u : chain) (w : world) :
  WF a -> WF b -> chain_ok (len a) (len b) u ->
  wp (symdiff_steps a b j u)
     (fun r w' => stable w w' /\ chain_ok (len a) (len b) (snd r) /\
                  fst r = firstn j (symdiff_items a b u) /\
                  symdiff_items a b (snd r) = skipn j (symdiff_items a b u))
     (fun _ => False) w.
Proof.
  intros Ha Hb Hu. unfold symdiff_steps.
  apply (steps_lawful (symdiff_next E a b) (chain_ok (len a) (len b)) (symdiff_items a b)); [|exact Hu].
  intros s w0 Hs. apply (symdiff_next_lawful E ck cq HL); assumption.
Qed.

(* finding 4: every prefix length of consumption for Union / SymmetricDifference *)
Lemma union_run_steps (a b : smap) j (u : chain) (w : world) :
  WF a -> WF b -> chain_ok (len b) (len a) u ->
  wp (union_run E a b j u)
     (fun r w' => stable w w' /\ r = firstn j (union_items a b u)) (fun _ => False) w.
Proof.
  intros Ha Hb Hu.
  apply (run_steps_gen (union_next E a b) (union_run E a b) (chain_ok (len b) (len a)) (union_items a b));
    [reflexivity | reflexivity | | exact Hu].
  intros s w0 Hs. apply (union_next_lawful E ck cq HL); assumption.
Qed.

Lemma symdiff_run_steps (a b : smap) j (u : chain) (w : world) :
  WF a -> WF b -> chain_ok (len a) (len b) u ->
  wp (symdiff_run E a b j u)
     (fun r w' => stable w w' /\ r = firstn j (symdiff_items a b u)) (fun _ => False) w.
Proof.
  intros Ha Hb Hu.
  apply (run_steps_gen (symdiff_next E a b) (symdiff_run E a b) (chain_ok (len a) (len b)) (symdiff_items a b));
    [reflexivity | reflexivity | | exact Hu].
  intros s w0 Hs. apply (symdiff_next_lawful E ck cq HL); assumption.
Qed.

(* from the chains the constructors return *)
Lemma union_run_steps_init (a b : smap) j (w : world) :
  WF a -> WF b ->
  wp (union_run E a b j (union_init a b))
     (fun r w' => stable w w' /\ r = firstn j (union_items a b (union_init a b))) (fun _ => False) w.
Proof.
  intros Ha Hb. apply union_run_steps; [exact Ha | exact Hb|].
  unfold chain_ok, union_init. cbn [front back fst snd]. lia.
Qed.

Lemma symdiff_run_steps_init (a b : smap) j (w : world) :
  WF a -> WF b ->
  wp (symdiff_run E a b j (symdiff_init a b))
     (fun r w' => stable w w' /\ r = firstn j (symdiff_items a b (symdiff_init a b))) (fun _ => False) w.
Proof.
  intros Ha Hb. apply symdiff_run_steps; [exact Ha | exact Hb|].
  unfold chain_ok, symdiff_init. cbn [front back fst snd]. lia.
Qed.

(* ---- finding 5: size_hint at EVERY stage.  After j calls of next() from
   any state inside the operands, the hint computed from the state the
   iterator is in brackets the number of items it will still yield, which is
   the total minus the j (or fewer, if exhausted) already yielded. ---- *)
Lemma diff_hint_stage (a b : smap) j (c : cursor) (w : world) :
  WF a -> WF b -> Uniq ck (elems a) -> Uniq ck (elems b) -> cur_ok a c ->
  wp (filter_steps a b false j c)
     (fun r w' => stable w w' /\
        fst r = firstn j (sel a b false (fst c) (cursor_len c)) /\
        sel a b false (fst (snd r)) (cursor_len (snd r)) = skipn j (sel a b false (fst c) (cursor_len c)) /\
        fst (diff_size_hint b (snd r))
          <= length (sel a b false (fst c) (cursor_len c)) - j
          <= snd (diff_size_hint b (snd r)))
     (fun _ => False) w.
Proof.
  intros Ha Hb Hua Hub Hc.
  eapply wp_mono; [apply filter_steps_lawful; assumption | | auto]; cbn beta.
  intros r w' (Hst & [Hk1 Hk2] & Hfst & Hrest). split; [exact Hst|]. split; [exact Hfst|]. split; [exact Hrest|].
  rewrite <- skipn_length, <- Hrest. apply diff_hint_brackets; assumption.
Qed.

Lemma inter_hint_stage (a b : smap) j (c : cursor) (w : world) :
  WF a -> WF b -> Uniq ck (elems a) -> Uniq ck (elems b) -> cur_ok a c ->
  wp (filter_steps a b true j c)
     (fun r w' => stable w w' /\
        fst r = firstn j (sel a b true (fst c) (cursor_len c)) /\
        sel a b true (fst (snd r)) (cursor_len (snd r)) = skipn j (sel a b true (fst c) (cursor_len c)) /\
        fst (inter_size_hint b (snd r))
          <= length (sel a b true (fst c) (cursor_len c)) - j
          <= snd (inter_size_hint b (snd r)))
     (fun _ => False) w.
Proof.
  intros Ha Hb Hua Hub Hc.
  eapply wp_mono; [apply filter_steps_lawful; assumption | | auto]; cbn beta.
  intros r w' (Hst & [Hk1 Hk2] & Hfst & Hrest). split; [exact Hst|]. split; [exact Hfst|]. split; [exact Hrest|].
  rewrite <- skipn_length, <- Hrest. apply inter_hint_brackets; assumption.
Qed.

Lemma union_hint_stage (a b : smap) j (u : chain) (w : world) :
  WF a -> WF b -> Uniq ck (elems a) -> Uniq ck (elems b) -> chain_ok (len b) (len a) u ->
  wp (union_steps a b j u)
     (fun r w' => stable w w' /\
        fst r = firstn j (union_items a b u) /\
        union_items a b (snd r) = skipn j (union_items a b u) /\
        fst (union_size_hint b (snd r))
          <= length (union_items a b u) - j
          <= snd (union_size_hint b (snd r)))
     (fun _ => False) w.
Proof.
  intros Ha Hb Hua Hub Hu.
  eapply wp_mono; [apply union_steps_lawful; assumption | | auto]; cbn beta.
  intros r w' (Hst & Hok & Hfst & Hrest). split; [exact Hst|]. split; [exact Hfst|]. split; [exact Hrest|].
  rewrite <- skipn_length, <- Hrest.
  exact (union_hint_brackets ck a b (snd r) Ha Hb Hua Hub Hok).
Qed.

Lemma symdiff_hint_stage (a b : smap) j (u : chain) (w : world) :
  WF a -> WF b -> Uniq ck (elems a) -> Uniq ck (elems b) -> chain_ok (len a) (len b) u ->
  wp (symdiff_steps a b j u)
     (fun r w' => stable w w' /\
        fst r = firstn j (symdiff_items a b u) /\
        symdiff_items a b (snd r) = skipn j (symdiff_items a b u) /\
        fst (symdiff_size_hint a b (snd r))
          <= length (symdiff_items a b u) - j
          <= snd (symdiff_size_hint a b (snd r)))
     (fun _ => False) w.
Proof.
  intros Ha Hb Hua Hub Hu.
  eapply wp_mono; [apply symdiff_steps_lawful; assumption | | auto]; cbn beta.
  intros r w' (Hst & Hok & Hfst & Hrest). split; [exact Hst|]. split; [exact Hfst|]. split; [exact Hrest|].
  rewrite <- skipn_length, <- Hrest.
  exact (symdiff_hint_brackets ck a b (snd r) Ha Hb Hua Hub Hok).
Qed.

(* the cursor (0, len a) the constructors return is inside the operand *)
Lemma cur_ok_init (a : smap) : cur_ok a (0, len a).
Proof. unfold cur_ok. cbn [fst snd]. lia. Qed.

(* ---- finding 8: fold with an ARBITRARY accumulator function.  The model's
   folds are specialised to the closure "push the slot"; these are the same
   loops with a generic F. ---- *)
Section FoldGen.
Context {A : Type}.

Fixpoint filter_fold_gen (F : A -> nat -> A) (a b : smap) (want : bool) (n lo : nat) (acc : A) : M A :=
  match n with
  | 0 => ret acc
  | S n' =>
      match nth_error (slots a) lo with
      | Some (Some (k, _)) =>
          inb <- contains_in E b k ;;
          filter_fold_gen F a b want n' (S lo) (if Bool.eqb inb want then F acc lo else acc)
      | _ => ub
      end
  end.

Fixpoint siter_fold_gen (F : A -> nat -> A) (b : smap) (n lo : nat) (acc : A) : M A :=
  match n with
  | 0 => ret acc
  | S n' =>
      match nth_error (slots b) lo with
      | Some (Some _) => siter_fold_gen F b n' (S lo) (F acc lo)
      | _ => ub
      end
  end.

(* Chain::fold: acc = front.fold(acc, f); back.fold(acc, f) *)
Definition union_fold_gen (F : A -> bool * nat -> A) (a b : smap) (u : chain) (init : A) : M A :=
  acc <- match front u with
         | Some c => siter_fold_gen (fun x i => F x (true, i)) b (cursor_len c) (fst c) init
         | None => ret init
         end ;;
  filter_fold_gen (fun x i => F x (false, i)) a b false (cursor_len (back u)) (fst (back u)) acc.

Definition symdiff_fold_gen (F : A -> bool * nat -> A) (a b : smap) (u : chain) (init : A) : M A :=
  acc <- match front u with
         | Some c => filter_fold_gen (fun x i => F x (false, i)) a b false (cursor_len c) (fst c) init
         | None => ret init
         end ;;
  filter_fold_gen (fun x i => F x (true, i)) b a false (cursor_len (back u)) (fst (back u)) acc.

Lemma filter_fold_gen_lawful (F : A -> nat -> A) (a b : smap) want n : forall lo acc (w : world),
  WF a -> WF b -> lo + n <= len a ->
  wp (filter_fold_gen F a b want n lo acc)
     (fun r w' => stable w w' /\ r = fold_left F (sel a b want lo n) acc) (fun _ => False) w.
Proof.
  induction n as [|n IH]; intros lo acc w Ha Hb Hn; cbn [filter_fold_gen].
  - apply wp_ret. split; [apply stable_refl | reflexivity].
  - assert (Hlo : lo < len a) by lia.
    destruct (WF_live _ _ Ha Hlo) as [[k u] Hp]. rewrite Hp. cbn beta iota.
    apply wp_bind. eapply wp_mono; [apply (contains_in_lawful E ck cq HL); exact Hb | | auto]; cbn beta.
    intros inb w' [Hst ->].
    eapply wp_mono; [apply IH; [exact Ha | exact Hb | lia] | | auto]; cbn beta.
    intros r w'' [Hst' ->]. split; [eapply stable_trans; eauto|].
    rewrite sel_S, (memi_slot ck a b lo k u Ha Hlo Hp).
    destruct (Bool.eqb (Algebra.mem ck b k) want); reflexivity.
Qed.

Lemma siter_fold_gen_lawful (F : A -> nat -> A) (b : smap) n : forall lo acc (w : world),
  WF b -> lo + n <= len b ->
  wp (siter_fold_gen F b n lo acc)
     (fun r w' => stable w w' /\ r = fold_left F (seq lo n) acc) (fun _ => False) w.
Proof.
  induction n as [|n IH]; intros lo acc w Hb Hn; cbn [siter_fold_gen].
  - apply wp_ret. split; [apply stable_refl | reflexivity].
  - assert (Hlo : lo < len b) by lia.
    destruct (WF_live _ _ Hb Hlo) as [p Hp]. rewrite Hp.
    eapply wp_mono; [apply IH; [exact Hb | lia] | | auto]; cbn beta.
    intros r w' [Hst ->]. split; [exact Hst | reflexivity].
Qed.

(* fold F init = fold_left F (the items next() would yield) init *)
Lemma union_fold_gen_lawful (F : A -> bool * nat -> A) (a b : smap) (u : chain) (init : A) (w : world) :
  WF a -> WF b -> chain_ok (len b) (len a) u ->
  wp (union_fold_gen F a b u init)
     (fun r w' => stable w w' /\ r = fold_left F (union_items a b u) init) (fun _ => False) w.
Proof.
  intros Ha Hb Hu. destruct u as [fr bk]. unfold chain_ok in Hu. cbn [front back] in Hu.
  destruct Hu as (Hf & Hk1 & Hk2). unfold union_fold_gen, Algebra2.union_items. cbn [front back].
  assert (Htail : forall acc (w1 : world), stable w w1 ->
            wp (filter_fold_gen (fun x i => F x (false, i)) a b false (cursor_len bk) (fst bk) acc)
               (fun r w' => stable w w' /\
                  r = fold_left F (List.map (fun i => (false, i)) (sel a b false (fst bk) (cursor_len bk))) acc)
               (fun _ => False) w1).
  { intros acc w1 Hst1.
    eapply wp_mono; [apply filter_fold_gen_lawful; [exact Ha | exact Hb | unfold cursor_len; lia] | | auto];
      cbn beta.
    intros r w2 [Hst2 ->]. split; [eapply stable_trans; eauto|]. rewrite fold_left_map_l. reflexivity. }
  apply wp_bind. destruct fr as [c|].
  - destruct Hf as [Hc1 Hc2].
    eapply wp_mono; [apply siter_fold_gen_lawful; [exact Hb | unfold cursor_len; lia] | | auto]; cbn beta.
    intros acc w1 [Hst1 ->].
    eapply wp_mono; [apply Htail; exact Hst1 | | auto]; cbn beta.
    intros r w2 [Hst2 ->]. split; [exact Hst2|]. rewrite fold_left_app, !fold_left_map_l. reflexivity.
  - apply wp_ret. cbn [app]. apply Htail. apply stable_refl.
Qed.

Lemma symdiff_fold_gen_lawful (F : A -> bool * nat -> A) (a b : smap) (u : chain) (init : A) (w : world) :
  WF a -> WF b -> chain_ok (len a) (len b) u ->
  wp (symdiff_fold_gen F a b u init)
     (fun r w' => stable w w' /\ r = fold_left F (symdiff_items a b u) init) (fun _ => False) w.
Proof.
  intros Ha Hb Hu. destruct u as [fr bk]. unfold chain_ok in Hu. cbn [front back] in Hu.
  destruct Hu as (Hf & Hk1 & Hk2). unfold symdiff_fold_gen, Algebra2.symdiff_items. cbn [front back].
  assert (Htail : forall acc (w1 : world), stable w w1 ->
            wp (filter_fold_gen (fun x i => F x (true, i)) b a false (cursor_len bk) (fst bk) acc)
               (fun r w' => stable w w' /\
                  r = fold_left F (List.map (fun i => (true, i)) (sel b a false (fst bk) (cursor_len bk))) acc)
               (fun _ => False) w1).
  { intros acc w1 Hst1.
    eapply wp_mono; [apply filter_fold_gen_lawful; [exact Hb | exact Ha | unfold cursor_len; lia] | | auto];
      cbn beta.
    intros r w2 [Hst2 ->]. split; [eapply stable_trans; eauto|]. rewrite fold_left_map_l. reflexivity. }
  apply wp_bind. destruct fr as [c|].
  - destruct Hf as [Hc1 Hc2].
    eapply wp_mono; [apply filter_fold_gen_lawful; [exact Ha | exact Hb | unfold cursor_len; lia] | | auto];
      cbn beta.
    intros acc w1 [Hst1 ->].
    eapply wp_mono; [apply Htail; exact Hst1 | | auto]; cbn beta.
    intros r w2 [Hst2 ->]. split; [exact Hst2|]. rewrite fold_left_app, !fold_left_map_l. reflexivity.
  - apply wp_ret. cbn [app]. apply Htail. apply stable_refl.
Qed.

(* fold = stepping with next, for every F and init *)
Lemma filter_fold_gen_is_run (F : A -> nat -> A) (a b : smap) want (c : cursor) (init : A) (w1 w2 : world) :
  WF a -> WF b -> fst c <= snd c -> snd c <= len a ->
  wp (filter_run E a b want (S (cursor_len c)) c)
     (fun r _ => wp (filter_fold_gen F a b want (cursor_len c) (fst c) init)
                    (fun r' _ => r' = fold_left F r init) (fun _ => False) w2)
     (fun _ => False) w1.
Proof.
  intros Ha Hb H1 H2.
  eapply wp_mono; [apply (filter_run_lawful E ck cq HL); assumption | | auto]; cbn beta.
  intros r w' [_ ->].
  eapply wp_mono; [apply filter_fold_gen_lawful; [exact Ha | exact Hb | unfold cursor_len; lia] | | auto];
    cbn beta.
  intros r' w'' [_ ->]. reflexivity.
Qed.

Lemma union_fold_gen_is_run (F : A -> bool * nat -> A) (a b : smap) (u : chain) (init : A) (w1 w2 : world) :
  WF a -> WF b -> chain_ok (len b) (len a) u ->
  wp (union_run E a b (S (S (match front u with Some c => cursor_len c | None => 0 end
                             + cursor_len (back u)))) u)
     (fun r _ => wp (union_fold_gen F a b u init) (fun r' _ => r' = fold_left F r init) (fun _ => False) w2)
     (fun _ => False) w1.
Proof.
  intros Ha Hb Hu.
  eapply wp_mono; [apply (union_run_lawful E ck cq HL); assumption | | auto]; cbn beta.
  intros r w' [_ ->].
  eapply wp_mono; [apply union_fold_gen_lawful; assumption | | auto]; cbn beta.
  intros r' w'' [_ ->]. reflexivity.
Qed.

Lemma symdiff_fold_gen_is_run (F : A -> bool * nat -> A) (a b : smap) (u : chain) (init : A) (w1 w2 : world) :
  WF a -> WF b -> chain_ok (len a) (len b) u ->
  wp (symdiff_run E a b (S (S (match front u with Some c => cursor_len c | None => 0 end
                               + cursor_len (back u)))) u)
     (fun r _ => wp (symdiff_fold_gen F a b u init) (fun r' _ => r' = fold_left F r init) (fun _ => False) w2)
     (fun _ => False) w1.
Proof.
  intros Ha Hb Hu.
  eapply wp_mono; [apply (symdiff_run_lawful E ck cq HL); assumption | | auto]; cbn beta.
  intros r w' [_ ->].
  eapply wp_mono; [apply symdiff_fold_gen_lawful; assumption | | auto]; cbn beta.
  intros r' w'' [_ ->]. reflexivity.
Qed.

End FoldGen.

(* the model's specialised folds ARE the generic ones at F = push *)
Lemma filter_fold_is_gen (a b : smap) want n : forall lo acc (w : world),
  filter_fold E a b want n lo acc w = filter_fold_gen (fun x i => x ++ [i]) a b want n lo acc w.
Proof.
  induction n as [|n IH]; intros lo acc w; cbn [filter_fold filter_fold_gen]; [reflexivity|].
  destruct (nth_error (slots a) lo) as [[[k u]|]|]; try reflexivity.
  unfold bind. destruct (contains_in E b k w) as [inb w'|w'|]; try reflexivity. apply IH.
Qed.

Lemma siter_fold_is_gen (b : smap) n : forall lo acc (w : world),
  siter_fold b n lo acc w = siter_fold_gen (fun x i => x ++ [(true, i)]) b n lo acc w.
Proof.
  induction n as [|n IH]; intros lo acc w; cbn [siter_fold siter_fold_gen]; [reflexivity|].
  destruct (nth_error (slots b) lo) as [[p|]|]; try reflexivity. apply IH.
Qed.

(* and the model's Chain folds give what the generic ones give at F = push *)
Lemma union_fold_is_gen (a b : smap) (u : chain) (w1 w2 : world) :
  WF a -> WF b -> chain_ok (len b) (len a) u ->
  wp (union_fold E a b u)
     (fun r _ => wp (union_fold_gen (fun x it => x ++ [it]) a b u [])
                    (fun r' _ => r' = r) (fun _ => False) w2)
     (fun _ => False) w1.
Proof.
  intros Ha Hb Hu.
  eapply wp_mono; [apply (union_fold_lawful E ck cq HL); assumption | | auto]; cbn beta.
  intros r w' [_ ->].
  eapply wp_mono; [apply union_fold_gen_lawful; assumption | | auto]; cbn beta.
  intros r' w'' [_ ->]. rewrite fold_left_push. reflexivity.
Qed.

Lemma symdiff_fold_is_gen (a b : smap) (u : chain) (w1 w2 : world) :
  WF a -> WF b -> chain_ok (len a) (len b) u ->
  wp (symdiff_fold E a b u)
     (fun r _ => wp (symdiff_fold_gen (fun x it => x ++ [it]) a b u [])
                    (fun r' _ => r' = r) (fun _ => False) w2)
     (fun _ => False) w1.
Proof.
  intros Ha Hb Hu.
  eapply wp_mono; [apply (symdiff_fold_lawful E ck cq HL); assumption | | auto]; cbn beta.
  intros r w' [_ ->].
  eapply wp_mono; [apply symdiff_fold_gen_lawful; assumption | | auto]; cbn beta.
  intros r' w'' [_ ->]. rewrite fold_left_push. reflexivity.
Qed.

(* ---- finding 6: the result of '-' holds no two elements of one class, and
   its class list is the difference's ---- *)
Section Sub2.
Context (HCK : forall s k, exists k' s', cloneK E s k = (Some k', s') /\ ck k' = ck k).

Lemma set_sub_lawful_uniq (a b : smap) (w : world) :
  WF a -> WF b -> Uniq ck (elems a) -> WF (self w) -> len (self w) = 0 -> cap (self w) = cap a ->
  wp (set_sub E debug a b)
     (fun _ w' =>
        WF (self w') /\ cap (self w') = cap a /\
        List.map (fun p => ck (fst p)) (elems (self w'))
        = List.map (fun p => ck (fst p)) (filter (fun p => negb (mem b (fst p))) (elems a)) /\
        NoDup (List.map (fun p => ck (fst p)) (elems (self w'))) /\
        (forall c, In c (List.map (fun p => ck (fst p)) (elems (self w')))
                   <-> In c (List.map (fun p => ck (fst p)) (elems a))
                       /\ ~ In c (List.map (fun p => ck (fst p)) (elems b))) /\
        log w' = log w ++ flat_map (fun p : kv => List.map EvCloneK (idK E (fst p)))
                                   (filter (fun p => negb (mem b (fst p))) (elems a)))
     (fun _ => False) w.
Proof.
  intros Ha Hb Hua Hw Hlen Hcap.
  eapply wp_mono; [apply (set_sub_lawful E debug ck cq HL HCK); assumption | | auto]; cbn beta.
  intros _ w' (Hw' & Hc' & Hcl & evs & Hlg & Hevs & _).
  split; [exact Hw'|]. split; [exact Hc'|]. split; [exact Hcl|].
  split; [rewrite Hcl; apply (Uniq_filter ck); exact Hua|].
  split; [intros c; rewrite Hcl; apply cls_in_filter|].
  rewrite Hlg, Hevs. reflexivity.
Qed.

End Sub2.

End MoreSet.

(* ================================================================== *)
(* C08.7  "the operands are left unchanged", at the level of the        *)
(* interpreter Model/Exec.v: the set-algebra sessions (SAlgebra: union / *)
(* intersection / difference / symmetric_difference stepped and folded,  *)
(* SPred: is_disjoint / is_subset / is_superset, SSub: the '-' operator)  *)
(* leave all four registers exactly as they were — for EVERY script,      *)
(* adversarial ones included (only the callback state xcb advances).      *)
(* ================================================================== *)
Definition regs (x : xworld) : map key vobj * map key vobj * map key unit * map key unit :=
  (xm0 x, xm1 x, xs0 x, xs1 x).

Definition algebra_op (o : op) : Prop :=
  match o with SAlgebra _ _ _ _ _ | SPred _ _ _ | SSub _ _ => True | _ => False end.

Lemma run_s_keeps_regs r (c : Ms (list N)) x :
  xdead x = false ->
  wp c (fun _ w' => self w' = get_s r x) (fun w' => self w' = get_s r x)
     {| cb := xcb x; log := []; self := get_s r x |} ->
  regs (snd (run_s r c x)) = regs x /\ xdead (snd (run_s r c x)) = false.
Proof.
  intros Hd Hc. unfold run_s, wp in *.
  destruct (c {| cb := xcb x; log := []; self := get_s r x |}) as [body w'|w'|]; [| |destruct Hc];
    cbn [finish snd]; rewrite Hc; unfold put_s, get_s, regs;
    destruct (N.eqb r 2); cbn [xm0 xm1 xs0 xs1 xdead]; split; (reflexivity || exact Hd).
Qed.

Theorem algebra_ops_keep_registers debug sc o x :
  WFx x -> algebra_op o ->
  regs (snd (step debug sc o x)) = regs x /\ xdead (snd (step debug sc o x)) = false.
Proof.
  intros Hx Ho. assert (Hd : xdead x = false) by apply Hx.
  unfold step. rewrite Hd. destruct o; try destruct Ho.
  - apply run_s_keeps_regs; [exact Hd|].
    apply (alg_session_frame sc _ _ _ _ _ {| cb := xcb x; log := []; self := get_s r x |});
      apply WFx_get_s; exact Hx.
  - apply run_s_keeps_regs; [exact Hd|].
    apply (op_pred_stays sc _ _ _ {| cb := xcb x; log := []; self := get_s r x |});
      apply WFx_get_s; exact Hx.
  - apply run_s_keeps_regs; [exact Hd|].
    apply (op_sub_stays sc debug _ _ {| cb := xcb x; log := []; self := get_s r x |});
      apply WFx_get_s; exact Hx.
Qed.

(* ================================================================== *)
(* Unfolding lemmas: what the predicates of C07.2 and the combinators  *)
(* of C08 mean, stated as theorems so that Props files can show them.  *)
(* ================================================================== *)
Section Unfold.
Context {K Q T : Type} (E : env K unit Q T) (debug : bool) (ck : K -> N) (cq : Q -> N).
Notation M := (M K unit T).

Lemma stores_unfold n (s : @fset K) (k : K) :
  (forall k', stores ck cq n (SoInsert k') s k <->
              k' = k /\ fst (fstep ck cq n (SoInsert k') s) = SBool true) /\
  (forall k', stores ck cq n (SoReplace k') s k <->
              k' = k /\ fst (fstep ck cq n (SoReplace k') s) <> SPanic) /\
  (forall items, stores ck cq n (SoExtend items) s k <->
              exists pre post, items = pre ++ k :: post /\ fst (f_extend ck n pre s) = SUnit /\
                               fst (f_insert ck n k (snd (f_extend ck n pre s))) = SBool true) /\
  (forall q : Q, ~ stores ck cq n (SoContains q) s k) /\ (forall q : Q, ~ stores ck cq n (SoGet q) s k) /\
  (forall q : Q, ~ stores ck cq n (SoRemove q) s k) /\ (forall q : Q, ~ stores ck cq n (SoTake q) s k) /\
  (forall g, ~ stores ck cq n (SoRetain g) s k) /\ ~ stores ck cq n SoClear s k.
Proof. cbn [stores]. repeat split; intros; tauto. Qed.

Lemma removes_unfold n (s : @fset K) (c : N) :
  (forall k', removes ck cq n (SoReplace k') s c <->
              ck k' = c /\ fst (fstep ck cq n (SoReplace k') s) <> SPanic) /\
  (forall q, removes ck cq n (SoRemove q) s c <-> cq q = c) /\
  (forall q, removes ck cq n (SoTake q) s c <-> cq q = c) /\
  (forall g, removes ck cq n (SoRetain g) s c <-> exists k0, f_mem ck s c = Some k0 /\ g k0 = false) /\
  (removes ck cq n SoClear s c <-> True) /\
  (forall k', ~ removes ck cq n (SoInsert k') s c) /\ (forall items, ~ removes ck cq n (SoExtend items) s c) /\
  (forall q, ~ removes ck cq n (SoContains q) s c) /\ (forall q, ~ removes ck cq n (SoGet q) s c).
Proof. cbn [removes]. repeat split; intros; tauto. Qed.

Lemma stores2_removes2_unfold n (s : @fset K) (k : K) (c : N) :
  (forall o, stores2 ck cq n (S2Base o) s k <-> stores ck cq n o s k) /\
  (forall take, ~ stores2 ck cq n (S2Drain take) s k) /\
  (forall o, removes2 ck cq n (S2Base o) s c <-> removes ck cq n o s c) /\
  (forall take, removes2 ck cq n (S2Drain take) s c <-> True).
Proof. cbn [stores2 removes2]. repeat split; intros; tauto. Qed.

Lemma noremove_unfold n c (s : @fset K) :
  (noremove ck cq n c [] s <-> True) /\
  (forall o t, noremove ck cq n c (o :: t) s <->
               ~ removes2 ck cq n o s c /\ noremove ck cq n c t (fnext2 ck cq n o s)).
Proof. cbn [noremove]. repeat split; intros; tauto. Qed.

Lemma fstep2_unfold n (s : @fset K) (r : @sres2 K) :
  (forall o, fstep2 ck cq n (S2Base o) s r <-> r = R2Base (fst (fstep ck cq n o s))) /\
  (forall take, fstep2 ck cq n (S2Drain take) s r <->
                exists p, Permutation p s /\ r = R2Drained (firstn take p)) /\
  (forall o, fnext2 ck cq n (S2Base o) s = snd (fstep ck cq n o s)) /\
  (forall take, fnext2 ck cq n (@S2Drain K Q take) s = []).
Proof. cbn [fstep2 fnext2]. repeat split; intros; tauto. Qed.

Lemma sstep2_unfold :
  (forall o, sstep2 E debug (S2Base o) = (r <- sstep E debug o ;; ret (R2Base r))) /\
  (forall take, sstep2 E debug (S2Drain take) =
                (c <- drain ;; x <- drain_run take c ;; drain_drop E (snd x) ;;
                 ret (R2Drained (List.map fst (fst x))))).
Proof. split; reflexivity. Qed.

Lemma nsteps_unfold {X St} (next : St -> M (option X * St)) :
  (forall s, nsteps next 0 s = ret ([], s)) /\
  (forall j s, nsteps next (S j) s =
     (x <- next s ;; r <- nsteps next j (snd x) ;;
      ret ((match fst x with Some it => [it] | None => [] end) ++ fst r, snd r))).
Proof. split; reflexivity. Qed.

End Unfold.

(* more unfolding lemmas (C08 vocabulary) *)
Section Unfold2.
Context {K Q T : Type} (E : env K unit Q T).
Notation M := (M K unit T). Notation smap := (map K unit).

Lemma alg_steps_unfold (a b : smap) (want : bool) :
  filter_steps E a b want = nsteps (fun c : cursor => filter_next E a b want (cursor_len c) (fst c)) /\
  union_steps E a b = nsteps (union_next E a b) /\
  symdiff_steps E a b = nsteps (symdiff_next E a b).
Proof. repeat split; reflexivity. Qed.

Lemma fold_gen_unfold {A} (F : A -> nat -> A) (G : A -> bool * nat -> A) (a b : smap) (want : bool) :
  (forall lo acc, filter_fold_gen E F a b want 0 lo acc = ret acc) /\
  (forall n lo acc,
      filter_fold_gen E F a b want (S n) lo acc =
      match nth_error (slots a) lo with
      | Some (Some (k, _)) =>
          inb <- contains_in E b k ;;
          filter_fold_gen E F a b want n (S lo) (if Bool.eqb inb want then F acc lo else acc)
      | _ => ub
      end) /\
  (forall lo acc, siter_fold_gen (T := T) F b 0 lo acc = ret acc) /\
  (forall n lo acc,
      siter_fold_gen (T := T) F b (S n) lo acc =
      match nth_error (slots b) lo with
      | Some (Some _) => siter_fold_gen F b n (S lo) (F acc lo)
      | _ => ub
      end) /\
  (forall u init,
      union_fold_gen E G a b u init =
      (acc <- match front u with
              | Some c => siter_fold_gen (fun x i => G x (true, i)) b (cursor_len c) (fst c) init
              | None => ret init
              end ;;
       filter_fold_gen E (fun x i => G x (false, i)) a b false (cursor_len (back u)) (fst (back u)) acc)) /\
  (forall u init,
      symdiff_fold_gen E G a b u init =
      (acc <- match front u with
              | Some c => filter_fold_gen E (fun x i => G x (false, i)) a b false (cursor_len c) (fst c) init
              | None => ret init
              end ;;
       filter_fold_gen E (fun x i => G x (true, i)) b a false (cursor_len (back u)) (fst (back u)) acc)).
Proof. repeat split; reflexivity. Qed.

End Unfold2.

(* the history-level view of Proofs/ExecView.v: its specification [vstep] says
   "nothing changes" for the algebra operations, and the interpreter agrees
   for every script *)
Require Import Proofs.ExecView.

Lemma vstep_algebra_id o vw : algebra_op o -> vstep o vw = vw.
Proof. destruct o; intros []; reflexivity. Qed.

Lemma view_x_regs x y : regs x = regs y -> view_x x = view_x y.
Proof. unfold regs, view_x. intros H. injection H as -> -> -> ->. reflexivity. Qed.

Theorem algebra_ops_view debug sc o x :
  WFx x -> algebra_op o -> view_x (snd (step debug sc o x)) = vstep o (view_x x).
Proof.
  intros Hx Ho. rewrite (vstep_algebra_id o _ Ho). apply view_x_regs.
  apply (algebra_ops_keep_registers debug sc o x Hx Ho).
Qed.

(* ################################################################## *)
(* ROUND 2 (second audit)                                              *)
(* ################################################################## *)
Require Import Proofs.FmtSerde.

Section Round2.
Context {K Q T : Type} (E : env K unit Q T) (debug : bool).
Context (ck : K -> N) (cq : Q -> N) (HL : Lawful E ck cq).
Notation M := (M K unit T). Notation world := (world K unit T). Notation smap := (map K unit). Notation kv := (K * unit)%type.

(* ================================================================== *)
(* C08.2  the model's folds and the generic loops: EQUATIONS, for      *)
(* every environment (no Lawful) and every world.                      *)
(* ================================================================== *)

(* the generic loop at F = "push (g slot)" computes the model's push-slot
   fold and maps g over its result *)
Lemma filter_fold_gen_push_map {X} (g : nat -> X) (a b : smap) want n :
  forall lo (acc : list X) (l0 : list nat) (w : world),
    filter_fold_gen E (fun x i => x ++ [g i]) a b want n lo (acc ++ List.map g l0) w =
    match filter_fold E a b want n lo l0 w with
    | Ok l w' => Ok (acc ++ List.map g l) w'
    | Panic w' => Panic w'
    | UB => UB
    end.
Proof.
  induction n as [|n IH]; intros lo acc l0 w; cbn [filter_fold filter_fold_gen]; [reflexivity|].
  destruct (nth_error (slots a) lo) as [[[k u]|]|]; try reflexivity.
  unfold bind. destruct (contains_in E b k w) as [inb w'|w'|]; try reflexivity.
  destruct (Bool.eqb inb want); [|apply IH].
  rewrite <- app_assoc. change [g lo] with (List.map g [lo]). rewrite <- map_app. apply IH.
Qed.

Theorem union_fold_eq_gen (a b : smap) (u : chain) (w : world) :
  union_fold E a b u w = union_fold_gen E (fun x it => x ++ [it]) a b u [] w.
Proof.
  unfold union_fold, union_fold_gen, diff_fold, bind.
  assert (Hback : forall acc (w1 : world),
            match filter_fold E a b false (cursor_len (back u)) (fst (back u)) [] w1 with
            | Ok l w' => ret (acc ++ List.map (fun i => (false, i)) l) w'
            | Panic w' => Panic w'
            | UB => UB
            end
            = filter_fold_gen E (fun x i => x ++ [(false, i)]) a b false
                              (cursor_len (back u)) (fst (back u)) acc w1).
  { intros acc w1.
    pose proof (filter_fold_gen_push_map (fun i => (false, i)) a b false (cursor_len (back u))
                  (fst (back u)) acc [] w1) as H.
    cbn [List.map] in H. rewrite app_nil_r in H. rewrite H.
    destruct (filter_fold E a b false (cursor_len (back u)) (fst (back u)) [] w1); reflexivity. }
  destruct (front u) as [c|].
  - rewrite siter_fold_is_gen.
    destruct (siter_fold_gen (fun x i => x ++ [(true, i)]) b (cursor_len c) (fst c) [] w) as [acc w1|w1|];
      try reflexivity.
    apply Hback.
  - unfold ret at 1 3. apply Hback.
Qed.

Theorem symdiff_fold_eq_gen (a b : smap) (u : chain) (w : world) :
  symdiff_fold E a b u w = symdiff_fold_gen E (fun x it => x ++ [it]) a b u [] w.
Proof.
  unfold symdiff_fold, symdiff_fold_gen, diff_fold, bind.
  assert (Hback : forall l1 (w1 : world),
            match filter_fold E b a false (cursor_len (back u)) (fst (back u)) [] w1 with
            | Ok l2 w' => ret (List.map (fun i => (false, i)) l1 ++ List.map (fun i => (true, i)) l2) w'
            | Panic w' => Panic w'
            | UB => UB
            end
            = filter_fold_gen E (fun x i => x ++ [(true, i)]) b a false
                              (cursor_len (back u)) (fst (back u)) (List.map (fun i => (false, i)) l1) w1).
  { intros l1 w1.
    pose proof (filter_fold_gen_push_map (fun i => (true, i)) b a false (cursor_len (back u))
                  (fst (back u)) (List.map (fun i => (false, i)) l1) [] w1) as H.
    cbn [List.map] in H. rewrite app_nil_r in H. rewrite H.
    destruct (filter_fold E b a false (cursor_len (back u)) (fst (back u)) [] w1); reflexivity. }
  destruct (front u) as [c|].
  - pose proof (filter_fold_gen_push_map (fun i => (false, i)) a b false (cursor_len c) (fst c) [] [] w) as H.
    cbn [List.map app] in H. rewrite H.
    destruct (filter_fold E a b false (cursor_len c) (fst c) [] w) as [l1 w1|w1|]; try reflexivity.
    apply Hback.
  - unfold ret at 1 3. apply (Hback [] w).
Qed.

(* ================================================================== *)
(* C07.5  a FORGOTTEN Drain (mem::forget): drain(), take n items, never *)
(* drop the Drain.  sop3 = sop2 + that operation.                       *)
(* ================================================================== *)
Notation sop2 := (@sop2 K Q). Notation sres2 := (@sres2 K). Notation fset := (@fset K).

Inductive sop3 :=
| S3Base (o : sop2)
| S3DrainForget (take : nat).

Definition sstep3 (o : sop3) : M sres2 :=
  match o with
  | S3Base o => sstep2 E debug o
  | S3DrainForget take =>
      c <- drain ;; x <- drain_run take c ;; ret (R2Drained (List.map fst (fst x)))
  end.

Definition fnext3 (n : nat) (o : sop3) (s : fset) : fset :=
  match o with S3Base o => fnext2 ck cq n o s | S3DrainForget _ => [] end.

Definition fstep3 (n : nat) (o : sop3) (s : fset) (r : sres2) : Prop :=
  match o with
  | S3Base o => fstep2 ck cq n o s r
  | S3DrainForget take => exists p, Permutation p s /\ r = R2Drained (firstn take p)
  end.

(* the set is the empty set at once, the items taken are the first [take] of
   the elements in some order, and NOTHING is destroyed: the log is unchanged
   (the items not taken are leaked, as mem::forget does) *)
Lemma sstep3_forget n take w s :
  SAbs ck (self w) s -> cap (self w) = n ->
  wp (sstep3 (S3DrainForget take))
     (fun r w' => fstep3 n (S3DrainForget take) s r /\ SAbs ck (self w') [] /\ cap (self w') = n /\
                  log w' = log w)
     (fun _ => False) w.
Proof.
  intros (Hw & Hu & Hp) Hc. cbn [sstep3].
  apply (wp_bind_assoc drain (fun c => drain_run take c)
           (fun x => ret (R2Drained (List.map fst (fst x))))).
  apply wp_bind.
  eapply wp_mono; [apply drain_run_strong; exact Hw | | intros ? []]; cbn beta.
  intros x w1 (Hr & _ & HD & _ & Hcap & Hlog & Hlen). apply wp_ret.
  split; [|split; [|split; [congruence | exact Hlog]]].
  - cbn [fstep3]. exists (List.map fst (elems (self w))). split; [exact Hp|].
    rewrite Hr, firstn_map. reflexivity.
  - split; [eapply DrainInv_WF; exact HD|]. unfold elems. rewrite Hlen. cbn [take_live List.map].
    split; [apply NoDup_nil | apply perm_nil].
Qed.

Theorem sstep3_refines n o w s :
  SAbs ck (self w) s -> cap (self w) = n ->
  match sstep3 o w with
  | Ok r w' => fstep3 n o s r /\ SAbs ck (self w') (fnext3 n o s) /\ cap (self w') = n
  | Panic w' => fstep3 n o s (R2Base SPanic) /\ SAbs ck (self w') (fnext3 n o s) /\ cap (self w') = n
  | UB => False
  end.
Proof.
  intros Ha Hc. destruct o as [o|take].
  - exact (sstep2_refines E debug ck cq HL n o w s Ha Hc).
  - pose proof (sstep3_forget n take w s Ha Hc) as Hd. unfold wp in Hd. cbn [fnext3].
    destruct (sstep3 (S3DrainForget take) w) as [r w'|w'|]; [|destruct Hd|exact Hd].
    destruct Hd as (H1 & H2 & H3 & _). auto.
Qed.

Fixpoint smrun3 (ops : list sop3) (w : world) : list sres2 :=
  match ops with
  | [] => []
  | o :: t => match sstep3 o w with
              | Ok r w' => r :: smrun3 t w'
              | Panic w' => R2Base SPanic :: smrun3 t w'
              | UB => []
              end
  end.

Fixpoint smfinal3 (ops : list sop3) (w : world) : option world :=
  match ops with
  | [] => Some w
  | o :: t => match sstep3 o w with
              | Ok _ w' => smfinal3 t w'
              | Panic w' => smfinal3 t w'
              | UB => None
              end
  end.

Fixpoint fsfinal3 (n : nat) (ops : list sop3) (s : fset) : fset :=
  match ops with
  | [] => s
  | o :: t => fsfinal3 n t (fnext3 n o s)
  end.

Inductive fsruns3 (n : nat) : list sop3 -> fset -> list sres2 -> Prop :=
| fsruns3_nil s : fsruns3 n [] s []
| fsruns3_cons o ops s r rs :
    fstep3 n o s r -> fsruns3 n ops (fnext3 n o s) rs -> fsruns3 n (o :: ops) s (r :: rs).

Theorem srun3_refines n ops w s :
  SAbs ck (self w) s -> cap (self w) = n ->
  exists wf, smfinal3 ops w = Some wf /\ fsruns3 n ops s (smrun3 ops w) /\
             SAbs ck (self wf) (fsfinal3 n ops s) /\ cap (self wf) = n.
Proof.
  revert w s; induction ops as [|o t IH]; intros w s Ha Hc.
  - exists w. split; [reflexivity|]. split; [apply fsruns3_nil|]. split; assumption.
  - cbn [smrun3 smfinal3 fsfinal3]. pose proof (sstep3_refines n o w s Ha Hc) as Hs.
    destruct (sstep3 o w) as [r w'|w'|]; [| |destruct Hs].
    + destruct Hs as (Hst & Ha' & Hc').
      destruct (IH w' _ Ha' Hc') as (wf & Hf & Hr & Haf & Hcf).
      exists wf. split; [exact Hf|]. split; [|split; assumption].
      apply fsruns3_cons; assumption.
    + destruct Hs as (Hst & Ha' & Hc').
      destruct (IH w' _ Ha' Hc') as (wf & Hf & Hr & Haf & Hcf).
      exists wf. split; [exact Hf|]. split; [|split; assumption].
      apply fsruns3_cons; assumption.
Qed.

Theorem srun3_refines_new n ops t lg :
  let w0 := {| cb := t; log := lg; self := new_map n |} in
  exists wf, smfinal3 ops w0 = Some wf /\ fsruns3 n ops [] (smrun3 ops w0) /\
             SAbs ck (self wf) (fsfinal3 n ops []) /\ cap (self wf) = n.
Proof. intros w0. apply srun3_refines; cbn [w0 self]; [apply SAbs_new | apply cap_new]. Qed.

(* membership: a forgotten drain removes every class, stores nothing *)
Definition stores3 (n : nat) (o : sop3) (s : fset) (k : K) : Prop :=
  match o with S3Base o => stores2 ck cq n o s k | S3DrainForget _ => False end.
Definition removes3 (n : nat) (o : sop3) (s : fset) (c : N) : Prop :=
  match o with S3Base o => removes2 ck cq n o s c | S3DrainForget _ => True end.

Lemma fnext3_fnd n o s : fnd ck s -> fnd ck (fnext3 n o s).
Proof. intros Hn. destruct o; cbn [fnext3]; [apply fnext2_fnd; exact Hn | constructor]. Qed.

Lemma fnext3_mem n o s c k :
  fnd ck s ->
  (f_mem ck (fnext3 n o s) c = Some k <->
   (stores3 n o s k /\ ck k = c) \/ (f_mem ck s c = Some k /\ ~ removes3 n o s c)).
Proof.
  intros Hn. destruct o as [o|take]; cbn [fnext3 stores3 removes3]; [apply fnext2_mem; exact Hn|].
  split; [discriminate|]. intros [[[] _]|[_ H]]. exfalso. exact (H I).
Qed.

Fixpoint noremove3 (n : nat) (c : N) (ops : list sop3) (s : fset) : Prop :=
  match ops with
  | [] => True
  | o :: t => ~ removes3 n o s c /\ noremove3 n c t (fnext3 n o s)
  end.

Theorem fsfinal3_mem n ops : forall s c k,
  fnd ck s ->
  (f_mem ck (fsfinal3 n ops s) c = Some k <->
   (f_mem ck s c = Some k /\ noremove3 n c ops s) \/
   (exists pre o post, ops = pre ++ o :: post /\
      stores3 n o (fsfinal3 n pre s) k /\ ck k = c /\
      noremove3 n c post (fnext3 n o (fsfinal3 n pre s)))).
Proof.
  induction ops as [|o t IH]; intros s c k Hn.
  - cbn [fsfinal3 noremove3]. split; [intros H; left; auto|].
    intros [[H _]|(pre & o & post & Hnil & _)]; [exact H|]. destruct pre; discriminate Hnil.
  - cbn [fsfinal3]. rewrite (IH (fnext3 n o s) c k (fnext3_fnd n o s Hn)).
    rewrite (fnext3_mem n o s c k Hn). cbn [noremove3]. split.
    + intros [[[[Hst Hc]|[Hm Hno]] Hrest]|(pre & o' & post & -> & Hst & Hc & Hrest)].
      * right. exists [], o, t. cbn [app fsfinal3]. auto.
      * left. auto.
      * right. exists (o :: pre), o', post. cbn [app fsfinal3]. auto.
    + intros [(Hm & Hno & Hrest)|(pre & o' & post & Hops & Hst & Hc & Hrest)].
      * left. auto.
      * destruct pre as [|o1 pre'].
        -- cbn [app] in Hops. injection Hops as -> ->. cbn [fsfinal3] in Hst, Hrest. left. auto.
        -- cbn [app] in Hops. injection Hops as <- ->. cbn [fsfinal3] in Hst, Hrest.
           right. exists pre', o', post. auto.
Qed.

Theorem srun3_membership n ops t lg :
  exists wf, smfinal3 ops {| cb := t; log := lg; self := new_map n |} = Some wf /\
             cap (self wf) = n /\
             forall c k,
               option_map fst (lookup ck (elems (self wf)) c) = Some k <->
               exists pre o post, ops = pre ++ o :: post /\
                  stores3 n o (fsfinal3 n pre []) k /\ ck k = c /\
                  noremove3 n c post (fnext3 n o (fsfinal3 n pre [])).
Proof.
  destruct (srun3_refines_new n ops t lg) as (wf & Hf & _ & Ha & Hc).
  exists wf. split; [exact Hf|]. split; [exact Hc|]. intros c k.
  rewrite (sabs_mem_c ck (self wf) _ c Ha).
  rewrite (fsfinal3_mem n ops [] c k (NoDup_nil _)). split; [|intros H; right; exact H].
  intros [[H _]|H]; [discriminate H | exact H].
Qed.

(* ================================================================== *)
(* C07.4  the membership characterisation in terms of the MODEL's own   *)
(* results: the result the model returned for the i-th call IS the      *)
(* ideal set's result that [stores] / [removes] speak about.            *)
(* ================================================================== *)
Lemma fsruns2_nth n o post : forall pre s rs,
  fsruns2 ck cq n (pre ++ S2Base o :: post) s rs ->
  nth_error rs (length pre) = Some (R2Base (fst (fstep ck cq n o (fsfinal2 ck cq n pre s)))).
Proof.
  induction pre as [|o1 pre IH]; intros s rs H; cbn [app] in H; inversion H; subst; cbn [length nth_error fsfinal2].
  - match goal with Hs : fstep2 _ _ _ (S2Base _) _ _ |- _ => cbn [fstep2] in Hs; subst end. reflexivity.
  - apply IH. assumption.
Qed.

(* [stored_by n o r s k]: the call o, for which THE MODEL RETURNED r, put k
   into the set.  insert k: the model returned true; replace k: the model did
   not panic; extend: decided per item on the ideal set (the call's single
   result () / panic does not say which items were new). *)
Definition stored_by (n : nat) (o : sop2) (r : sres2) (s : fset) (k : K) : Prop :=
  match o with
  | S2Base (SoInsert k') => k' = k /\ r = R2Base (SBool true)
  | S2Base (SoReplace k') => k' = k /\ r <> R2Base SPanic
  | S2Base (SoExtend items) => stores ck cq n (SoExtend items) s k
  | _ => False
  end.

Theorem srun2_results_membership n ops t lg :
  let w0 := {| cb := t; log := lg; self := new_map n |} in
  exists wf, smfinal2 E debug ops w0 = Some wf /\ cap (self wf) = n /\
    (* the model's result for every call is the ideal set's *)
    (forall pre o post, ops = pre ++ S2Base o :: post ->
       nth_error (smrun2 E debug ops w0) (length pre)
       = Some (R2Base (fst (fstep ck cq n o (fsfinal2 ck cq n pre []))))) /\
    (* membership in the final container, from the model's results *)
    (forall c k,
       option_map fst (lookup ck (elems (self wf)) c) = Some k <->
       exists pre o post r, ops = pre ++ o :: post /\
          nth_error (smrun2 E debug ops w0) (length pre) = Some r /\
          stored_by n o r (fsfinal2 ck cq n pre []) k /\ ck k = c /\
          noremove ck cq n c post (fnext2 ck cq n o (fsfinal2 ck cq n pre []))).
Proof.
  intros w0. destruct (srun2_refines_new E debug ck cq HL n ops t lg) as (wf & Hf & Hr & Ha & Hc).
  fold w0 in Hf, Hr. exists wf. split; [exact Hf|]. split; [exact Hc|].
  assert (Hnth : forall pre o post, ops = pre ++ S2Base o :: post ->
            nth_error (smrun2 E debug ops w0) (length pre)
            = Some (R2Base (fst (fstep ck cq n o (fsfinal2 ck cq n pre []))))).
  { intros pre o post Hops. rewrite Hops in Hr |- *. exact (fsruns2_nth n o post pre [] _ Hr). }
  split; [exact Hnth|]. intros c k.
  rewrite (sabs_mem_c ck (self wf) _ c Ha). rewrite fsfinal2_mem_new. split.
  - intros (pre & o & post & Hops & Hst & Hck & Hno).
    destruct o as [o|take]; [|destruct Hst]. cbn [stores2] in Hst.
    exists pre, (S2Base o), post, (R2Base (fst (fstep ck cq n o (fsfinal2 ck cq n pre [])))).
    split; [exact Hops|]. split; [exact (Hnth pre o post Hops)|]. split; [|split; assumption].
    destruct o as [k'|k'|q|q|q|q|g| |items]; cbn [stores] in Hst; cbn [stored_by];
      try (exfalso; exact Hst).
    + destruct Hst as [-> Hres]. rewrite Hres. auto.
    + destruct Hst as [-> Hres]. split; [reflexivity|]. intros Heq. injection Heq as Heq. exact (Hres Heq).
    + cbn [stores]. exact Hst.
  - intros (pre & o & post & r & Hops & Hr' & Hst & Hck & Hno).
    exists pre, o, post. split; [exact Hops|]. split; [|split; assumption].
    destruct o as [o|take]; [|destruct Hst]. cbn [stores2].
    rewrite (Hnth pre o post Hops) in Hr'. injection Hr' as <-.
    destruct o as [k'|k'|q|q|q|q|g| |items]; cbn [stored_by] in Hst; cbn [stores];
      try (exfalso; exact Hst).
    + destruct Hst as [-> Hres]. injection Hres as Hres. auto.
    + destruct Hst as [-> Hres]. split; [reflexivity|]. intros Heq. apply Hres. rewrite Heq. reflexivity.
    + exact Hst.
Qed.

End Round2.

(* ================================================================== *)
(* C08.1  what `&a - &b` computes INCLUDING the construction of the     *)
(* result set: Exec's SSub arm runs set_sub on a fresh                   *)
(* `new_map (cap a)` swapped in for self (the result is a local of the   *)
(* caller), renders it, and destroys it.                                 *)
(* ================================================================== *)
Section SubExec.
Context {Q : Type} (E : env key unit Q cstate) (debug : bool).
Context (ck : key -> N) (cq : Q -> N) (HL : Lawful E ck cq).
Context (HCK : forall s k, exists k' s', cloneK E s k = (Some k', s') /\ ck k' = ck k).
Notation world := (world key unit cstate). Notation smap := (map key unit). Notation kv := (key * unit)%type.

(* no hypothesis on the surrounding world: the result set is created here,
   with the LEFT operand's capacity *)
Theorem swap_set_sub_lawful (a b : smap) (w : world) :
  WF a -> WF b -> Uniq ck (Spec.elems a) ->
  wp (swap_self (new_map (cap a)) (set_sub E debug a b))
     (fun r w' =>
        WF (snd r) /\ cap (snd r) = cap a /\
        List.map (fun p : kv => ck (fst p)) (Spec.elems (snd r))
        = List.map (fun p : kv => ck (fst p)) (filter (fun p => negb (mem ck b (fst p))) (Spec.elems a)) /\
        NoDup (List.map (fun p : kv => ck (fst p)) (Spec.elems (snd r))) /\
        (forall c, In c (List.map (fun p : kv => ck (fst p)) (Spec.elems (snd r)))
                   <-> In c (List.map (fun p : kv => ck (fst p)) (Spec.elems a))
                       /\ ~ In c (List.map (fun p : kv => ck (fst p)) (Spec.elems b))) /\
        self w' = self w /\
        log w' = log w ++ flat_map (fun p : kv => List.map EvCloneK (idK E (fst p)))
                                   (filter (fun p => negb (mem ck b (fst p))) (Spec.elems a)))
     (fun _ => False) w.
Proof.
  intros Ha Hb Hua. apply wp_swap_self.
  eapply wp_mono;
    [apply (set_sub_lawful_uniq E debug ck cq HL HCK a b (with_self w (new_map (cap a))) Ha Hb Hua);
     cbn [with_self self]; [apply WF_new | reflexivity | apply cap_new] | | auto]; cbn beta.
  intros u w' (H1 & H2 & H3 & H4 & H5 & H6). cbn [snd with_self self log] in *. auto 10.
Qed.

(* the whole SSub session body *)
Lemma ssub_session_lawful (a b : smap) (w : world) :
  WF a -> WF b -> Uniq ck (Spec.elems a) ->
  wp ('(_, res) <- swap_self (new_map (cap a)) (set_sub E debug a b) ;;
      let body := nn (len res) :: flat_map r_spair (Exec.elems res) in
      '(_, _) <- swap_self res (drop_map E) ;;
      ret body)
     (fun out w' =>
        exists res : smap,
          out = nn (len res) :: flat_map r_spair (Spec.elems res) /\
          WF res /\ cap res = cap a /\
          List.map (fun p : kv => ck (fst p)) (Spec.elems res)
          = List.map (fun p : kv => ck (fst p)) (filter (fun p => negb (mem ck b (fst p))) (Spec.elems a)) /\
          NoDup (List.map (fun p : kv => ck (fst p)) (Spec.elems res)) /\
          self w' = self w /\
          log w' = log w
                   ++ flat_map (fun p : kv => List.map EvCloneK (idK E (fst p)))
                               (filter (fun p => negb (mem ck b (fst p))) (Spec.elems a))
                   ++ flat_map (fun p : kv => ev_drops (idK E (fst p) ++ idV E (snd p))) (Spec.elems res))
     (fun _ => False) w.
Proof.
  intros Ha Hb Hua. apply wp_bind.
  eapply wp_mono; [apply swap_set_sub_lawful; assumption | | auto]; cbn beta.
  intros [u res] w1 (Hw1 & Hc1 & Hcl & Hnd & _ & Hs1 & Hl1). cbn [snd] in *. cbv zeta.
  apply wp_bind. apply wp_swap_self.
  eapply wp_mono; [apply (drop_map_lawful E ck cq HL (with_self w1 res)); cbn [with_self self]; exact Hw1 | | auto];
    cbn beta.
  intros [] w2 Hlg. unfold logged in Hlg. cbn [with_self self log] in *. apply wp_ret. cbn [with_self self log].
  exists res. rewrite exec_elems_eq. split; [reflexivity|]. split; [exact Hw1|]. split; [exact Hc1|].
  split; [exact Hcl|]. split; [exact Hnd|]. split; [exact Hs1|].
  rewrite Hlg, Hl1, <- app_assoc. reflexivity.
Qed.

End SubExec.

Lemma wp_nopanic_ok {K V T A} (c : M K V T A) (Qn : A -> Base.world K V T -> Prop) w :
  wp c Qn (fun _ => False) w -> exists a w', c w = Ok a w' /\ Qn a w'.
Proof. unfold wp. destruct (c w) as [a w'|w'|]; [eauto | intros [] | intros []]. Qed.

(* Exec.step (SSub r r') under an honest script: the observation is
   1 (returned) :: len res :: the elements of res (id, class) ++ the register
   r as it was ++ the events; res is the difference (classes of a not in b, in
   a's order, no class twice) in a set of a's capacity; the events are one
   clone per element of the difference and one drop per element of the
   temporary result; all four registers are unchanged. *)
Theorem step_ssub debug sc r r' x :
  honest sc -> WFx x -> Uniq kcls (Spec.elems (get_s r x)) ->
  let a := get_s r x in let b := get_s r' x in
  exists (res : map key unit) (lg : list event),
    fst (step debug sc (SSub r r') x)
    = [1%N] ++ (nn (len res) :: flat_map r_spair (Spec.elems res)) ++ post_s a ++ events lg /\
    WF res /\ cap res = cap a /\
    List.map (fun p : key * unit => kcls (fst p)) (Spec.elems res)
    = List.map (fun p : key * unit => kcls (fst p))
               (filter (fun p => negb (mem kcls b (fst p))) (Spec.elems a)) /\
    NoDup (List.map (fun p : key * unit => kcls (fst p)) (Spec.elems res)) /\
    lg = List.map (fun p : key * unit => EvCloneK (kid (fst p)))
                  (filter (fun p => negb (mem kcls b (fst p))) (Spec.elems a))
         ++ List.map (fun p : key * unit => EvDrop (kid (fst p))) (Spec.elems res) /\
    regs (snd (step debug sc (SSub r r') x)) = regs x /\
    xdead (snd (step debug sc (SSub r r') x)) = false.
Proof.
  intros Hh Hx Hua a b. assert (Hd : xdead x = false) by apply Hx.
  pose proof (ssub_session_lawful (env_set sc) debug kcls qcls (env_set_lawful sc Hh) (env_set_cloneK sc Hh)
                a b {| cb := xcb x; log := []; self := get_s r x |}
                (WFx_get_s r x Hx) (WFx_get_s r' x Hx) Hua) as H.
  destruct (wp_nopanic_ok _ _ _ H) as (out & w' & Hrun & HQ). clear H.
  unfold step. rewrite Hd. unfold run_s.
  match goal with |- context [finish _ _ _ ?rs] =>
    replace rs with (@Ok key unit cstate (list N) out w') by (symmetry; exact Hrun) end.
  destruct HQ as (res & -> & Hw & Hc & Hcl & Hnd & Hs & Hlg). cbn [self log app] in Hs, Hlg.
  exists res, (log w'). cbn [finish fst snd]. rewrite Hs.
  split; [reflexivity|]. split; [exact Hw|]. split; [exact Hc|]. split; [exact Hcl|]. split; [exact Hnd|].
  split.
  - rewrite Hlg. cbn [env_set idK idV]. unfold ev_drops. cbn [List.map app].
    assert (Hfm : forall (X Y : Type) (g : X -> Y) (l : list X), flat_map (fun p => [g p]) l = List.map g l)
      by (intros X Y g l; induction l as [|h t IH]; cbn [flat_map List.map app]; [|rewrite IH]; reflexivity).
    rewrite !Hfm. reflexivity.
  - unfold put_s, get_s, regs. destruct (N.eqb r 2); cbn [xm0 xm1 xs0 xs1 xdead]; split; (reflexivity || exact Hd).
Qed.

(* ================================================================== *)
(* C08.3  difference_ref.  Exec's set-algebra session has kinds          *)
(* 0 = difference, 1 = intersection, 2 = union, 3 = symmetric_difference *)
(* and 4 (any other number) = difference_ref.  For kind 4 the harness    *)
(* builds Set<&T,N> / Set<&T,M> by copying the operands slot by slot     *)
(* (same slots, same order, == on &T is == on T) and calls               *)
(* difference_ref; the model represents a reference-set by the set it    *)
(* refers to, so kind 4 runs LITERALLY the computation of kind 0:        *)
(* ================================================================== *)
Section Kind4.
Context (sc : script).

Definition other_kind (kind : N) : Prop := kind <> 1%N /\ kind <> 2%N /\ kind <> 3%N.

Lemma other_kind_eqb kind : other_kind kind -> N.eqb kind 1 = false /\ N.eqb kind 2 = false /\ N.eqb kind 3 = false.
Proof. intros (H1 & H2 & H3). repeat split; apply N.eqb_neq; assumption. Qed.

Lemma alg_init_ref kind a b : other_kind kind -> alg_init kind a b = alg_init 0 a b.
Proof. intros H. destruct (other_kind_eqb kind H) as (H1 & H2 & H3). unfold alg_init. rewrite H2, H3. reflexivity. Qed.

Lemma alg_next_ref kind a b st : other_kind kind -> alg_next sc kind a b st = alg_next sc 0 a b st.
Proof.
  intros H. destruct (other_kind_eqb kind H) as (H1 & H2 & H3). unfold alg_next.
  destruct st; [rewrite H1 | rewrite H2]; reflexivity.
Qed.

Lemma alg_hint_ref kind a b st : other_kind kind -> alg_hint kind a b st = alg_hint 0 a b st.
Proof.
  intros H. destruct (other_kind_eqb kind H) as (H1 & H2 & H3). unfold alg_hint.
  destruct st; [rewrite H1 | rewrite H2]; reflexivity.
Qed.

Lemma alg_fold_ref kind a b st : other_kind kind -> alg_fold sc kind a b st = alg_fold sc 0 a b st.
Proof.
  intros H. destruct (other_kind_eqb kind H) as (H1 & H2 & H3). unfold alg_fold.
  destruct st; [rewrite H1 | rewrite H2]; reflexivity.
Qed.

Lemma alg_steps_ref kind a b n : other_kind kind ->
  forall st acc w, alg_steps sc kind a b n st acc w = alg_steps sc 0 a b n st acc w.
Proof.
  intros H. induction n as [|n IH]; intros st acc w; cbn [alg_steps]; [reflexivity|].
  rewrite (alg_hint_ref kind a b st H), (alg_next_ref kind a b st H).
  destruct (alg_hint 0 a b st) as [lo hi]. unfold bind.
  destruct (alg_next sc 0 a b st w) as [[o st'] w1|w1|]; try reflexivity.
  destruct o as [x0|]; [|apply IH].
  destruct (r_side a b x0 w1) as [h w2|w2|]; try reflexivity. apply IH.
Qed.

(* difference_ref IS difference, as a computation, for every script, every
   pair of operands, every number of steps and every consumption mode *)
Theorem alg_session_difference_ref kind a b steps mode w :
  other_kind kind ->
  alg_session sc kind a b steps mode w = alg_session sc 0 a b steps mode w.
Proof.
  intros H. unfold alg_session. rewrite (alg_init_ref kind a b H). unfold bind.
  destruct (alg_init 0 a b w) as [st w1|w1|]; try reflexivity.
  rewrite (alg_steps_ref kind a b steps H).
  destruct (alg_steps sc 0 a b steps st [] w1) as [[acc st'] w2|w2|]; try reflexivity.
  rewrite (alg_hint_ref kind a b st' H), (alg_fold_ref kind a b st' H). reflexivity.
Qed.

Corollary step_difference_ref debug kind r r' steps mode x :
  other_kind kind ->
  step debug sc (SAlgebra kind r r' steps mode) x = step debug sc (SAlgebra 0 r r' steps mode) x.
Proof.
  intros H. unfold step. destruct (xdead x); [reflexivity|]. unfold run_s.
  rewrite (alg_session_difference_ref kind _ _ steps mode _ H). reflexivity.
Qed.

End Kind4.

(* unfolding lemmas for the round-2 vocabulary *)
Section Unfold3.
Context {K Q T : Type} (E : env K unit Q T) (debug : bool) (ck : K -> N) (cq : Q -> N).

Lemma sop3_unfold n (s : @fset K) (r : @sres2 K) (k : K) (c : N) :
  (forall o, sstep3 E debug (S3Base o) = sstep2 E debug o) /\
  (forall take, sstep3 E debug (S3DrainForget take) =
                (cu <- drain ;; x <- drain_run take cu ;; ret (R2Drained (List.map fst (fst x))))) /\
  (forall o, fstep3 ck cq n (S3Base o) s r <-> fstep2 ck cq n o s r) /\
  (forall take, fstep3 ck cq n (S3DrainForget take) s r <->
                exists p, Permutation p s /\ r = R2Drained (firstn take p)) /\
  (forall o, fnext3 ck cq n (S3Base o) s = fnext2 ck cq n o s) /\
  (forall take, fnext3 ck cq n (@S3DrainForget K Q take) s = []) /\
  (forall o, stores3 ck cq n (S3Base o) s k <-> stores2 ck cq n o s k) /\
  (forall take, ~ stores3 ck cq n (S3DrainForget take) s k) /\
  (forall o, removes3 ck cq n (S3Base o) s c <-> removes2 ck cq n o s c) /\
  (forall take, removes3 ck cq n (S3DrainForget take) s c <-> True) /\
  (noremove3 ck cq n c [] s <-> True) /\
  (forall o t, noremove3 ck cq n c (o :: t) s <->
               ~ removes3 ck cq n o s c /\ noremove3 ck cq n c t (fnext3 ck cq n o s)).
Proof. cbn [sstep3 fstep3 fnext3 stores3 removes3 noremove3]. repeat split; intros; tauto. Qed.

Lemma stored_by_unfold n (r : @sres2 K) (s : @fset K) (k : K) :
  (forall k', stored_by ck cq n (S2Base (SoInsert k')) r s k <-> k' = k /\ r = R2Base (SBool true)) /\
  (forall k', stored_by ck cq n (S2Base (SoReplace k')) r s k <-> k' = k /\ r <> R2Base SPanic) /\
  (forall items, stored_by ck cq n (S2Base (SoExtend items)) r s k <-> stores ck cq n (SoExtend items) s k) /\
  (forall q : Q, ~ stored_by ck cq n (S2Base (SoContains q)) r s k) /\
  (forall q : Q, ~ stored_by ck cq n (S2Base (SoGet q)) r s k) /\
  (forall q : Q, ~ stored_by ck cq n (S2Base (SoRemove q)) r s k) /\
  (forall q : Q, ~ stored_by ck cq n (S2Base (SoTake q)) r s k) /\
  (forall g, ~ stored_by ck cq n (S2Base (SoRetain g)) r s k) /\
  ~ stored_by ck cq n (S2Base SoClear) r s k /\
  (forall take, ~ stored_by ck cq n (S2Drain take) r s k).
Proof. cbn [stored_by]. repeat split; intros; tauto. Qed.

End Unfold3.
