(* ========================================================================== *)
(* C05 — Keys stay unique and len() always equals what iteration yields

   STATEMENT (properties.jsonl):
     "After any sequence of operations (including ones that ended in a panic
      raised by the container itself, such as overflow or a missing index), the
      keys a Map or Set yields on iteration are pairwise unequal, the number of
      yielded entries equals len(), is_empty() is equivalent to len() == 0,
      len() <= capacity(), and every yielded key can be looked up and returns
      the value yielded with it."

   QUANTIFIER (properties.jsonl):
     "every state reachable by any sequence of Map/Set/entry/iterator
      operations, for all capacities"

   NOTE ON SetDict: Proofs/SetDict.vo was present when this file was written,
   so the three Set theorems of the mapping (C05_srun_refines_state,
   C05_sabs_len, C05_sabs_iter) ARE included.

   VOCABULARY (Proofs/Dict.v, Proofs/SetDict.v, Proofs/Spec.v; see Props/C01.v)
     Lawful E ck cq   == is equality of the classes ck k / cq q and never
                      panics; Drop never panics.  "pairwise unequal keys" is
                      "pairwise different classes".
     Spec.elems m     the live prefix slots[0..len) as a list: exactly what
                      iteration yields, in order (C05_iter_run_spec: iterating
                      yields the slots 0, 1, ..., len-1).
     Uniq ck l        := NoDup (map (fun p => ck (fst p)) l)
     Abs ck m d       := WF m /\ Uniq ck (Spec.elems m) /\ Permutation (Spec.elems m) d
     SAbs ck m s      := WF m /\ Uniq ck (Spec.elems m) /\ Permutation (map fst (Spec.elems m)) s
     mfinal E debug ops w / smfinal E debug ops w
                      the world after running the history ops of Map (dop) /
                      Set (sop) operations from w; a PANICKING call (overflow,
                      missing index) is part of the history: the run continues
                      on the state left by unwinding; None = UB was reached.
     dfinal / fsfinal the ideal dictionary / ideal set after the same history.

   READING GUIDE (clause -> theorem)
     "after any sequence of operations, including ones that ended in a panic
      raised by the container itself" - every state reached from Map::new() of
      ANY capacity n by ANY history of dop operations exists (no UB) and is
      Abs-related to the ideal dictionary            C05_run_refines_state_new
     the same for Set, from any represented state    C05_srun_refines_state
     what Abs / SAbs give for such a state:
       "keys yielded on iteration are pairwise unequal" and iteration yields
         exactly the associations                    C05_abs_iter, C05_sabs_iter
       "number of yielded entries equals len()"      C05_iter_run_spec (running the
         iterator for n steps yields min n len slots, so exactly len when run
         to the end; the container and the log are untouched),
                                                     C05_abs_len, C05_sabs_len
                                                     (len = size of the dictionary / set)
       "is_empty() is equivalent to len() == 0"      C05_abs_is_empty
         (is_empty is `n <- get_len ;; ret (n =? 0)` in Model/MapOps.v; the
          theorem relates that boolean to the dictionary being empty)
       "len() <= capacity()"                         C05_len_le_cap
       "every yielded key can be looked up and returns the value yielded with
        it": in a list with unique classes, looking up the class of any member
        pair returns that very pair                  C05_lookup_uniq_In
        (lookup ck (Spec.elems m) c is what get/get_key_value compute under
         Lawful: Lawful.get_lawful, see Props/C01.v C01_abs_lookup)
     "also after container-raised panics", every operation of the interpreter
       (entry API, iterators, drains, algebra, ... included), every script:
       all registers stay well-formed (len <= cap, slots [0,len) live), same
       capacity, whether the call returned or panicked
                                                     C05_step_safe
     "every state reachable by any sequence of Map/Set/entry/iterator
      operations, for all capacities": EVERY operation of the interpreter
       (one constructor of Exec.op per API entry point: entry chains, drains,
       iterators, clone, from_iter, set algebra, fmt, serde, ...), honest
       script, returned or panicked: keys of all four registers stay pairwise
       unequal                                       C05_step_uniq
       along any history                             C05_run_uniq
       from fresh containers of any capacities: unique keys, number of stored
       entries = len(), len() <= capacity()          C05_run_uniq_init
       every yielded key looks up to its pair        C05_yielded_lookup
       capacities constant along a run               C05_run_final_caps

   PARTLY / NOT COVERED BY A THEOREM (left to the correspondence check)
     - CLOSED: key uniqueness along histories used to be proved only for the
       operations of `dop` / `sop` (C05_run_refines_state_new,
       C05_srun_refines_state).  C05_step_uniq / C05_run_uniq /
       C05_run_uniq_init now give it for every constructor of Exec.op (entry
       API, drain, clone, from_iter, iterators, algebra, serde included), for the
       interpreter's key type and honest scripts (sc_adv = false: == answers
       class equality; sc_fk = 0: no injected fault).  What is still left to the
       correspondence check: histories with an injected user panic (fault kinds
       1-4) keep WF (C05_step_safe) but uniqueness after them is not stated
       here; and the unsafe insert_unchecked is excluded from C05_run_uniq /
       C05_run_uniq_init (safe_op) - a single insert_unchecked whose contract
       holds (contract_ok) is covered by C05_step_uniq;
     - uniqueness needs Lawful (with a lying == duplicates can be stored:
       Props/C17.v); the remaining clauses (len <= cap, number of yielded
       entries = len) hold for every environment (C05_step_safe,
       C05_iter_run_spec);
     - CLOSED: C05_srun_refines_state starts from any SAbs state; its instance
       for Set::new() of any capacity is C05_srun_refines_state_new (AUDIT
       ADDENDUM at the end of this file, which also states is_empty / len /
       lookups of yielded keys on the operations: C05_is_empty_spec,
       C05_len_spec, C05_yielded_get, C05_yielded_get_key_value,
       C05_yielded_get_reachable, C05_iter_run_spec_set, C05_iter_run_all_count).
   ========================================================================== *)
Require Import Model.Base Model.Slots Model.MapOps Model.SetOps Model.EntryOps Model.Fmt Model.Exec.
Require Import Proofs.Hoare Proofs.Inv Proofs.Spec Proofs.Lawful Proofs.IterSpec Proofs.EqClone
               Proofs.Dict Proofs.SetDict Proofs.FmtSerde Proofs.ExecSafe Proofs.ExecUniq Proofs.Legacy.
From Coq Require Import Permutation.

(* -------------------------------------------------------------------------- *)
(* reachable states                                                           *)
Theorem C05_run_refines_state_new :
  forall (K V Q T : Type) (E : env K V Q T) (debug : bool) (ck : K -> N) (cq : Q -> N),
  Lawful E ck cq ->
  forall (n : nat) (ops : list (@dop K V Q)) (s : T) (lg : list event),
  exists wf : world K V T,
    mfinal E debug ops {| cb := s; log := lg; self := new_map n |} = Some wf /\
    Abs ck (self wf) (dfinal ck cq n ops []) /\
    cap (self wf) = n.
Proof. exact (@run_refines_state_new). Qed.
Print Assumptions C05_run_refines_state_new.

Theorem C05_srun_refines_state :
  forall (K Q T : Type) (E : env K unit Q T) (debug : bool) (ck : K -> N) (cq : Q -> N),
  Lawful E ck cq ->
  forall (n : nat) (ops : list (@sop K Q)) (w : world K unit T) (s : @fset K),
  SAbs ck (self w) s ->
  cap (self w) = n ->
  exists wf : world K unit T,
    smfinal E debug ops w = Some wf /\
    SAbs ck (self wf) (fsfinal ck cq n ops s) /\
    cap (self wf) = n.
Proof. exact (@srun_refines_state). Qed.
Print Assumptions C05_srun_refines_state.

(* -------------------------------------------------------------------------- *)
(* what holds of a state that represents a dictionary / a set                 *)
Theorem C05_abs_len :
  forall (K V T : Type) (ck : K -> N) (w : world K V T) (d : @dict K V),
  Abs ck (self w) d -> len (self w) = length d.
Proof. exact (@abs_len). Qed.
Print Assumptions C05_abs_len.

Theorem C05_abs_is_empty :
  forall (K V T : Type) (ck : K -> N) (w : world K V T) (d : @dict K V),
  Abs ck (self w) d ->
  ((len (self w) =? 0) = true <-> d = []).
Proof. exact (@abs_is_empty). Qed.
Print Assumptions C05_abs_is_empty.

Theorem C05_len_le_cap :
  forall (K V T : Type) (ck : K -> N) (w : world K V T) (d : @dict K V),
  Abs ck (self w) d -> len (self w) <= cap (self w).
Proof. exact (@len_le_cap). Qed.
Print Assumptions C05_len_le_cap.

Theorem C05_abs_iter :
  forall (K V T : Type) (ck : K -> N) (w : world K V T) (d : @dict K V),
  Abs ck (self w) d ->
  Permutation (Spec.elems (self w)) d /\
  NoDup (List.map (fun p : K * V => ck (fst p)) (Spec.elems (self w))).
Proof. exact (@abs_iter). Qed.
Print Assumptions C05_abs_iter.

Theorem C05_sabs_len :
  forall (K T : Type) (ck : K -> N) (w : world K unit T) (s : @fset K),
  SAbs ck (self w) s -> len (self w) = length s.
Proof. exact (@sabs_len). Qed.
Print Assumptions C05_sabs_len.

Theorem C05_sabs_iter :
  forall (K T : Type) (ck : K -> N) (w : world K unit T) (s : @fset K),
  SAbs ck (self w) s ->
  Permutation (List.map fst (Spec.elems (self w))) s /\
  NoDup (List.map (fun p : K * unit => ck (fst p)) (Spec.elems (self w))) /\
  NoDup (List.map ck s).
Proof. exact (@sabs_iter). Qed.
Print Assumptions C05_sabs_iter.

(* every yielded key can be looked up and returns the pair yielded with it *)
Theorem C05_lookup_uniq_In :
  forall (K V : Type) (ck : K -> N) (l : list (K * V)) (p : K * V),
  Uniq ck l -> In p l -> lookup ck l (ck (fst p)) = Some p.
Proof. exact (@lookup_uniq_In). Qed.
Print Assumptions C05_lookup_uniq_In.

(* iteration yields exactly the slots 0 .. len-1 (n steps: the first min n len),
   never panics, leaves container and log untouched; no environment involved *)
Theorem C05_iter_run_spec :
  forall (K V T : Type) (n : nat) (w : world K V T),
  WF (self w) ->
  wp (c <- iter ;; iter_run n c)
    (fun (r : list nat * cursor) (w' : world K V T) =>
       self w' = self w /\
       log w' = log w /\
       fst r = seq 0 (Nat.min n (len (self w))) /\
       snd r = (Nat.min n (len (self w)), len (self w)))
    (fun _ : world K V T => False)
    w.
Proof. exact (@iter_run_spec). Qed.
Print Assumptions C05_iter_run_spec.

(* -------------------------------------------------------------------------- *)
(* every operation, every script, returned or panicked: registers stay WF     *)
Theorem C05_step_safe :
  forall (debug : bool) (sc : script) (o : op) (x : xworld),
  WFx x ->
  contract_ok debug o x ->
  WFx (snd (step debug sc o x)) /\ caps (snd (step debug sc o x)) = caps x.
Proof. exact step_safe. Qed.
Print Assumptions C05_step_safe.

(* -------------------------------------------------------------------------- *)
(* key uniqueness along EVERY history of the interpreter (Proofs/ExecUniq.v):
   all operations - entry API, drains, iterators, clone, from_iter, set algebra,
   serde included - under an honest script (== is class equality, no injected
   fault); container-raised panics (overflow, missing index, duplicate disjoint
   keys) are part of the histories.
     UniqX x := Uniq kcls (Spec.elems (xm0 x)) /\ Uniq kcls (Spec.elems (xm1 x)) /\
                Uniq kcls (Spec.elems (xs0 x)) /\ Uniq kcls (Spec.elems (xs1 x))
     run_final debug sc ops x := the register file after running ops from x
       (run_final debug sc (o :: t) x = run_final debug sc t (snd (step debug sc o x))) *)
Theorem C05_step_uniq :
  forall (debug : bool) (sc : script) (o : op) (x : xworld),
  honest sc ->
  WFx x ->
  contract_ok debug o x ->
  UniqX x ->
  UniqX (snd (step debug sc o x)).
Proof. exact step_uniq. Qed.
Print Assumptions C05_step_uniq.

Theorem C05_run_uniq :
  forall (debug : bool) (sc : script) (ops : list op) (x : xworld),
  honest sc ->
  WFx x ->
  UniqX x ->
  Forall safe_op ops ->
  WFx (run_final debug sc ops x) /\ UniqX (run_final debug sc ops x).
Proof. exact run_uniq. Qed.
Print Assumptions C05_run_uniq.

(* every state reachable from four fresh containers of ANY capacities: keys
   pairwise unequal, number of stored (= yielded) entries = len(), len() <= capacity() *)
Theorem C05_run_uniq_init :
  forall (debug : bool) (sc : script) (ops : list op) (c0 c1 c2 c3 : N),
  honest sc ->
  Forall safe_op ops ->
  let x := run_final debug sc ops (init_world c0 c1 c2 c3) in
  WFx x /\
  UniqX x /\
  (length (Spec.elems (xm0 x)) = len (xm0 x) /\ len (xm0 x) <= cap (xm0 x)) /\
  (length (Spec.elems (xm1 x)) = len (xm1 x) /\ len (xm1 x) <= cap (xm1 x)) /\
  (length (Spec.elems (xs0 x)) = len (xs0 x) /\ len (xs0 x) <= cap (xs0 x)) /\
  (length (Spec.elems (xs1 x)) = len (xs1 x) /\ len (xs1 x) <= cap (xs1 x)).
Proof. exact run_uniq_init. Qed.
Print Assumptions C05_run_uniq_init.

(* ... and in such a state every yielded key looks up to the pair yielded with it *)
Theorem C05_yielded_lookup :
  forall (V : Type) (m : map key V) (p : key * V),
  WF m ->
  Uniq kcls (Spec.elems m) ->
  In p (Spec.elems m) ->
  lookup kcls (Spec.elems m) (kcls (fst p)) = Some p.
Proof. exact (@yielded_lookup). Qed.
Print Assumptions C05_yielded_lookup.

(* the capacities never change along a run (any script) *)
Theorem C05_run_final_caps :
  forall (debug : bool) (sc : script) (ops : list op) (x : xworld),
  WFx x ->
  Forall safe_op ops ->
  caps (run_final debug sc ops x) = caps x.
Proof. exact run_final_caps. Qed.
Print Assumptions C05_run_final_caps.

(* -------------------------------------------------------------------------- *)
(* non-vacuity                                                                *)
Example C05_example_lawful_map :
  Lawful (env_map {| sc_adv := false; sc_seed := 0; sc_fk := 0; sc_fa := 0 |}) kcls qcls.
Proof.
  exact (env_map_lawful {| sc_adv := false; sc_seed := 0; sc_fk := 0; sc_fa := 0 |}
                        (conj eq_refl eq_refl)).
Qed.

Example C05_example_lawful_set :
  Lawful (env_set {| sc_adv := false; sc_seed := 0; sc_fk := 0; sc_fa := 0 |}) kcls qcls.
Proof.
  exact (env_set_lawful {| sc_adv := false; sc_seed := 0; sc_fk := 0; sc_fa := 0 |}
                        (conj eq_refl eq_refl)).
Qed.

(* the 3-entry map m3 (Proofs/Legacy.v) represents a dictionary; its keys are unique *)
Example C05_example_abs : Abs kcls m3 (Spec.elems m3).
Proof.
  split; [exact m3_WF|]. split; [|apply Permutation_refl].
  unfold Uniq. vm_compute.
  repeat constructor; cbn [In]; intros H;
    repeat (destruct H as [H | H]; try discriminate H); exact H.
Qed.

(* iterating m3 (asking for 5 steps) yields slots 0,1,2: exactly len = 3 entries *)
Example C05_example_iter :
  match (c <- iter ;; iter_run 5 c) (w_of m3) with
  | Ok r w' => fst r = [0; 1; 2] /\ length (fst r) = len m3 /\ self w' = m3
  | _ => False
  end.
Proof. vm_compute. repeat split; reflexivity. Qed.

(* the key yielded at slot 1 (class 6) looks up to the pair yielded with it *)
Example C05_example_lookup :
  nth_error (Spec.elems m3) 1 = Some (k_ 3 6, v_ 4 8) /\
  lookup kcls (Spec.elems m3) 6%N = Some (k_ 3 6, v_ 4 8).
Proof. split; vm_compute; reflexivity. Qed.

(* a history with two container-raised panics (overflow of a capacity-1 map,
   index of an absent key), then an overwrite: the final state has len = 1 and
   holds the first key object with the last value *)
Example C05_example_after_panics :
  match mfinal (env_map {| sc_adv := false; sc_seed := 0; sc_fk := 0; sc_fa := 0 |}) false
               [DInsert (k_ 1 5) (v_ 2 7); DInsert (k_ 5 6) (v_ 6 9); DIndex (QCls 6);
                DInsert (k_ 3 5) (v_ 4 8)]
               {| cb := cs0; log := []; self := new_map 1 |} with
  | Some wf => len (self wf) = 1 /\ Spec.elems (self wf) = [(k_ 1 5, v_ 4 8)]
  | None => False
  end.
Proof. vm_compute. split; reflexivity. Qed.

(* the same for a Set of capacity 2: third insert overflows (panic), a duplicate
   is refused, extend overflows at its second new element *)
Example C05_example_set_after_panics :
  match smfinal (env_set {| sc_adv := false; sc_seed := 0; sc_fk := 0; sc_fa := 0 |}) false
                [SoInsert (k_ 1 5); SoInsert (k_ 5 6); SoInsert (k_ 3 7);
                 SoInsert (k_ 3 5); SoExtend [k_ 7 5; k_ 9 7; k_ 11 8]]
                {| cb := cs0; log := []; self := new_map 2 |} with
  | Some wf => len (self wf) = 2 /\ List.map fst (Spec.elems (self wf)) = [k_ 1 5; k_ 5 6]
  | None => False
  end.
Proof. vm_compute. split; reflexivity. Qed.

(* C05_run_uniq_init on a concrete history over two Map registers of capacity 2
   (honest script, release build): insert, entry(k).or_insert(v), an insert that
   overflows (container-raised panic), register 1 := register 0 .clone(), drain
   register 0 (one taken, rest dropped), overwrite class 6 in the clone.
   The clone holds two entries with the distinct classes 5 and 6, len = 2. *)
Example C05_example_run_final :
  let sc0 := {| sc_adv := false; sc_seed := 0; sc_fk := 0; sc_fa := 0 |} in
  let ops := [OInsert 0 (mk 1 5) (mv 2 7); OEntry 0 (mk 3 6) 0 (mv 4 8);
              OInsert 0 (mk 5 7) (mv 6 9); OClone 0 1; ODrain 0 1 0;
              OInsert 1 (mk 7 6) (mv 8 1)] in
  let x := run_final false sc0 ops (init_world 2 2 0 0) in
  honest sc0 /\ Forall safe_op ops /\
  Spec.elems (xm0 x) = [] /\
  Spec.elems (xm1 x) = [(mk 100000 5, mv 100001 7); (mk 100002 6, mv 8 1)] /\
  len (xm1 x) = 2.
Proof.
  cbv zeta. split; [exact (conj eq_refl eq_refl)|].
  split; [repeat constructor|]. vm_compute. repeat split; reflexivity.
Qed.

Example C05_example_UniqX_init : UniqX (init_world 2 2 0 0).
Proof. exact (init_UniqX 2 2 0 0). Qed.

(* ========================================================================== *)
(* AUDIT ADDENDUM (Proofs/MoreDict.v): clauses of C05 that the theorems above
   stated only on the abstraction or only as list facts.                      *)
(* ========================================================================== *)
Require Import Proofs.MoreDict.

(* -------------------------------------------------------------------------- *)
(* "is_empty() is equivalent to len() == 0", on the OPERATIONS of the model
   (Model/MapOps.v: length_ = Map::len, is_empty = Map::is_empty; Set::len /
   Set::is_empty are the instance V := unit).  EVERY state and every
   environment: no invariant, no lawfulness is needed.
   NOTE: C05_len_spec, C05_is_empty_spec, C05_capacity_spec and
   C05_is_empty_iff_len_zero hold by UNFOLDING the definitions of the three
   observers (proofs: reflexivity / Nat.eqb_eq).  They carry no proof effort;
   their role is to PIN the observers: any change of Model/MapOps.v that made
   is_empty differ from `len == 0` would break them (and the correspondence
   check ties these definitions to the crate).                                 *)
Theorem C05_len_spec :
  forall (K V T : Type) (w : world K V T), length_ w = Ok (len (self w)) w.
Proof. exact (@len_spec). Qed.
Print Assumptions C05_len_spec.

Theorem C05_is_empty_spec :
  forall (K V T : Type) (w : world K V T), is_empty w = Ok (Nat.eqb (len (self w)) 0) w.
Proof. exact (@is_empty_spec). Qed.
Print Assumptions C05_is_empty_spec.

Theorem C05_is_empty_iff_len_zero :
  forall (K V T : Type) (w : world K V T),
  exists (b : bool) (n : nat),
    is_empty w = Ok b w /\ length_ w = Ok n w /\ (b = true <-> n = 0).
Proof. exact (@is_empty_iff_len_zero). Qed.
Print Assumptions C05_is_empty_iff_len_zero.

Theorem C05_capacity_spec :
  forall (K V T : Type) (w : world K V T), capacity w = Ok (cap (self w)) w.
Proof. exact (@capacity_spec). Qed.
Print Assumptions C05_capacity_spec.

(* -------------------------------------------------------------------------- *)
(* "every yielded key can be looked up and returns the value yielded with it",
   on the OPERATIONS get / get_key_value / get_mut (C05_lookup_uniq_In is the
   list fact behind it).
     nth_error (Spec.elems (self w)) i = Some p   iteration yields, at slot i,
                       the pair p (C05_iter_run_spec: the slots 0..len-1 in order);
     cq q = ck (fst p) q is (any borrowed form of) the yielded key;
     r = Some i        the lookup returns a reference into slot i, the slot the
                       pair was yielded from; get_deref dereferences it: the
                       very pair p, key object and value.                      *)
Theorem C05_yielded_get :
  forall (K V Q T : Type) (E : env K V Q T) (ck : K -> N) (cq : Q -> N),
  Lawful E ck cq ->
  forall (q : Q) (i : nat) (p : K * V) (w : world K V T),
  WF (self w) ->
  Uniq ck (Spec.elems (self w)) ->
  nth_error (Spec.elems (self w)) i = Some p ->
  cq q = ck (fst p) ->
  wp (get E q)
    (fun (r : option nat) (w' : world K V T) => r = Some i /\ stable w w')
    (fun _ : world K V T => False) w.
Proof. exact (@yielded_get). Qed.
Print Assumptions C05_yielded_get.

Theorem C05_yielded_get_key_value :
  forall (K V Q T : Type) (E : env K V Q T) (ck : K -> N) (cq : Q -> N),
  Lawful E ck cq ->
  forall (q : Q) (i : nat) (p : K * V) (w : world K V T),
  WF (self w) ->
  Uniq ck (Spec.elems (self w)) ->
  nth_error (Spec.elems (self w)) i = Some p ->
  cq q = ck (fst p) ->
  wp (get_key_value E q)
    (fun (r : option nat) (w' : world K V T) => r = Some i /\ stable w w')
    (fun _ : world K V T => False) w.
Proof. exact (@yielded_get_key_value). Qed.
Print Assumptions C05_yielded_get_key_value.

Theorem C05_yielded_get_mut :
  forall (K V Q T : Type) (E : env K V Q T) (ck : K -> N) (cq : Q -> N),
  Lawful E ck cq ->
  forall (q : Q) (i : nat) (p : K * V) (w : world K V T),
  WF (self w) ->
  Uniq ck (Spec.elems (self w)) ->
  nth_error (Spec.elems (self w)) i = Some p ->
  cq q = ck (fst p) ->
  wp (get_mut E q)
    (fun (r : option nat) (w' : world K V T) => r = Some i /\ stable w w')
    (fun _ : world K V T => False) w.
Proof. exact (@yielded_get_mut). Qed.
Print Assumptions C05_yielded_get_mut.

Theorem C05_yielded_get_deref :
  forall (K V Q T : Type) (E : env K V Q T) (ck : K -> N) (cq : Q -> N),
  Lawful E ck cq ->
  forall (q : Q) (i : nat) (p : K * V) (w : world K V T),
  WF (self w) ->
  Uniq ck (Spec.elems (self w)) ->
  nth_error (Spec.elems (self w)) i = Some p ->
  cq q = ck (fst p) ->
  wp (get_deref E q)
    (fun (r : option (K * V)) (w' : world K V T) => r = Some p /\ stable w w')
    (fun _ : world K V T => False) w.
Proof. exact (@yielded_get_deref). Qed.
Print Assumptions C05_yielded_get_deref.

(* ... on EVERY state reached from Map::new() of any capacity by any history
   (container-raised panics included): WF and Uniq are discharged *)
Theorem C05_yielded_get_reachable :
  forall (K V Q T : Type) (E : env K V Q T) (debug : bool) (ck : K -> N) (cq : Q -> N),
  Lawful E ck cq ->
  forall (n : nat) (ops : list (@dop K V Q)) (s : T) (lg : list event),
  exists wf : world K V T,
    mfinal E debug ops {| cb := s; log := lg; self := new_map n |} = Some wf /\
    forall (q : Q) (i : nat) (p : K * V),
      nth_error (Spec.elems (self wf)) i = Some p ->
      cq q = ck (fst p) ->
      wp (get E q)
        (fun (r : option nat) (w' : world K V T) => r = Some i /\ stable wf w')
        (fun _ : world K V T => False) wf /\
      wp (get_key_value E q)
        (fun (r : option nat) (w' : world K V T) => r = Some i /\ stable wf w')
        (fun _ : world K V T => False) wf /\
      wp (get_deref E q)
        (fun (r : option (K * V)) (w' : world K V T) => r = Some p /\ stable wf w')
        (fun _ : world K V T => False) wf.
Proof. exact (@yielded_get_reachable). Qed.
Print Assumptions C05_yielded_get_reachable.

(* the hypotheses on m3: slot 1 yields (k_ 3 6, v_ 4 8); QCls 6 is a borrowed form
   of that key; the model's get returns slot 1 *)
Example C05_example_yielded_get :
  nth_error (Spec.elems m3) 1 = Some (k_ 3 6, v_ 4 8) /\
  qcls (QCls 6) = kcls (fst (k_ 3 6, v_ 4 8)) /\
  match get_deref (env_map {| sc_adv := false; sc_seed := 0; sc_fk := 0; sc_fa := 0 |})
                  (QCls 6) (w_of m3) with
  | Ok r w' => r = Some (k_ 3 6, v_ 4 8) /\ self w' = m3
  | _ => False
  end.
Proof. vm_compute. repeat split; reflexivity. Qed.

(* -------------------------------------------------------------------------- *)
(* "every state reachable ..., for all capacities", for Set: the instance of
   C05_srun_refines_state at Set::new() of any capacity n.                    *)
Theorem C05_srun_refines_state_new :
  forall (K Q T : Type) (E : env K unit Q T) (debug : bool) (ck : K -> N) (cq : Q -> N),
  Lawful E ck cq ->
  forall (n : nat) (ops : list (@sop K Q)) (t : T) (lg : list event),
  exists wf : world K unit T,
    smfinal E debug ops {| cb := t; log := lg; self := new_map n |} = Some wf /\
    SAbs ck (self wf) (fsfinal ck cq n ops []) /\
    cap (self wf) = n.
Proof. exact (@srun_refines_state_new). Qed.
Print Assumptions C05_srun_refines_state_new.

(* -------------------------------------------------------------------------- *)
(* "the number of yielded entries equals len()" for Set iteration and for the
   keys / values / iter_mut / values_mut kinds.  A Set is Map<T,(),N>
   (Model/SetOps.v), its iterator is the Map cursor at V := unit; the six
   iterator kinds (iter, iter_mut, keys, values, values_mut, Set::iter) share the
   ONE cursor [iter] / [iter_next]: each yields the slot index, the kinds differ
   only in the projection applied to the pair in that slot (Exec.r_item: keys =
   fst, values = snd; Exec.iter_steps runs them all through iter_next).        *)
Theorem C05_iter_run_spec_set :
  forall (K T : Type) (n : nat) (w : world K unit T),
  WF (self w) ->
  wp (c <- iter ;; iter_run n c)
    (fun (r : list nat * cursor) (w' : world K unit T) =>
       self w' = self w /\
       log w' = log w /\
       fst r = seq 0 (Nat.min n (len (self w))) /\
       snd r = (Nat.min n (len (self w)), len (self w)))
    (fun _ : world K unit T => False)
    w.
Proof. exact (fun K T => @iter_run_spec K unit T). Qed.
Print Assumptions C05_iter_run_spec_set.

(* run to the end (any number of steps >= len): exactly len() items, the slots
   0 .. len-1 each once, the cursor exhausted, nothing touched; any V *)
Theorem C05_iter_run_all_count :
  forall (K V T : Type) (n : nat) (w : world K V T),
  WF (self w) ->
  len (self w) <= n ->
  wp (c <- iter ;; iter_run n c)
    (fun (r : list nat * cursor) (w' : world K V T) =>
       length (fst r) = len (self w) /\
       fst r = seq 0 (len (self w)) /\
       cursor_len (snd r) = 0 /\
       self w' = self w /\
       log w' = log w)
    (fun _ : world K V T => False)
    w.
Proof. exact (@iter_run_all_count). Qed.
Print Assumptions C05_iter_run_all_count.

(* ========================================================================== *)
(* SECOND AUDIT ADDENDUM (Proofs/MoreDict.v, second part)                     *)
(* ========================================================================== *)

(* -------------------------------------------------------------------------- *)
(* Set: "every yielded key can be looked up".  Set<T,N> stores (k, tt) pairs;
   iteration yields, at slot i, the element k.
     s_contains E q   Set::contains (SetOps.v);   s_get E q   Set::get: the slot of
                      the stored element it returns a reference to;
     cq q = ck k      q is (a borrowed form of) the yielded element.            *)
Theorem C05_s_yielded_contains :
  forall (K Q T : Type) (E : env K unit Q T) (ck : K -> N) (cq : Q -> N),
  Lawful E ck cq ->
  forall (q : Q) (i : nat) (k : K) (w : world K unit T),
  WF (self w) ->
  Uniq ck (Spec.elems (self w)) ->
  nth_error (Spec.elems (self w)) i = Some (k, tt) ->
  cq q = ck k ->
  wp (s_contains E q)
    (fun (b : bool) (w' : world K unit T) => b = true /\ stable w w')
    (fun _ : world K unit T => False) w.
Proof. exact (@s_yielded_contains). Qed.
Print Assumptions C05_s_yielded_contains.

Theorem C05_s_yielded_get :
  forall (K Q T : Type) (E : env K unit Q T) (ck : K -> N) (cq : Q -> N),
  Lawful E ck cq ->
  forall (q : Q) (i : nat) (k : K) (w : world K unit T),
  WF (self w) ->
  Uniq ck (Spec.elems (self w)) ->
  nth_error (Spec.elems (self w)) i = Some (k, tt) ->
  cq q = ck k ->
  wp (s_get E q)
    (fun (r : option nat) (w' : world K unit T) => r = Some i /\ stable w w')
    (fun _ : world K unit T => False) w.
Proof. exact (@s_yielded_get). Qed.
Print Assumptions C05_s_yielded_get.

(* on every state reached from Set::new() of ANY capacity by ANY history of Set
   operations (overflow panics included): WF and Uniq discharged *)
Theorem C05_s_yielded_reachable :
  forall (K Q T : Type) (E : env K unit Q T) (debug : bool) (ck : K -> N) (cq : Q -> N),
  Lawful E ck cq ->
  forall (n : nat) (ops : list (@sop K Q)) (t : T) (lg : list event),
  exists wf : world K unit T,
    smfinal E debug ops {| cb := t; log := lg; self := new_map n |} = Some wf /\
    forall (q : Q) (i : nat) (k : K),
      nth_error (Spec.elems (self wf)) i = Some (k, tt) ->
      cq q = ck k ->
      wp (s_contains E q)
        (fun (b : bool) (w' : world K unit T) => b = true /\ stable wf w')
        (fun _ : world K unit T => False) wf /\
      wp (s_get E q)
        (fun (r : option nat) (w' : world K unit T) => r = Some i /\ stable wf w')
        (fun _ : world K unit T => False) wf.
Proof. exact (@s_yielded_reachable). Qed.
Print Assumptions C05_s_yielded_reachable.

Example C05_example_s_yielded :
  let E := env_set {| sc_adv := false; sc_seed := 0; sc_fk := 0; sc_fa := 0 |} in
  match smfinal E false [SoInsert (k_ 1 5); SoInsert (k_ 5 6); SoInsert (k_ 3 7)]
                {| cb := cs0; log := []; self := new_map 2 |} with
  | Some wf =>
      nth_error (Spec.elems (self wf)) 1 = Some (k_ 5 6, tt) /\
      match s_contains E (QCls 6) wf, s_get E (QKey (k_ 9 6)) wf with
      | Ok b _, Ok r _ => b = true /\ r = Some 1
      | _, _ => False
      end
  | None => False
  end.
Proof. vm_compute. repeat split; reflexivity. Qed.

(* -------------------------------------------------------------------------- *)
(* interpreter level (C05_yielded_lookup is the list fact): after ANY history of
   the interpreter's operations (Exec.op: every API entry point; safe_op excludes
   only insert_unchecked) from four fresh containers of ANY capacities, under an
   honest script, in EACH register every yielded key looks up its own slot - by
   the model's get / get_key_value (and dereferenced: the very pair) on the Map
   registers (get_m r x: r = 0 -> xm0, otherwise xm1), by contains / get on the
   Set registers (get_s r x: r = 2 -> xs0, otherwise xs1).  The world is the one
   Exec.run_m / run_s build for an operation on that register
   ({| cb := xcb x; log := []; self := get_m r x |}; any s, lg here).          *)
Theorem C05_run_final_yielded_get :
  forall (debug : bool) (sc : script) (ops : list op) (c0 c1 c2 c3 : N),
  honest sc ->
  Forall safe_op ops ->
  let x := run_final debug sc ops (init_world c0 c1 c2 c3) in
  (forall (r : N) (q : query) (i : nat) (p : key * vobj) (s : cstate) (lg : list event),
     nth_error (Spec.elems (get_m r x)) i = Some p ->
     qcls q = kcls (fst p) ->
     let w := {| cb := s; log := lg; self := get_m r x |} in
     wp (get (env_map sc) q)
        (fun (o : option nat) (w' : world key vobj cstate) => o = Some i /\ stable w w')
        (fun _ : world key vobj cstate => False) w /\
     wp (get_key_value (env_map sc) q)
        (fun (o : option nat) (w' : world key vobj cstate) => o = Some i /\ stable w w')
        (fun _ : world key vobj cstate => False) w /\
     wp (get_deref (env_map sc) q)
        (fun (o : option (key * vobj)) (w' : world key vobj cstate) => o = Some p /\ stable w w')
        (fun _ : world key vobj cstate => False) w) /\
  (forall (r : N) (q : query) (i : nat) (k : key) (s : cstate) (lg : list event),
     nth_error (Spec.elems (get_s r x)) i = Some (k, tt) ->
     qcls q = kcls k ->
     let w := {| cb := s; log := lg; self := get_s r x |} in
     wp (s_contains (env_set sc) q)
        (fun (b : bool) (w' : world key unit cstate) => b = true /\ stable w w')
        (fun _ : world key unit cstate => False) w /\
     wp (s_get (env_set sc) q)
        (fun (o : option nat) (w' : world key unit cstate) => o = Some i /\ stable w w')
        (fun _ : world key unit cstate => False) w).
Proof. exact run_final_yielded_get. Qed.
Print Assumptions C05_run_final_yielded_get.
