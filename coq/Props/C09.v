(* ========================================================================
   C09  Borrowing iterators visit every entry exactly once and report exact
        lengths

   STATEMENT (properties.jsonl):
     "iter, iter_mut, keys, values, values_mut and Set::iter each yield every
      stored entry exactly once and nothing else; before every step len() and
      size_hint report exactly the number of items still to come, count()
      agrees, and after the end they keep returning None. Iterating twice
      without an intervening mutation yields the same order, a cloned iterator
      continues identically to its original, and writes made through iter_mut
      or values_mut are exactly what later lookups return."
   QUANTIFIER:
     "every reachable container state x every iterator kind x every step of
      consumption"

   VOCABULARY
     cursor (lo,hi)      the state of a borrowing iterator: slots [lo,hi) are
                         still to come.  ALL six iterator kinds of the crate are
                         this one cursor in the model (Model/MapOps.v `iter`,
                         `iter_next`): next() returns the SLOT i the yielded
                         references point into; the kinds differ only in which
                         projection of slot i (pair, key, value, &mut value) the
                         caller receives.  cursor_len c = snd c - fst c is what
                         len()/size_hint()/count() report.
     iter_run n c        (defined in Proofs/IterSpec.v, not in the model) call
                         next() up to n times from cursor c, stop at the first
                         None; returns (slots yielded, final cursor).
     Spec.elems m        the stored entries of m in slot order.
     No hypothesis on the environment E: these iterators call no user code.
     Panic-postcondition False and wp's exclusion of UB: no panic, no UB.

   READING GUIDE (clause -> theorem)
   * "yield every stored entry exactly once and nothing else", every step of
     consumption:
       C09_iter_run_spec    a session of n steps from iter() yields the slots
                            0,1,...,min n len - 1 (= seq 0 (min n len)): each slot
                            once, in order, nothing else; container and log
                            unchanged.  With n >= len: all of 0..len-1.
       C09_iter_run_exact   the same with the strongest frame: the whole world
                            (container, log, callback state) is unchanged.
       C09_iter_yield_is_elem  slot i < len holds exactly entry i of the content.
   * "before every step len() and size_hint report exactly the number still to
     come": the cursor after j steps is (min j len, len) (snd r in
     C09_iter_run_spec) and
       C09_iter_exact_len   its cursor_len is len - min j len, i.e. the number
                            of slots the session has not yet yielded.
     (C09_iter_exact_len holds by unfolding cursor_len; the content is in
      C09_iter_run_spec's `snd r`.)
     From an arbitrary cursor (lo,hi) (any partly consumed iterator):
       C09_iter_continue_from    n steps yield seq lo (min n (hi-lo)), reach
                            cursor (lo + min n (hi-lo), hi), world unchanged.
       C09_iter_count_remaining  "count() agrees": cursor_len of that cursor is
                            (hi-lo) - min n (hi-lo).
       C09_iter_debug_rest  the entries still to come after n steps from iter()
                            are skipn n of the content.
   * "a cloned iterator continues identically to its original":
       C09_iter_clone_continues_seq  original and clone (the same cursor value),
                            run one after the other, give equal results; the
                            world is unchanged.
   * "after the end they keep returning None":
       C09_iter_fused       next() on the exhausted cursor (len,len) returns None
                            and the same cursor, so every later call does too.
   * "iterating twice without an intervening mutation yields the same order":
       C09_iter_stable_order  two sessions over equal containers yield the same
                            slot sequence.
   * "writes made through iter_mut / values_mut are exactly what later lookups
     return":
       C09_writes_visible   writing v' into the value of slot i replaces exactly
                            entry i of the content by (k, v') (key kept, all other
                            entries untouched) and keeps the container well-formed.
     What lookups return on a given content is C01/C05 (Lawful.get_lawful etc.).

   PARTLY / NOT COVERED BY A THEOREM (left to the correspondence check)
   * (Corrected after the audit.)  C09_iter_exact_len and C09_iter_count_remaining
     are arithmetic identities on cursor_len, and C09_iter_clone_continues_seq is
     determinism of the model; the clauses about len()/size_hint()/count(), the
     six kinds and their projections, writes seen by later lookups, and Clone
     are stated about model functions in the AUDIT CLOSURE section at the end of
     this file (C09_iter_len_after, C09_iter_count_after, C09_iter_steps_obs,
     C09_set_iter_steps_obs, C09_iter_mut_write_then_get,
     C09_iter_clone_continues, C09_rest_slots_is_clone_run, C09_iter_session_obs).
   * What remains an assumption of the model, checked by the harness only: that
     Clone for Iter/Keys/Values/SetIter copies the cursor (lo,hi) and nothing else
     (iter_clone c = ret c), and that the crate's len()/size_hint()/count() are
     the functions iter_len / iter_size_hint / iter_count of Proofs/MoreIter.v
     (the interpreter emits nn (cursor_len c) for all three hints and consumes a
     clone through Exec.rest_slots).  IterMut / ValuesMut are not Clone.
   * "every reachable container state" enters as the hypothesis WF (self w)
     (reachable states are WF: ExecSafe.step_safe, C02/C04).
   ======================================================================== *)
Require Import Model.Base Model.Slots Model.MapOps Model.Exec.
Require Import Proofs.Hoare Proofs.Inv Proofs.Spec Proofs.IterSpec Proofs.Legacy Proofs.Gaps.

Theorem C09_iter_run_spec :
  forall (K V T : Type) (n : nat) (w : world K V T),
    WF (self w) ->
    wp (c <- iter ;; iter_run n c)
       (fun (r : list nat * cursor) (w' : world K V T) =>
          self w' = self w /\ log w' = log w /\
          fst r = seq 0 (Nat.min n (len (self w))) /\
          snd r = (Nat.min n (len (self w)), len (self w)))
       (fun _ : world K V T => False) w.
Proof. exact (fun K V T => @iter_run_spec K V T). Qed.
Print Assumptions C09_iter_run_spec.

Theorem C09_iter_run_exact :
  forall (K V T : Type) (n : nat) (w : world K V T),
    WF (self w) ->
    wp (c <- iter ;; iter_run n c)
       (fun (r : list nat * cursor) (w' : world K V T) =>
          w' = w /\
          fst r = seq 0 (Nat.min n (len (self w))) /\
          snd r = (Nat.min n (len (self w)), len (self w)))
       (fun _ : world K V T => False) w.
Proof. exact (fun K V T => @iter_run_exact K V T). Qed.
Print Assumptions C09_iter_run_exact.

Theorem C09_iter_exact_len :
  forall (K V T : Type) (j : nat) (w : world K V T),
    cursor_len (Nat.min j (len (self w)), len (self w)) = len (self w) - Nat.min j (len (self w)).
Proof. exact (fun K V T => @iter_exact_len K V T). Qed.
Print Assumptions C09_iter_exact_len.

Theorem C09_iter_fused :
  forall (K V T : Type) (w : world K V T),
    WF (self w) ->
    wp (iter_next (len (self w), len (self w)))
       (fun (r : option nat * cursor) (w' : world K V T) =>
          self w' = self w /\ fst r = None /\ snd r = (len (self w), len (self w)))
       (fun _ : world K V T => False) w.
Proof. exact (fun K V T => @iter_fused K V T). Qed.
Print Assumptions C09_iter_fused.

Theorem C09_iter_yield_is_elem :
  forall (K V T : Type) (i : nat) (w : world K V T),
    WF (self w) -> i < len (self w) ->
    exists p : K * V,
      nth_error (Spec.elems (self w)) i = Some p /\ nth_error (slots (self w)) i = Some (Some p).
Proof. exact (fun K V T => @iter_yield_is_elem K V T). Qed.
Print Assumptions C09_iter_yield_is_elem.

Theorem C09_iter_stable_order :
  forall (K V T : Type) (n : nat) (w1 w2 : world K V T),
    WF (self w1) -> self w1 = self w2 ->
    wp (c <- iter ;; iter_run n c)
       (fun (r1 : list nat * cursor) (_ : world K V T) =>
          wp (c <- iter ;; iter_run n c)
             (fun (r2 : list nat * cursor) (_ : world K V T) =>
                fst r1 = fst r2 /\ fst r1 = seq 0 (Nat.min n (len (self w1))))
             (fun _ : world K V T => False) w2)
       (fun _ : world K V T => False) w1.
Proof. exact (fun K V T => @iter_stable_order K V T). Qed.
Print Assumptions C09_iter_stable_order.

Theorem C09_writes_visible :
  forall (K V T : Type) (i : nat) (v' : V) (w : world K V T),
    WF (self w) -> i < len (self w) ->
    forall (k : K) (v : V),
      nth_error (Spec.elems (self w)) i = Some (k, v) ->
      Spec.elems (set_slot_m (self w) i (Some (k, v'))) = upd (Spec.elems (self w)) i (k, v') /\
      WF (set_slot_m (self w) i (Some (k, v'))).
Proof. exact (fun K V T => @writes_visible K V T). Qed.
Print Assumptions C09_writes_visible.

(* ---------------------------------------------------------------------- *)
(* sessions from an ARBITRARY cursor (a partly consumed iterator, or its     *)
(* clone), count() of the remainder, what remains (Proofs/Gaps.v)            *)
(* ---------------------------------------------------------------------- *)

(* n steps from cursor (lo,hi): yields slots lo, lo+1, ... (min n (hi-lo) of
   them), ends at cursor (lo + min n (hi-lo), hi); the whole world is unchanged *)
Theorem C09_iter_continue_from :
  forall (K V T : Type) (n lo hi : nat) (w : world K V T),
    WF (self w) -> lo <= hi -> hi <= len (self w) ->
    wp (iter_run n (lo, hi))
       (fun (r : list nat * cursor) (w' : world K V T) =>
          w' = w /\
          fst r = seq lo (Nat.min n (hi - lo)) /\
          snd r = (lo + Nat.min n (hi - lo), hi))
       (fun _ : world K V T => False) w.
Proof. exact (fun K V T => @iter_continue_from K V T). Qed.
Print Assumptions C09_iter_continue_from.

(* count() / len() / size_hint of the cursor reached after n steps from (lo,hi):
   exactly the hi - lo items that were to come minus the min n (hi-lo) yielded *)
Theorem C09_iter_count_remaining :
  forall (lo hi n : nat),
    cursor_len (lo + Nat.min n (hi - lo), hi) = (hi - lo) - Nat.min n (hi - lo).
Proof. exact iter_count_remaining. Qed.
Print Assumptions C09_iter_count_remaining.

(* "a cloned iterator continues identically to its original": an iterator IS its
   cursor value (lo,hi), so its clone is the same value; running the original
   and then the clone, each for n steps from that cursor, gives equal results
   (same slots, same final cursor) and leaves the world unchanged *)
Theorem C09_iter_clone_continues_seq :
  forall (K V T : Type) (n lo hi : nat) (w : world K V T),
    WF (self w) -> lo <= hi -> hi <= len (self w) ->
    wp (r1 <- iter_run n (lo, hi) ;; r2 <- iter_run n (lo, hi) ;; ret (r1, r2))
       (fun (r : (list nat * cursor) * (list nat * cursor)) (w' : world K V T) =>
          w' = w /\
          fst r = snd r /\
          fst (fst r) = seq lo (Nat.min n (hi - lo)))
       (fun _ : world K V T => False) w.
Proof. exact (fun K V T => @iter_clone_continues_seq K V T). Qed.
Print Assumptions C09_iter_clone_continues_seq.

(* what is still to come after n steps from iter(): the entries of the cursor's
   range (range_list m (lo,hi) = the entries in slots [lo,hi), Model/Exec.v;
   it is what Debug for the iterator prints, C19) are exactly the content minus
   its first n entries: "every stored entry exactly once", seen from the rest *)
Theorem C09_iter_debug_rest :
  forall (V T : Type) (n : nat) (w : world key V T),
    WF (self w) ->
    wp (c <- iter ;; iter_run n c)
       (fun (r : list nat * cursor) (w' : world key V T) =>
          self w' = self w /\
          snd r = (Nat.min n (len (self w)), len (self w)) /\
          range_list (self w') (snd r) = skipn (Nat.min n (len (self w))) (Spec.elems (self w)) /\
          range_list (self w') (snd r) = skipn n (Spec.elems (self w)))
       (fun _ : world key V T => False) w.
Proof. exact (fun V T => @iter_debug_rest V T). Qed.
Print Assumptions C09_iter_debug_rest.

(* ---------------------------------------------------------------------- *)
(* non-vacuity                                                              *)
(* ---------------------------------------------------------------------- *)

(* the 3-entry map m3 of Proofs/Legacy.v is well-formed *)
Example C09_example_WF : WF (self (w_of m3)) /\ len (self (w_of m3)) = 3.
Proof. split; [exact m3_WF | reflexivity]. Qed.

(* concrete sessions on m3: 2 steps yield slots 0,1 and leave cursor (2,3)
   (len() = 1); 5 steps yield 0,1,2 and stop at (3,3); a further next() is
   None; the world is unchanged *)
Example C09_example_runs :
  (c <- iter ;; iter_run 2 c) (w_of m3) = Ok ([0; 1], (2, 3)) (w_of m3) /\
  cursor_len (2, 3) = 1 /\
  (c <- iter ;; iter_run 5 c) (w_of m3) = Ok ([0; 1; 2], (3, 3)) (w_of m3) /\
  iter_next (3, 3) (w_of m3) = Ok (None, (3, 3)) (w_of m3).
Proof. vm_compute. repeat split; reflexivity. Qed.

(* a write through slot 1 is what the content shows afterwards *)
Example C09_example_write :
  Spec.elems (set_slot_m m3 1 (Some (k_ 3 6, v_ 40 80)))
  = [(k_ 1 5, v_ 2 7); (k_ 3 6, v_ 40 80); (k_ 5 7, v_ 6 9)].
Proof. reflexivity. Qed.

(* a partly consumed iterator over m3 at cursor (1,3) and its clone: both yield
   slots 1,2 and end at (3,3); count() of (1,3) is 2, after one more step 1 *)
Example C09_example_clone :
  (r1 <- iter_run 5 (1, 3) ;; r2 <- iter_run 5 (1, 3) ;; ret (r1, r2)) (w_of m3)
    = Ok (([1; 2], (3, 3)), ([1; 2], (3, 3))) (w_of m3) /\
  cursor_len (1, 3) = 2 /\ cursor_len (1 + Nat.min 1 (3 - 1), 3) = 1.
Proof. vm_compute. repeat split; reflexivity. Qed.

(* after one step the range still to come is the content minus its first entry *)
Example C09_example_rest :
  range_list m3 (1, 3) = [(k_ 3 6, v_ 4 8); (k_ 5 7, v_ 6 9)] /\
  skipn 1 (Spec.elems m3) = [(k_ 3 6, v_ 4 8); (k_ 5 7, v_ 6 9)].
Proof. split; vm_compute; reflexivity. Qed.

(* ======================================================================== *)
(* AUDIT CLOSURE for C09 (Proofs/MoreIter.v)

   The audit found: (5) len()/size_hint()/count() appeared only as arithmetic
   on cursor_len; (6) the six kinds were not distinguished; (7) no theorem
   composed a write through iter_mut with a later lookup; (8) the clone theorem
   was a determinism tautology.  This section states those clauses about model
   functions.

   FUNCTIONS FOR THE OBSERVERS.  These are definitions of THIS development
   (Proofs/MoreIter.v, next to the runner iter_run), NOT functions of Model/:
   Model/Exec.v computes the same numbers inline (see below, and the SECOND
   ROUND section, C09_iter_count_is_rest_len, for count()):
     iter_len c        = ret (cursor_len c)                ExactSizeIterator::len
     iter_size_hint c  = ret (cursor_len c, Some (cursor_len c))       size_hint
     iter_count c      = call next() until None (cursor_len c + 1 calls are
                         enough), return (number of items seen, final cursor)
     iter_clone c      = ret c    Clone for Iter/Keys/Values/SetIter copies the
                         slice iterator, i.e. the cursor (IterMut/ValuesMut are
                         not Clone)
     write_val i f     = the in-place modification of the VALUE of slot i through
                         the &mut V that iter_mut/values_mut/get_mut handed out
                         (p_replace i (fun p => (fst p, f (snd p)))); the
                         interpreter's Exec.set_dat i d is
                         write_val i (fun v => {| vid := vid v; vdat := d |})
                         (C09_set_dat_is_write_val)
   IN THE INTERPRETER (Model/Exec.v): iter_steps kind wd n j c acc emits, before
   every step, l l l with l = nn (cursor_len c) for len(), size_hint().0,
   size_hint().1; then 1, the slot and r_item kind p, or 0.  rest_slots n lo is
   the consumption of a CLONE of the iterator (harness: `let mut c = it.clone();
   drop(it)`, then count / collect on c); iter_session appends nn (length rest),
   the clone's items and the original's len() afterwards.

   READING GUIDE (clause -> theorem)
   * "before every step len() and size_hint report exactly the number of items
     still to come":
       C09_iter_len_after      after j steps of the actual session iter ;; next^j,
                               iter_len = len - min j len and iter_size_hint =
                               (that, Some that); world unchanged
       C09_iter_steps_obs      the interpreter's session, every kind: the hint
                               triple before each step is nn (hi - lo) of the
                               cursor at that step (steps_obs), exactly the
                               number of items it goes on to yield
   * "count() agrees":
       C09_iter_count_from     count() from any cursor (lo,hi) returns hi - lo and
                               leaves the exhausted cursor (hi,hi)
       C09_iter_count_after    after j steps: count() = len - min j len, the
                               iterator is consumed (cursor_len = 0) and a further
                               next() returns None
       C09_iter_session_obs    interpreter, kinds iter/keys/values: the count of
                               the clone is nn (len - min steps len)
   * the six kinds:
       C09_r_item_kinds        kind 0 iter, 1 iter_mut -> the pair; 2 keys -> fst;
                               3 values, 4 values_mut -> snd; kinds 1 and 4 are
                               the mutable ones
       C09_iter_steps_obs      the item rendered at a step is r_item kind of the
                               pair stored in the yielded slot; kinds 0,2,3 leave
                               the WHOLE world unchanged; kinds 1,4 write wd+j
                               through the reference yielded at step j: the slot
                               yielded keeps its key and value object and gets
                               that payload, every slot outside the yielded range
                               is untouched
       C09_steps_obs_step / C09_steps_obs_end   one step read off
       C09_set_iter_steps_obs  Set::iter: the item is the key of the pair (k, ())
                               in the yielded slot; world unchanged
       C09_iter_mut_session_writes  the same on the content (Spec.elems)
   * "writes made through iter_mut or values_mut are exactly what later lookups
     return":
       C09_write_val_exact     one write: content = upd content i (k, f v)
       C09_iter_mut_write_then_get   Lawful E, Uniq keys: take S i items from the
                               iterator, write through the LAST reference yielded,
                               then get(q) with q equal to that entry's key:
                               returns slot i, which holds (k, f v); all other
                               entries unchanged; every class is found at the
                               slot where it was found before
   * "a cloned iterator continues identically to its original":
       C09_iter_clone_continues  after j steps clone the iterator; running the
                               clone n steps yields the next slots in order
                               (what the original would yield), the original's
                               len() is still len - min j len, the original then
                               yields the same slots from ITS position, and equal
                               numbers of steps give equal results
       C09_rest_slots_exact / C09_rest_slots_s_exact / C09_rest_slots_is_clone_run
                               the interpreter's clone consumption yields exactly
                               what iter_run on the cloned cursor yields
   HYPOTHESES: WF (self w) = container invariant; hi <= len = the cursor is an
   iterator over this container; Lawful E ck cq, Uniq ck (elems) only in
   C09_iter_mut_write_then_get (lookups need a lawful ==; keys are pairwise
   different in every reachable state, C14).  No panic, no UB in any of them.
   ======================================================================== *)
Require Import Proofs.MoreIter Proofs.Lawful Proofs.FmtSerde.

Theorem C09_iter_len_after :
  forall (K V T : Type) (j : nat) (w : world K V T),
    WF (self w) ->
    wp (c <- iter ;; r <- iter_run j c ;; n <- iter_len (snd r) ;; h <- iter_size_hint (snd r) ;; ret (n, h))
       (fun (x : nat * (nat * option nat)) (w' : world K V T) =>
          w' = w /\
          fst x = len (self w) - Nat.min j (len (self w)) /\
          snd x = (len (self w) - Nat.min j (len (self w)),
                   Some (len (self w) - Nat.min j (len (self w)))))
       (fun _ : world K V T => False) w.
Proof. exact (@iter_len_after). Qed.
Print Assumptions C09_iter_len_after.

Theorem C09_iter_count_from :
  forall (K V T : Type) (lo hi : nat) (w : world K V T),
    WF (self w) -> lo <= hi -> hi <= len (self w) ->
    wp (iter_count (lo, hi))
       (fun (x : nat * cursor) (w' : world K V T) => w' = w /\ fst x = hi - lo /\ snd x = (hi, hi))
       (fun _ : world K V T => False) w.
Proof. exact (@iter_count_from). Qed.
Print Assumptions C09_iter_count_from.

Theorem C09_iter_count_after :
  forall (K V T : Type) (j : nat) (w : world K V T),
    WF (self w) ->
    wp (c <- iter ;; r <- iter_run j c ;; x <- iter_count (snd r) ;; y <- iter_next (snd x) ;; ret (x, fst y))
       (fun (z : nat * cursor * option nat) (w' : world K V T) =>
          w' = w /\
          fst (fst z) = len (self w) - Nat.min j (len (self w)) /\
          snd (fst z) = (len (self w), len (self w)) /\
          cursor_len (snd (fst z)) = 0 /\ snd z = None)
       (fun _ : world K V T => False) w.
Proof. exact (@iter_count_after). Qed.
Print Assumptions C09_iter_count_after.

Theorem C09_iter_clone_continues :
  forall (K V T : Type) (j n m : nat) (w : world K V T),
    WF (self w) ->
    wp (c0 <- iter ;; r <- iter_run j c0 ;;
        c' <- iter_clone (snd r) ;;
        rc <- iter_run n c' ;;
        l <- iter_len (snd r) ;;
        ro <- iter_run m (snd r) ;;
        ret (rc, l, ro))
       (fun (x : list nat * cursor * nat * (list nat * cursor)) (w' : world K V T) =>
          let pos := Nat.min j (len (self w)) in
          let rest := len (self w) - pos in
          w' = w /\
          fst (fst (fst x)) = seq pos (Nat.min n rest) /\
          snd (fst (fst x)) = (pos + Nat.min n rest, len (self w)) /\
          snd (fst x) = rest /\
          fst (snd x) = seq pos (Nat.min m rest) /\
          snd (snd x) = (pos + Nat.min m rest, len (self w)) /\
          (n = m -> fst (fst x) = snd x))
       (fun _ : world K V T => False) w.
Proof. exact (@iter_clone_continues). Qed.
Print Assumptions C09_iter_clone_continues.

Theorem C09_write_val_exact :
  forall (K V T : Type) (i : nat) (f : V -> V) (k : K) (v : V) (w : world K V T),
    WF (self w) ->
    nth_error (Spec.elems (self w)) i = Some (k, v) ->
    wp (write_val i f)
       (fun (_ : unit) (w' : world K V T) =>
          w' = with_self w (set_slot_m (self w) i (Some (k, f v))) /\
          WF (self w') /\ cap (self w') = cap (self w) /\ len (self w') = len (self w) /\
          Spec.elems (self w') = upd (Spec.elems (self w)) i (k, f v))
       (fun _ : world K V T => False) w.
Proof. exact (@write_val_exact). Qed.
Print Assumptions C09_write_val_exact.

Theorem C09_iter_mut_write_then_get :
  forall (K V Q T : Type) (E : env K V Q T) (ck : K -> N) (cq : Q -> N),
    Lawful E ck cq ->
    forall (i : nat) (f : V -> V) (q : Q) (k : K) (v : V) (w : world K V T),
    WF (self w) ->
    Uniq ck (Spec.elems (self w)) ->
    nth_error (Spec.elems (self w)) i = Some (k, v) ->
    cq q = ck k ->
    wp (c <- iter ;; r <- iter_run (S i) c ;;
        write_val (last (fst r) 0) f ;;
        o <- get E q ;;
        match o with
        | Some x => p <- p_ref x ;; ret (Some (x, p))
        | None => ret None
        end)
       (fun (res : option (nat * (K * V))) (w' : world K V T) =>
          res = Some (i, (k, f v)) /\
          WF (self w') /\ cap (self w') = cap (self w) /\ log w' = log w /\
          Spec.elems (self w') = upd (Spec.elems (self w)) i (k, f v) /\
          (forall j : nat, j <> i ->
             nth_error (Spec.elems (self w')) j = nth_error (Spec.elems (self w)) j) /\
          (forall c : N, find_idx ck c (Spec.elems (self w')) = find_idx ck c (Spec.elems (self w))))
       (fun _ : world K V T => False) w.
Proof. exact (@iter_mut_write_then_get). Qed.
Print Assumptions C09_iter_mut_write_then_get.

(* ---- the interpreter's sessions (Model/Exec.v) ---- *)

Theorem C09_set_dat_is_write_val :
  forall (i : nat) (d : N),
    set_dat i d = write_val (T := cstate) i (fun v : vobj => {| vid := vid v; vdat := d |}).
Proof. exact set_dat_is_write_val. Qed.
Print Assumptions C09_set_dat_is_write_val.

Theorem C09_r_item_kinds :
  forall p : key * vobj,
    r_item 0 p = r_pair p /\ r_item 1 p = r_pair p /\ r_item 2 p = r_key (fst p) /\
    r_item 3 p = r_val (snd p) /\ r_item 4 p = r_val (snd p) /\
    is_mut_kind 0 = false /\ is_mut_kind 1 = true /\ is_mut_kind 2 = false /\
    is_mut_kind 3 = false /\ is_mut_kind 4 = true.
Proof. exact r_item_kinds. Qed.
Print Assumptions C09_r_item_kinds.

(* steps_obs item sl n lo hi (Proofs/MoreIter.v): the observation list of n
   steps from cursor (lo,hi) over the slots sl: per step  l l l 1 slot item(p)
   with l = nn (hi - lo) and p the pair in slot lo, or  l l l 0  when lo >= hi.
   dat_set d p = (fst p, {| vid := vid (snd p); vdat := d |}). *)
Theorem C09_iter_steps_obs :
  forall (kind wd : N) (n j lo hi : nat) (acc : list N) (w : world key vobj cstate),
    WF (self w) -> hi <= len (self w) ->
    wp (iter_steps kind wd n j (lo, hi) acc)
       (fun (r : list N * cursor) (w' : world key vobj cstate) =>
          let m := Nat.min n (hi - lo) in
          fst r = acc ++ steps_obs (r_item kind) (slots (self w)) n lo hi /\
          snd r = (lo + m, hi) /\
          cb w' = cb w /\ log w' = log w /\ WF (self w') /\
          len (self w') = len (self w) /\ cap (self w') = cap (self w) /\
          (is_mut_kind kind = false -> w' = w) /\
          (forall i : nat, i < lo \/ lo + m <= i ->
             nth_error (slots (self w')) i = nth_error (slots (self w)) i) /\
          (forall (i : nat) (p : key * vobj), lo <= i < lo + m ->
             nth_error (slots (self w)) i = Some (Some p) ->
             nth_error (slots (self w')) i =
               Some (Some (if is_mut_kind kind then dat_set (wd + nn (j + (i - lo))) p else p))))
       (fun _ : world key vobj cstate => False) w.
Proof. exact iter_steps_obs. Qed.
Print Assumptions C09_iter_steps_obs.

Theorem C09_steps_obs_step :
  forall (V : Type) (item : key * V -> list N) (sl : list (option (key * V))) (lo hi : nat) (p : key * V),
    lo < hi -> nth_error sl lo = Some (Some p) ->
    steps_obs item sl 1 lo hi = [nn (hi - lo); nn (hi - lo); nn (hi - lo); 1%N; nn lo] ++ item p.
Proof. exact (@steps_obs_step). Qed.
Print Assumptions C09_steps_obs_step.

Theorem C09_steps_obs_end :
  forall (V : Type) (item : key * V -> list N) (sl : list (option (key * V))) (lo hi : nat),
    hi <= lo -> steps_obs item sl 1 lo hi = [0%N; 0%N; 0%N; 0%N].
Proof. exact (@steps_obs_end). Qed.
Print Assumptions C09_steps_obs_end.

Theorem C09_set_iter_steps_obs :
  forall (n lo hi : nat) (acc : list N) (w : world key unit cstate),
    WF (self w) -> hi <= len (self w) ->
    wp (set_iter_steps n (lo, hi) acc)
       (fun (r : list N * cursor) (w' : world key unit cstate) =>
          w' = w /\
          fst r = acc ++ steps_obs (fun p : key * unit => r_key (fst p)) (slots (self w)) n lo hi /\
          snd r = (lo + Nat.min n (hi - lo), hi))
       (fun _ : world key unit cstate => False) w.
Proof. exact set_iter_steps_obs. Qed.
Print Assumptions C09_set_iter_steps_obs.

Theorem C09_iter_mut_session_writes :
  forall (kind wd : N) (n : nat) (w : world key vobj cstate),
    WF (self w) -> is_mut_kind kind = true ->
    wp (c <- iter ;; iter_steps kind wd n 0 c [])
       (fun (r : list N * cursor) (w' : world key vobj cstate) =>
          fst r = steps_obs (r_item kind) (slots (self w)) n 0 (len (self w)) /\
          snd r = (Nat.min n (len (self w)), len (self w)) /\
          WF (self w') /\ len (self w') = len (self w) /\ cap (self w') = cap (self w) /\
          log w' = log w /\
          forall (i : nat) (k : key) (v : vobj),
            nth_error (Spec.elems (self w)) i = Some (k, v) ->
            nth_error (Spec.elems (self w')) i =
              Some (k, if i <? n then {| vid := vid v; vdat := wd + nn i |} else v))
       (fun _ : world key vobj cstate => False) w.
Proof. exact iter_mut_session_writes. Qed.
Print Assumptions C09_iter_mut_session_writes.

Theorem C09_rest_slots_exact :
  forall (n lo : nat) (w : world key vobj cstate),
    WF (self w) -> lo + n <= len (self w) ->
    wp (rest_slots n lo)
       (fun (r : list N) (w' : world key vobj cstate) => w' = w /\ r = List.map nn (seq lo n))
       (fun _ : world key vobj cstate => False) w.
Proof. exact rest_slots_exact. Qed.
Print Assumptions C09_rest_slots_exact.

Theorem C09_rest_slots_s_exact :
  forall (n lo : nat) (w : world key unit cstate),
    WF (self w) -> lo + n <= len (self w) ->
    wp (rest_slots_s n lo)
       (fun (r : list N) (w' : world key unit cstate) => w' = w /\ r = List.map nn (seq lo n))
       (fun _ : world key unit cstate => False) w.
Proof. exact rest_slots_s_exact. Qed.
Print Assumptions C09_rest_slots_s_exact.

Theorem C09_rest_slots_is_clone_run :
  forall (lo hi : nat) (w : world key vobj cstate),
    WF (self w) -> lo <= hi -> hi <= len (self w) ->
    wp (c' <- iter_clone (lo, hi) ;; r <- iter_run (cursor_len c') c' ;;
        rest <- rest_slots (cursor_len (lo, hi)) (fst (lo, hi)) ;; ret (r, rest))
       (fun (x : list nat * cursor * list N) (w' : world key vobj cstate) =>
          w' = w /\ snd x = List.map nn (fst (fst x)) /\
          fst (fst x) = seq lo (hi - lo) /\ length (snd x) = cursor_len (lo, hi))
       (fun _ : world key vobj cstate => False) w.
Proof. exact rest_slots_is_clone_run. Qed.
Print Assumptions C09_rest_slots_is_clone_run.

(* d0, d1 are the two Debug renderings of the iterator (C19) *)
Theorem C09_iter_session_obs :
  forall (kind : N) (steps : nat) (wd : N) (w : world key vobj cstate),
    WF (self w) -> is_mut_kind kind = false ->
    wp (iter_session kind steps wd)
       (fun (r : list N) (w' : world key vobj cstate) =>
          let pos := Nat.min steps (len (self w)) in
          let rest := len (self w) - pos in
          w' = w /\
          exists d0 d1 : list N,
            r = steps_obs (r_item kind) (slots (self w)) steps 0 (len (self w)) ++ d0 ++ d1 ++
                [nn rest] ++ List.map nn (seq pos rest) ++ [nn rest])
       (fun _ : world key vobj cstate => False) w.
Proof. exact iter_session_obs. Qed.
Print Assumptions C09_iter_session_obs.

(* ---------------------------------------------------------------------- *)
(* non-vacuity                                                              *)
(* ---------------------------------------------------------------------- *)
Definition C09_sc0 : script := {| sc_adv := false; sc_seed := 0; sc_fk := 0; sc_fa := 0 |}.

(* the hypotheses of C09_iter_mut_write_then_get are satisfiable: the honest
   scripted environment is lawful, m3 has pairwise different keys, entry 1 is
   (k_ 3 6, v_ 4 8) and the query QCls 6 equals its key *)
Example C09_example_lawful : Lawful (env_map C09_sc0) kcls qcls.
Proof. exact (env_map_lawful C09_sc0 (conj eq_refl eq_refl)). Qed.

Example C09_example_uniq :
  Uniq kcls (Spec.elems m3) /\ nth_error (Spec.elems m3) 1 = Some (k_ 3 6, v_ 4 8) /\
  qcls (QCls 6) = kcls (k_ 3 6).
Proof.
  split; [|split; reflexivity]. unfold Uniq. vm_compute.
  repeat constructor; cbn [In]; intros H;
    repeat (destruct H as [H | H]; try discriminate H); exact H.
Qed.

(* ... and the conclusion on that instance: two items from iter_mut(), write
   payload 80 through the second reference, get(class 6) returns slot 1 holding
   the written value; entries 0 and 2 unchanged *)
Example C09_example_write_then_get :
  match (c <- iter ;; r <- iter_run 2 c ;;
         write_val (last (fst r) 0) (fun v : vobj => {| vid := vid v; vdat := 80 |}) ;;
         o <- get (env_map C09_sc0) (QCls 6) ;;
         match o with Some x => p <- p_ref x ;; ret (Some (x, p)) | None => ret None end)
          (w_of m3) with
  | Ok res w' => res = Some (1, (k_ 3 6, v_ 4 80)) /\
                 Spec.elems (self w') = [(k_ 1 5, v_ 2 7); (k_ 3 6, v_ 4 80); (k_ 5 7, v_ 6 9)]
  | _ => False
  end.
Proof. vm_compute. split; reflexivity. Qed.

(* len / size_hint / count after one step of a session over m3: 2, (2, Some 2),
   count() = 2 leaving (3,3), then None *)
Example C09_example_len_count :
  (c <- iter ;; r <- iter_run 1 c ;; n <- iter_len (snd r) ;; h <- iter_size_hint (snd r) ;; ret (n, h))
    (w_of m3) = Ok (2, (2, Some 2)) (w_of m3) /\
  (c <- iter ;; r <- iter_run 1 c ;; x <- iter_count (snd r) ;; y <- iter_next (snd x) ;; ret (x, fst y))
    (w_of m3) = Ok ((2, (3, 3)), None) (w_of m3).
Proof. vm_compute. split; reflexivity. Qed.

(* clone after one step; the clone runs 5 steps (yields 1,2), the original's
   len() is still 2 and it then yields 1 from its own position *)
Example C09_example_clone_continues :
  (c0 <- iter ;; r <- iter_run 1 c0 ;; c' <- iter_clone (snd r) ;; rc <- iter_run 5 c' ;;
   l <- iter_len (snd r) ;; ro <- iter_run 1 (snd r) ;; ret (rc, l, ro)) (w_of m3)
  = Ok (([1; 2], (3, 3)), 2, ([1], (2, 3))) (w_of m3).
Proof. vm_compute. reflexivity. Qed.

(* the interpreter: 2 steps of keys() (kind 2) and of values_mut() (kind 4, wd 50)
   over m3: hints 3,3,3 then 2,2,2; items are the key / the value of slots 0, 1;
   values_mut writes payloads 50, 51 into entries 0, 1 and nothing else *)
Example C09_example_kinds :
  match (c <- iter ;; iter_steps 2 0 2 0 c []) (w_of m3) with
  | Ok r w' => fst r = [3; 3; 3; 1; 0; 1; 5;  2; 2; 2; 1; 1; 3; 6]%N /\ snd r = (2, 3) /\ w' = w_of m3
  | _ => False
  end /\
  match (c <- iter ;; iter_steps 4 50 2 0 c []) (w_of m3) with
  | Ok r w' => fst r = [3; 3; 3; 1; 0; 2; 7;  2; 2; 2; 1; 1; 4; 8]%N /\ snd r = (2, 3) /\
               Spec.elems (self w') = [(k_ 1 5, v_ 2 50); (k_ 3 6, v_ 4 51); (k_ 5 7, v_ 6 9)]
  | _ => False
  end /\
  steps_obs (r_item 2) (slots m3) 2 0 3 = [3; 3; 3; 1; 0; 1; 5;  2; 2; 2; 1; 1; 3; 6]%N.
Proof. vm_compute. repeat split; reflexivity. Qed.

(* ======================================================================== *)
(* AUDIT CLOSURE, SECOND ROUND for C09 (Proofs/MoreIter.v)

   (5) whole interpreter sessions for the kinds C09_iter_session_obs excludes:
       C09_set_iter_session_obs   Set::iter: the observation list of the session
                                  is steps_obs (key of the pair in the slot) ++
                                  [count of the clone] ++ the clone's slots ++
                                  [len() of the original afterwards], both numbers
                                  = len - min steps len; the world is unchanged
       C09_iter_session_mut_obs   iter_mut / values_mut: steps_obs, the two Debug
                                  renderings, 0 (not Clone: nothing consumed), the
                                  final len() = len - min steps len; the content
                                  afterwards entry by entry; len, cap, log unchanged
   (6) "writes made through iter_mut or values_mut are exactly what later lookups
       return", MANY writes:
       C09_iter_mut_writes_then_get   E any lawful environment on the interpreter's
                                  element types (C09_example_lawful: env_map of an
                                  honest script), Uniq keys: after n steps of a
                                  mutable kind writing wd + j at step j, get(q) for
                                  the key of ANY entry i returns slot i, which holds
                                  the same key, the same value object, payload
                                  wd + i if i < n and the OLD payload otherwise; the
                                  keys and the value identities of the whole content
                                  are unchanged
   (7) count():  iter_count (Proofs/MoreIter.v) is a definition of THIS
       development (call next() until None, count): the model has no count
       function.  What the interpreter observes as count() is the LENGTH of what a
       consumed clone yields (Exec.rest_slots, mirroring `it.clone().count()` in
       the harness).  C09_iter_count_is_rest_len / _s tie the two: from any cursor
       over the container, iter_count returns exactly length (rest_slots ...) =
       cursor_len, and rest_slots yields the slots lo, lo+1, ...
   ======================================================================== *)

Theorem C09_set_iter_session_obs :
  forall (steps : nat) (w : world key unit cstate),
    WF (self w) ->
    wp (set_iter_session steps)
       (fun (r : list N) (w' : world key unit cstate) =>
          let pos := Nat.min steps (len (self w)) in
          let rest := len (self w) - pos in
          w' = w /\
          r = steps_obs (fun p : key * unit => r_key (fst p)) (slots (self w)) steps 0 (len (self w)) ++
              [nn rest] ++ List.map nn (seq pos rest) ++ [nn rest])
       (fun _ : world key unit cstate => False) w.
Proof. exact set_iter_session_obs. Qed.
Print Assumptions C09_set_iter_session_obs.

Theorem C09_iter_session_mut_obs :
  forall (kind : N) (steps : nat) (wd : N) (w : world key vobj cstate),
    WF (self w) -> is_mut_kind kind = true ->
    wp (iter_session kind steps wd)
       (fun (r : list N) (w' : world key vobj cstate) =>
          let rest := len (self w) - Nat.min steps (len (self w)) in
          (exists d0 d1 : list N,
             r = steps_obs (r_item kind) (slots (self w)) steps 0 (len (self w)) ++ d0 ++ d1 ++
                 [0%N] ++ [nn rest]) /\
          WF (self w') /\ len (self w') = len (self w) /\ cap (self w') = cap (self w) /\
          log w' = log w /\
          forall (i : nat) (k : key) (v : vobj),
            nth_error (Spec.elems (self w)) i = Some (k, v) ->
            nth_error (Spec.elems (self w')) i =
              Some (k, if i <? steps then {| vid := vid v; vdat := wd + nn i |} else v))
       (fun _ : world key vobj cstate => False) w.
Proof. exact iter_session_mut_obs. Qed.
Print Assumptions C09_iter_session_mut_obs.

Theorem C09_iter_mut_writes_then_get :
  forall (E : env key vobj query cstate),
    Lawful E kcls qcls ->
    forall (kind wd : N) (n i : nat) (k : key) (v : vobj) (q : query) (w : world key vobj cstate),
    WF (self w) -> is_mut_kind kind = true -> Uniq kcls (Spec.elems (self w)) ->
    nth_error (Spec.elems (self w)) i = Some (k, v) -> qcls q = kcls k ->
    wp (c <- iter ;; _ <- iter_steps kind wd n 0 c [] ;;
        o <- get E q ;;
        match o with
        | Some x => p <- p_ref x ;; ret (Some (x, p))
        | None => ret None
        end)
       (fun (res : option (nat * (key * vobj))) (w' : world key vobj cstate) =>
          res = Some (i, (k, if i <? n then {| vid := vid v; vdat := wd + nn i |} else v)) /\
          WF (self w') /\ len (self w') = len (self w) /\ cap (self w') = cap (self w) /\
          log w' = log w /\ Uniq kcls (Spec.elems (self w')) /\
          List.map fst (Spec.elems (self w')) = List.map fst (Spec.elems (self w)) /\
          List.map (fun p : key * vobj => vid (snd p)) (Spec.elems (self w')) =
            List.map (fun p : key * vobj => vid (snd p)) (Spec.elems (self w)))
       (fun _ : world key vobj cstate => False) w.
Proof. exact iter_mut_writes_then_get. Qed.
Print Assumptions C09_iter_mut_writes_then_get.

Theorem C09_iter_count_is_rest_len :
  forall (lo hi : nat) (w : world key vobj cstate),
    WF (self w) -> lo <= hi -> hi <= len (self w) ->
    wp (x <- iter_count (lo, hi) ;; rest <- rest_slots (cursor_len (lo, hi)) (fst (lo, hi)) ;; ret (x, rest))
       (fun (y : nat * cursor * list N) (w' : world key vobj cstate) =>
          w' = w /\ fst (fst y) = length (snd y) /\ fst (fst y) = cursor_len (lo, hi) /\
          snd y = List.map nn (seq lo (hi - lo)))
       (fun _ : world key vobj cstate => False) w.
Proof. exact iter_count_is_rest_len. Qed.
Print Assumptions C09_iter_count_is_rest_len.

Theorem C09_iter_count_is_rest_len_s :
  forall (lo hi : nat) (w : world key unit cstate),
    WF (self w) -> lo <= hi -> hi <= len (self w) ->
    wp (x <- iter_count (lo, hi) ;; rest <- rest_slots_s (cursor_len (lo, hi)) (fst (lo, hi)) ;; ret (x, rest))
       (fun (y : nat * cursor * list N) (w' : world key unit cstate) =>
          w' = w /\ fst (fst y) = length (snd y) /\ fst (fst y) = cursor_len (lo, hi) /\
          snd y = List.map nn (seq lo (hi - lo)))
       (fun _ : world key unit cstate => False) w.
Proof. exact iter_count_is_rest_len_s. Qed.
Print Assumptions C09_iter_count_is_rest_len_s.

(* non-vacuity: values_mut (kind 4, wd 50), 2 steps over m3, then get(class 6)
   and get(class 7): slot 1 holds payload 51 (written), slot 2 its old payload 9;
   hypotheses: C09_example_lawful, C09_example_uniq *)
Example C09_example_writes_then_get :
  match (c <- iter ;; _ <- iter_steps 4 50 2 0 c [] ;;
         o <- get (env_map C09_sc0) (QCls 6) ;;
         match o with Some x => p <- p_ref x ;; ret (Some (x, p)) | None => ret None end) (w_of m3) with
  | Ok res _ => res = Some (1, (k_ 3 6, v_ 4 51))
  | _ => False
  end /\
  match (c <- iter ;; _ <- iter_steps 4 50 2 0 c [] ;;
         o <- get (env_map C09_sc0) (QCls 7) ;;
         match o with Some x => p <- p_ref x ;; ret (Some (x, p)) | None => ret None end) (w_of m3) with
  | Ok res _ => res = Some (2, (k_ 5 7, v_ 6 9))
  | _ => False
  end.
Proof. vm_compute. split; reflexivity. Qed.

(* a Set::iter session of 1 step over a 2-element set: hints 2 2 2, item = key of
   slot 0, then count of the clone 1, its slot 1, len() 1 *)
Example C09_example_set_session :
  match set_iter_session 1
          {| cb := cs0; log := [];
             self := {| len := 2; slots := [Some (k_ 1 5, tt); Some (k_ 2 6, tt); None] |} |} with
  | Ok r _ => r = [2; 2; 2; 1; 0; 1; 5;  1;  1;  1]%N
  | _ => False
  end.
Proof. vm_compute. reflexivity. Qed.
