(* Owned2.v — ownership conservation (C02) for the rest of the API, for EVERY
   environment: the entry API, the Set methods, the projecting consuming
   iterators, Clone and the '-' operator of Set. *)
Require Import Model.Base Model.Slots Model.MapOps Model.EntryOps Model.SetOps Proofs.Hoare Proofs.Inv Proofs.Safety Proofs.Safety2 Proofs.Safety3 Proofs.Owned.
From Coq Require Import Permutation.

(* ================================================================== *)
(* Part A — the entry API                                              *)
(* ================================================================== *)
Section EntryOwned.
Context {K V Q T : Type} (E : env K V Q T) (debug : bool).
Notation M := (M K V T). Notation world := (world K V T). Notation map := (map K V). Notation kv := (K * V)%type.

Local Notation ids_opt o := (match o with Some p => ids_pair E p | None => [] end).

(* what an entry owns: a vacant entry holds the supplied key *)
Definition ids_entry (e : @entry K) : list N :=
  match e with Occupied _ => [] | Vacant k => idK E k end.

(* ---------- helpers ---------- *)
Lemma dropped_snoc_call l tag : dropped (l ++ [EvCall tag]) = dropped l.
Proof. rewrite dropped_app. change (dropped [EvCall tag]) with (@nil N). apply app_nil_r. Qed.

Lemma dropped_cloneK l : dropped (List.map EvCloneK l) = [].
Proof. induction l as [|a l IH]; cbn; auto. Qed.
Lemma dropped_cloneV l : dropped (List.map EvCloneV l) = [].
Proof. induction l as [|a l IH]; cbn; auto. Qed.

(* a later step destroys part of what an earlier step handed out *)
Lemma cpostN_drop_outs (w w1 w2 : world) ins outs d :
  cpostN E w ins (outs ++ d) w1 -> self w2 = self w1 -> dropped (log w2) = dropped (log w1) ++ d ->
  cpostN E w ins outs w2.
Proof.
  intros (Hw & Hc & lost & HP & Ht) Hs Hd. unfold cpostN. rewrite Hs.
  split; [exact Hw|]. split; [exact Hc|]. exists lost. split; [|exact Ht].
  unfold acct in *. rewrite Hs, Hd. perm_ids.
Qed.

Lemma cpostP_drop_outs (w w1 w2 : world) ins outs d :
  cpostN E w ins (outs ++ d) w1 -> self w2 = self w1 -> dropped (log w2) = dropped (log w1) ++ d ->
  cpostP E w ins w2.
Proof.
  intros H Hs Hd. eapply cpostP_of_N. eapply cpostN_drop_outs; eauto.
Qed.

(* a step that only destroys what it was handed *)
Lemma cpostN_dropped_ins (w w' : world) d :
  WF (self w) -> self w' = self w -> dropped (log w') = dropped (log w) ++ d -> cpostN E w d [] w'.
Proof.
  intros Hw Hs Hd. apply (cpostN_drop_outs w w w' d [] d); auto.
  cbn [app]. apply cpostN_refl; auto.
Qed.

(* conservation known at one world, then a conserving continuation *)
Lemma wp_conserves_step0 {B} (c : M B) (w w1 : world) ins mid (outs2 : B -> list N) :
  cpostN E w ins mid w1 -> conserves E c mid outs2 ->
  wp c (fun b => cpostN E w ins (outs2 b)) (cpostP E w ins) w1.
Proof.
  intros H1 Hc.
  pose proof (wp_conserves_step E [] c w w1 ins mid outs2 H1) as Hs.
  eapply wp_mono; [apply Hs | |]; cbn beta.
  - eapply conserves_perm; [| intros; reflexivity | exact Hc]. rewrite app_nil_r. reflexivity.
  - intros b w2 H2. eapply cpostN_perm; [| reflexivity | exact H2]. rewrite app_nil_r. reflexivity.
  - intros w2 H2. eapply cpostP_perm; [| exact H2]. rewrite app_nil_r. reflexivity.
Qed.

(* the single-world form of a [conserves] triple *)
Lemma conserves_at {A} (c : M A) ins (outs : A -> list N) (w : world) :
  conserves E c ins outs -> WF (self w) ->
  wp c (fun a => cpostN E w ins (outs a)) (cpostP E w ins) w.
Proof. intros Hc Hw. apply Hc. exact Hw. Qed.

(* ---------- A1. Map::entry ---------- *)
Lemma conserves_entry_of k : conserves E (entry_of E k) (idK E k) ids_entry.
Proof.
  intros w Hw. unfold entry_of.
  apply (wp_uscan_then (unwind_key E k) (idK E k));
    [intros; apply quiet_test_k | apply unwind_key_spec | exact Hw | |].
  - intros r w1 Hs Hg Hr.
    assert (Hd : dropped (log w1) = dropped (log w)) by (rewrite Hg; reflexivity).
    assert (Hw1 : WF (self w1)) by (rewrite Hs; exact Hw).
    assert (Hgoal : wp (match r with
                        | Some i => drop_key E k ;; ret (Occupied i)
                        | None => ret (Vacant k)
                        end)
                       (fun e => cpostN E w1 (idK E k) (ids_entry e)) (cpostP E w1 (idK E k)) w1).
    { destruct r as [i|].
      - apply (conserves_bind0 E (drop_key E k) (fun _ => ret (Occupied i)) _ (fun _ => []));
          [apply conserves_drop_key | | exact Hw1].
        intros _. apply (conserves_ret E (Occupied i) ids_entry).
      - apply wp_ret. apply (cpostN_refl E w1 w1 (idK E k)); auto. }
    eapply wp_mono; [exact Hgoal | |]; cbn beta.
    + intros e w2 H2. exact (cpostN_base E _ _ _ _ _ Hs Hd H2).
    + intros w2 H2. exact (cpostP_base E _ _ _ _ Hs Hd H2).
  - intros w1 Hrej. apply (rejected_cpostP E w w1 (idK E k) []); auto. rewrite app_nil_r. reflexivity.
Qed.

(* ---------- A2. OccupiedEntry::insert ---------- *)
Lemma conserves_occ_insert i v (w : world) :
  WF (self w) -> i < len (self w) ->
  wp (occ_insert i v) (fun r => cpostN E w (idV E v) (idV E r)) (cpostP E w (idV E v)) w.
Proof.
  intros Hw Hi. destruct (WF_live _ _ Hw Hi) as [p Hp].
  unfold occ_insert. apply wp_bind. eapply wp_p_replace; [exact Hp|]. apply wp_ret.
  apply (cpostN_replace E w i p); auto. unfold ids_pair; cbn [fst snd]. perm_ids.
Qed.

(* ---------- A3. OccupiedEntry::remove_entry / remove ---------- *)
Lemma conserves_occ_remove_entry i (w : world) :
  WF (self w) -> i < len (self w) ->
  wp (occ_remove_entry debug i) (fun p => cpostN E w [] (ids_pair E p)) (cpostP E w []) w.
Proof. intros Hw Hi. unfold occ_remove_entry. apply conserves_remove_index_read; assumption. Qed.

Lemma conserves_occ_remove i (w : world) :
  WF (self w) -> i < len (self w) ->
  wp (occ_remove E debug i) (fun v => cpostN E w [] (idV E v)) (cpostP E w []) w.
Proof.
  intros Hw Hi. unfold occ_remove. apply wp_bind.
  eapply wp_mono; [apply (conserves_remove_index_read E debug); assumption | |]; cbn beta.
  - intros [k' v'] w1 H1. cbn [fst snd].
    apply (wp_conserves_step0 (drop_key E k' ;; ret v') w w1 [] (ids_pair E (k', v')) (fun v0 => idV E v0) H1).
    apply (conserves_bind E (idV E v') (drop_key E k') (fun _ => ret v') (idK E k') (fun _ => [])).
    + apply conserves_drop_key.
    + intros _. apply (conserves_ret E v' (fun v0 : V => idV E v0)).
  - intros w1 H1. exact H1.
Qed.

(* ---------- A4. VacantEntry::insert ---------- *)
Lemma drop_opt_pair_spec (e : option kv) (w : world) :
  let post := fun w' : world => self w' = self w /\ log w' = log w ++ ev_drops (ids_opt e) in
  wp (match e with Some p => drop_pair E p | None => ret tt end) (fun _ => post) post w.
Proof.
  intros post. destruct e as [p|].
  - apply drop_pair_spec.
  - apply wp_ret. unfold post. cbn [ev_drops List.map]. rewrite app_nil_r. auto.
Qed.

Lemma vac_insert_acct k v (w : world) :
  WF (self w) ->
  wp (vac_insert E debug k v)
     (fun i w' => cpostN E w (ids_pair E (k, v)) [] w' /\ i < len (self w'))
     (cpostP E w (ids_pair E (k, v))) w.
Proof.
  intros Hw. unfold vac_insert. apply wp_bind.
  eapply wp_mono;
    [apply wp_conj; [apply (conserves_insert_ii E debug k v false w Hw) | apply (insert_ii_spec E debug k v false w Hw)] | |];
    cbn beta.
  - intros [index e] w1 [H1 [Hinv Hlt]]. cbn [fst snd] in H1, Hlt.
    apply wp_bind.
    eapply wp_mono; [apply drop_opt_pair_spec | |]; cbn beta.
    + intros _ w2 [Hs Hg].
      assert (Hd : dropped (log w2) = dropped (log w1) ++ ids_opt e) by (rewrite Hg; apply dropped_log_drops).
      assert (H2 : cpostN E w (ids_pair E (k, v)) [] w2) by (apply (cpostN_drop_outs w w1 w2 _ [] (ids_opt e)); auto).
      assert (Hw2 : WF (self w2)) by apply H2.
      rewrite <- Hs in Hlt. destruct (WF_live _ _ Hw2 Hlt) as [p Hp].
      apply wp_bind. eapply wp_p_ref; [exact Hp|]. apply wp_ret. split; [exact H2 | exact Hlt].
    + intros w2 [Hs Hg].
      assert (Hd : dropped (log w2) = dropped (log w1) ++ ids_opt e) by (rewrite Hg; apply dropped_log_drops).
      apply (cpostP_drop_outs w w1 w2 _ [] (ids_opt e)); auto.
  - intros w1 [H1 _]. exact H1.
Qed.

Lemma conserves_vac_insert k v : conserves E (vac_insert E debug k v) (ids_pair E (k, v)) (fun _ => []).
Proof.
  intros w Hw. eapply wp_mono; [apply vac_insert_acct; exact Hw | |]; cbn beta.
  - intros i w' [H _]. exact H.
  - intros w' H. exact H.
Qed.

(* ---------- A5. Entry::or_insert ---------- *)
Lemma conserves_or_insert (e : @entry K) v (w : world) :
  WF (self w) -> entry_ok e (self w) ->
  wp (or_insert E debug e v)
     (fun i w' => cpostN E w (ids_entry e ++ idV E v) [] w' /\ i < len (self w'))
     (cpostP E w (ids_entry e ++ idV E v)) w.
Proof.
  intros Hw He. destruct e as [i|k]; cbn [or_insert entry_ok ids_entry app] in *.
  - destruct (WF_live _ _ Hw He) as [p Hp]. unfold occ_into_mut.
    apply wp_bind. apply wp_bind. eapply wp_p_ref; [exact Hp|]. apply wp_ret.
    apply wp_bind.
    eapply wp_mono; [apply drop_val_spec | |]; cbn beta.
    + intros _ w1 [Hs Hg]. apply wp_ret. split; [|rewrite Hs; exact He].
      apply (cpostN_dropped_ins w w1); [exact Hw | exact Hs | rewrite Hg; apply dropped_log_drops].
    + intros w1 [Hs Hg]. eapply cpostP_of_N.
      apply (cpostN_dropped_ins w w1); [exact Hw | exact Hs | rewrite Hg; apply dropped_log_drops].
  - change (idK E k ++ idV E v) with (ids_pair E (k, v)). apply vac_insert_acct. exact Hw.
Qed.

(* ---------- A6. Entry::or_insert_with / or_insert_with_key ---------- *)
(* The value a closure produces is a NEW object: it enters the ledger when the
   closure returns it.  The triple is stated at one world, so the value is the
   one the closure returns from the current callback state [cb w]. *)
Definition made_val (f : T -> option V * T) (w : world) : list N :=
  match fst (f (cb w)) with Some v => idV E v | None => [] end.

(* the exit where the closure itself panics: the VacantEntry is alive while the
   closure runs, so unwinding destroys its key, exactly once; the container is
   untouched and NOTHING is lost *)
Definition closure_panic_exit (k : K) (w w' : world) : Prop :=
  self w' = self w /\ log w' = (log w ++ [EvCall 2]) ++ ev_drops (idK E k).

Lemma closure_panic_exit_acct k (w w' : world) : closure_panic_exit k w w' -> acct E w w' (idK E k) [] [].
Proof.
  intros [Hs Hg]. unfold acct. rewrite Hs, Hg, dropped_log_drops, dropped_snoc_call. perm_ids.
Qed.

Lemma call_mk_then_vac_insert k f (w : world) :
  WF (self w) ->
  wp (v <- on_unwind (unwind_key E k) (call_mk f) ;; vac_insert E debug k v)
     (fun i w' => cpostN E w (idK E k ++ made_val f w) [] w' /\ i < len (self w'))
     (fun w' => cpostP E w (idK E k ++ made_val f w) w' /\
                (fst (f (cb w)) = None -> closure_panic_exit k w w')) w.
Proof.
  intros Hw. unfold made_val, call_mk. apply wp_bind. apply wp_on_unwind. apply wp_bind. apply wp_emit.
  apply wp_cbo_eq. simp_w. destruct (f (cb w)) as [[v|] s]; cbn [fst snd].
  - set (w1 := with_cb _ s).
    assert (Hs : self w1 = self w) by reflexivity.
    assert (Hd : dropped (log w1) = dropped (log w)) by (unfold w1; simp_w; apply dropped_snoc_call).
    eapply wp_mono; [apply (vac_insert_acct k v w1); rewrite Hs; exact Hw | |]; cbn beta.
    + intros i w2 [H2 Hlt]. split; [|exact Hlt]. exact (cpostN_base E _ _ _ _ _ Hs Hd H2).
    + intros w2 H2. split; [exact (cpostP_base E _ _ _ _ Hs Hd H2) | discriminate].
  - apply (wp_cleans _ (idK E k)); [apply unwind_key_spec|]. simp_w.
    intros w' Hs Hg.
    assert (Hx : closure_panic_exit k w w') by (split; assumption).
    split; [|intros _; exact Hx].
    rewrite app_nil_r. apply (cpostP_exact E w w' (idK E k) []); [rewrite Hs; exact Hw | rewrite Hs; reflexivity |].
    pose proof (closure_panic_exit_acct k w w' Hx) as HA. unfold acct in HA. perm_ids.
Qed.

Lemma occ_into_mut_acct i (w : world) :
  WF (self w) -> i < len (self w) ->
  wp (occ_into_mut i) (fun j w' => cpostN E w [] [] w' /\ j < len (self w')) (cpostP E w []) w.
Proof.
  intros Hw Hi. destruct (WF_live _ _ Hw Hi) as [p Hp]. unfold occ_into_mut.
  apply wp_bind. eapply wp_p_ref; [exact Hp|]. apply wp_ret.
  split; [apply cpostN_refl; auto | exact Hi].
Qed.

Definition made_entry (e : @entry K) (f : T -> option V * T) (w : world) : list N :=
  match e with Occupied _ => [] | Vacant _ => made_val f w end.

(* what holds on the panic exit of or_insert_with* when the closure is what panicked *)
Definition entry_closure_exit (e : @entry K) (f : T -> option V * T) (w w' : world) : Prop :=
  match e with
  | Occupied _ => True
  | Vacant k => fst (f (cb w)) = None -> closure_panic_exit k w w'
  end.

Lemma conserves_or_insert_with (e : @entry K) f (w : world) :
  WF (self w) -> entry_ok e (self w) ->
  wp (or_insert_with E debug e f)
     (fun i w' => cpostN E w (ids_entry e ++ made_entry e f w) [] w' /\ i < len (self w'))
     (fun w' => cpostP E w (ids_entry e ++ made_entry e f w) w' /\ entry_closure_exit e f w w') w.
Proof.
  intros Hw He. destruct e as [i|k]; cbn [or_insert_with entry_ok ids_entry made_entry entry_closure_exit app] in *.
  - eapply wp_mono; [apply occ_into_mut_acct; assumption | |]; cbn beta; auto.
  - apply call_mk_then_vac_insert. exact Hw.
Qed.

Lemma conserves_or_insert_with_key (e : @entry K) (f : K -> T -> option V * T) (w : world) :
  WF (self w) -> entry_ok e (self w) ->
  let made := match e with Occupied _ => [] | Vacant k => made_val (f k) w end in
  wp (or_insert_with_key E debug e f)
     (fun i w' => cpostN E w (ids_entry e ++ made) [] w' /\ i < len (self w'))
     (fun w' => cpostP E w (ids_entry e ++ made) w' /\
                match e with Occupied _ => True | Vacant k => entry_closure_exit e (f k) w w' end) w.
Proof.
  intros Hw He. destruct e as [i|k]; cbn [or_insert_with_key entry_ok ids_entry entry_closure_exit app] in *; cbv zeta.
  - eapply wp_mono; [apply occ_into_mut_acct; assumption | |]; cbn beta; auto.
  - apply call_mk_then_vac_insert. exact Hw.
Qed.

(* the suggested split form: a closure that never panics and always produces a
   value with the identities [vids] *)
Lemma conserves_or_insert_with_vacant k f vids (w : world) :
  (forall s, exists v s', f s = (Some v, s') /\ idV E v = vids) ->
  WF (self w) ->
  wp (or_insert_with E debug (Vacant k) f)
     (fun i w' => cpostN E w (idK E k ++ vids) [] w' /\ i < len (self w'))
     (cpostP E w (idK E k ++ vids)) w.
Proof.
  intros Hf Hw. pose proof (conserves_or_insert_with (Vacant k) f w Hw I) as H.
  cbn [ids_entry made_entry] in H. unfold made_val in H.
  destruct (Hf (cb w)) as (v & s' & Hfv & Hv). rewrite Hfv in H. cbn [fst] in H. rewrite Hv in H.
  eapply wp_mono; [exact H | |]; cbn beta; [auto | intros w' [H1 _]; exact H1].
Qed.

Lemma conserves_or_insert_with_occupied i f (w : world) :
  WF (self w) -> i < len (self w) ->
  wp (or_insert_with E debug (Occupied i) f)
     (fun j w' => cpostN E w [] [] w' /\ j < len (self w')) (cpostP E w []) w.
Proof.
  intros Hw Hi. eapply wp_mono; [exact (conserves_or_insert_with (Occupied i) f w Hw Hi) | |]; cbn beta;
    [auto | intros w' [H1 _]; exact H1].
Qed.

Lemma conserves_or_insert_with_key_vacant k f vids (w : world) :
  (forall s, exists v s', f k s = (Some v, s') /\ idV E v = vids) ->
  WF (self w) ->
  wp (or_insert_with_key E debug (Vacant k) f)
     (fun i w' => cpostN E w (idK E k ++ vids) [] w' /\ i < len (self w'))
     (cpostP E w (idK E k ++ vids)) w.
Proof.
  intros Hf Hw. pose proof (conserves_or_insert_with_key (Vacant k) f w Hw I) as H.
  cbn [ids_entry] in H. cbv zeta in H. unfold made_val in H.
  destruct (Hf (cb w)) as (v & s' & Hfv & Hv). rewrite Hfv in H. cbn [fst] in H. rewrite Hv in H.
  eapply wp_mono; [exact H | |]; cbn beta; [auto | intros w' [H1 _]; exact H1].
Qed.

Lemma conserves_or_insert_with_key_occupied i f (w : world) :
  WF (self w) -> i < len (self w) ->
  wp (or_insert_with_key E debug (Occupied i) f)
     (fun j w' => cpostN E w [] [] w' /\ j < len (self w')) (cpostP E w []) w.
Proof.
  intros Hw Hi. eapply wp_mono; [exact (conserves_or_insert_with_key (Occupied i) f w Hw Hi) | |]; cbn beta;
    [auto | intros w' [H1 _]; exact H1].
Qed.

(* ---------- A7. Entry::and_modify ---------- *)
Lemma call_modf_acct (f : modf_t) i (w : world) :
  (forall s v, idV E (snd (fst (f s v))) = idV E v) ->
  WF (self w) -> i < len (self w) ->
  let post := fun w' : world => cpostN E w [] [] w' /\ len (self w') = len (self w) in
  wp (call_modf f i) (fun _ => post) post w.
Proof.
  intros Hid Hw Hi post. destruct (WF_live _ _ Hw Hi) as [p Hp].
  assert (Hic : i < cap (self w)) by (apply live_lt_cap; exists p; exact Hp).
  unfold call_modf. apply wp_bind. eapply wp_p_ref; [exact Hp|].
  unfold wp. pose proof (Hid (cb w) (snd p)) as Hv.
  destruct (f (cb w) (snd p)) as [[boom v'] s]. cbn [fst snd] in Hv.
  assert (Hpost : post {| cb := s; log := log w ++ [EvCall 3];
            self := {| len := len (self w); slots := upd (slots (self w)) i (Some (fst p, v')) |} |}).
  { unfold post. simp_w. split; [|reflexivity].
    change {| len := len (self w); slots := upd (slots (self w)) i (Some (fst p, v')) |}
      with (set_slot_m (self w) i (Some (fst p, v'))).
    apply cpostN_exact; simp_w.
    - apply WF_set_slot_some; auto.
    - apply cap_set_slot.
    - pose proof (owned_set_slot E (self w) i (Some p) (Some (fst p, v')) Hp) as HO.
      rewrite dropped_snoc_call.
      unfold ids_pair in HO; cbn [fst snd] in HO. rewrite Hv in HO. perm_ids.
    - intros Ht. apply Tidy_set_slot_lt; auto. }
  destruct boom; exact Hpost.
Qed.

Lemma conserves_and_modify (e : @entry K) (f : modf_t) (w : world) :
  (forall s v, idV E (snd (fst (f s v))) = idV E v) ->
  WF (self w) -> entry_ok e (self w) ->
  wp (and_modify e f)
     (fun e' w' => cpostN E w (ids_entry e) (ids_entry e') w' /\ e' = e /\ entry_ok e' (self w'))
     (cpostP E w (ids_entry e)) w.
Proof.
  intros Hid Hw He. destruct e as [i|k]; cbn [and_modify entry_ok ids_entry] in *.
  - destruct (WF_live _ _ Hw He) as [p Hp]. unfold occ_get_mut.
    apply wp_bind. apply wp_bind. eapply wp_p_ref; [exact Hp|]. apply wp_ret.
    apply wp_bind.
    eapply wp_mono; [apply call_modf_acct; assumption | |]; cbn beta.
    + intros _ w1 [H1 Hl]. apply wp_ret. cbn [ids_entry entry_ok].
      split; [exact H1|]. split; [reflexivity | rewrite Hl; exact He].
    + intros w1 [H1 _]. eapply cpostP_of_N. exact H1.
  - apply wp_ret. cbn [ids_entry entry_ok]. split; [apply cpostN_refl; auto | auto].
Qed.

(* the whole chain  map.entry(k).or_insert(v)  as one [conserves] triple *)
Lemma conserves_entry_or_insert k v :
  conserves E (e <- entry_of E k ;; or_insert E debug e v) (ids_pair E (k, v)) (fun _ => []).
Proof.
  intros w Hw. apply wp_bind.
  eapply wp_mono;
    [apply wp_conj; [apply (conserves_entry_of k w Hw) | apply (entry_of_spec E k w Hw)] | |]; cbn beta.
  - intros e w1 [H1 [Hs He]].
    assert (Hw1 : WF (self w1)) by apply H1. rewrite <- Hs in He.
    eapply wp_mono; [apply (conserves_or_insert e v w1 Hw1 He) | |]; cbn beta.
    + intros i w2 [H2 _]. exact (cpostN_trans E (idV E v) _ _ _ _ _ _ H1 H2).
    + intros w2 H2. exact (cpostNP_trans E (idV E v) _ _ _ _ _ H1 H2).
  - intros w1 [H1 _]. apply (cpostP_weaken E _ _ _ (idV E v)) in H1. exact H1.
Qed.

End EntryOwned.

(* ================================================================== *)
(* Part C1 — the projecting consuming iterators IntoKeys / IntoValues  *)
(* ================================================================== *)
Section IntoProj.
Context {K V Q T : Type} (E : env K V Q T).
Notation M := (M K V T). Notation world := (world K V T).

(* IntoKeys::next = self.iter.next().map(|p| p.0): the value half of the
   yielded pair is destroyed (Exec.into_steps_item, kind 1) *)
Definition into_keys_next : M (option K) :=
  o <- into_iter_next ;;
  match o with
  | None => ret None
  | Some p => drop_val E (snd p) ;; ret (Some (fst p))
  end.

(* IntoValues::next = self.iter.next().map(|p| p.1) (kind 2) *)
Definition into_values_next : M (option V) :=
  o <- into_iter_next ;;
  match o with
  | None => ret None
  | Some p => drop_key E (fst p) ;; ret (Some (snd p))
  end.

Lemma conserves_into_keys_next :
  conserves E into_keys_next [] (fun r => match r with Some k => idK E k | None => [] end).
Proof.
  unfold into_keys_next. eapply conserves_bind0; [apply conserves_into_iter_next|].
  set (outs := fun r : option K => match r with Some k => idK E k | None => [] end).
  intros [[k v]|]; cbn [fst snd].
  - apply (conserves_perm E _ (idV E v ++ idK E k) (ids_pair E (k, v)) outs outs);
      [unfold ids_pair; cbn [fst snd]; perm_ids | intros; reflexivity |].
    apply (conserves_bind E (idK E k) (drop_val E v) (fun _ => ret (Some k)) (idV E v) (fun _ => []) outs).
    + apply conserves_drop_val.
    + intros _. apply (conserves_ret E (Some k) outs).
  - apply (conserves_ret E None outs).
Qed.

Lemma conserves_into_values_next :
  conserves E into_values_next [] (fun r => match r with Some v => idV E v | None => [] end).
Proof.
  unfold into_values_next. eapply conserves_bind0; [apply conserves_into_iter_next|].
  set (outs := fun r : option V => match r with Some v => idV E v | None => [] end).
  intros [[k v]|]; cbn [fst snd].
  - apply (conserves_bind E (idV E v) (drop_key E k) (fun _ => ret (Some v)) (idK E k) (fun _ => []) outs).
    + apply conserves_drop_key.
    + intros _. apply (conserves_ret E (Some v) outs).
  - apply (conserves_ret E None outs).
Qed.

End IntoProj.

(* ================================================================== *)
(* Part B — Set methods (values are unit)                              *)
(* ================================================================== *)
Section SetOwned.
Context {K Q T : Type} (E : env K unit Q T) (debug : bool).
Notation M := (M K unit T). Notation world := (world K unit T). Notation smap := (map K unit).

(* ---- B1/B2, for a general environment: a unit value may carry identities
   ([idV E tt] is arbitrary); whenever a method hands a stored unit out and
   forgets it, those identities are reported as handed out. ---- *)

(* true = inserted; false = an equal element was there: its unit value is handed out *)
Lemma conserves_s_insert k :
  conserves E (s_insert E debug k) (ids_pair E (k, tt)) (fun r : bool => if r then [] else idV E tt).
Proof.
  unfold s_insert. eapply conserves_bind0; [apply conserves_insert|].
  set (outs := fun r : bool => if r then [] else idV E tt).
  intros [[]|].
  - apply (conserves_ret E (is_none (Some tt)) outs).
  - apply (conserves_ret E (is_none (@None unit)) outs).
Qed.

Lemma conserves_s_replace k :
  conserves E (s_replace E debug k) (ids_pair E (k, tt))
            (fun r => match r with Some k' => ids_pair E (k', tt) | None => [] end).
Proof.
  unfold s_replace. eapply conserves_bind0; [apply conserves_insert_ii|].
  set (outs := fun r : option K => match r with Some k' => ids_pair E (k', tt) | None => [] end).
  intros [t [[k' []]|]]; cbn [snd].
  - apply (conserves_ret E (option_map fst (Some (k', tt))) outs).
  - apply (conserves_ret E (option_map fst (@None (K * unit))) outs).
Qed.

Lemma conserves_s_remove q :
  conserves E (s_remove E debug q) [] (fun r : bool => if r then idV E tt else []).
Proof.
  unfold s_remove. eapply conserves_bind0; [apply conserves_remove|].
  set (outs := fun r : bool => if r then idV E tt else []).
  intros [[]|].
  - apply (conserves_ret E (is_some (Some tt)) outs).
  - apply (conserves_ret E (is_some (@None unit)) outs).
Qed.

Lemma conserves_s_take q :
  conserves E (s_take E debug q) [] (fun r => match r with Some k' => ids_pair E (k', tt) | None => [] end).
Proof.
  unfold s_take. eapply conserves_bind0; [apply conserves_remove_entry|].
  set (outs := fun r : option K => match r with Some k' => ids_pair E (k', tt) | None => [] end).
  intros [[k' []]|].
  - apply (conserves_ret E (option_map fst (Some (k', tt))) outs).
  - apply (conserves_ret E (option_map fst (@None (K * unit))) outs).
Qed.

Lemma conserves_s_contains q : conserves E (s_contains E q) [] (fun _ => []).
Proof. unfold s_contains. apply conserves_contains_key. Qed.

Lemma conserves_s_get q : conserves E (s_get E q) [] (fun _ => []).
Proof. unfold s_get. apply conserves_get_key_value. Qed.

Lemma conserves_s_clear : conserves E (s_clear E) [] (fun _ => []).
Proof. unfold s_clear. apply conserves_clear. Qed.

(* any predicate: a Set's retain cannot touch the (unit) values *)
Lemma conserves_s_retain f : conserves E (s_retain E debug f) [] (fun _ => []).
Proof.
  unfold s_retain. apply conserves_retain.
  intros s k v. destruct (f s k) as [r s']. reflexivity.
Qed.

(* ---- Part D: the headline for sets ---- *)
Lemma s_insert_NoDup k (w : world) :
  WF (self w) -> NoDup (owned E (self w) ++ ids_pair E (k, tt) ++ dropped (log w)) ->
  wp (s_insert E debug k)
     (fun r w' => NoDup (owned E (self w') ++ (if r then [] else idV E tt) ++ dropped (log w')))
     (fun w' => NoDup (owned E (self w') ++ dropped (log w'))) w.
Proof.
  intros Hw Hn.
  exact (conserves_NoDup E (s_insert E debug k) _ (fun r : bool => if r then [] else idV E tt) w
           (conserves_s_insert k) Hw Hn).
Qed.

Lemma s_take_NoDup q (w : world) :
  WF (self w) -> NoDup (owned E (self w) ++ dropped (log w)) ->
  wp (s_take E debug q)
     (fun r w' => NoDup (owned E (self w') ++ (match r with Some k' => ids_pair E (k', tt) | None => [] end) ++ dropped (log w')))
     (fun w' => NoDup (owned E (self w') ++ dropped (log w'))) w.
Proof.
  intros Hw Hn.
  exact (conserves_NoDup E (s_take E debug q) [] _ w (conserves_s_take q) Hw Hn).
Qed.

Lemma s_replace_NoDup k (w : world) :
  WF (self w) -> NoDup (owned E (self w) ++ ids_pair E (k, tt) ++ dropped (log w)) ->
  wp (s_replace E debug k)
     (fun r w' => NoDup (owned E (self w') ++ (match r with Some k' => ids_pair E (k', tt) | None => [] end) ++ dropped (log w')))
     (fun w' => NoDup (owned E (self w') ++ dropped (log w'))) w.
Proof.
  intros Hw Hn.
  exact (conserves_NoDup E (s_replace E debug k) _ _ w (conserves_s_replace k) Hw Hn).
Qed.

(* ---- the same when unit values carry no identity (every real Set) ---- *)
Section UnitHasNoIdentity.
Context (HU : idV E tt = []).

Lemma ids_key_unit k : ids_pair E (k, tt) = idK E k.
Proof. unfold ids_pair; cbn [fst snd]. rewrite HU. apply app_nil_r. Qed.

Lemma conserves_s_insert_unit k : conserves E (s_insert E debug k) (ids_pair E (k, tt)) (fun _ => []).
Proof.
  eapply conserves_perm; [reflexivity | | apply conserves_s_insert].
  intros [|]; cbn beta iota; rewrite ?HU; reflexivity.
Qed.

Lemma conserves_s_remove_unit q : conserves E (s_remove E debug q) [] (fun _ => []).
Proof.
  eapply conserves_perm; [reflexivity | | apply conserves_s_remove].
  intros [|]; cbn beta iota; rewrite ?HU; reflexivity.
Qed.

Lemma conserves_s_take_unit q :
  conserves E (s_take E debug q) [] (fun r => match r with Some k' => idK E k' | None => [] end).
Proof.
  eapply conserves_perm; [reflexivity | | apply conserves_s_take].
  intros [k'|]; cbn beta iota; rewrite ?ids_key_unit; reflexivity.
Qed.

Lemma conserves_s_replace_unit k :
  conserves E (s_replace E debug k) (idK E k) (fun r => match r with Some k' => idK E k' | None => [] end).
Proof.
  rewrite <- (ids_key_unit k).
  eapply conserves_perm; [reflexivity | | apply conserves_s_replace].
  intros [k'|]; cbn beta iota; rewrite ?ids_key_unit; reflexivity.
Qed.

Lemma ids_pairs_unit (l : list K) :
  flat_map (ids_pair E) (List.map (fun x => (x, tt)) l) = flat_map (fun k => ids_pair E (k, tt)) l.
Proof. induction l as [|a l IH]; cbn [List.map flat_map]; [reflexivity | rewrite IH; reflexivity]. Qed.

Lemma conserves_s_extend_loop nx items :
  conserves E (s_extend_loop E debug nx items) (flat_map (fun k => ids_pair E (k, tt)) items) (fun _ => []).
Proof.
  induction items as [|k rest IH]; cbn [s_extend_loop].
  - apply (conserves_silent E _ []). apply silent_call_next.
  - set (F := flat_map (fun k0 : K => ids_pair E (k0, tt))) in *.
    apply (conserves_bind0 E (on_unwind (unwind_pairs E (List.map (fun x => (x, tt)) (k :: rest))) (call_next nx)) _
             ([] ++ F (k :: rest)) (fun _ => [] ++ F (k :: rest)) (fun _ => [])).
    + apply (conserves_on_unwind E (F (k :: rest)) _ (call_next nx) [] (fun _ => [])).
      * apply (conserves_silent E _ []). apply silent_call_next.
      * unfold F. rewrite <- ids_pairs_unit. apply unwind_pairs_spec.
    + intros _.
      apply (conserves_bind0 E (on_unwind (unwind_pairs E (List.map (fun x => (x, tt)) rest)) (_ <- s_insert E debug k ;; ret tt)) _
               (ids_pair E (k, tt) ++ F rest) (fun _ => [] ++ F rest) (fun _ => [])).
      * apply (conserves_on_unwind E (F rest) _ (_ <- s_insert E debug k ;; ret tt)
                 (ids_pair E (k, tt)) (fun _ => [])).
        -- apply (conserves_bind0 E (s_insert E debug k) (fun _ => ret tt) _ (fun _ => []) (fun _ => []));
             [apply conserves_s_insert_unit|]. intros b.
           apply (conserves_ret E tt (fun _ : unit => [])).
        -- unfold F. rewrite <- ids_pairs_unit. apply unwind_pairs_spec.
      * intros _. exact IH.
Qed.

Lemma conserves_s_extend nx items :
  conserves E (s_extend E debug nx items) (flat_map (fun k => ids_pair E (k, tt)) items) (fun _ => []).
Proof. unfold s_extend. apply conserves_s_extend_loop. Qed.

(* B3: FromIterator for Set: the set under construction is a local; a panic of
   the source iterator / of == / of a Drop unwinds through its destructor *)
Lemma s_from_iter_acct nx items (w : world) :
  WF (self w) ->
  wp (s_from_iter E debug nx items)
     (fun _ w' => WF (self w') /\ cap (self w') = cap (self w) /\
                  exists lost, acct E w w' (flat_map (fun k => ids_pair E (k, tt)) items) [] lost /\
                               (Tidy (self w) -> lost = [] /\ Tidy (self w')))
     (fun w' => exists lost, acct E w w' (flat_map (fun k => ids_pair E (k, tt)) items) [] lost) w.
Proof.
  intros Hw. unfold s_from_iter.
  apply (wp_finally_drop_gen E _ _ (cpostP E w (flat_map (fun k => ids_pair E (k, tt)) items))).
  - apply conserves_s_extend_loop. exact Hw.
  - intros w' (Hw' & Hc & lost & HP).
    eapply wp_mono; [apply unwind_map_acct_nolost; exact Hw' | |]; cbn beta.
    + intros _ w'' H. exists lost. unfold acct in *. perm_ids.
    + intros w'' H. exists lost. unfold acct in *. perm_ids.
Qed.

Lemma s_insert_NoDup_unit k (w : world) :
  WF (self w) -> NoDup (owned E (self w) ++ idK E k ++ dropped (log w)) ->
  wp (s_insert E debug k)
     (fun _ w' => NoDup (owned E (self w') ++ dropped (log w')))
     (fun w' => NoDup (owned E (self w') ++ dropped (log w'))) w.
Proof.
  intros Hw Hn. rewrite <- (ids_key_unit k) in Hn.
  exact (conserves_NoDup E (s_insert E debug k) _ (fun _ => []) w (conserves_s_insert_unit k) Hw Hn).
Qed.

End UnitHasNoIdentity.
End SetOwned.

(* ================================================================== *)
(* Part C2 — Clone for Map                                             *)
(* ================================================================== *)
Section CloneOwned.
Context {K V Q T : Type} (E : env K V Q T).
Notation M := (M K V T). Notation world := (world K V T). Notation map := (map K V). Notation kv := (K * V)%type.

(* The identities of a clone are whatever the Clone callbacks return.  To say
   WHICH objects were made, the callbacks are replayed as a pure function of
   the callback state: [clone_made src n i s] is the list of pairs that
   clone_loop writes when started in callback state [s] (it stops at the first
   Clone that panics); [clone_orphans src n i s] is the key made by K::clone
   whose V::clone then panicked (destroyed at once while unwinding). *)
Definition clone_pair_res (p : kv) (s : T) : option kv * T :=
  let (ok, s1) := cloneK E s (fst p) in
  match ok with
  | None => (None, s1)
  | Some k' => let (ov, s2) := cloneV E s1 (snd p) in
               match ov with
               | None => (None, s2)
               | Some v' => (Some (k', v'), s2)
               end
  end.

Definition clone_orphan (p : kv) (s : T) : list N :=
  let (ok, s1) := cloneK E s (fst p) in
  match ok with
  | None => []
  | Some k' => let (ov, s2) := cloneV E s1 (snd p) in
               match ov with
               | None => idK E k'
               | Some _ => []
               end
  end.

Fixpoint clone_made (src : map) (n i : nat) (s : T) : list kv :=
  match n with
  | 0 => []
  | S n' =>
      match nth_error (slots src) i with
      | Some (Some p) =>
          match clone_pair_res p s with
          | (Some p', s') => p' :: clone_made src n' (S i) s'
          | (None, _) => []
          end
      | _ => []
      end
  end.

Fixpoint clone_orphans (src : map) (n i : nat) (s : T) : list N :=
  match n with
  | 0 => []
  | S n' =>
      match nth_error (slots src) i with
      | Some (Some p) =>
          match clone_pair_res p s with
          | (Some _, s') => clone_orphans src n' (S i) s'
          | (None, _) => clone_orphan p s
          end
      | _ => []
      end
  end.

Lemma clone_pair_spec p (w : world) :
  wp (clone_pair E p)
     (fun p' w1 => clone_pair_res p (cb w) = (Some p', cb w1) /\ self w1 = self w /\
                   dropped (log w1) = dropped (log w))
     (fun w1 => fst (clone_pair_res p (cb w)) = None /\ self w1 = self w /\
                dropped (log w1) = dropped (log w) ++ clone_orphan p (cb w)) w.
Proof.
  unfold clone_pair, clone_pair_res, clone_orphan.
  apply wp_bind. apply wp_emit. apply wp_bind. apply wp_cbo_eq. simp_w.
  destruct (cloneK E (cb w) (fst p)) as [[k'|] s1]; cbn [fst snd].
  - apply wp_bind. apply wp_emit. apply wp_bind. apply wp_on_unwind. apply wp_cbo_eq. simp_w.
    destruct (cloneV E s1 (snd p)) as [[v'|] s2]; cbn [fst snd].
    + apply wp_ret. simp_w. split; [reflexivity|]. split; [reflexivity|].
      rewrite !dropped_app, dropped_cloneK, dropped_cloneV, !app_nil_r. reflexivity.
    + apply (wp_cleans _ (idK E k')); [apply unwind_key_spec|]. simp_w.
      intros w' Hs Hg. split; [reflexivity|]. split; [exact Hs|].
      rewrite Hg, dropped_log_drops, !dropped_app, dropped_cloneK, dropped_cloneV, !app_nil_r. reflexivity.
  - simp_w. split; [reflexivity|]. split; [reflexivity|].
    rewrite !dropped_app, dropped_cloneK, !app_nil_r. reflexivity.
Qed.

Definition clone_post (src : map) (n i : nat) (w : world) (full : bool) (w' : world) : Prop :=
  WF (self w') /\ cap (self w') = cap (self w) /\
  dropped (log w') = dropped (log w) ++ (if full then [] else clone_orphans src n i (cb w)) /\
  (full = true -> len (self w') = i + n /\ length (clone_made src n i (cb w)) = n) /\
  exists lost,
    Permutation (owned E (self w') ++ lost)
                (owned E (self w) ++ flat_map (ids_pair E) (clone_made src n i (cb w))) /\
    (Tidy (self w) -> lost = [] /\ Tidy (self w')).

Lemma clone_loop_acct src : WF src -> forall n i (w : world),
  WF (self w) -> len (self w) = i -> i + n <= cap (self w) -> i + n <= len src ->
  wp (clone_loop E src n i) (fun _ => clone_post src n i w true) (clone_post src n i w false) w.
Proof.
  intros Hsrc. induction n as [|n IH]; intros i w Hw Hl Hc Hn; cbn [clone_loop].
  - apply wp_ret. unfold clone_post. cbn [clone_made flat_map length].
    split; [exact Hw|]. split; [reflexivity|]. split; [rewrite app_nil_r; reflexivity|].
    split; [intros _; split; [lia | reflexivity]|].
    exists []. split; [reflexivity | auto].
  - assert (Hi : i < len src) by lia.
    destruct (WF_live _ _ Hsrc Hi) as [p Hp]. rewrite Hp.
    apply wp_bind. eapply wp_mono; [apply clone_pair_spec | |]; cbn beta.
    + intros p' w1 (Hr & Hs1 & Hd1).
      assert (Hw1 : WF (self w1)) by (rewrite Hs1; exact Hw).
      assert (Hl1 : len (self w1) = i) by (rewrite Hs1; exact Hl).
      assert (Hc1 : len (self w1) < cap (self w1)) by (rewrite Hs1; lia).
      pose proof (cpostN_append E w1 p' Hw1 Hc1) as HA. rewrite Hl1 in HA.
      apply wp_bind. apply wp_p_write; [rewrite Hs1; lia|].
      apply wp_bind. apply wp_set_len.
      set (w2 := with_self (with_self w1 _) _) in *.
      destruct HA as (Hw2 & Hc2 & lost1 & HP1 & Ht1).
      assert (Hg2 : log w2 = log w1) by reflexivity.
      assert (Hb2 : cb w2 = cb w1) by reflexivity.
      assert (Hl2 : len (self w2) = S i) by reflexivity.
      eapply wp_mono; [apply (IH (S i) w2 Hw2 Hl2) | |]; cbn beta.
      * rewrite Hc2, Hs1. lia.
      * lia.
      * intros _ w3 (Hw3 & Hc3 & Hd3 & Hf3 & lost2 & HP3 & Ht3).
        unfold clone_post. cbn [clone_made]. rewrite Hp, Hr. rewrite Hb2 in *.
        cbn [flat_map length].
        split; [exact Hw3|]. split; [rewrite Hc3, Hc2, Hs1; reflexivity|].
        split; [rewrite Hd3, Hg2, Hd1; reflexivity|].
        split.
        { intros Hfull. destruct (Hf3 Hfull) as [Ha Hb]. split; [lia | rewrite Hb; reflexivity]. }
        exists (lost1 ++ lost2). split.
        { unfold acct in HP1. rewrite Hg2, Hs1 in HP1. perm_ids. }
        { intros Ht. rewrite <- Hs1 in Ht. destruct (Ht1 Ht) as [-> Ht2]. destruct (Ht3 Ht2) as [-> Ht3'].
          split; [reflexivity | exact Ht3']. }
      * intros w3 (Hw3 & Hc3 & Hd3 & Hf3 & lost2 & HP3 & Ht3).
        unfold clone_post. cbn [clone_made clone_orphans]. rewrite Hp, Hr. rewrite Hb2 in *.
        cbn [flat_map length].
        split; [exact Hw3|]. split; [rewrite Hc3, Hc2, Hs1; reflexivity|].
        split; [rewrite Hd3, Hg2, Hd1; reflexivity|].
        split; [discriminate|].
        exists (lost1 ++ lost2). split.
        { unfold acct in HP1. rewrite Hg2, Hs1 in HP1. perm_ids. }
        { intros Ht. rewrite <- Hs1 in Ht. destruct (Ht1 Ht) as [-> Ht2]. destruct (Ht3 Ht2) as [-> Ht3'].
          split; [reflexivity | exact Ht3']. }
    + intros w1 (Hr & Hs1 & Hd1). unfold clone_post. cbn [clone_made clone_orphans]. rewrite Hp.
      destruct (clone_pair_res p (cb w)) as [[x|] s']; [discriminate|]. cbn [flat_map].
      rewrite Hs1. split; [exact Hw|]. split; [reflexivity|]. split; [exact Hd1|]. split; [discriminate|].
      exists []. split; [reflexivity | auto].
Qed.

(* Drop for Map: the log grows by the destroyed identities, which are exactly
   what left the slots (whether or not a destructor panics on the way) *)
Lemma drop_range_log n : forall i (w : world),
  (forall j, i <= j < i + n -> live (self w) j) ->
  let post := fun w' : world =>
    exists d, log w' = log w ++ ev_drops d /\ Permutation (owned E (self w') ++ d) (owned E (self w)) in
  wp (drop_range E n i) (fun _ => post) post w.
Proof.
  induction n as [|n IH]; intros i w Hl post; cbn [drop_range].
  - apply wp_ret. exists []. cbn [ev_drops List.map]. rewrite !app_nil_r. split; reflexivity.
  - destruct (Hl i ltac:(lia)) as [p Hp].
    unfold p_drop. apply wp_bind. apply wp_bind.
    eapply wp_p_read; [exact Hp|].
    pose proof (owned_set_slot E (self w) i (Some p) None Hp) as HP.
    eapply wp_mono; [apply drop_pair_spec | |]; cbn beta.
    + intros _ w1 [Hs Hg]. simp_w.
      eapply wp_mono; [apply IH | |]; cbn beta.
      * intros j Hj. rewrite Hs. apply live_set_slot_neq; [lia | apply Hl; lia].
      * intros _ w2 (d & Hg2 & HP2). exists (ids_pair E p ++ d). split.
        -- rewrite Hg2, Hg. unfold ev_drops. rewrite map_app, app_assoc. reflexivity.
        -- rewrite Hs in HP2. perm_ids.
      * intros w2 (d & Hg2 & HP2). exists (ids_pair E p ++ d). split.
        -- rewrite Hg2, Hg. unfold ev_drops. rewrite map_app, app_assoc. reflexivity.
        -- rewrite Hs in HP2. perm_ids.
    + intros w1 [Hs Hg]. simp_w. exists (ids_pair E p). split; [exact Hg|]. rewrite Hs. perm_ids.
Qed.

Lemma drop_map_log (w : world) :
  WF (self w) ->
  let post := fun w' : world =>
    exists d, dropped (log w') = dropped (log w) ++ d /\ Permutation (owned E (self w') ++ d) (owned E (self w)) in
  wp (drop_map E) (fun _ => post) post w.
Proof.
  intros [Hl Hs] post. unfold drop_map. apply wp_bind. apply wp_get_len.
  eapply wp_mono; [apply drop_range_log | |]; cbn beta.
  - intros j Hj. apply Hs. lia.
  - intros _ w' (d & Hg & HP). exists d. split; [rewrite Hg; apply dropped_log_drops | exact HP].
  - intros w' (d & Hg & HP). exists d. split; [rewrite Hg; apply dropped_log_drops | exact HP].
Qed.

(* the destructor that runs while unwinding: it cannot panic, and destroys everything *)
Lemma unwind_range_log n : forall i (w : world),
  (forall j, i <= j < i + n -> live (self w) j) ->
  wp (unwind_range E n i)
     (fun _ w' => exists d, log w' = log w ++ ev_drops d /\ Permutation (owned E (self w') ++ d) (owned E (self w)))
     (fun _ => False) w.
Proof.
  induction n as [|n IH]; intros i w Hl; cbn [unwind_range].
  - apply wp_ret. exists []. cbn [ev_drops List.map]. rewrite !app_nil_r. split; reflexivity.
  - destruct (Hl i ltac:(lia)) as [p Hp].
    apply wp_bind. eapply wp_p_read; [exact Hp|].
    pose proof (owned_set_slot E (self w) i (Some p) None Hp) as HP.
    apply wp_bind. eapply wp_mono; [apply unwind_pair_spec | |]; cbn beta; [|auto].
    intros _ w1 [Hs Hg]. simp_w.
    eapply wp_mono; [apply IH | |]; cbn beta; [| |auto].
    + intros j Hj. rewrite Hs. apply live_set_slot_neq; [lia | apply Hl; lia].
    + intros _ w2 (d & Hg2 & HP2). exists (ids_pair E p ++ d). split.
      * rewrite Hg2, Hg. unfold ev_drops. rewrite map_app, app_assoc. reflexivity.
      * rewrite Hs in HP2. perm_ids.
Qed.

Lemma unwind_map_log (w : world) :
  WF (self w) ->
  wp (unwind_map E)
     (fun _ w' => (exists d, dropped (log w') = dropped (log w) ++ d /\
                             Permutation (owned E (self w') ++ d) (owned E (self w))) /\
                  (Tidy (self w) -> owned E (self w') = []))
     (fun _ => False) w.
Proof.
  intros Hw.
  assert (H2 : wp (unwind_map E)
                  (fun _ w' => exists d, dropped (log w') = dropped (log w) ++ d /\
                                         Permutation (owned E (self w') ++ d) (owned E (self w)))
                  (fun _ => False) w).
  { destruct Hw as [Hl Hs]. unfold unwind_map. apply wp_bind. apply wp_get_len.
    eapply wp_mono; [apply unwind_range_log | |]; cbn beta.
    - intros j Hj. apply Hs. lia.
    - intros _ w' (d & Hg & HP). exists d. split; [rewrite Hg; apply dropped_log_drops | exact HP].
    - intros w' []. }
  eapply wp_mono; [apply (wp_conj _ _ _ _ _ _ (unwind_map_acct E w Hw) H2) | |]; cbn beta.
  - intros u w' [(_ & _ & _ & _ & _ & Ht) Hd]. split; [exact Hd | exact Ht].
  - intros w' [[] _].
Qed.

(* Clone for Map, from any well-formed empty destination (what sat beyond len
   is leaked by the overwriting writes: [lost]) *)
Lemma clone_acct_gen src (w : world) :
  WF src -> WF (self w) -> len (self w) = 0 -> cap (self w) = cap src ->
  let made := flat_map (ids_pair E) (clone_made src (len src) 0 (cb w)) in
  let orphan := clone_orphans src (len src) 0 (cb w) in
  wp (clone_from_src E src)
     (fun _ w' => WF (self w') /\ cap (self w') = cap (self w) /\ len (self w') = len src /\
                  length (clone_made src (len src) 0 (cb w)) = len src /\
                  dropped (log w') = dropped (log w) /\
                  exists lost, Permutation (owned E (self w') ++ lost) (owned E (self w) ++ made) /\
                               (Tidy (self w) -> lost = [] /\ Tidy (self w')))
     (fun w' => exists d lost, dropped (log w') = dropped (log w) ++ d /\
                               Permutation (owned E (self w') ++ d ++ lost) (owned E (self w) ++ made ++ orphan) /\
                               (Tidy (self w) -> lost = [] /\ owned E (self w') = []))
     w.
Proof.
  intros Hsrc Hw Hl Hc made orphan. unfold clone_from_src.
  apply (wp_finally_drop_gen E _ _ (clone_post src (len src) 0 w false)).
  - apply wp_bind. apply wp_get_cap.
    pose proof (WF_len_le_cap _ Hsrc) as Hle.
    destruct (Nat.leb_spec (len src) (cap src)) as [_|Hgt]; [|lia].
    replace (Nat.min (cap (self w)) (len src)) with (len src) by lia.
    eapply wp_mono; [apply (clone_loop_acct src Hsrc (len src) 0 w Hw Hl); lia | |]; cbn beta.
    + intros _ w' (H1 & H2 & H3 & H4 & lost & H5 & H6). destruct (H4 eq_refl) as [H4a H4b].
      rewrite app_nil_r in H3.
      split; [exact H1|]. split; [exact H2|]. split; [lia|]. split; [exact H4b|]. split; [exact H3|].
      exists lost. auto.
    + intros w' H. exact H.
  - intros w1 (H1 & H2 & H3 & _ & lost & H5 & H6). fold made in H5. fold orphan in H3.
    eapply wp_mono; [apply unwind_map_log; exact H1 | |]; cbn beta; [|intros w' []].
    intros _ w2 [(d & Hd & HP) Ho]. exists (orphan ++ d), lost.
    split; [rewrite Hd, H3, app_assoc; reflexivity|].
    split; [perm_ids|].
    intros Ht. destruct (H6 Ht) as [Hlost Ht1]. split; [exact Hlost | apply Ho; exact Ht1].
Qed.

Lemma owned_empty_tidy (m : map) : len m = 0 -> Tidy m -> owned E m = [].
Proof.
  intros Hl Ht. unfold owned. apply ids_slots_all_none. intros i Hi. apply Ht; [lia | exact Hi].
Qed.

(* C2: Clone into a fresh (tidy, empty) map.
   (i)  normal return: nothing was destroyed, the clone holds exactly the
        objects the Clone callbacks made, the source is a parameter (untouched);
   (ii) a Clone panics: everything the Clone callbacks had made so far — the
        pairs written into the partial clone and the key whose value's Clone
        panicked — is destroyed, each exactly once ([d] is a permutation of
        them), nothing else is, and the abandoned clone holds nothing. *)
Lemma clone_acct src (w : world) :
  WF src -> WF (self w) -> len (self w) = 0 -> cap (self w) = cap src -> Tidy (self w) ->
  let made := flat_map (ids_pair E) (clone_made src (len src) 0 (cb w)) in
  let orphan := clone_orphans src (len src) 0 (cb w) in
  wp (clone_from_src E src)
     (fun _ w' => WF (self w') /\ Tidy (self w') /\ len (self w') = len src /\
                  length (clone_made src (len src) 0 (cb w)) = len src /\
                  dropped (log w') = dropped (log w) /\
                  Permutation (owned E (self w')) made)
     (fun w' => owned E (self w') = [] /\
                exists d, dropped (log w') = dropped (log w) ++ d /\ Permutation d (made ++ orphan))
     w.
Proof.
  intros Hsrc Hw Hl Hc Ht made orphan.
  pose proof (owned_empty_tidy (self w) Hl Ht) as Ho.
  eapply wp_mono; [apply (clone_acct_gen src w Hsrc Hw Hl Hc) | |]; cbn beta.
  - intros _ w' (H1 & H2 & H3 & H4 & H5 & lost & H6 & H7). destruct (H7 Ht) as [-> Ht'].
    split; [exact H1|]. split; [exact Ht'|]. split; [exact H3|]. split; [exact H4|]. split; [exact H5|].
    fold made in H6. rewrite Ho in H6. rewrite app_nil_r in H6. exact H6.
  - intros w' (d & lost & H1 & H2 & H3). destruct (H3 Ht) as [Hlost Ho'].
    split; [exact Ho'|]. exists d. split; [exact H1|].
    fold made orphan in H2. rewrite Hlost, Ho, Ho' in H2. cbn [app] in H2. rewrite app_nil_r in H2. exact H2.
Qed.

(* no identity in two places / destroyed twice, provided the objects the Clone
   callbacks make are new and pairwise distinct *)
Lemma clone_NoDup src (w : world) :
  WF src -> WF (self w) -> len (self w) = 0 -> cap (self w) = cap src -> Tidy (self w) ->
  NoDup (flat_map (ids_pair E) (clone_made src (len src) 0 (cb w)) ++
         clone_orphans src (len src) 0 (cb w) ++ dropped (log w)) ->
  wp (clone_from_src E src)
     (fun _ w' => NoDup (owned E (self w') ++ dropped (log w')))
     (fun w' => NoDup (owned E (self w') ++ dropped (log w'))) w.
Proof.
  intros Hsrc Hw Hl Hc Ht Hn.
  eapply wp_mono; [apply (clone_acct src w Hsrc Hw Hl Hc Ht) | |]; cbn beta.
  - intros _ w' (_ & _ & _ & _ & Hd & HP). rewrite Hd. perm_ids.
  - intros w' (Ho & d & Hd & HP). rewrite Hd, Ho. cbn [app]. perm_ids.
Qed.

End CloneOwned.

(* ================================================================== *)
(* Part C3 — Sub for Set:  &a - &b                                     *)
(* ================================================================== *)
Section SetSubOwned.
Context {K Q T : Type} (E : env K unit Q T) (debug : bool) (HU : idV E tt = []).
Notation M := (M K unit T). Notation world := (world K unit T). Notation smap := (map K unit).

Local Notation ids_keys l := (flat_map (fun k => ids_pair E (k, tt)) l).

(* reading a shared-borrowed operand neither stores, destroys nor logs *)
Lemma difference_quiet (a : smap) (w : world) :
  WF a ->
  wp (difference a) (fun c w' => self w' = self w /\ log w' = log w /\ c = (0, len a))
     (fun w' => self w' = self w /\ log w' = log w) w.
Proof.
  intros [Hl _]. unfold difference. apply Safety2.wp_on_map. unfold iter.
  apply wp_bind. apply wp_p_prefix; simp_w; [intros _ | lia].
  apply wp_bind. apply wp_get_len. apply wp_ret. simp_w. auto.
Qed.

Lemma contains_in_quiet (b : smap) k (w : world) :
  WF b ->
  wp (contains_in E b k) (fun _ w' => self w' = self w /\ log w' = log w)
     (fun w' => self w' = self w /\ log w' = log w) w.
Proof.
  intros Hb. unfold contains_in. apply Safety2.wp_on_map. apply wp_bind.
  eapply wp_mono; [apply scan_quiet; [intros; apply quiet_test_k | simp_w; exact Hb] | |]; cbn beta.
  - intros r w' (Hs & Hg & _). apply wp_ret. simp_w. auto.
  - intros w' [Hs Hg]. simp_w. auto.
Qed.

Lemma filter_next_quiet (a b : smap) want n : forall lo (w : world),
  WF a -> WF b -> lo + n <= len a ->
  wp (filter_next E a b want n lo)
     (fun r w' => self w' = self w /\ log w' = log w /\
                  match fst r with
                  | Some i => lo <= i < lo + n /\ snd r = (S i, lo + n)
                  | None => snd r = (lo + n, lo + n)
                  end)
     (fun w' => self w' = self w /\ log w' = log w) w.
Proof.
  induction n as [|n IH]; intros lo w Ha Hb Hn; cbn [filter_next].
  - apply wp_ret. split; [reflexivity|]. split; [reflexivity|]. cbn [fst snd]. f_equal; lia.
  - assert (Hlo : lo < len a) by lia.
    destruct (WF_live _ _ Ha Hlo) as [[k u] Hp]. rewrite Hp. cbn beta iota.
    apply wp_bind. eapply wp_mono; [apply contains_in_quiet; exact Hb | |]; cbn beta.
    + intros inb w' [Hs Hg]. destruct (Bool.eqb inb want).
      * apply wp_ret. cbn [fst snd]. split; [exact Hs|]. split; [exact Hg|]. split; [lia|]. f_equal; lia.
      * eapply wp_mono; [apply IH; [exact Ha | exact Hb | lia] | |]; cbn beta.
        -- intros r w'' (Hs' & Hg' & Hr). split; [congruence|]. split; [congruence|].
           destruct (fst r) as [i|].
           ++ destruct Hr as [Hr1 Hr2]. split; [lia|]. rewrite Hr2. f_equal; lia.
           ++ rewrite Hr. f_equal; lia.
        -- intros w'' [Hs' Hg']. split; congruence.
    + intros w' H. exact H.
Qed.

(* provenance of the objects the result set is made of *)
Definition cloned_from (a : smap) (k' : K) : Prop :=
  exists i k s s', nth_error (slots a) i = Some (Some (k, tt)) /\ cloneK E s k = (Some k', s').

Definition sub_postN (a : smap) (w w' : world) : Prop :=
  exists made, Forall (cloned_from a) made /\ cpostN E w (ids_keys made) [] w'.
Definition sub_postP (a : smap) (w w' : world) : Prop :=
  exists made, Forall (cloned_from a) made /\ cpostP E w (ids_keys made) w'.

Lemma sub_loop_acct (a b : smap) :
  WF a -> WF b ->
  forall fuel (c : cursor) (w : world),
    WF (self w) -> fst c <= snd c -> snd c <= len a -> cursor_len c < fuel ->
    wp (sub_loop E debug a b fuel c) (fun _ => sub_postN a w) (sub_postP a w) w.
Proof.
  intros Ha Hb. induction fuel as [|fuel IH]; intros c w Hw H1 H2 Hf; [lia|].
  cbn [sub_loop]. apply wp_bind. unfold diff_next.
  assert (Hc : fst c + cursor_len c = snd c) by (unfold cursor_len; lia).
  eapply wp_mono; [apply filter_next_quiet; [exact Ha | exact Hb | lia] | |]; cbn beta.
  - intros [r c'] w1 (Hs1 & Hg1 & Hr). cbn [fst snd] in Hr.
    assert (Hd1 : dropped (log w1) = dropped (log w)) by (rewrite Hg1; reflexivity).
    destruct r as [i|].
    + destruct Hr as [Hi ->].
      assert (Hia : i < len a) by lia.
      destruct (WF_live _ _ Ha Hia) as [[k []] Hp]. rewrite Hp. cbn beta iota.
      unfold clone_key. apply wp_bind. apply wp_bind. apply wp_emit. apply wp_cbo_eq. simp_w.
      destruct (cloneK E (cb w1) k) as [[k'|] s'] eqn:Hck; cbn [fst snd].
      * set (w2 := with_cb _ s').
        assert (Hs2 : self w2 = self w) by exact Hs1.
        assert (Hd2 : dropped (log w2) = dropped (log w)).
        { unfold w2. simp_w. rewrite dropped_app, dropped_cloneK, app_nil_r. exact Hd1. }
        assert (Hw2 : WF (self w2)) by (rewrite Hs2; exact Hw).
        assert (Hcf : cloned_from a k') by (exists i, k, (cb w1), s'; auto).
        apply wp_bind.
        eapply wp_mono; [apply (conserves_s_insert_unit E debug HU k' w2 Hw2) | |]; cbn beta.
        -- intros _ w3 H3. apply (cpostN_base E w w2 w3 _ _ Hs2 Hd2) in H3.
           assert (Hw3 : WF (self w3)) by apply H3.
           eapply wp_mono; [apply (IH (S i, fst c + cursor_len c) w3 Hw3) | |]; cbn beta.
           ++ cbn [fst snd]. lia.
           ++ cbn [fst snd]. lia.
           ++ unfold cursor_len in *. cbn [fst snd]. lia.
           ++ intros _ w4 (made & Hm & H4). exists (k' :: made). split; [constructor; assumption|].
              cbn [flat_map]. exact (cpostN_trans E (ids_keys made) _ _ _ _ _ _ H3 H4).
           ++ intros w4 (made & Hm & H4). exists (k' :: made). split; [constructor; assumption|].
              cbn [flat_map]. exact (cpostNP_trans E (ids_keys made) _ _ _ _ _ H3 H4).
        -- intros w3 H3. apply (cpostP_base E w w2 w3 _ Hs2 Hd2) in H3.
           exists [k']. split; [constructor; [assumption | constructor]|].
           cbn [flat_map]. rewrite app_nil_r. exact H3.
      * exists []. split; [constructor|]. cbn [flat_map].
        apply cpostP_refl; [exact Hw | exact Hs1 |].
        simp_w. rewrite dropped_app, dropped_cloneK, app_nil_r. exact Hd1.
    + apply wp_ret. exists []. split; [constructor|]. cbn [flat_map]. apply cpostN_refl; auto.
  - intros w1 [Hs1 Hg1]. exists []. split; [constructor|]. cbn [flat_map].
    apply cpostP_refl; [exact Hw | exact Hs1 | rewrite Hg1; reflexivity].
Qed.

(* C3.  The operands are parameters of the computation (shared borrows): they
   cannot change.  Everything the result set stores, and everything destroyed
   on the way (a clone whose equal is already present; the partial result when
   something panics), is one of the objects [made] by K::clone from an element
   of [a]; nothing else enters or leaves the ledger. *)
Lemma set_sub_acct (a b : smap) (w : world) :
  WF a -> WF b -> WF (self w) ->
  wp (set_sub E debug a b)
     (fun _ w' => WF (self w') /\ cap (self w') = cap (self w) /\
                  exists made, Forall (cloned_from a) made /\
                  exists lost, acct E w w' (ids_keys made) [] lost /\
                               (Tidy (self w) -> lost = [] /\ Tidy (self w')))
     (fun w' => exists made, Forall (cloned_from a) made /\
                exists lost, acct E w w' (ids_keys made) [] lost) w.
Proof.
  intros Ha Hb Hw. unfold set_sub.
  apply (wp_finally_drop_gen E _ _ (sub_postP a w)).
  - apply wp_bind. eapply wp_mono; [apply difference_quiet; exact Ha | |]; cbn beta.
    + intros c w1 (Hs1 & Hg1 & ->).
      assert (Hd1 : dropped (log w1) = dropped (log w)) by (rewrite Hg1; reflexivity).
      assert (Hw1 : WF (self w1)) by (rewrite Hs1; exact Hw).
      eapply wp_mono; [apply (sub_loop_acct a b Ha Hb _ (0, len a) w1 Hw1) | |]; cbn beta.
      * cbn [fst snd]. lia.
      * cbn [fst snd]. lia.
      * lia.
      * intros _ w2 (made & Hm & H2). apply (cpostN_base E w w1 w2 _ _ Hs1 Hd1) in H2.
        destruct H2 as (H2a & H2b & lost & H2c & H2d).
        split; [exact H2a|]. split; [exact H2b|]. exists made. split; [exact Hm|]. exists lost. auto.
      * intros w2 (made & Hm & H2). apply (cpostP_base E w w1 w2 _ Hs1 Hd1) in H2.
        exists made. auto.
    + intros w1 [Hs1 Hg1]. exists []. split; [constructor|]. cbn [flat_map].
      apply cpostP_refl; [exact Hw | exact Hs1 | rewrite Hg1; reflexivity].
  - intros w1 (made & Hm & Hw1 & Hc1 & lost & HP).
    eapply wp_mono; [apply unwind_map_acct_nolost; exact Hw1 | |]; cbn beta.
    + intros _ w2 H. exists made. split; [exact Hm|]. exists lost. unfold acct in *. perm_ids.
    + intros w2 H. exists made. split; [exact Hm|]. exists lost. unfold acct in *. perm_ids.
Qed.

End SetSubOwned.
