// Element-shape oracles: direct checks on the real crate with element types the
// model-correspondence suites do not use (the theorems are polymorphic in K and
// V; these runs look for shape-dependent code paths in the implementation):
// no-Drop types with an observable Clone, ZST keys/values, small Copy, large
// payloads.  Each failure is one FAULT line.
use crate::elems::{fault, ALLOCS, COUNTING};
use micromap::{IntoIter, IntoKeys, IntoValues, Iter, IterMut, Keys, Map, Set, Values, ValuesMut};
use std::cell::Cell;
use std::fmt::Write as FmtWrite;
use std::panic::{catch_unwind, AssertUnwindSafe};

thread_local! {
    static KCLONES: Cell<u64> = const { Cell::new(0) };
    static VCLONES: Cell<u64> = const { Cell::new(0) };
}

// no Drop glue, but Clone is observable
#[derive(Debug)]
struct CK { id: u64, gen: u32, seen: Cell<u32> }
impl PartialEq for CK { fn eq(&self, o: &CK) -> bool { self.id == o.id } }
impl Clone for CK { fn clone(&self) -> CK { KCLONES.with(|c| c.set(c.get() + 1)); self.seen.set(self.seen.get() + 1); CK { id: self.id, gen: self.gen + 1, seen: Cell::new(0) } } }
#[derive(Debug)]
struct CV { dat: u64, gen: u32, seen: Cell<u32> }
impl PartialEq for CV { fn eq(&self, o: &CV) -> bool { self.dat == o.dat } }
impl Clone for CV { fn clone(&self) -> CV { VCLONES.with(|c| c.set(c.get() + 1)); self.seen.set(self.seen.get() + 1); CV { dat: self.dat, gen: self.gen + 1, seen: Cell::new(0) } } }

fn clone_counts<const N: usize>() {
    for fill in 0..=N {
        let mut m: Map<CK, CV, N> = Map::new();
        for i in 0..fill { m.insert(CK { id: i as u64, gen: 0, seen: Cell::new(0) }, CV { dat: 10 * i as u64, gen: 0, seen: Cell::new(0) }); }
        if fill >= 2 { m.remove(&CK { id: 0, gen: 0, seen: Cell::new(0) }); }
        let len = m.len() as u64;
        KCLONES.with(|c| c.set(0)); VCLONES.with(|c| c.set(0));
        let c = m.clone();
        let (kc, vc) = (KCLONES.with(|c| c.get()), VCLONES.with(|c| c.get()));
        if kc != len || vc != len {
            fault(format!("op=shapes CLONE_COUNT Map<no-Drop K, no-Drop V, {}>::clone of {} entries called K::clone {} times and V::clone {} times", N, len, kc, vc));
        }
        if c.iter().any(|(k, v)| k.gen != 1 || v.gen != 1) {
            fault(format!("op=shapes CLONE_COUNT Map<_,_,{}>::clone stored elements that did not come from exactly one clone() call", N));
        }
        if m.iter().any(|(k, v)| k.seen.get() != 1 || v.seen.get() != 1) || c.iter().any(|(k, v)| k.seen.get() != 0 || v.seen.get() != 0) {
            fault(format!("op=shapes CLONE_SELF Map<_,_,{}>::clone did not call clone() exactly once on each element stored in the source (what clone() does to its receiver is lost)", N));
        }
        if c != m || c.len() != m.len() {
            fault(format!("op=shapes CLONE_EQ clone of a Map<_,_,{}> with {} entries does not compare equal", N, len));
        }
        let mut s: Set<CK, N> = Set::new();
        for i in 0..fill { s.insert(CK { id: i as u64, gen: 0, seen: Cell::new(0) }); }
        KCLONES.with(|c| c.set(0));
        let sc = s.clone();
        if s.iter().any(|k| k.seen.get() != 1) {
            fault(format!("op=shapes CLONE_SELF Set<_,{}>::clone did not call clone() exactly once on each element stored in the source", N));
        }
        if KCLONES.with(|c| c.get()) != s.len() as u64 || sc.iter().any(|k| k.gen != 1) {
            fault(format!("op=shapes CLONE_COUNT Set<no-Drop T, {}>::clone of {} elements: wrong number of clone() calls", N, s.len()));
        }
    }
}

// zero-sized element types whose Clone and Drop are nevertheless observable (tokens, permits): every stored element is
// cloned exactly once by clone(), and clone + original together are destroyed exactly once each
thread_local! { static ZLIVE: Cell<i64> = const { Cell::new(0) }; static ZCLONES: Cell<u64> = const { Cell::new(0) }; }
#[derive(Debug, PartialEq)]
struct Permit;
impl Permit { fn new() -> Permit { ZLIVE.with(|c| c.set(c.get() + 1)); Permit } }
impl Clone for Permit { fn clone(&self) -> Permit { ZCLONES.with(|c| c.set(c.get() + 1)); Permit::new() } }
impl Drop for Permit { fn drop(&mut self) { ZLIVE.with(|c| c.set(c.get() - 1)); } }
fn zst_clone_counts() {
    for fill in 0..=3u8 {
        ZLIVE.with(|c| c.set(0));
        {
            let mut m: Map<u8, Permit, 3> = Map::new();
            for i in 0..fill { m.insert(i, Permit::new()); }
            ZCLONES.with(|c| c.set(0));
            let c = m.clone();
            let (cl, live) = (ZCLONES.with(|c| c.get()), ZLIVE.with(|c| c.get()));
            if cl != fill as u64 || live != 2 * fill as i64 { fault(format!("op=shapes CLONE_COUNT Map<u8, zero-sized V with Clone + Drop, 3>::clone of {} entries called V::clone {} times; {} values alive afterwards (expected {})", fill, cl, live, 2 * fill)); }
            drop(c);
            if ZLIVE.with(|c| c.get()) != fill as i64 { fault(format!("op=shapes CLONE_COUNT dropping the clone of a Map<u8, zero-sized V, 3> with {} entries leaves {} values alive (the original still holds {})", fill, ZLIVE.with(|c| c.get()), fill)); }
            let mut k: Map<Permit, u8, 1> = Map::new();
            if fill > 0 { k.insert(Permit::new(), 1); }
            let before = ZLIVE.with(|c| c.get());
            let kc = k.clone();
            if ZLIVE.with(|c| c.get()) != before + k.len() as i64 || kc.len() != k.len() { fault("op=shapes CLONE_COUNT Map<zero-sized K with Clone + Drop, u8, 1>::clone did not clone the key exactly once".into()); }
            let mut s: Set<Permit, 1> = Set::new();
            if fill > 0 { s.insert(Permit::new()); }
            let before = ZLIVE.with(|c| c.get());
            let sc = s.clone();
            if ZLIVE.with(|c| c.get()) != before + s.len() as i64 || sc.len() != s.len() { fault("op=shapes CLONE_COUNT Set<zero-sized T with Clone + Drop, 1>::clone did not clone the element exactly once".into()); }
        }
        if ZLIVE.with(|c| c.get()) != 0 { fault(format!("op=shapes CLONE_COUNT zero-sized elements with Drop: {} alive after every container was dropped", ZLIVE.with(|c| c.get()))); }
    }
}

const CANARY: u64 = 0x5afe_5afe_5afe_5afe;
#[repr(C)]
struct G<T> { pre: [u64; 4], v: T, post: [u64; 4] }
impl<T> G<T> {
    fn new(v: T) -> Self { G { pre: [CANARY; 4], v, post: [CANARY; 4] } }
    fn ok(&self) -> bool { self.pre.iter().chain(self.post.iter()).all(|x| *x == CANARY) }
}

// a full container rejects a new key cleanly, whatever the element shape
fn overflow_shape<K: PartialEq + Clone + std::fmt::Debug, V: PartialEq + Clone + std::fmt::Debug, const N: usize>(
    name: &str, keys: &[K], extra: K, val: V) {
    let mut g = G::new(Map::<K, V, N>::new());
    for k in keys.iter().take(N) { g.v.insert(k.clone(), val.clone()); }
    if g.v.len() != N.min(keys.len()) { return; }
    let before: Vec<(K, V)> = g.v.iter().map(|(k, v)| (k.clone(), v.clone())).collect();
    if keys.iter().take(N).any(|k| *k == extra) {
        // the "new" key is not new for this shape (e.g. the only value of a ZST key): replacement must work
        if g.v.insert(extra.clone(), val.clone()).is_none() || g.v.len() != before.len() || !g.ok() {
            fault(format!("op=shapes OVERFLOW_STATE {}: replacing the present key on a full Map<_,_,{}> failed", name, N));
        }
        return;
    }
    let r = catch_unwind(AssertUnwindSafe(|| { g.v.insert(extra.clone(), val.clone()); }));
    if r.is_ok() { fault(format!("op=shapes OVERFLOW_OK {}: insert of a new key into a full Map<_,_,{}> did not panic", name, N)); }
    if !g.ok() { fault(format!("op=shapes CANARY {}: memory next to a full Map<_,_,{}> was overwritten by a rejected insert", name, N)); }
    let after: Vec<(K, V)> = g.v.iter().map(|(k, v)| (k.clone(), v.clone())).collect();
    if g.v.len() != before.len() || after != before {
        fault(format!("op=shapes OVERFLOW_STATE {}: a rejected insert changed a full Map<_,_,{}>", name, N));
    }
    if g.v.checked_insert(extra.clone(), val.clone()).is_some() {
        fault(format!("op=shapes OVERFLOW_STATE {}: checked_insert of a new key into a full Map<_,_,{}> did not return None", name, N));
    }
    let r = catch_unwind(AssertUnwindSafe(|| { g.v.entry(extra.clone()).or_insert(val.clone()); }));
    if r.is_ok() { fault(format!("op=shapes OVERFLOW_OK {}: entry().or_insert of a new key into a full Map<_,_,{}> did not panic", name, N)); }
    if !g.ok() || g.v.len() != before.len() { fault(format!("op=shapes OVERFLOW_STATE {}: entry insert damaged a full Map<_,_,{}>", name, N)); }
    if g.v.capacity() != N || g.v.len() > N { fault(format!("op=shapes LEN_GT_CAP {}: len {} capacity {}", name, g.v.len(), g.v.capacity())); }
    if let Some(k0) = keys.first() {
        if N > 0 && g.v.insert(k0.clone(), val.clone()).is_none() {
            fault(format!("op=shapes OVERFLOW_STATE {}: replacing a present key on a full Map<_,_,{}> reported it absent", name, N));
        }
    }
}

struct Buf { b: [u8; 4096], n: usize }
impl FmtWrite for Buf {
    fn write_str(&mut self, s: &str) -> std::fmt::Result {
        let bs = s.as_bytes();
        if self.n + bs.len() > self.b.len() { return Err(std::fmt::Error); }
        self.b[self.n..self.n + bs.len()].copy_from_slice(bs); self.n += bs.len(); Ok(())
    }
}

// no allocator call in any operation on non-allocating element types
fn no_alloc() {
    let a0 = ALLOCS.with(|a| a.get());
    COUNTING.with(|c| c.set(true));
    let r = catch_unwind(|| {
        let mut m: Map<u64, [u64; 4], 8> = Map::new();
        for i in 0..8u64 { m.insert(i, [i; 4]); }
        let _ = m.get(&3); let _ = m.get_mut(&4); let _ = m.contains_key(&9); let _ = m.get_key_value(&1);
        m.remove(&2); m.remove_entry(&0); m.checked_insert(20, [0; 4]); m.insert_key_value(3, [9; 4]);
        m.retain(|k, _| k % 2 == 1);
        *m.entry(5).or_insert([1; 4]) = [2; 4]; m.entry(77).or_insert_with(|| [7; 4]); m.entry(5).and_modify(|v| v[0] += 1).or_default();
        let [_a, _b] = m.get_disjoint_mut([&5, &77]);
        let c = m.clone(); let _ = c == m;
        let mut n = 0u64; for (k, v) in &m { n += k + v[0]; } for v in m.values_mut() { v[0] += n; }
        let _ = m.keys().count() + m.values().count() + m.iter().len();
        let mut b = Buf { b: [0; 4096], n: 0 };
        let _ = write!(b, "{:?} {:#?} {:>50?}", m, c, m);
        let d: Map<u64, u64, 4> = [(1, 1), (2, 2), (1, 3)].into_iter().collect(); let _ = write!(b, "{} {:>30} {:<5}", d, d, d);
        let _: u64 = m.drain().map(|(k, _)| k).sum(); let _: u64 = c.into_iter().map(|(k, _)| k).sum();
        let s1: Set<u32, 6> = [1, 2, 3, 4].into_iter().collect(); let mut s2: Set<u32, 4> = Set::from([3, 4, 5, 6]);
        let _ = s1.union(&s2).count() + s1.intersection(&s2).count() + s1.difference(&s2).count() + s1.symmetric_difference(&s2).count();
        let _ = s1.is_subset(&s2) | s1.is_disjoint(&s2) | s2.is_superset(&s1); let s3 = &s1 - &s2; let _ = s3 == s1;
        s2.retain(|x| *x > 4); s2.extend([7u32, 8].iter()); let _ = s2.take(&5); let _ = s2.replace(6);
        let _ = write!(b, "{} {:?} {:#?} {:>20}", s1, s2, s3, s1);
        let _ = write!(b, "{:?} {:?} {:?}", s1.iter().len(), s1.union(&s2), s1.difference(&s3));
        let z: Map<(), (), 1> = Map::new(); let _ = z.len(); let mut zs: Set<(), 1> = Set::new(); zs.insert(()); let _ = zs.contains(&());
        // containers larger than a page (a "too big for the stack" special case would go to the heap)
        let mut big: Map<u32, u32, 600> = Map::new(); for i in 0..40u32 { big.insert(i, i); }
        let bc = big.clone(); let _ = bc == big; let _ = big.get(&7); big.remove(&3); big.retain(|k, _| k % 2 == 0); let _ = big.iter().count();
        let e: Map<u64, u64, 512> = Map::new(); let ec = e.clone(); let _ = ec.len();
        let mut wide: Map<u8, [u64; 128], 8> = Map::new(); wide.insert(1, [1; 128]); let wc = wide.clone(); let _ = wc.len(); let _ = wide.drain().count();
        let mut bs: Set<[u8; 32], 200> = Set::new(); bs.insert([1; 32]); bs.insert([2; 32]); let bsc = bs.clone(); let _ = bsc == bs; let _ = bs.union(&bsc).count(); let _ = (&bs - &bsc).len();
        let col: Set<[u8; 32], 200> = bs.iter().copied().collect(); let _ = col.len(); let _ = bsc.into_iter().count();
    });
    COUNTING.with(|c| c.set(false));
    let a1 = ALLOCS.with(|a| a.get());
    if r.is_err() { fault("op=shapes SHAPES_PANIC the allocation-free scenario panicked".into()); }
    else if a1 != a0 { fault(format!("op=shapes ALLOC {} allocator calls in container operations on non-allocating element types", a1 - a0)); }
}


// the Default constants of the iterator types are empty, exact and fused; Extend<&T>
// (Copy elements) equals Extend<T> of the copies, overflow included
fn misc_surface() {
    fn empty<I: Iterator + ExactSizeIterator + std::fmt::Debug>(name: &str, mut it: I) {
        if it.len() != 0 || it.size_hint() != (0, Some(0)) { fault(format!("op=shapes ITER_DEFAULT {}::default() reports len {} size_hint {:?}", name, it.len(), it.size_hint())); }
        if format!("{:?}", it) != "[]" { fault(format!("op=shapes ITER_DEFAULT {}::default() renders as {:?}", name, format!("{:?}", it))); }
        if it.next().is_some() || it.next().is_some() || it.len() != 0 { fault(format!("op=shapes ITER_DEFAULT {}::default() yields an item", name)); }
    }
    empty("Iter", Iter::<u32, String>::default());
    empty("IterMut", IterMut::<u32, String>::default());
    empty("IntoIter", IntoIter::<u32, String, 3>::default());
    empty("IntoIter<_,_,0>", IntoIter::<String, u8, 0>::default());
    empty("Keys", Keys::<u32, String>::default());
    empty("Values", Values::<u32, String>::default());
    empty("ValuesMut", ValuesMut::<u32, String>::default());
    empty("IntoKeys", IntoKeys::<String, u32, 2>::default());
    empty("IntoValues", IntoValues::<u32, String, 2>::default());
    // Extend<&T>
    let srcs: [&[u32]; 5] = [&[], &[1], &[1, 2, 1, 3], &[4, 4, 4, 4, 4, 4], &[5, 6, 7, 8, 9]];
    for pre in 0..=3u32 {
        for src in srcs.iter() {
            let mut a: Set<u32, 4> = Set::new(); let mut b: Set<u32, 4> = Set::new();
            for i in 0..pre { a.insert(100 + i); b.insert(100 + i); }
            let ra = catch_unwind(AssertUnwindSafe(|| a.extend(src.iter())));
            let rb = catch_unwind(AssertUnwindSafe(|| b.extend(src.iter().copied())));
            let (va, vb): (Vec<u32>, Vec<u32>) = (a.iter().copied().collect(), b.iter().copied().collect());
            if ra.is_ok() != rb.is_ok() || va != vb || a.len() != b.len() {
                fault(format!("op=shapes EXTEND_REF Set<u32,4> with {} elements: extend(&items {:?}) gives {:?} (panicked: {}), extend(items) gives {:?} (panicked: {})", pre, src, va, ra.is_err(), vb, rb.is_err()));
            }
        }
    }
}

// ---------------------------------------------------------------------------------------------
// Reference-model differential over element SHAPES.  The theorems are polymorphic in K and V and
// the model-correspondence suites run on one instrumented element type; this drives every safe
// Map / Set operation on other layouts (zero-sized pairs, ZST key or value, 1-byte, large, heap
// owning) against an association-list / vector reference that only uses ==.
struct Lcg(u64);
impl Lcg {
    fn below(&mut self, n: usize) -> usize {
        self.0 = self.0.wrapping_mul(6364136223846793005).wrapping_add(1442695040888963407);
        ((self.0 >> 33) as usize) % n.max(1)
    }
}
trait El: Eq + Clone + std::fmt::Debug {}
impl<T: Eq + Clone + std::fmt::Debug> El for T {}

fn map_agrees<K: El, V: El, const N: usize>(m: &Map<K, V, N>, r: &[(K, V)], universe: &[K]) -> Result<(), String> {
    if m.len() != r.len() || m.is_empty() != r.is_empty() || m.capacity() != N { return Err(format!("len {} is_empty {} capacity {} but the reference holds {} entries", m.len(), m.is_empty(), m.capacity(), r.len())); }
    let it: Vec<(&K, &V)> = m.iter().collect();
    if it.len() != r.len() || m.keys().count() != r.len() || m.values().count() != r.len() || m.iter().len() != r.len() { return Err(format!("iteration yields {} entries, keys() {}, values() {}, the reference holds {}", it.len(), m.keys().count(), m.values().count(), r.len())); }
    for (k, v) in r {
        if it.iter().filter(|(a, _)| *a == k).count() != 1 || !it.iter().any(|(a, b)| *a == k && *b == v) { return Err(format!("iteration does not yield {:?} -> {:?} exactly once: {:?}", k, v, it)); }
        if m.get(k) != Some(v) { return Err(format!("get({:?}) = {:?}, the reference says {:?}", k, m.get(k), v)); }
        if !m.contains_key(k) { return Err(format!("contains_key({:?}) = false for a present key", k)); }
        if m.get_key_value(k) != Some((k, v)) { return Err(format!("get_key_value({:?}) = {:?}", k, m.get_key_value(k))); }
        match catch_unwind(AssertUnwindSafe(|| m[k] == *v)) { Ok(true) => {}, Ok(false) => return Err(format!("m[{:?}] is not {:?}", k, v)), Err(_) => return Err(format!("m[{:?}] panics for a present key", k)) }
    }
    for k in universe {
        if r.iter().any(|(a, _)| a == k) { continue; }
        if m.get(k).is_some() || m.contains_key(k) || m.get_key_value(k).is_some() { return Err(format!("lookup finds the absent key {:?}", k)); }
        if catch_unwind(AssertUnwindSafe(|| { let _ = &m[k]; })).is_ok() { return Err(format!("m[{:?}] does not panic for an absent key", k)); }
    }
    Ok(())
}

fn dict_shape<K: El, V: El, const N: usize>(name: &str, universe: &[K], vals: &[V], seed: u64) {
    if catch_unwind(AssertUnwindSafe(|| dict_shape_run::<K, V, N>(name, universe, vals, seed))).is_err() {
        fault(format!("op=shapes SHAPE_DICT {} Map<_,_,{}>: an operation that must not panic panicked (seed {})", name, N, seed));
    }
}
fn dict_shape_run<K: El, V: El, const N: usize>(name: &str, universe: &[K], vals: &[V], seed: u64) {
    if cfg!(miri) && N > 8 { return; } // the interpreter is ~500x slower; the small layouts carry the UB search
    let mut g = G::new(Map::<K, V, N>::new());
    let mut r: Vec<(K, V)> = Vec::new();
    let mut rng = Lcg(seed);
    for step in 0..(if cfg!(miri) { 70 + N.min(40) } else { 400 + 12 * N }) {
        let k = universe[rng.below(universe.len())].clone();
        let v = vals[rng.below(vals.len())].clone();
        let pos = r.iter().position(|(a, _)| *a == k);
        let opn = rng.below(17);
        let m = &mut g.v;
        let mut bad: Option<String> = None;
        let mut expect = |ok: bool, what: String| { if !ok && bad.is_none() { bad = Some(what); } };
        match opn {
            0 | 1 | 2 => match (pos, r.len() < N) {
                (Some(i), _) => { let old = std::mem::replace(&mut r[i].1, v.clone()); let got = m.insert(k.clone(), v); expect(got == Some(old), format!("insert({:?}) on a present key returned {:?}", k, got)); }
                (None, true) => { r.push((k.clone(), v.clone())); let got = m.insert(k.clone(), v); expect(got.is_none(), format!("insert({:?}) of a new key returned {:?}", k, got)); }
                (None, false) => { let p = catch_unwind(AssertUnwindSafe(|| { m.insert(k.clone(), v); })); expect(p.is_err(), format!("insert({:?}) into a full map did not panic", k)); }
            },
            3 => match (pos, r.len() < N) {
                (Some(i), _) => { let old = std::mem::replace(&mut r[i].1, v.clone()); let got = m.checked_insert(k.clone(), v); expect(got == Some(Some(old)), format!("checked_insert({:?}) on a present key returned {:?}", k, got)); }
                (None, true) => { r.push((k.clone(), v.clone())); let got = m.checked_insert(k.clone(), v); expect(got == Some(None), format!("checked_insert({:?}) of a new key returned {:?}", k, got)); }
                (None, false) => { let got = m.checked_insert(k.clone(), v); expect(got.is_none(), format!("checked_insert({:?}) into a full map returned {:?}", k, got)); }
            },
            4 => match (pos, r.len() < N) {
                (Some(i), _) => { let old = std::mem::replace(&mut r[i], (k.clone(), v.clone())); let got = m.insert_key_value(k.clone(), v); expect(got == Some(old), format!("insert_key_value({:?}) on a present key returned {:?}", k, got)); }
                (None, true) => { r.push((k.clone(), v.clone())); let got = m.insert_key_value(k.clone(), v); expect(got.is_none(), format!("insert_key_value({:?}) of a new key returned {:?}", k, got)); }
                (None, false) => { let p = catch_unwind(AssertUnwindSafe(|| { m.insert_key_value(k.clone(), v); })); expect(p.is_err(), format!("insert_key_value({:?}) into a full map did not panic", k)); }
            },
            5 => { let got = m.get_mut(&k); expect(got.is_some() == pos.is_some(), format!("get_mut({:?}) presence {:?}", k, got.is_some()));
                   if let (Some(x), Some(i)) = (got, pos) { *x = v.clone(); r[i].1 = v; } }
            6 => { let got = m.remove(&k); let want = pos.map(|i| r.swap_remove(i).1); expect(got == want, format!("remove({:?}) returned {:?}, the reference {:?}", k, got, want)); }
            7 => { let got = m.remove_entry(&k); let want = pos.map(|i| r.swap_remove(i)); expect(got == want, format!("remove_entry({:?}) returned {:?}, the reference {:?}", k, got, want)); }
            8 => { let keep = |x: &K| universe.iter().position(|u| u == x).unwrap_or(0) % 2 == step % 2; let mut calls = 0;
                   m.retain(|a, _| { calls += 1; keep(a) }); expect(calls == r.len(), format!("retain called its predicate {} times on {} entries", calls, r.len())); r.retain(|(a, _)| keep(a)); }
            9 => { if rng.below(4) == 0 { m.clear(); r.clear(); } }
            10 => { if rng.below(3) == 0 { let take = rng.below(r.len() + 2); let got: Vec<(K, V)> = m.drain().take(take).collect();
                   expect(got.len() == take.min(r.len()) && got.iter().all(|(a, b)| r.iter().any(|(c, d)| a == c && b == d)), format!("drain().take({}) yielded {:?} from {:?}", take, got, r)); r.clear(); } }
            11 => match (pos, r.len() < N) {
                (Some(i), _) => {
                    // every reference handed to a user closure or returned points INTO the container value (also for
                    // plain-data values, which code may be tempted to copy out and back)
                    let (lo, hi) = (m as *const Map<K, V, N> as usize, m as *const Map<K, V, N> as usize + std::mem::size_of::<Map<K, V, N>>());
                    let inside = |a: usize, sz: usize| sz == 0 || (a >= lo && a + sz <= hi);
                    let (vs, ks) = (std::mem::size_of::<V>(), std::mem::size_of::<K>());
                    let mut seen = 0usize;
                    let e = m.entry(k.clone()).and_modify(|x| { seen = x as *mut V as usize; });
                    let ka = e.key() as *const K as usize;
                    let got = e.or_insert(v.clone()); let ga = got as *mut V as usize;
                    expect(*got == r[i].1, format!("entry({:?}).and_modify(..).or_insert on a present key gives {:?}", k, got));
                    expect(inside(seen, vs) && inside(ga, vs) && inside(ka, ks) && (vs == 0 || seen == ga), format!("entry({:?}): and_modify showed its closure a value at {:#x}, or_insert returned {:#x}, key() {:#x}: not (the same place) inside the map {:#x}..{:#x}", k, seen, ga, ka, lo, hi));
                    let ra = m.get(&k).map(|x| x as *const V as usize).unwrap_or(lo); let ma = m.get_mut(&k).map(|x| x as *mut V as usize).unwrap_or(lo);
                    expect(vs == 0 || (ra == ga && ma == ga), format!("get / get_mut of {:?} point at {:#x} / {:#x}, the entry API at {:#x}", k, ra, ma, ga));
                    let mut bad_ref = None;
                    m.retain(|a, b| { let (x, y) = (a as *const K as usize, b as *mut V as usize); if !(inside(x, ks) && inside(y, vs)) { bad_ref = Some((x, y)); } true });
                    expect(bad_ref.is_none(), format!("retain handed its predicate references outside the map: {:?}", bad_ref));
                    let mut bad_it = None;
                    for (a, b) in m.iter_mut() { let (x, y) = (a as *const K as usize, b as *mut V as usize); if !(inside(x, ks) && inside(y, vs)) { bad_it = Some((x, y)); } }
                    for b in m.values_mut() { let y = b as *mut V as usize; if !inside(y, vs) { bad_it = Some((0, y)); } }
                    expect(bad_it.is_none(), format!("iter_mut / values_mut yield references outside the map: {:?}", bad_it));
                }
                (None, true) => { r.push((k.clone(), v.clone())); let got = m.entry(k.clone()).or_insert(v.clone()); expect(*got == v, format!("entry({:?}).or_insert on a vacant key gives {:?}", k, got)); }
                (None, false) => { let p = catch_unwind(AssertUnwindSafe(|| { m.entry(k.clone()).or_insert(v); })); expect(p.is_err(), format!("entry({:?}).or_insert into a full map did not panic", k)); }
            },
            12 => { let c = m.clone(); expect(c == *m && c.len() == r.len(), "the clone differs from the original".to_string());
                    let all: Vec<(K, V)> = c.into_iter().collect(); expect(all.len() == r.len() && r.iter().all(|p| all.contains(p)), format!("into_iter of the clone yields {:?}, the reference holds {:?}", all, r)); }
            13 => { if universe.len() >= 2 { let k2 = universe[(universe.iter().position(|u| *u == k).unwrap() + 1) % universe.len()].clone();
                    let p2 = r.iter().position(|(a, _)| *a == k2);
                    let [a, b] = m.get_disjoint_mut([&k, &k2]);
                    expect(a.is_some() == pos.is_some() && b.is_some() == p2.is_some(), format!("get_disjoint_mut([{:?}, {:?}]) presence ({}, {})", k, k2, a.is_some(), b.is_some()));
                    if let (Some(x), Some(i)) = (a, pos) { expect(*x == r[i].1, format!("get_disjoint_mut gives {:?} for {:?}", x, k)); *x = v.clone(); r[i].1 = v; } } }
            14 => { let n = m.values_mut().map(|x| *x = v.clone()).count(); expect(n == r.len(), format!("values_mut yields {} of {}", n, r.len())); for p in r.iter_mut() { p.1 = v.clone(); }
                    // every mutable iterator kind, by every way of counting
                    let want = r.len();
                    let lens = catch_unwind(AssertUnwindSafe(|| (m.iter_mut().len(), m.iter_mut().size_hint(), m.values_mut().len(), m.values_mut().size_hint())));
                    expect(lens.as_ref().ok() == Some(&(want, (want, Some(want)), want, (want, Some(want)))), format!("len / size_hint of iter_mut / values_mut on {} entries: {:?}", want, lens.ok()));
                    let mut a = 0; for (_, x) in m.iter_mut() { *x = v.clone(); a += 1; }
                    let mut b = 0; for (_, x) in &mut *m { *x = v.clone(); b += 1; }
                    let c = m.iter_mut().count(); let mut d = 0; let mut it = m.iter_mut(); while it.next().is_some() { d += 1; }
                    let mut e = 0; for _ in &*m { e += 1; }
                    expect(a == want && b == want && c == want && d == want && e == want, format!("iter_mut / &mut map / count / next-loop / &map visit {} {} {} {} {} of {} entries", a, b, c, d, e, want)); }
            15 => { let ks: Vec<K> = m.keys().cloned().collect(); let c: Map<K, V, N> = m.iter().map(|(a, b)| (a.clone(), b.clone())).collect();
                   expect(ks.len() == r.len() && c == *m, "collect of the map's own entries differs from it".to_string());
                   // From<[(K, V); N]> = inserting the N pairs one by one (repeats included)
                   let off = rng.below(universe.len()); let span = 1 + rng.below(universe.len());
                   let arr: [(K, V); N] = core::array::from_fn(|i| (universe[(off + i % span) % universe.len()].clone(), vals[i % vals.len()].clone()));
                   let mut one: Map<K, V, N> = Map::new(); let mut fits = true;
                   for (a, b) in arr.iter() { if one.len() == N && !one.contains_key(a) { fits = false; break; } one.insert(a.clone(), b.clone()); }
                   if fits { let bulk = Map::<K, V, N>::from(arr.clone()); let viaiter: Map<K, V, N> = arr.iter().cloned().collect();
                       expect(bulk == one && bulk.len() == one.len() && viaiter == one && one.iter().all(|(a, b)| bulk.get(a) == Some(b)), format!("Map::from(array) / collect of {:?} differ from inserting one by one: {:?} vs {:?}", arr, bulk, one)); } }
            // fill the container to the brim (high fill levels, hits at high slot indices: block-wise or masked code)
            _ => { let off = rng.below(universe.len()); for j in 0..universe.len() { let u = &universe[(off + j) % universe.len()];
                   if r.len() >= N { break; } if !r.iter().any(|(a, _)| a == u) { r.push((u.clone(), v.clone())); let got = m.insert(u.clone(), v.clone()); expect(got.is_none(), format!("insert({:?}) of a new key returned {:?}", u, got)); } } }
        }
        let bad = bad.or_else(|| if N <= 16 || step % 8 == 0 { map_agrees(&g.v, &r, universe).err() } else if g.v.len() != r.len() { Some(format!("len {} but the reference holds {}", g.v.len(), r.len())) } else { None });
        if let Some(what) = bad { fault(format!("op=shapes SHAPE_DICT {} Map<_,_,{}> step {} (operation kind {}): {}", name, N, step, opn, what)); return; }
        if !g.ok() { fault(format!("op=shapes CANARY {} Map<_,_,{}>: memory next to the map was overwritten at step {}", name, N, step)); return; }
    }
}

fn set_agrees<T: El, const N: usize>(s: &Set<T, N>, r: &[T], universe: &[T]) -> Result<(), String> {
    if s.len() != r.len() || s.is_empty() != r.is_empty() || s.capacity() != N { return Err(format!("len {} is_empty {} but the reference holds {}", s.len(), s.is_empty(), r.len())); }
    let it: Vec<&T> = s.iter().collect();
    if it.len() != r.len() || s.iter().len() != r.len() { return Err(format!("iteration yields {} of {}", it.len(), r.len())); }
    for x in universe {
        let present = r.contains(x);
        if s.contains(x) != present { return Err(format!("contains({:?}) = {} but the reference says {}", x, s.contains(x), present)); }
        if s.get(x).is_some() != present { return Err(format!("get({:?}) presence {} but the reference says {}", x, s.get(x).is_some(), present)); }
        if it.iter().filter(|a| **a == x).count() != present as usize { return Err(format!("iteration yields {:?} {} times", x, it.iter().filter(|a| **a == x).count())); }
    }
    Ok(())
}

fn set_shape<T: El, const N: usize, const M: usize>(name: &str, universe: &[T], seed: u64) {
    if catch_unwind(AssertUnwindSafe(|| set_shape_run::<T, N, M>(name, universe, seed))).is_err() {
        fault(format!("op=shapes SHAPE_SET {} Set<_,{}>: an operation that must not panic panicked (seed {})", name, N, seed));
    }
}
fn set_shape_run<T: El, const N: usize, const M: usize>(name: &str, universe: &[T], seed: u64) {
    if cfg!(miri) && N > 8 { return; }
    let mut g = G::new(Set::<T, N>::new());
    let mut r: Vec<T> = Vec::new();
    let mut rng = Lcg(seed);
    for step in 0..(if cfg!(miri) { 70 + N.min(40) } else { 400 + 12 * N }) {
        let x = universe[rng.below(universe.len())].clone();
        let pos = r.iter().position(|a| *a == x);
        let opn = rng.below(13);
        let s = &mut g.v;
        let mut bad: Option<String> = None;
        let mut expect = |ok: bool, what: String| { if !ok && bad.is_none() { bad = Some(what); } };
        match opn {
            0 | 1 | 2 => match (pos, r.len() < N) {
                (Some(_), _) => { expect(!s.insert(x.clone()), format!("insert({:?}) of a member returned true", x)); }
                (None, true) => { r.push(x.clone()); expect(s.insert(x.clone()), format!("insert({:?}) of a new element returned false", x)); }
                (None, false) => { let p = catch_unwind(AssertUnwindSafe(|| { s.insert(x.clone()); })); expect(p.is_err(), format!("insert({:?}) into a full set did not panic", x)); }
            },
            3 => match (pos, r.len() < N) {
                (Some(_), _) => { let got = s.replace(x.clone()); expect(got.as_ref() == Some(&x), format!("replace({:?}) of a member returned {:?}", x, got)); }
                (None, true) => { r.push(x.clone()); expect(s.replace(x.clone()).is_none(), format!("replace({:?}) of a new element returned Some", x)); }
                (None, false) => { let p = catch_unwind(AssertUnwindSafe(|| { s.replace(x.clone()); })); expect(p.is_err(), format!("replace({:?}) into a full set did not panic", x)); }
            },
            4 => { let got = s.remove(&x); if let Some(i) = pos { r.swap_remove(i); } expect(got == pos.is_some(), format!("remove({:?}) returned {}", x, got)); }
            5 => { let got = s.take(&x); if let Some(i) = pos { r.swap_remove(i); } expect(got.is_some() == pos.is_some(), format!("take({:?}) returned {:?}", x, got)); }
            6 => { let keep = |e: &T| universe.iter().position(|u| u == e).unwrap_or(0) % 2 == step % 2; s.retain(|e| keep(e)); r.retain(|e| keep(e)); }
            7 => { if rng.below(4) == 0 { s.clear(); r.clear(); } }
            8 => { if rng.below(3) == 0 { let take = rng.below(r.len() + 2); let got: Vec<T> = s.drain().take(take).collect(); expect(got.len() == take.min(r.len()) && got.iter().all(|a| r.contains(a)), format!("drain().take({}) yielded {:?} from {:?}", take, got, r)); r.clear(); } }
            9 => { let items: Vec<T> = (0..rng.below(4)).map(|_| universe[rng.below(universe.len())].clone()).collect();
                   let mut overflow = false; for e in items.iter() { if r.contains(e) { continue; } if r.len() < N { r.push(e.clone()); } else { overflow = true; break; } }
                   let p = catch_unwind(AssertUnwindSafe(|| s.extend(items.clone()))); expect(p.is_err() == overflow, format!("extend({:?}) panicked: {}, the reference overflows: {}", items, p.is_err(), overflow)); }
            10 => { let c = s.clone(); expect(c == *s, "the clone differs from the original".to_string()); let all: Vec<T> = c.into_iter().collect(); expect(all.len() == r.len() && r.iter().all(|e| all.contains(e)), format!("into_iter of the clone yields {:?}", all));
                    // From<[T; N]> = inserting the N items one by one (repeats included); Extend<T> likewise
                    let off = rng.below(universe.len()); let span = 1 + rng.below(universe.len());
                    let arr: [T; N] = core::array::from_fn(|i| universe[(off + i % span) % universe.len()].clone());
                    let mut one: Set<T, N> = Set::new(); for e in arr.iter() { one.insert(e.clone()); }
                    let bulk = Set::<T, N>::from(arr.clone()); let viaiter: Set<T, N> = arr.iter().cloned().collect(); let mut ext: Set<T, N> = Set::new(); ext.extend(arr.iter().cloned());
                    expect(bulk == one && bulk.len() == one.len() && viaiter == one && ext == one && ext.len() == one.len() && arr.iter().all(|e| bulk.contains(e)), format!("Set::from(array) / collect / extend of {:?} differ from inserting one by one: {:?} vs {:?}", arr, bulk, one)); }
            12 => { let off = rng.below(universe.len()); for j in 0..universe.len() { let u = &universe[(off + j) % universe.len()];
                    if r.len() >= N { break; } if !r.contains(u) { r.push(u.clone()); expect(s.insert(u.clone()), format!("insert({:?}) of a new element returned false", u)); } } }
            _ => {
                let mut other: Set<T, M> = Set::new(); let mut o: Vec<T> = Vec::new();
                for _ in 0..rng.below(M + 1) { let e = universe[rng.below(universe.len())].clone(); if !o.contains(&e) { o.push(e.clone()); other.insert(e); } }
                if rng.below(3) == 0 { let off = rng.below(universe.len()); for j in 0..universe.len() { let u = &universe[(off + j) % universe.len()];
                    if o.len() >= M { break; } if !o.contains(u) { o.push(u.clone()); other.insert(u.clone()); } } }
                let same = |got: Vec<&T>, want: Vec<&T>| got.len() == want.len() && want.iter().all(|e| got.iter().filter(|a| **a == *e).count() == 1);
                let uni: Vec<&T> = r.iter().chain(o.iter().filter(|e| !r.contains(e))).collect();
                let int: Vec<&T> = r.iter().filter(|e| o.contains(e)).collect();
                let dif: Vec<&T> = r.iter().filter(|e| !o.contains(e)).collect();
                let sym: Vec<&T> = r.iter().filter(|e| !o.contains(e)).chain(o.iter().filter(|e| !r.contains(e))).collect();
                expect(same(s.union(&other).collect(), uni), format!("union of {:?} and {:?}", r, o));
                expect(same(s.intersection(&other).collect(), int), format!("intersection of {:?} and {:?}", r, o));
                expect(same(s.difference(&other).collect(), dif.clone()), format!("difference of {:?} and {:?}", r, o));
                expect(same(s.symmetric_difference(&other).collect(), sym), format!("symmetric_difference of {:?} and {:?}", r, o));
                let d = &*s - &other; expect(same(d.iter().collect(), dif), format!("{:?} - {:?} gives {:?}", r, o, d));
                expect(s.is_subset(&other) == r.iter().all(|e| o.contains(e)), format!("is_subset of {:?} in {:?} = {}", r, o, s.is_subset(&other)));
                expect(s.is_superset(&other) == o.iter().all(|e| r.contains(e)), format!("is_superset of {:?} over {:?} = {}", r, o, s.is_superset(&other)));
                expect(s.is_disjoint(&other) == !r.iter().any(|e| o.contains(e)), format!("is_disjoint of {:?} and {:?} = {}", r, o, s.is_disjoint(&other)));
                expect((*s == *s) && (other == other), "a set differs from itself".to_string());
            }
        }
        let bad = bad.or_else(|| if N <= 16 || step % 8 == 0 { set_agrees(&g.v, &r, universe).err() } else if g.v.len() != r.len() { Some(format!("len {} but the reference holds {}", g.v.len(), r.len())) } else { None });
        if let Some(what) = bad { fault(format!("op=shapes SHAPE_SET {} Set<_,{}> step {} (operation kind {}): {}", name, N, step, opn, what)); return; }
        if !g.ok() { fault(format!("op=shapes CANARY {} Set<_,{}>: memory next to the set was overwritten at step {}", name, N, step)); return; }
    }
}

#[derive(Clone, PartialEq, Eq, Debug)]
struct Marker;

fn shape_models() {
    for seed in 1..=(if cfg!(miri) { 1u64 } else { 3u64 }) {
        dict_shape::<(), (), 2>("() -> () (zero-sized pair)", &[()], &[()], seed);
        dict_shape::<Marker, (), 1>("unit struct -> ()", &[Marker], &[()], seed);
        dict_shape::<[u8; 0], std::marker::PhantomData<u64>, 3>("[u8; 0] -> PhantomData", &[[]], &[std::marker::PhantomData], seed);
        dict_shape::<(), u64, 1>("() -> u64 (ZST key)", &[()], &[1, 2, 3], seed);
        dict_shape::<u8, (), 3>("u8 -> () (ZST value)", &[1, 2, 3, 4, 5], &[()], seed);
        dict_shape::<u8, u8, 0>("u8 -> u8, capacity 0", &[1, 2], &[7, 8], seed);
        dict_shape::<u8, bool, 4>("u8 -> bool", &[1, 2, 3, 4, 5, 6], &[true, false], seed);
        dict_shape::<u32, u32, 5>("u32 -> u32", &[1, 2, 3, 4, 5, 6, 7], &[10, 20, 30], seed);
        dict_shape::<u16, [u8; 3], 8>("u16 -> [u8; 3] (odd-sized)", &[1, 2, 3, 4, 5, 6, 7, 8, 9, 10], &[[1, 2, 3], [4, 5, 6]], seed);
        dict_shape::<u64, [u64; 32], 3>("u64 -> [u64; 32] (large)", &[1, 2, 3, 4], &[[7; 32], [9; 32]], seed);
        dict_shape::<String, Vec<u8>, 4>("String -> Vec<u8> (heap-owning)", &["a".to_string(), "b".to_string(), "c".to_string(), "d".to_string(), "e".to_string()], &[vec![1], vec![2, 3], vec![]], seed);
        dict_shape::<(u8, u32), Option<Box<u16>>, 3>("(u8, u32) -> Option<Box<u16>> (padding, niche)", &[(1, 1), (1, 2), (2, 1), (2, 2)], &[None, Some(Box::new(5))], seed);
        set_shape::<(), 1, 1>("() (zero-sized)", &[()], seed);
        set_shape::<Marker, 2, 1>("unit struct", &[Marker], seed);
        set_shape::<u8, 0, 2>("u8, capacity 0", &[1, 2], seed);
        set_shape::<u8, 4, 3>("u8", &[1, 2, 3, 4, 5, 6], seed);
        set_shape::<u64, 5, 8>("u64", &[1, 2, 3, 4, 5, 6, 7], seed);
        set_shape::<[u64; 16], 3, 2>("[u64; 16] (large)", &[[1; 16], [2; 16], [3; 16], [4; 16]], seed);
        set_shape::<String, 4, 4>("String (heap-owning)", &["a".to_string(), "b".to_string(), "c".to_string(), "d".to_string(), "e".to_string()], seed);
        // containers larger than a machine word has bits (and than any register of the model-correspondence suites)
        let big: Vec<u32> = (0..100).collect();
        dict_shape::<u32, u32, 72>("u32 -> u32, capacity 72", &big, &[1, 2, 3], seed);
        dict_shape::<u32, u8, 130>("u32 -> u8, capacity 130", &big, &[1, 2], seed);
        set_shape::<u32, 72, 96>("u32, capacity 72 (other operand: capacity 96)", &big, seed);
        set_shape::<u32, 130, 70>("u32, capacity 130 (other operand: capacity 70)", &big, seed);
        if seed == 1 {
            // more slots than a byte can index
            let huge: Vec<u32> = (0..340).collect();
            dict_shape::<u32, u32, 300>("u32 -> u32, capacity 300", &huge, &[1, 2, 3], seed);
            set_shape::<u32, 300, 280>("u32, capacity 300 (other operand: capacity 280)", &huge, seed);
        }
    }
}

// serde through a self-describing format (JSON): a Set is a sequence of len() elements, a Map a
// map of len() entries, and both round-trip into any capacity >= len()
fn serde_shapes() {
    fn set_rt<const N: usize, const M: usize>(s: &Set<u32, N>) {
        let v = serde_json::to_value(s);
        match &v {
            Ok(serde_json::Value::Array(a)) if a.len() == s.len() => {}
            other => { fault(format!("op=shapes SERDE_SHAPE a Set<u32,{}> with {} elements serializes as {:?} instead of a sequence of {} elements", N, s.len(), other, s.len())); return; }
        }
        let txt = serde_json::to_string(s).unwrap();
        match serde_json::from_str::<Set<u32, M>>(&txt) {
            Ok(back) => if back.len() != s.len() || !s.iter().all(|x| back.contains(x)) { fault(format!("op=shapes SERDE_SHAPE Set<u32,{}> {} read back into capacity {} gives {:?}", N, txt, M, back)); },
            Err(e) => fault(format!("op=shapes SERDE_SHAPE Set<u32,{}> {} does not read back into capacity {}: {}", N, txt, M, e)),
        }
        match serde_json::from_str::<Vec<u32>>(&txt) { Ok(v) if v.len() == s.len() => {}, other => fault(format!("op=shapes SERDE_SHAPE the output {} of a Set is not a plain sequence: {:?}", txt, other)) }
    }
    fn map_rt<const N: usize, const M: usize>(m: &Map<u32, String, N>) {
        let v = serde_json::to_value(m);
        match &v {
            Ok(serde_json::Value::Object(a)) if a.len() == m.len() => {}
            other => { fault(format!("op=shapes SERDE_SHAPE a Map<u32,String,{}> with {} entries serializes as {:?} instead of a map of {} entries", N, m.len(), other, m.len())); return; }
        }
        let txt = serde_json::to_string(m).unwrap();
        match serde_json::from_str::<Map<u32, String, M>>(&txt) {
            Ok(back) => if back.len() != m.len() || !m.iter().all(|(k, x)| back.get(k) == Some(x)) { fault(format!("op=shapes SERDE_SHAPE Map<u32,String,{}> {} read back into capacity {} gives {:?}", N, txt, M, back)); },
            Err(e) => fault(format!("op=shapes SERDE_SHAPE Map<u32,String,{}> {} does not read back into capacity {}: {}", N, txt, M, e)),
        }
    }
    let r = catch_unwind(|| {
        let mut s: Set<u32, 5> = Set::new();
        set_rt::<5, 5>(&s); set_rt::<5, 0>(&s);
        for i in 0..5 { s.insert(10 + i); set_rt::<5, 5>(&s); set_rt::<5, 9>(&s); }
        s.remove(&10); s.remove(&12); set_rt::<5, 3>(&s); s.insert(77); set_rt::<5, 4>(&s);
        let z: Set<u32, 0> = Set::new(); set_rt::<0, 0>(&z); set_rt::<0, 2>(&z);
        let mut m: Map<u32, String, 4> = Map::new();
        map_rt::<4, 4>(&m); map_rt::<4, 0>(&m);
        for i in 0..4 { m.insert(i, format!("v{}", i)); map_rt::<4, 4>(&m); map_rt::<4, 7>(&m); }
        m.remove(&0); m.remove(&2); map_rt::<4, 2>(&m); m.insert(9, "x".into()); map_rt::<4, 3>(&m);
        // input of the wrong shape is an error, not a panic
        if serde_json::from_str::<Map<u32, String, 2>>("[1, 2]").is_ok() || serde_json::from_str::<Set<u32, 2>>("{\"1\": 2}").is_ok() { fault("op=shapes SERDE_SHAPE input of the wrong shape was accepted".into()); }
        // (more entries than the capacity: the crate's insert panics, as C03 describes; neither outcome is demanded here)
        let _ = catch_unwind(|| { let _ = serde_json::from_str::<Set<u32, 2>>("[1, 2, 3]"); let _ = serde_json::from_str::<Map<u32, u32, 1>>("{\"1\": 2, \"3\": 4}"); });
        // deserializing IN PLACE into a container that already holds something else yields the serialized content only
        {
            use serde::Deserialize;
            let src: Map<u32, String, 4> = [(1u32, "a".to_string()), (2, "b".to_string())].into_iter().collect();
            let txt = serde_json::to_string(&src).unwrap();
            let mut target: Map<u32, String, 4> = [(7u32, "stale".to_string()), (1, "old".to_string())].into_iter().collect();
            for round in 0..2 {
                let r = Map::deserialize_in_place(&mut serde_json::Deserializer::from_str(&txt), &mut target);
                if r.is_err() || target != src { fault(format!("op=shapes SERDE_SHAPE deserialize_in_place (round {}) of {} into a map that held other entries gives {:?}", round, txt, target)); }
            }
            let e: Map<u32, String, 4> = Map::new();
            let r = Map::deserialize_in_place(&mut serde_json::Deserializer::from_str(&serde_json::to_string(&e).unwrap()), &mut target);
            if r.is_err() || !target.is_empty() { fault("op=shapes SERDE_SHAPE deserialize_in_place of an empty map leaves the target non-empty".into()); }
            let ssrc: Set<u32, 3> = Set::from([4, 5, 6]);
            let mut st: Set<u32, 3> = Set::from([9, 9, 4]);
            let r = Set::deserialize_in_place(&mut serde_json::Deserializer::from_str(&serde_json::to_string(&ssrc).unwrap()), &mut st);
            if r.is_err() || st != ssrc { fault(format!("op=shapes SERDE_SHAPE Set::deserialize_in_place into a non-empty set gives {:?}", st)); }
        }
        // zero-sized VALUES that are not unit on the wire (an empty array is an empty tuple; a marker may write a
        // version byte): a Map is a map of len() entries whatever the size of its values
        {
            #[derive(Debug, PartialEq, Clone, Copy)] struct V1;
            impl serde::Serialize for V1 { fn serialize<S: serde::Serializer>(&self, s: S) -> Result<S::Ok, S::Error> { s.serialize_u8(1) } }
            impl<'de> serde::Deserialize<'de> for V1 { fn deserialize<D: serde::Deserializer<'de>>(d: D) -> Result<V1, D::Error> {
                let b = <u8 as serde::Deserialize>::deserialize(d)?; if b == 1 { Ok(V1) } else { Err(serde::de::Error::custom("bad version")) } } }
            let mut za: Map<u8, [u8; 0], 4> = Map::new(); za.insert(1, []); za.insert(2, []); za.insert(3, []); za.remove(&1);
            let txt = serde_json::to_string(&za).unwrap();
            match (serde_json::to_value(&za), serde_json::from_str::<Map<u8, [u8; 0], 6>>(&txt)) {
                (Ok(serde_json::Value::Object(o)), Ok(back)) if o.len() == za.len() && back.len() == za.len() && za.iter().all(|(k, _)| back.contains_key(k)) => {}
                other => fault(format!("op=shapes SERDE_SHAPE Map<u8,[u8;0],4> serializes as {} and reads back as {:?}", txt, other.1.map(|m| m.len()))),
            }
            let mut zb: Map<u8, V1, 3> = Map::new(); zb.insert(7, V1); zb.insert(8, V1);
            let txt = serde_json::to_string(&zb).unwrap();
            match serde_json::from_str::<Map<u8, V1, 3>>(&txt) {
                Ok(back) if back == zb && txt.matches(":1").count() == 2 => {}
                other => fault(format!("op=shapes SERDE_SHAPE Map<u8, zero-sized marker with a version byte, 3> serializes as {} and reads back as {:?}", txt, other.map(|m| m.len()))),
            }
            let bytes = bincode::serde::encode_to_vec(&zb, bincode::config::standard()).unwrap();
            let back: Result<(Map<u8, V1, 3>, usize), _> = bincode::serde::decode_from_slice(&bytes, bincode::config::standard());
            match back { Ok((b, n)) if b == zb && n == bytes.len() => {}, other => fault(format!("op=shapes SERDE_SHAPE Map<u8, marker, 3> does not round trip through bincode: {} bytes, {:?}", bytes.len(), other.map(|x| (x.0.len(), x.1)))) }
        }
        {   // zero-sized elements are still len() entries on the wire
            let mut us: Set<(), 1> = Set::new(); us.insert(());
            let txt = serde_json::to_string(&us).unwrap();
            match (txt.as_str(), serde_json::from_str::<Set<(), 2>>(&txt)) { ("[null]", Ok(b)) if b.len() == 1 => {}, other => fault(format!("op=shapes SERDE_SHAPE Set<(),1> with one element serializes as {} and reads back as {:?}", txt, other.1.map(|b| b.len()))) }
            let bytes = bincode::serde::encode_to_vec(&us, bincode::config::standard()).unwrap();
            let back: Result<(Set<(), 1>, usize), _> = bincode::serde::decode_from_slice(&bytes, bincode::config::standard());
            match back { Ok((b, n)) if b.len() == 1 && n == bytes.len() => {}, other => fault(format!("op=shapes SERDE_SHAPE Set<(),1> does not round trip through bincode: {:?}", other.map(|x| (x.0.len(), x.1)))) }
            #[derive(Debug, PartialEq, Clone, Copy)] struct Tg;
            impl serde::Serialize for Tg { fn serialize<S: serde::Serializer>(&self, s: S) -> Result<S::Ok, S::Error> { s.serialize_u8(7) } }
            impl<'de> serde::Deserialize<'de> for Tg { fn deserialize<D: serde::Deserializer<'de>>(d: D) -> Result<Tg, D::Error> { <u8 as serde::Deserialize>::deserialize(d).map(|_| Tg) } }
            let mut ts: Set<Tg, 4> = Set::new(); ts.insert(Tg);
            let txt = serde_json::to_string(&ts).unwrap();
            if txt != "[7]" || serde_json::from_str::<Set<Tg, 4>>(&txt).map(|b| b.len()).ok() != Some(1) { fault(format!("op=shapes SERDE_SHAPE Set<zero-sized tag written as a byte, 4> serializes as {}", txt)); }
        }
        let nested: Map<u32, Set<u32, 3>, 2> = Map::from([(1, Set::from([1, 2, 3])), (2, Set::new())]);
        let txt = serde_json::to_string(&nested).unwrap();
        match serde_json::from_str::<Map<u32, Set<u32, 3>, 2>>(&txt) { Ok(b) if b == nested => {}, other => fault(format!("op=shapes SERDE_SHAPE nested {} reads back as {:?}", txt, other)) }
    });
    if r.is_err() { fault("op=shapes SERDE_SHAPE the serde scenario panicked".into()); }
    if catch_unwind(strict_stream_shapes).is_err() { fault("op=shapes SERDE_SHAPE the strict-stream serde scenario panicked".into()); }
}

// A STREAMING data format (indefinite-length CBOR, a token stream): no size hint, and the access object may be
// polled until it answers None ONCE -- serde does not promise that a further poll is harmless (here it is an
// error and is counted).  Decoding must consume the stream exactly to its end and yield exactly its entries,
// for every relation between the number of entries and the target capacity.
struct StrictState { pos: std::cell::Cell<usize>, ended: std::cell::Cell<bool>, late_polls: std::cell::Cell<u32>, fail_at: Option<usize>, fail_value_at: Option<usize>, polls: std::cell::Cell<u32> }
struct StrictDe<'a> { items: &'a [u32], map: bool, st: &'a StrictState }
struct StrictAcc<'a> { items: &'a [u32], st: &'a StrictState }
impl<'a> StrictAcc<'a> {
    fn pull(&mut self) -> Result<Option<u32>, serde::de::value::Error> {
        self.st.polls.set(self.st.polls.get() + 1);
        if self.st.ended.get() { self.st.late_polls.set(self.st.late_polls.get() + 1); return Err(serde::de::Error::custom("polled after the end")); }
        let p = self.st.pos.get();
        if self.st.fail_at == Some(p) { self.st.ended.set(true); return Err(serde::de::Error::custom("the stream is broken here")); }
        if p == self.items.len() { self.st.ended.set(true); return Ok(None); }
        self.st.pos.set(p + 1);
        Ok(Some(self.items[p]))
    }
}
impl<'de, 'a> serde::de::SeqAccess<'de> for StrictAcc<'a> {
    type Error = serde::de::value::Error;
    fn next_element_seed<T: serde::de::DeserializeSeed<'de>>(&mut self, seed: T) -> Result<Option<T::Value>, Self::Error> {
        use serde::de::IntoDeserializer;
        match self.pull()? { None => Ok(None), Some(x) => seed.deserialize(x.into_deserializer()).map(Some) }
    }
}
impl<'de, 'a> serde::de::MapAccess<'de> for StrictAcc<'a> {
    type Error = serde::de::value::Error;
    fn next_key_seed<T: serde::de::DeserializeSeed<'de>>(&mut self, seed: T) -> Result<Option<T::Value>, Self::Error> {
        use serde::de::IntoDeserializer;
        match self.pull()? { None => Ok(None), Some(x) => seed.deserialize(x.into_deserializer()).map(Some) }
    }
    fn next_value_seed<T: serde::de::DeserializeSeed<'de>>(&mut self, seed: T) -> Result<T::Value, Self::Error> {
        use serde::de::IntoDeserializer;
        let k = self.items[self.st.pos.get() - 1];
        if self.st.fail_value_at == Some(self.st.pos.get() - 1) { return Err(serde::de::Error::custom("the stream is broken at this value")); }
        seed.deserialize((k + 1000).into_deserializer())
    }
}
impl<'de, 'a> serde::Deserializer<'de> for StrictDe<'a> {
    type Error = serde::de::value::Error;
    fn deserialize_any<V: serde::de::Visitor<'de>>(self, v: V) -> Result<V::Value, Self::Error> {
        if self.map { v.visit_map(StrictAcc { items: self.items, st: self.st }) } else { v.visit_seq(StrictAcc { items: self.items, st: self.st }) }
    }
    serde::forward_to_deserialize_any! { bool i8 i16 i32 i64 i128 u8 u16 u32 u64 u128 f32 f64 char str string bytes byte_buf option unit
        unit_struct newtype_struct seq tuple tuple_struct map struct enum identifier ignored_any }
}
impl<'de> serde::Deserialize<'de> for D {
    fn deserialize<De: serde::Deserializer<'de>>(d: De) -> Result<D, De::Error> { <u32 as serde::Deserialize>::deserialize(d).map(|x| D(if x >= 1000 { x - 1000 + 1 } else { x })) }
}
// The same family of streams is run on coq/Model/Stream.v (`decode`) inside the kernel: one row per stream,
// "kind n cap fail : result len polls late finished" (kind 0 map / 1 set; fail = position of the broken entry or 9 for
// none; result 0 Ok / 1 Err / 2 panic -- more entries than slots; for a panic only the result is compared).
// Entry i has key class 5 + i, except that with `dup` the last entry repeats the first key.
pub fn stream_table() -> Vec<String> {
    use serde::Deserialize;
    let mut rows = Vec::new();
    fn one<const M: usize>(rows: &mut Vec<String>, kind: u32, n: usize, fail: Option<usize>, dup: bool) {
        let mut items: Vec<u32> = (0..n as u32).map(|i| 5 + i).collect();
        if dup && n >= 2 { items[n - 1] = items[0]; }
        let st = StrictState { pos: 0.into(), ended: false.into(), late_polls: 0.into(), fail_at: fail, fail_value_at: None, polls: 0.into() };
        let r = catch_unwind(AssertUnwindSafe(|| {
            if kind == 0 { Map::<u32, u32, M>::deserialize(StrictDe { items: &items, map: true, st: &st }).map(|m| m.len()) }
            else { Set::<u32, M>::deserialize(StrictDe { items: &items, map: false, st: &st }).map(|s| s.len()) }
        }));
        let head = format!("{} {} {} {} {}", kind, n, M, fail.map(|x| x as i64).unwrap_or(9), dup as u32);
        rows.push(match r {
            Err(_) => format!("{} : 2", head),
            Ok(Ok(len)) => format!("{} : 0 {} {} {} {}", head, len, st.polls.get(), st.late_polls.get(), st.ended.get() as u32),
            Ok(Err(_)) => format!("{} : 1 0 {} {} {}", head, st.polls.get(), st.late_polls.get(), st.ended.get() as u32),
        });
    }
    for kind in 0..2u32 { for n in 0..=4usize { for dup in [false, true] { if dup && n < 2 { continue; }
        let mut fails: Vec<Option<usize>> = vec![None]; for j in 0..n { fails.push(Some(j)); }
        for fail in fails {
            one::<0>(&mut rows, kind, n, fail, dup); one::<1>(&mut rows, kind, n, fail, dup); one::<2>(&mut rows, kind, n, fail, dup);
            one::<3>(&mut rows, kind, n, fail, dup); one::<4>(&mut rows, kind, n, fail, dup); one::<8>(&mut rows, kind, n, fail, dup);
        }
    } } }
    rows
}

fn strict_stream_shapes() {
    use serde::Deserialize;
    fn set_case<const M: usize>(items: &[u32]) {
        let st = StrictState { pos: 0.into(), ended: false.into(), late_polls: 0.into(), fail_at: None, fail_value_at: None, polls: 0.into() };
        let r = Set::<u32, M>::deserialize(StrictDe { items, map: false, st: &st });
        let ok = matches!(&r, Ok(s) if s.len() == items.len() && items.iter().all(|x| s.contains(x)));
        if !ok || st.late_polls.get() != 0 || !st.ended.get() {
            fault(format!("op=shapes SERDE_SHAPE a stream of {} elements decoded into Set<u32,{}>: result {:?}, polls after the end of the stream {}, stream consumed to its end {}", items.len(), M, r.as_ref().map(|s| s.len()), st.late_polls.get(), st.ended.get()));
        }
    }
    fn map_case<const M: usize>(items: &[u32]) {
        let st = StrictState { pos: 0.into(), ended: false.into(), late_polls: 0.into(), fail_at: None, fail_value_at: None, polls: 0.into() };
        let r = Map::<u32, u32, M>::deserialize(StrictDe { items, map: true, st: &st });
        let ok = matches!(&r, Ok(m) if m.len() == items.len() && items.iter().all(|x| m.get(x) == Some(&(x + 1000))));
        if !ok || st.late_polls.get() != 0 || !st.ended.get() {
            fault(format!("op=shapes SERDE_SHAPE a stream of {} entries decoded into Map<u32,u32,{}>: result {:?}, polls after the end of the stream {}, stream consumed to its end {}", items.len(), M, r.as_ref().map(|m| m.len()), st.late_polls.get(), st.ended.get()));
        }
    }
    // a stream that breaks at entry k: decoding reports the error, and every element built before it is destroyed
    // exactly once (keys 0,2,4.. and values 1001,1003,..: the ledger is indexed by 2*i and 2*i+1 below)
    let keys = [0u32, 2, 4, 6];
    for k in 0..=4usize {
        for value_side in [false, true] {
            if value_side && k == 4 { continue; }
            ledger_reset();
            let st = StrictState { pos: 0.into(), ended: false.into(), late_polls: 0.into(), fail_at: if value_side { None } else { Some(k) }, fail_value_at: if value_side { Some(k) } else { None }, polls: 0.into() };
            let r = Map::<D, D, 6>::deserialize(StrictDe { items: &keys, map: true, st: &st });
            let built = if value_side { 2 * k as u32 + 1 } else { 2 * k as u32 };
            if r.is_ok() { fault(format!("op=shapes SERDE_SHAPE a map stream that breaks at entry {} ({}) decodes to Ok", k, if value_side { "value" } else { "key" })); }
            drop(r);
            ledger_ok(built, &format!("Map<D,D,6> decoded from a stream that breaks at the {} of entry {}", if value_side { "value" } else { "key" }, k));
        }
        ledger_reset();
        let st = StrictState { pos: 0.into(), ended: false.into(), late_polls: 0.into(), fail_at: Some(k), fail_value_at: None, polls: 0.into() };
        let ids = [0u32, 1, 2, 3];
        let r = Set::<D, 5>::deserialize(StrictDe { items: &ids, map: false, st: &st });
        if r.is_ok() { fault(format!("op=shapes SERDE_SHAPE a sequence stream that breaks at element {} decodes to Ok", k)); }
        drop(r);
        ledger_ok(k as u32, &format!("Set<D,5> decoded from a stream that breaks at element {}", k));
    }
    // a sink that fails after k bytes: serialization reports the error (no panic), the container is untouched
    struct Failing(usize);
    impl std::io::Write for Failing {
        fn write(&mut self, b: &[u8]) -> std::io::Result<usize> { if self.0 == 0 { return Err(std::io::Error::new(std::io::ErrorKind::Other, "sink full")); } let n = b.len().min(self.0); self.0 -= n; Ok(n) }
        fn flush(&mut self) -> std::io::Result<()> { Ok(()) }
    }
    let m: Map<u32, u32, 4> = [(1u32, 10u32), (2, 20), (3, 30)].into_iter().collect();
    let s: Set<u32, 4> = [1u32, 2, 3].into_iter().collect();
    let (lm, ls) = (serde_json::to_string(&m).unwrap().len(), serde_json::to_string(&s).unwrap().len());
    for k in 0..lm { if serde_json::to_writer(Failing(k), &m).is_ok() { fault(format!("op=shapes SERDE_SHAPE serializing a map into a sink that fails after {} bytes reports success", k)); } }
    for k in 0..ls { if serde_json::to_writer(Failing(k), &s).is_ok() { fault(format!("op=shapes SERDE_SHAPE serializing a set into a sink that fails after {} bytes reports success", k)); } }
    if m.len() != 3 || s.len() != 3 { fault("op=shapes SERDE_SHAPE serialization changed the container".into()); }
    let all = [5u32, 6, 7, 8, 9, 10];
    for n in 0..=4usize {
        let items = &all[..n];
        macro_rules! caps { ($($m:literal),*) => { $( if $m >= n { set_case::<$m>(items); map_case::<$m>(items); } )* } }
        caps!(0, 1, 2, 3, 4, 5, 8, 17);
    }
}

// Debug of containers whose entries have structured (multi-line, flag-sensitive) renderings must be
// exactly what the standard builders give for the same entries in iteration order, under every
// format spec; Display is '{' entries joined by ", " '}'
struct RefMap<'a, K, V>(Vec<(&'a K, &'a V)>);
impl<K: std::fmt::Debug, V: std::fmt::Debug> std::fmt::Debug for RefMap<'_, K, V> {
    fn fmt(&self, f: &mut std::fmt::Formatter<'_>) -> std::fmt::Result { f.debug_map().entries(self.0.iter().map(|(k, v)| (*k, *v))).finish() }
}
struct RefSet<'a, T>(Vec<&'a T>);
impl<T: std::fmt::Debug> std::fmt::Debug for RefSet<'_, T> {
    fn fmt(&self, f: &mut std::fmt::Formatter<'_>) -> std::fmt::Result { f.debug_set().entries(self.0.iter().copied()).finish() }
}
macro_rules! same_fmt {
    ($what:expr, $a:expr, $b:expr, $($spec:literal),*) => { $(
        let (x, y) = (format!($spec, $a), format!($spec, $b));
        if x != y { fault(format!("op=shapes FMT_SHAPE {} formatted with {:?} gives {:?}, the standard rendering of the same entries is {:?}", $what, $spec, x, y)); }
    )* };
}
fn fmt_shapes() {
    let r = catch_unwind(|| {
        let mut m: Map<(u8, &str), Option<(i32, f64)>, 5> = Map::new();
        for step in 0..6 {
            same_fmt!("Map<(u8,&str),Option<(i32,f64)>,5>", m, RefMap(m.iter().collect()), "{:?}", "{:#?}", "{:.2?}", "{:8?}", "{:<12.1?}", "{:#.3?}", "{:+?}", "{:08.2?}");
            same_fmt!("Map::iter()", m.iter(), m.iter().collect::<Vec<_>>(), "{:?}", "{:#?}", "{:.1?}");
            same_fmt!("Map::keys()", m.keys(), m.keys().collect::<Vec<_>>(), "{:?}", "{:#?}");
            same_fmt!("Map::values()", m.values(), m.values().collect::<Vec<_>>(), "{:?}", "{:#?}", "{:.1?}");
            match step { 0 => { m.insert((1, "one"), Some((1, 1.5))); } 1 => { m.insert((2, "two"), None); } 2 => { m.insert((3, "x\ny"), Some((-7, 0.125))); }
                         3 => { m.remove(&(1, "one")); } 4 => { m.insert((9, ""), Some((0, 2.0))); } _ => {} }
        }
        let mut s: Set<Option<(u16, &str)>, 4> = Set::new();
        for step in 0..5 {
            same_fmt!("Set<Option<(u16,&str)>,4>", s, RefSet(s.iter().collect()), "{:?}", "{:#?}", "{:6?}", "{:>9?}", "{:#x?}");
            match step { 0 => { s.insert(Some((1, "a"))); } 1 => { s.insert(None); } 2 => { s.insert(Some((300, "b\"c"))); } 3 => { s.remove(&Some((1, "a"))); } _ => {} }
        }
        let nested: Map<u8, Map<u8, Set<u8, 2>, 2>, 2> = Map::from([(1, Map::from([(2, Set::from([3, 4])), (5, Set::new())])), (6, Map::new())]);
        let inner: Vec<(&u8, &Map<u8, Set<u8, 2>, 2>)> = nested.iter().collect();
        same_fmt!("nested Map<u8,Map<u8,Set<u8,2>,2>,2>", nested, RefMap(inner.clone()), "{:?}", "{:#?}", "{:3?}");
        let d: Map<u8, f32, 3> = [(1, 1.5), (2, 2.25)].into_iter().collect();
        let want = format!("{{{}}}", d.iter().map(|(k, v)| format!("{}: {}", k, v)).collect::<Vec<_>>().join(", "));
        if format!("{}", d) != want { fault(format!("op=shapes FMT_SHAPE Display of a Map gives {:?}, expected {:?}", format!("{}", d), want)); }
        // the alternate and sign flags do not change the shape of Display (entries joined by ", " on one line)
        if format!("{:#}", d) != want || format!("{:+}", d).replace('+', "") != want { fault(format!("op=shapes FMT_SHAPE Display of a Map under {{:#}} / {{:+}} gives {:?} / {:?}, the plain form is {:?}", format!("{:#}", d), format!("{:+}", d), want)); }
        let ds: Set<&str, 3> = ["p", "q"].into_iter().collect();
        let want = format!("{{{}}}", ds.iter().map(|k| format!("{}", k)).collect::<Vec<_>>().join(", "));
        if format!("{}", ds) != want { fault(format!("op=shapes FMT_SHAPE Display of a Set gives {:?}, expected {:?}", format!("{}", ds), want)); }
        if format!("{:#}", ds) != want { fault(format!("op=shapes FMT_SHAPE Display of a Set under {{:#}} gives {:?}, the plain form is {:?}", format!("{:#}", ds), want)); }
        // a sink that fails after k bytes: formatting reports the error, and what was written is a prefix
        struct Short { out: String, room: usize }
        impl FmtWrite for Short {
            fn write_str(&mut self, s: &str) -> std::fmt::Result {
                if self.out.len() + s.len() > self.room { return Err(std::fmt::Error); }
                self.out.push_str(s); Ok(())
            }
        }
        let full_d = format!("{}", d); let full_s = format!("{}", ds); let full_g = format!("{:?} {:#?}", d, ds);
        for room in 0..full_d.len().max(full_s.len()).max(full_g.len()) + 1 {
            let mut k = Short { out: String::new(), room };
            let r1 = write!(k, "{}", d);
            if r1.is_ok() != (room >= full_d.len()) || !full_d.starts_with(&k.out) { fault(format!("op=shapes FMT_SHAPE Display of a Map into a sink with room for {} bytes: result {:?}, wrote {:?}", room, r1, k.out)); }
            let mut k = Short { out: String::new(), room };
            let r2 = write!(k, "{}", ds);
            if r2.is_ok() != (room >= full_s.len()) || !full_s.starts_with(&k.out) { fault(format!("op=shapes FMT_SHAPE Display of a Set into a sink with room for {} bytes: result {:?}, wrote {:?}", room, r2, k.out)); }
            let mut k = Short { out: String::new(), room };
            let r3 = write!(k, "{:?} {:#?}", d, ds);
            if r3.is_ok() != (room >= full_g.len()) || !full_g.starts_with(&k.out) { fault(format!("op=shapes FMT_SHAPE Debug into a sink with room for {} bytes: result {:?}, wrote {:?}", room, r3, k.out)); }
        }
    });
    if r.is_err() { fault("op=shapes FMT_SHAPE the formatting scenario panicked".into()); }
}

// ---------------------------------------------------------------------------------------------
// Lookups through a borrowed form that is a different (unsized) type: &str for String, &Path for
// PathBuf (equal paths of different byte length), &[u8] for Vec<u8>, &u32 for Box<u32>; needles
// that alias stored data without being equal to it; element types whose == is not reflexive.
fn borrow_shapes() {
    use std::borrow::Borrow;
    use std::path::{Path, PathBuf};
    fn all_lookups<K: Eq + std::fmt::Debug + Borrow<Q>, Q: ?Sized + PartialEq + std::fmt::Debug, const N: usize>(what: &str, m: &mut Map<K, u32, N>, q: &Q, want: Option<u32>) {
        let found = want.is_some();
        let mut bad = Vec::new();
        if m.get(q).copied() != want { bad.push(format!("get = {:?}", m.get(q))); }
        if m.contains_key(q) != found { bad.push(format!("contains_key = {}", m.contains_key(q))); }
        if m.get_key_value(q).map(|(_, v)| *v) != want { bad.push(format!("get_key_value = {:?}", m.get_key_value(q))); }
        if m.get_mut(q).map(|v| *v) != want { bad.push("get_mut disagrees".to_string()); }
        let idx = catch_unwind(AssertUnwindSafe(|| m[q]));
        if idx.ok() != want { bad.push("indexing disagrees".to_string()); }
        if !bad.is_empty() { fault(format!("op=shapes SHAPE_BORROW {}: lookup of {:?} through the borrowed form should give {:?}: {}", what, q, want, bad.join("; "))); }
    }
    let r = catch_unwind(|| {
        let mut m: Map<PathBuf, u32, 4> = Map::new();
        m.insert(PathBuf::from("usr/lib"), 1); m.insert(PathBuf::from("/etc"), 2); m.insert(PathBuf::from("a/b/c"), 3);
        for (q, want) in [("usr/lib", Some(1)), ("usr//lib", Some(1)), ("usr/lib/", Some(1)), ("usr/./lib", Some(1)), ("/etc", Some(2)), ("/etc/", Some(2)), ("a/b/c", Some(3)), ("a//b/./c/", Some(3)), ("usr", None), ("usr/lib/x", None), ("", None)] {
            all_lookups("Map<PathBuf,u32,4> by &Path", &mut m, Path::new(q), want);
        }
        if m.remove(Path::new("usr//lib")) != Some(1) || m.remove_entry(Path::new("a/b//c")).map(|p| p.1) != Some(3) || m.len() != 1 { fault("op=shapes SHAPE_BORROW Map<PathBuf,u32,4>: remove / remove_entry through an equal &Path of different length failed".into()); }
        let mut ps: Set<PathBuf, 3> = Set::new(); ps.insert(PathBuf::from("x/y"));
        if !ps.contains(Path::new("x//y")) || ps.get(Path::new("x/y/")).is_none() || !ps.remove(Path::new("x/./y")) { fault("op=shapes SHAPE_BORROW Set<PathBuf,3>: contains / get / remove through an equal &Path of different length failed".into()); }

        let mut sm: Map<String, u32, 5> = Map::new();
        for (i, w) in ["car", "cart", "", "dog"].iter().enumerate() { sm.insert(w.to_string(), i as u32); }
        let words: Vec<String> = sm.keys().cloned().collect();
        for w in words.iter() { for n in 0..=w.len() { let q = &w[..n]; let want = words.iter().position(|x| x == q).map(|i| sm[words[i].as_str()]); all_lookups("Map<String,u32,5> by &str", &mut sm, q, want); } }
        // needles that point INTO the stored keys (same address, shorter length)
        let stored: Vec<(*const u8, usize)> = sm.keys().map(|k| (k.as_ptr(), k.len())).collect();
        for (p, len) in stored { for n in 0..=len {
            let q: &str = unsafe { std::str::from_utf8_unchecked(std::slice::from_raw_parts(p, n)) };
            let want = ["car", "cart", "", "dog"].iter().position(|x| *x == q).map(|i| i as u32);
            let idx = catch_unwind(AssertUnwindSafe(|| sm[q])).ok();
            if idx != want { fault(format!("op=shapes SHAPE_BORROW Map<String,u32,5>: indexing with a needle {:?} aliasing a stored key's buffer gives {:?}, expected {:?} (a panic when absent)", q, idx, want)); }
            if sm.get(q).copied() != want || sm.contains_key(q) != want.is_some() || sm.get_key_value(q).map(|(k, _)| k.as_str()) != want.map(|_| q) {
                fault(format!("op=shapes SHAPE_BORROW Map<String,u32,5>: a needle {:?} aliasing a stored key's buffer is looked up wrongly (get = {:?}, expected {:?})", q, sm.get(q), want)); }
        } }
        // get_disjoint_mut with pairwise DIFFERENT needles of an unsized borrowed form that start at the SAME address
        // (a word and its prefixes cut from one buffer): different keys, so no "overlap", and each position = get_mut
        {
            let line = String::from("cart");
            let combos: [[&str; 2]; 4] = [[&line[..3], &line[..]], [&line[..], &line[..3]], [&line[..0], &line[..3]], [&line[..2], &line[..]]];
            for ks in combos {
                let want: Vec<Option<u32>> = ks.iter().map(|q| sm.get(*q).copied()).collect();
                let got = catch_unwind(AssertUnwindSafe(|| { let r = sm.get_disjoint_mut(ks); [r[0].as_deref().copied(), r[1].as_deref().copied()] }));
                let mut twin = sm.clone();
                let unchecked = { let r = unsafe { twin.get_disjoint_unchecked_mut(ks) }; [r[0].as_deref().copied(), r[1].as_deref().copied()] };
                if got.as_ref().ok().map(|g| g.to_vec()) != Some(want.clone()) || unchecked.to_vec() != want {
                    fault(format!("op=shapes SHAPE_DISJOINT Map<String,u32,5>: get_disjoint_mut({:?}) (different keys sharing a start address) gives {:?}, the unchecked twin {:?}, get_mut per key {:?}", ks, got.ok(), unchecked, want));
                }
            }
            let dup = catch_unwind(AssertUnwindSafe(|| { let _ = sm.get_disjoint_mut([&line[..3], "car"]); }));
            if dup.is_ok() { fault("op=shapes SHAPE_DISJOINT Map<String,u32,5>: two equal present needles at different addresses were accepted".into()); }
        }
        let mut ss: Set<Vec<u8>, 3> = Set::new(); ss.insert(vec![1, 2, 3]); ss.insert(vec![9]);
        let first: &Vec<u8> = ss.iter().next().unwrap();
        let (p, _) = (first.as_ptr(), first.len());
        for n in 0..=3usize { let q: &[u8] = unsafe { std::slice::from_raw_parts(p, n) }; let want = n == 3;
            if ss.contains(q) != want || ss.get(q).is_some() != want { fault(format!("op=shapes SHAPE_BORROW Set<Vec<u8>,3>: a needle {:?} aliasing a member's buffer: contains = {}, get = {:?}, expected present = {}", q, ss.contains(q), ss.get(q), want)); } }
        let mut bm: Map<Box<u32>, u32, 3> = Map::new(); bm.insert(Box::new(7), 70); bm.insert(Box::new(8), 80);
        all_lookups("Map<Box<u32>,u32,3> by &u32", &mut bm, &7u32, Some(70)); all_lookups("Map<Box<u32>,u32,3> by &u32", &mut bm, &9u32, None);

        // == that is not reflexive: a lookup by a reference to the stored element itself must still ask ==
        let mut fs: Set<f64, 4> = Set::new(); fs.insert(1.5); fs.insert(f64::NAN); fs.insert(-0.0);
        let nan_ref: &f64 = fs.iter().find(|x| x.is_nan()).unwrap();
        if fs.contains(nan_ref) || fs.get(nan_ref).is_some() || fs.contains(&f64::NAN) { fault("op=shapes SHAPE_BORROW Set<f64,4>: a NaN member is found although NaN != NaN (lookup by a reference to the stored element)".into()); }
        if !fs.contains(&0.0) || !fs.contains(&1.5) { fault("op=shapes SHAPE_BORROW Set<f64,4>: 0.0 == -0.0 and 1.5 must be found".into()); }
        let mut fm: Map<u8, f64, 3> = Map::new(); fm.insert(1, f64::NAN); fm.insert(2, 2.0);
        let fc = fm.clone();
        #[allow(clippy::eq_op)]
        if fm == fm || fm == fc || fc == fm { fault("op=shapes SHAPE_BORROW Map<u8,f64,3> holding a NaN value compares equal (to itself or to its clone) although NaN != NaN".into()); }
        let mut gm: Map<u8, f64, 3> = Map::new(); gm.insert(2, 2.0);
        let gc = gm.clone();
        #[allow(clippy::eq_op)]
        if !(gm == gm) || gm != gc { fault("op=shapes SHAPE_BORROW Map<u8,f64,3> without NaN does not compare equal to itself / its clone".into()); }
        // a capacity-0 map placed directly in front of another map's storage is not that map
        #[repr(C)] struct Pair2 { a: Map<u64, u64, 0>, b: Map<u64, u64, 2> }
        let mut p2 = Pair2 { a: Map::new(), b: Map::new() }; p2.b.insert(1, 1);
        if p2.a == p2.b || p2.b == p2.a { fault("op=shapes SHAPE_BORROW an empty Map<u64,u64,0> compares equal to a non-empty Map<u64,u64,2> stored behind it".into()); }
    });
    if r.is_err() { fault("op=shapes SHAPE_BORROW the borrowed-lookup scenario panicked".into()); }
}

// element types whose whole value domain fits the capacity (one byte, zero-sized) under a MISBEHAVING == (never equal,
// not even to itself): every insertion path, bulk ones included, panics or refuses once the container is full -- len
// never exceeds the capacity and nothing outside the container is written
fn tiny_domain_shapes() {
    #[derive(Clone, Copy, Debug)] struct Never;                 // zero-sized, == always false
    impl PartialEq for Never { fn eq(&self, _: &Never) -> bool { false } }
    #[derive(Clone, Copy, Debug)] struct F8(u8);                // one byte, 0xff is a NaN: unequal to itself
    impl PartialEq for F8 { fn eq(&self, o: &F8) -> bool { self.0 != 0xff && self.0 == o.0 } }
    fn run<T: PartialEq + Copy + std::fmt::Debug, const N: usize>(what: &str, fill: &[T], more: &[T]) {
        let mut g = G::new(Set::<T, N>::new());
        for x in fill { let _ = catch_unwind(AssertUnwindSafe(|| { g.v.insert(*x); })); }
        let paths: [&dyn Fn(&mut Set<T, N>); 4] = [&|s| { s.extend(more.iter().copied()); }, &|s| { s.extend(more.iter()); }, &|s| { for x in more { s.insert(*x); } }, &|s| { for x in more { s.replace(*x); } }];
        for (i, p) in paths.iter().enumerate() {
            let _ = catch_unwind(AssertUnwindSafe(|| p(&mut g.v)));
            if g.v.len() > N || g.v.iter().count() != g.v.len() || !g.ok() {
                fault(format!("op=shapes LEN_GT_CAP {} Set<_,{}> under a never-reflexive ==: after bulk path {} len() = {}, iteration yields {}, memory next to the set intact: {}", what, N, i, g.v.len(), g.v.iter().count(), g.ok()));
                return;
            }
        }
        let c: Result<Set<T, N>, _> = catch_unwind(AssertUnwindSafe(|| more.iter().copied().chain(more.iter().copied()).collect()));
        if let Ok(c) = c { if c.len() > N { fault(format!("op=shapes LEN_GT_CAP {} collect into Set<_,{}> gives len() = {}", what, N, c.len())); } }
    }
    run::<Never, 4>("zero-sized element, == always false", &[Never; 4], &[Never; 6]);
    run::<Never, 1>("zero-sized element, == always false", &[Never; 1], &[Never; 3]);
    let vals: Vec<F8> = (0..250u8).map(F8).collect(); let nans = [F8(0xff); 10];
    run::<F8, 256>("one-byte element with a NaN", &vals, &nans);
    run::<F8, 4>("one-byte element with a NaN", &vals[..4], &nans);
}

// == that is determined by its operands but is no equivalence relation (asymmetric "covers", non-transitive "near",
// a zero-sized value that is never equal): the entry points must still AGREE with each other -- entry(k) is Occupied
// exactly when the direct lookups find k, bulk construction equals one-by-one insertion, a clone has the same entries
// in the same slots, == consults the values' own ==
fn unlawful_operand_shapes() {
    #[derive(Clone, Copy, Debug)] struct Span(i32, i32);              // a == b  iff  a covers b  (asymmetric)
    impl PartialEq for Span { fn eq(&self, o: &Span) -> bool { self.0 <= o.0 && o.1 <= self.1 } }
    #[derive(Clone, Copy, Debug)] struct Near(i32);                   // |a - b| <= 5  (reflexive, symmetric, not transitive)
    impl PartialEq for Near { fn eq(&self, o: &Near) -> bool { (self.0 - o.0).abs() <= 5 } }
    #[derive(Clone, Copy, Debug)] struct Unknown;                     // zero-sized, never equal (like SQL NULL)
    impl PartialEq for Unknown { fn eq(&self, _: &Unknown) -> bool { false } }
    let r = catch_unwind(|| {
        let mut rng = Lcg(77);
        for round in 0..300 {
            // a history of inserts and removes on Span keys
            let mut m: Map<Span, u32, 6> = Map::new();
            let mut st: Set<Span, 6> = Set::new();
            for step in 0..(4 + rng.below(8)) {
                let lo = rng.below(6) as i32 * 5; let k = if rng.below(2) == 0 { Span(lo, lo) } else { Span(lo, lo + 5 * rng.below(3) as i32) };
                if rng.below(4) == 0 { m.remove(&k); st.remove(&k); } else { if m.len() < 6 || m.contains_key(&k) { m.insert(k, step as u32); } if st.len() < 6 || st.contains(&k) { st.insert(k); } }
                let sc = st.clone();
                if sc.len() != st.len() || sc.iter().zip(st.iter()).any(|(a, b)| (a.0, a.1) != (b.0, b.1)) || (st.contains(&k) != st.get(&k).is_some()) {
                    fault(format!("op=shapes SHAPE_UNLAWFUL asymmetric ==: the clone of the set {:?} is {:?}", st, sc)); return; }
                // every entry point agrees on whether k is present, and on which slot it is
                let k = Span(rng.below(6) as i32 * 5, rng.below(6) as i32 * 5 + 5 * rng.below(2) as i32);
                let present = m.contains_key(&k);
                let via_get = m.get(&k).copied(); let via_kv = m.get_key_value(&k).map(|(_, v)| *v); let via_mut = m.get_mut(&k).map(|v| *v);
                let idx = catch_unwind(AssertUnwindSafe(|| m[&k])).ok();
                let mut c = m.clone();
                let occ = match c.entry(k) { micromap::Entry::Occupied(e) => Some(*e.get()), micromap::Entry::Vacant(_) => None };
                let rem = m.clone().remove(&k);
                if via_get.is_some() != present || via_kv != via_get || via_mut != via_get || idx != via_get || occ != via_get || rem != via_get {
                    fault(format!("op=shapes SHAPE_UNLAWFUL asymmetric ==: the entry points disagree about {:?} in {:?}: contains_key {}, get {:?}, get_key_value {:?}, get_mut {:?}, index {:?}, entry {:?}, remove {:?}", k, m, present, via_get, via_kv, via_mut, idx, occ, rem));
                    return;
                }
                let cl = m.clone();
                if cl.len() != m.len() || cl.iter().zip(m.iter()).any(|((a, x), (b, y))| (a.0, a.1, *x) != (b.0, b.1, *y)) { fault(format!("op=shapes SHAPE_UNLAWFUL asymmetric ==: the clone of {:?} is {:?}", m, cl)); return; }
            }
            let ks: Set<Span, 6> = m.keys().copied().collect::<Vec<_>>().into_iter().fold(Set::new(), |mut s, k| { if s.len() < 6 { s.insert(k); } s });
            let kc = ks.clone();
            if kc.len() != ks.len() || kc.iter().zip(ks.iter()).any(|(a, b)| (a.0, a.1) != (b.0, b.1)) { fault(format!("op=shapes SHAPE_UNLAWFUL asymmetric ==: the clone of the set {:?} is {:?}", ks, kc)); return; }
            // bulk construction = one-by-one insertion, also when == is not transitive
            let n = 2 + rng.below(5); let items: Vec<(Near, u32)> = (0..n).map(|i| (Near(rng.below(5) as i32 * 5), 100 * round as u32 + i as u32)).collect();
            let mut one: Map<Near, u32, 8> = Map::new(); for (k, v) in items.iter() { one.insert(*k, *v); }
            let bulk: Map<Near, u32, 8> = items.iter().copied().collect();
            let same = |a: &Map<Near, u32, 8>, b: &Map<Near, u32, 8>| a.len() == b.len() && a.iter().zip(b.iter()).all(|((k1, v1), (k2, v2))| k1.0 == k2.0 && v1 == v2);
            if !same(&bulk, &one) { fault(format!("op=shapes SHAPE_UNLAWFUL non-transitive ==: collect of {:?} gives {:?}, inserting one by one gives {:?}", items, bulk, one)); return; }
            let mut sone: Set<Near, 8> = Set::new(); for (k, _) in items.iter() { sone.insert(*k); }
            let sbulk: Set<Near, 8> = items.iter().map(|p| p.0).collect(); let mut sext: Set<Near, 8> = Set::new(); sext.extend(items.iter().map(|p| p.0));
            let sv = |s: &Set<Near, 8>| s.iter().map(|k| k.0).collect::<Vec<_>>();
            if sv(&sbulk) != sv(&sone) || sv(&sext) != sv(&sone) { fault(format!("op=shapes SHAPE_UNLAWFUL non-transitive ==: Set collect {:?} / extend {:?} differ from inserting one by one {:?}", sv(&sbulk), sv(&sext), sv(&sone))); return; }
        }
        // == of maps consults the values' own ==, whatever their size
        let mut a: Map<u8, Unknown, 3> = Map::new(); a.insert(1, Unknown); a.insert(2, Unknown);
        let mut b: Map<u8, Unknown, 5> = Map::new(); b.insert(2, Unknown); b.insert(1, Unknown);
        let ac = a.clone();
        #[allow(clippy::eq_op)]
        if a == b || b == a || a == ac || a == a || !(a != b) { fault("op=shapes SHAPE_UNLAWFUL maps whose (zero-sized) values are never equal compare equal".into()); }
        let e1: Map<u8, Unknown, 3> = Map::new(); let e2: Map<u8, Unknown, 5> = Map::new();
        if e1 != e2 { fault("op=shapes SHAPE_UNLAWFUL two empty maps compare unequal".into()); }
    });
    if r.is_err() { fault("op=shapes SHAPE_UNLAWFUL the scenario with operand-determined unlawful == panicked".into()); }
    // difference_ref / difference with UNSIZED elements that share a start address (a word and its prefixes)
    let r = catch_unwind(|| {
        let buf = String::from("sandals");
        let words: Vec<&str> = vec![&buf[..0], &buf[..4], &buf[..6], &buf[..7]];
        for mask_a in 1u32..16 { for mask_b in 0u32..16 {
            let mut a: Set<&str, 4> = Set::new(); let mut b: Set<&str, 4> = Set::new();
            for (i, w) in words.iter().enumerate() { if mask_a >> i & 1 == 1 { a.insert(*w); } if mask_b >> i & 1 == 1 { b.insert(*w); } }
            let want: Vec<&str> = a.iter().copied().filter(|x| !b.iter().any(|y| y == x)).collect();
            let got: Vec<&str> = a.difference_ref(&b).collect();
            let got2: Vec<&str> = a.difference(&b).copied().collect();
            let folded: Vec<&str> = a.difference_ref(&b).fold(Vec::new(), |mut v, x| { v.push(x); v });
            if got != want || got2 != want || folded != want { fault(format!("op=shapes SHAPE_BORROW difference of {:?} and {:?} (elements sharing a start address): difference_ref {:?}, difference {:?}, fold {:?}, expected {:?}", a, b, got, got2, folded, want)); return; }
        } }
    });
    if r.is_err() { fault("op=shapes SHAPE_BORROW the aliased-elements difference scenario panicked".into()); }
}

// stored-key identity with key types WITHOUT drop glue (Copy), where equal keys are distinguishable
fn identity_shapes() {
    #[derive(Clone, Copy, Debug)] struct Tag { id: u8, rev: u8 }
    impl PartialEq for Tag { fn eq(&self, o: &Tag) -> bool { self.id == o.id } }
    impl Eq for Tag {}
    let r = catch_unwind(|| {
        let t = |id, rev| Tag { id, rev };
        let mut m: Map<Tag, u8, 3> = Map::new();
        m.insert(t(1, 0), 10); m.insert(t(2, 0), 20); m.insert(t(3, 0), 30);      // full
        let rev_of = |m: &Map<Tag, u8, 3>, id: u8| m.get_key_value(&t(id, 9)).map(|(k, _)| k.rev);
        m.insert(t(1, 1), 11);
        if rev_of(&m, 1) != Some(0) || m[&t(1, 9)] != 11 { fault(format!("op=shapes KEY_IDENTITY Map<Copy key>::insert of an equal key: stored key revision {:?} (must stay 0), value {}", rev_of(&m, 1), m[&t(1, 9)])); }
        m.checked_insert(t(2, 1), 21);
        if rev_of(&m, 2) != Some(0) { fault(format!("op=shapes KEY_IDENTITY checked_insert of an equal key on a full map: stored key revision {:?} (must stay 0)", rev_of(&m, 2))); }
        *m.entry(t(3, 1)).or_insert(0) += 1;
        if rev_of(&m, 3) != Some(0) || m.keys().any(|k| k.rev != 0) { fault("op=shapes KEY_IDENTITY the entry API replaced a stored Copy key".into()); }
        { let mut u: Map<Tag, u8, 4> = Map::new(); u.insert(t(1, 0), 1); u.insert(t(2, 0), 2);
          let r = unsafe { u.insert_unchecked(t(2, 7), 22) };
          let rev = u.get_key_value(&t(2, 9)).map(|(k, v)| (k.rev, *v));
          if r != Some(2) || rev != Some((0, 22)) { fault(format!("op=shapes KEY_IDENTITY insert_unchecked of an equal Copy key (map not full): returned {:?}, stored (revision, value) {:?}; insert keeps the stored key: (0, 22)", r, rev)); }
          let mut z: Map<f64, u8, 3> = Map::new(); z.insert(0.0, 1); let _ = unsafe { z.insert_unchecked(-0.0, 2) };
          if z.len() != 1 || !z.keys().next().unwrap().is_sign_positive() { fault("op=shapes KEY_IDENTITY insert_unchecked of -0.0 over a stored 0.0 replaced the stored key".into()); } }
        let old = m.insert_key_value(t(1, 2), 12);
        if old.map(|(k, v)| (k.rev, v)) != Some((0, 11)) || rev_of(&m, 1) != Some(2) { fault(format!("op=shapes KEY_IDENTITY insert_key_value must store the supplied key and hand back the old pair: got {:?}, stored revision {:?}", old, rev_of(&m, 1))); }
        if m.remove_entry(&t(1, 7)).map(|(k, _)| k.rev) != Some(2) { fault("op=shapes KEY_IDENTITY remove_entry does not hand back the stored key object".into()); }
        let mut s: Set<Tag, 2> = Set::new(); s.insert(t(5, 0)); s.insert(t(6, 0));
        if s.insert(t(5, 1)) || s.get(&t(5, 9)).map(|k| k.rev) != Some(0) { fault("op=shapes KEY_IDENTITY Set<Copy>::insert of a member replaced the stored element".into()); }
        if s.replace(t(6, 1)).map(|k| k.rev) != Some(0) || s.get(&t(6, 9)).map(|k| k.rev) != Some(1) || s.take(&t(6, 9)).map(|k| k.rev) != Some(1) { fault("op=shapes KEY_IDENTITY Set<Copy>::replace / take do not swap / expose the stored element".into()); }
        let c: Map<Tag, u8, 4> = [(t(1, 0), 1), (t(2, 0), 2), (t(1, 1), 3), (t(2, 1), 4), (t(1, 2), 5)].into_iter().collect();
        if c.get_key_value(&t(1, 9)).map(|(k, v)| (k.rev, *v)) != Some((0, 5)) || c.get_key_value(&t(2, 9)).map(|(k, v)| (k.rev, *v)) != Some((0, 4)) { fault("op=shapes KEY_IDENTITY collect: the first key object must be kept and the last value win".into()); }
        let a: Map<Tag, u8, 4> = Map::from([(t(1, 0), 1), (t(1, 1), 2), (t(2, 0), 3), (t(2, 1), 4)]);
        if a.iter().map(|(k, v)| (k.id, k.rev, *v)).collect::<Vec<_>>() != vec![(1, 0, 2), (2, 0, 4)] { fault(format!("op=shapes KEY_IDENTITY Map::from(array) with repeats gives {:?}", a)); }
        let sa: Set<Tag, 4> = Set::from([t(1, 0), t(1, 1), t(2, 0), t(2, 1)]);
        if sa.iter().map(|k| (k.id, k.rev)).collect::<Vec<_>>() != vec![(1, 0), (2, 0)] { fault(format!("op=shapes KEY_IDENTITY Set::from(array) with repeats gives {:?}", sa)); }
        // Extend by value and by reference (Copy elements) = successive insert: the stored element stays
        for by_ref in [false, true] {
            let mut e: Set<Tag, 4> = Set::new(); e.insert(t(1, 0));
            let batch = [t(1, 1), t(2, 1), t(2, 2), t(3, 1)];
            if by_ref { e.extend(&batch); } else { e.extend(batch); }
            let got: Vec<(u8, u8)> = e.iter().map(|k| (k.id, k.rev)).collect();
            if got != vec![(1, 0), (2, 1), (3, 1)] { fault(format!("op=shapes KEY_IDENTITY Set::extend ({}) over a member / with repeats gives {:?}, successive insert gives [(1, 0), (2, 1), (3, 1)]", if by_ref { "by reference" } else { "by value" }, got)); }
            let mut z: Set<f64, 2> = Set::new(); z.insert(0.0);
            if by_ref { z.extend(&[-0.0f64]); } else { z.extend([-0.0f64]); }
            if z.len() != 1 || !z.iter().next().unwrap().is_sign_positive() { fault("op=shapes KEY_IDENTITY Set<f64>::extend with -0.0 replaced the stored 0.0".into()); }
        }
        let mut f0: Map<f64, u8, 2> = Map::new(); f0.insert(0.0, 1); f0.insert(-0.0, 2);
        if f0.len() != 1 || !f0.keys().next().unwrap().is_sign_positive() || f0[&0.0] != 2 { fault("op=shapes KEY_IDENTITY Map<f64,_>: inserting -0.0 over 0.0 must keep the stored +0.0 and replace the value".into()); }
    });
    if r.is_err() { fault("op=shapes KEY_IDENTITY the key-identity scenario panicked".into()); }
}

// get_disjoint_mut with many keys (more than a machine word has bits) and with slots beyond 255
fn disjoint_wide() {
    let r = catch_unwind(|| {
        let mut m: Map<u32, u32, 300> = Map::new();
        for i in 0..300u32 { m.insert(i, 10_000 + i); }
        let want = |k: u32| if k < 300 { Some(10_000 + k) } else { None };
        let mut check = |name: &str, ks: &[u32]| {
            macro_rules! go { ($n:literal) => {{
                let arr: [&u32; $n] = std::array::from_fn(|i| &ks[i]);
                let base = &m as *const _ as usize;
                let got = m.get_disjoint_mut(arr);
                let vals: Vec<Option<u32>> = got.iter().map(|o| o.as_ref().map(|v| **v)).collect();
                let addrs: Vec<usize> = got.iter().flatten().map(|v| &**v as *const u32 as usize).collect();
                let mut sorted = addrs.clone(); sorted.sort(); sorted.dedup();
                if vals != ks.iter().map(|k| want(*k)).collect::<Vec<_>>() { fault(format!("op=shapes SHAPE_DISJOINT {}: get_disjoint_mut of {} keys on a Map<u32,u32,300> disagrees with get per key", name, $n)); }
                if sorted.len() != addrs.len() || addrs.iter().any(|a| *a < base || *a >= base + std::mem::size_of::<Map<u32, u32, 300>>()) { fault(format!("op=shapes SHAPE_DISJOINT {}: references alias or lie outside the map", name)); }
            }}; }
            match ks.len() { 2 => go!(2), 3 => go!(3), 65 => go!(65), 80 => go!(80), _ => unreachable!() }
        };
        check("slots beyond 255", &[299, 1000]); check("slots beyond 255", &[10, 266]); check("slots beyond 255", &[290, 34, 256]);
        let k65: Vec<u32> = (0..65).map(|i| (i * 4) % 300).collect(); check("65 keys", &k65);
        let k80: Vec<u32> = (0..80).map(|i| if i % 7 == 3 { 5000 + i } else { 299 - 3 * i }).collect(); check("80 keys with misses", &k80);
        for k in [34u32, 290, 256, 0, 255] { if m.get_mut(&k).map(|v| *v) != want(k) { fault("op=shapes SHAPE_DISJOINT get_mut disagrees".into()); } }
    });
    if r.is_err() { fault("op=shapes SHAPE_DISJOINT get_disjoint_mut panicked on pairwise different keys".into()); }
}

// every element destroyed exactly once, and the provided Iterator methods (which an iterator may
// override) agree with stepping by next(), for every fill level, amount consumed and method
thread_local! { static LEDGER: std::cell::RefCell<Vec<u32>> = const { std::cell::RefCell::new(Vec::new()) }; }
#[derive(Debug, PartialEq, Eq)] struct D(u32);
impl Drop for D { fn drop(&mut self) { LEDGER.with(|l| { let mut l = l.borrow_mut(); let i = self.0 as usize; if l.len() <= i { l.resize(i + 1, 0); } l[i] += 1; }); } }
fn ledger_reset() { LEDGER.with(|l| l.borrow_mut().clear()); }
fn ledger_ok(n: u32, what: &str) {
    let bad: Vec<(u32, u32)> = LEDGER.with(|l| { let l = l.borrow(); (0..n).map(|i| (i, l.get(i as usize).copied().unwrap_or(0))).filter(|(_, c)| *c != 1).collect() });
    if !bad.is_empty() { fault(format!("op=shapes DROP_LEDGER {}: (element, times destroyed) {:?} (each must be destroyed exactly once)", what, bad)); }
}
fn provided_methods() {
    let r = catch_unwind(|| {
        for len in 0..=5u32 { for taken in 0..=len { for method in 0..9 { for kind in 0..5 {
            ledger_reset();
            let what = format!("{} of len {} after {} next() calls, then method #{} (0 last, 1 count, 2 nth(1), 3 fold, 4 for_each, 5 collect, 6 by_ref().take(1), 7 drop, 8 min_by_key)", ["Map::into_iter", "Map::into_keys", "Map::into_values", "Set::into_iter", "Map::drain"][kind], len, taken, method);
            // ids: keys 2i, values 2i+1 (sets: elements i)
            macro_rules! drive { ($it:expr, $n:expr) => {{
                let mut it = $it;
                let mut seen = Vec::new();
                for _ in 0..taken { seen.push(it.next()); }
                let left = (len - taken) as usize;
                if it.len() != left || it.size_hint() != (left, Some(left)) { fault(format!("op=shapes PROVIDED {}: len() {} size_hint {:?}, {} items are left", what, it.len(), it.size_hint(), left)); }
                match method {
                    0 => { let l = it.last(); if l.is_some() != (left > 0) { fault(format!("op=shapes PROVIDED {}: last() is_some = {}", what, l.is_some())); } }
                    1 => { let c = it.count(); if c != left { fault(format!("op=shapes PROVIDED {}: count() = {}", what, c)); } }
                    2 => { let x = it.nth(1); if x.is_some() != (left > 1) { fault(format!("op=shapes PROVIDED {}: nth(1) is_some = {}", what, x.is_some())); } let rest = it.count(); if rest != left.saturating_sub(2) { fault(format!("op=shapes PROVIDED {}: {} items after nth(1)", what, rest)); } }
                    3 => { let c = it.fold(0usize, |a, _| a + 1); if c != left { fault(format!("op=shapes PROVIDED {}: fold visited {}", what, c)); } }
                    4 => { let mut c = 0usize; it.for_each(|_| c += 1); if c != left { fault(format!("op=shapes PROVIDED {}: for_each visited {}", what, c)); } }
                    5 => { let v: Vec<_> = it.collect(); if v.len() != left { fault(format!("op=shapes PROVIDED {}: collect gave {}", what, v.len())); } }
                    6 => { let v: Vec<_> = it.by_ref().take(1).collect(); if v.len() != left.min(1) { fault(format!("op=shapes PROVIDED {}: by_ref().take(1) gave {}", what, v.len())); } if it.len() != left.saturating_sub(1) { fault(format!("op=shapes PROVIDED {}: len() after by_ref().take(1) = {}", what, it.len())); } }
                    7 => { drop(it); }
                    _ => { let x = it.min_by_key(|_| 0u8); if x.is_some() != (left > 0) { fault(format!("op=shapes PROVIDED {}: min_by_key is_some = {}", what, x.is_some())); } }
                }
                drop(seen);
                $n
            }}; }
            let mk_map = || { let mut m: Map<D, D, 5> = Map::new(); for i in 0..len { m.insert(D(2 * i), D(2 * i + 1)); } m };
            let mk_set = || { let mut s: Set<D, 5> = Set::new(); for i in 0..len { s.insert(D(i)); } s };
            let n = match kind {
                0 => drive!(mk_map().into_iter(), 2 * len),
                1 => drive!(mk_map().into_keys(), 2 * len),
                2 => drive!(mk_map().into_values(), 2 * len),
                3 => drive!(mk_set().into_iter(), len),
                _ => { let mut m = mk_map(); let n = drive!(m.drain(), 2 * len); if !m.is_empty() { fault(format!("op=shapes PROVIDED {}: the map is not empty after the drain", what)); } m.insert(D(2 * len), D(2 * len + 1)); drop(m); n + 2 }
            };
            ledger_ok(n, &what);
        } } } }
        // borrowing iterators: every provided method agrees with next()-stepping, in order
        let mut m: Map<u32, u32, 6> = Map::new(); for i in [1u32, 5, 3, 4, 9] { m.insert(i, i * 10); } m.remove(&5);
        let order: Vec<(u32, u32)> = { let mut it = m.iter(); let mut v = Vec::new(); while let Some((k, x)) = it.next() { v.push((*k, *x)); } v };
        let mut fe = Vec::new(); m.iter().for_each(|(k, x)| fe.push((*k, *x)));
        let fo: Vec<(u32, u32)> = m.iter().fold(Vec::new(), |mut a, (k, x)| { a.push((*k, *x)); a });
        let (uk, uv): (Vec<u32>, Vec<u32>) = m.iter().map(|(k, x)| (*k, *x)).unzip();
        if fe != order || fo != order || m.iter().last().map(|(k, x)| (*k, *x)) != order.last().copied() || uk != order.iter().map(|p| p.0).collect::<Vec<_>>() || uv != order.iter().map(|p| p.1).collect::<Vec<_>>() {
            fault(format!("op=shapes PROVIDED Map::iter(): for_each / fold / last / unzip visit {:?} / {:?}, next() yields {:?}", fe, fo, order)); }
        let ks: Vec<u32> = m.keys().fold(Vec::new(), |mut a, k| { a.push(*k); a }); let vs: Vec<u32> = m.values().fold(Vec::new(), |mut a, x| { a.push(*x); a });
        if ks != order.iter().map(|p| p.0).collect::<Vec<_>>() || vs != order.iter().map(|p| p.1).collect::<Vec<_>>() || m.keys().last() != order.last().map(|p| &p.0) || m.values().last() != order.last().map(|p| &p.1) {
            fault(format!("op=shapes PROVIDED Map::keys()/values(): fold / last visit {:?} / {:?}, next() yields {:?}", ks, vs, order)); }
        let mut half = m.iter(); half.next(); let c = half.clone(); let rest_c: Vec<u32> = c.fold(Vec::new(), |mut a, (k, _)| { a.push(*k); a }); let rest_o: Vec<u32> = half.map(|(k, _)| *k).collect();
        if rest_c != rest_o { fault(format!("op=shapes PROVIDED a cloned Map::iter() folded mid-way visits {:?}, the original stepped yields {:?}", rest_c, rest_o)); }
        let mut wm: Vec<u32> = Vec::new(); m.iter_mut().for_each(|(k, x)| { *x += 1; wm.push(*k); }); let vm: Vec<u32> = m.values_mut().fold(Vec::new(), |mut a, x| { a.push(*x); a });
        if wm != order.iter().map(|p| p.0).collect::<Vec<_>>() || vm != order.iter().map(|p| p.1 + 1).collect::<Vec<_>>() { fault("op=shapes PROVIDED Map::iter_mut()/values_mut(): for_each / fold do not visit in next() order".into()); }
        let st: Set<u32, 5> = [7u32, 2, 8, 4].into_iter().collect(); let so: Vec<u32> = { let mut it = st.iter(); let mut v = Vec::new(); while let Some(x) = it.next() { v.push(*x); } v };
        let sf: Vec<u32> = st.iter().fold(Vec::new(), |mut a, x| { a.push(*x); a });
        if sf != so || st.iter().last() != so.last() || st.iter().min() != so.iter().min() || st.iter().max() != so.iter().max() || st.iter().nth(2) != so.get(2) { fault(format!("op=shapes PROVIDED Set::iter(): fold / last / min / max / nth disagree with next(): {:?} vs {:?}", sf, so)); }
    });
    if r.is_err() { fault("op=shapes PROVIDED the provided-method scenario panicked".into()); }
}

pub fn run() {
    clone_counts::<1>(); clone_counts::<3>(); clone_counts::<8>(); zst_clone_counts();
    overflow_shape::<u8, (), 0>("u8 -> () (ZST value)", &[], 1, ());
    overflow_shape::<u8, (), 2>("u8 -> () (ZST value)", &[1, 2], 3, ());
    overflow_shape::<(), u64, 1>("() (ZST key) -> u64", &[()], (), 5);
    overflow_shape::<u32, u32, 3>("small Copy", &[1, 2, 3], 4, 9);
    overflow_shape::<u64, [u64; 32], 2>("large payload", &[1, 2], 3, [7; 32]);
    overflow_shape::<String, Vec<u8>, 2>("heap-owning", &["a".to_string(), "b".to_string()], "c".to_string(), vec![1, 2, 3]);
    overflow_shape::<u16, [u8; 3], 8>("odd-sized", &[1, 2, 3, 4, 5, 6, 7, 8], 9, [1, 2, 3]);
    no_alloc();
    misc_surface();
    shape_models();
    serde_shapes();
    fmt_shapes();
    borrow_shapes();
    identity_shapes();
    tiny_domain_shapes();
    unlawful_operand_shapes();
    disjoint_wide();
    provided_methods();
}
