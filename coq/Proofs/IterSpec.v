(* IterSpec.v — functional behaviour of the iterators of the model, for EVERY
   environment (iterators make no user callback except Drop in drain_drop):
   - borrowing iterators visit every slot 0..len-1 exactly once, in order, and
     report exact lengths; writes through iter_mut change exactly one entry;
   - IntoIter yields the reversed content, each entry once;
   - drain yields the content in order; the container is empty from the moment
     the drain is created, whatever happens afterwards. *)
Require Import Model.Base Model.Slots Model.MapOps Proofs.Hoare Proofs.Inv Proofs.Safety Proofs.Safety2 Proofs.Spec Proofs.Lawful.
From Coq Require Import Permutation.

(* ---------- pure list facts ---------- *)
Section ListFacts.
Context {A : Type}.

Lemma upd_same (l : list A) i x : nth_error l i = Some x -> upd l i x = l.
Proof.
  revert i; induction l as [|h t IH]; intros [|i] H; cbn [nth_error] in H; cbn [upd]; try discriminate.
  - injection H as ->. reflexivity.
  - f_equal. apply IH. exact H.
Qed.

Lemma skipn_nth (l : list A) i x : nth_error l i = Some x -> skipn i l = x :: skipn (S i) l.
Proof.
  revert i; induction l as [|h t IH]; intros [|i] H; cbn [nth_error] in H; try discriminate.
  - injection H as ->. reflexivity.
  - change (skipn (S i) (h :: t)) with (skipn i t).
    change (skipn (S (S i)) (h :: t)) with (skipn (S i) t). apply IH. exact H.
Qed.

Lemma skipn_upd_lt (l : list A) i j x : i < j -> skipn j (upd l i x) = skipn j l.
Proof.
  revert i j; induction l as [|h t IH]; intros i j H.
  - destruct i; reflexivity.
  - destruct j as [|j]; [lia|]. destruct i as [|i]; cbn [upd skipn]; [reflexivity|].
    apply IH. lia.
Qed.

Lemma firstn_min_length (l : list A) n : firstn (Nat.min n (length l)) l = firstn n l.
Proof.
  destruct (Nat.le_ge_cases n (length l)) as [H|H].
  - rewrite Nat.min_l by exact H. reflexivity.
  - rewrite Nat.min_r by exact H. rewrite firstn_all. symmetry. apply firstn_all2. exact H.
Qed.

Lemma skipn_min_length (l : list A) n : skipn (Nat.min n (length l)) l = skipn n l.
Proof.
  destruct (Nat.le_ge_cases n (length l)) as [H|H].
  - rewrite Nat.min_l by exact H. reflexivity.
  - rewrite Nat.min_r by exact H. rewrite skipn_all. symmetry. apply skipn_all2. exact H.
Qed.

End ListFacts.

Section IterSpec.
Context {K V Q T : Type} (E : env K V Q T) (debug : bool).
Notation M := (M K V T). Notation world := (world K V T). Notation map := (map K V). Notation kv := (K * V)%type.

(* ---------- runners: n steps of a session ---------- *)
Fixpoint iter_run (n : nat) (c : cursor) : M (list nat * cursor) :=
  match n with
  | 0 => ret ([], c)
  | S n' => '(o, c') <- iter_next c ;;
            match o with
            | None => ret ([], c')
            | Some i => '(r, c'') <- iter_run n' c' ;; ret (i :: r, c'')
            end
  end.
Fixpoint into_run (n : nat) : M (list kv) :=
  match n with
  | 0 => ret []
  | S n' => o <- into_iter_next ;;
            match o with None => ret [] | Some p => r <- into_run n' ;; ret (p :: r) end
  end.
Fixpoint drain_run (n : nat) (c : cursor) : M (list kv * cursor) :=
  match n with
  | 0 => ret ([], c)
  | S n' => '(o, c') <- drain_next c ;;
            match o with
            | None => ret ([], c')
            | Some p => '(r, c'') <- drain_run n' c' ;; ret (p :: r, c'')
            end
  end.

Lemma wp_bind_assoc {A B C} (c : M A) (f : A -> M B) (g : B -> M C)
      (Qn : C -> world -> Prop) (Qp : world -> Prop) w :
  wp (bind (bind c f) g) Qn Qp w -> wp (bind c (fun x => bind (f x) g)) Qn Qp w.
Proof. unfold wp, bind. destruct (c w); auto. Qed.

(* ====================================================================== *)
(* 1. borrowing iterators                                                  *)
(* ====================================================================== *)

(* iter() and next() do not change the world at all *)
Lemma iter_exact (w : world) :
  WF (self w) ->
  wp iter (fun c w' => w' = w /\ c = (0, len (self w))) (fun _ => False) w.
Proof.
  intros [Hl Hs]. unfold iter.
  apply wp_bind. apply wp_p_prefix; [intros _ | lia].
  apply wp_bind. apply wp_get_len. apply wp_ret. split; reflexivity.
Qed.

Lemma iter_next_exact lo hi (w : world) :
  WF (self w) -> hi <= len (self w) ->
  wp (iter_next (lo, hi))
     (fun r w' => w' = w /\ r = if lo <? hi then (Some lo, (S lo, hi)) else (None, (lo, hi)))
     (fun _ => False) w.
Proof.
  intros Hw Hc. unfold iter_next. destruct (Nat.ltb_spec lo hi) as [Hlt|Hge].
  - assert (Hi : lo < len (self w)) by lia.
    destruct (WF_live _ _ Hw Hi) as [p Hp].
    apply wp_bind. eapply wp_p_ref; [exact Hp|]. apply wp_ret. split; reflexivity.
  - apply wp_ret. split; reflexivity.
Qed.

Lemma iter_run_from n : forall lo (w : world),
  WF (self w) -> lo <= len (self w) ->
  wp (iter_run n (lo, len (self w)))
     (fun r w' => w' = w /\ fst r = seq lo (Nat.min n (len (self w) - lo)) /\
                  snd r = (lo + Nat.min n (len (self w) - lo), len (self w)))
     (fun _ => False) w.
Proof.
  induction n as [|n IH]; intros lo w Hw Hlo; cbn [iter_run].
  - apply wp_ret. cbn [fst snd]. rewrite Nat.min_0_l, Nat.add_0_r. cbn [seq]. auto.
  - apply wp_bind.
    eapply wp_mono; [apply iter_next_exact; [exact Hw | lia] | | auto]; cbn beta.
    intros r0 w0 [-> ->]. destruct (Nat.ltb_spec lo (len (self w))) as [Hlt|Hge]; cbv beta iota.
    + apply wp_bind.
      eapply wp_mono; [apply (IH (S lo) w Hw); lia | | auto]; cbn beta.
      intros [r c''] w' (-> & Hr & Hc). cbn [fst snd] in Hr, Hc. cbv beta iota.
      apply wp_ret. cbn [fst snd].
      replace (Nat.min (S n) (len (self w) - lo)) with (S (Nat.min n (len (self w) - S lo))) by lia.
      cbn [seq]. rewrite Hr, Hc. split; [reflexivity|]. split; [reflexivity|]. f_equal. lia.
    + apply wp_ret. cbn [fst snd].
      replace (Nat.min (S n) (len (self w) - lo)) with 0 by lia.
      cbn [seq]. rewrite Nat.add_0_r. auto.
Qed.

(* every slot 0..len-1 is yielded exactly once, in order, and nothing else;
   the session does not change the world (container, log, callback state) *)
Lemma iter_run_exact n (w : world) :
  WF (self w) ->
  wp (c <- iter ;; iter_run n c)
     (fun r w' => w' = w /\ fst r = seq 0 (Nat.min n (len (self w))) /\
                  snd r = (Nat.min n (len (self w)), len (self w)))
     (fun _ => False) w.
Proof.
  intros Hw. apply wp_bind.
  eapply wp_mono; [apply iter_exact; exact Hw | | auto]; cbn beta.
  intros c w' [-> ->].
  eapply wp_mono; [apply (iter_run_from n 0 w Hw); lia | | auto]; cbn beta.
  intros r w'. rewrite Nat.sub_0_r. cbn [Nat.add]. auto.
Qed.

Lemma iter_run_spec n (w : world) :
  WF (self w) ->
  wp (c <- iter ;; iter_run n c)
     (fun r w' => self w' = self w /\ log w' = log w /\
                  fst r = seq 0 (Nat.min n (len (self w))) /\
                  snd r = (Nat.min n (len (self w)), len (self w)))
     (fun _ => False) w.
Proof.
  intros Hw. eapply wp_mono; [apply iter_run_exact; exact Hw | | auto]; cbn beta.
  intros r w' (-> & H1 & H2). auto.
Qed.

(* 2. the length reported after j steps *)
Lemma iter_exact_len j (w : world) :
  cursor_len (Nat.min j (len (self w)), len (self w)) = len (self w) - Nat.min j (len (self w)).
Proof. reflexivity. Qed.

(* 3. an exhausted iterator stays exhausted *)
Lemma iter_fused (w : world) :
  WF (self w) ->
  wp (iter_next (len (self w), len (self w)))
     (fun r w' => self w' = self w /\ fst r = None /\ snd r = (len (self w), len (self w)))
     (fun _ => False) w.
Proof.
  intros Hw. eapply wp_mono; [apply iter_next_exact; [exact Hw | lia] | | auto]; cbn beta.
  intros r w' [-> ->]. rewrite Nat.ltb_irrefl. cbn [fst snd]. auto.
Qed.

(* 4. slot i yielded by the iterator holds entry i of the content *)
Lemma iter_yield_is_elem i (w : world) :
  WF (self w) -> i < len (self w) ->
  exists p, nth_error (elems (self w)) i = Some p /\ nth_error (slots (self w)) i = Some (Some p).
Proof.
  intros Hw Hi. destruct (WF_live _ _ Hw Hi) as [p Hp]. exists p.
  split; [apply (elems_nth (self w) i p Hw Hi); exact Hp | exact Hp].
Qed.

(* 5. two sessions over the same container yield the same sequence *)
Lemma iter_stable_order n (w1 w2 : world) :
  WF (self w1) -> self w1 = self w2 ->
  wp (c <- iter ;; iter_run n c)
     (fun r1 _ =>
        wp (c <- iter ;; iter_run n c)
           (fun r2 _ => fst r1 = fst r2 /\ fst r1 = seq 0 (Nat.min n (len (self w1))))
           (fun _ => False) w2)
     (fun _ => False) w1.
Proof.
  intros Hw He.
  eapply wp_mono; [apply iter_run_spec; exact Hw | | auto]; cbn beta.
  intros r1 _ (_ & _ & H1 & _).
  assert (Hw2 : WF (self w2)) by (rewrite <- He; exact Hw).
  eapply wp_mono; [apply iter_run_spec; exact Hw2 | | auto]; cbn beta.
  intros r2 _ (_ & _ & H2 & _). rewrite H1, H2, He. split; reflexivity.
Qed.

(* 6. a write through iter_mut / values_mut at slot i changes exactly entry i *)
Lemma writes_visible i (v' : V) (w : world) :
  WF (self w) -> i < len (self w) ->
  forall k v, nth_error (elems (self w)) i = Some (k, v) ->
    elems (set_slot_m (self w) i (Some (k, v'))) = upd (elems (self w)) i (k, v') /\
    WF (set_slot_m (self w) i (Some (k, v'))).
Proof.
  intros Hw Hi k v _. split.
  - apply elems_set_slot; assumption.
  - apply WF_set_slot_some; [exact Hw|]. pose proof (WF_len_le_cap _ Hw). lia.
Qed.

(* ====================================================================== *)
(* 2. the consuming iterator                                               *)
(* ====================================================================== *)

Lemma take_live_last (sl : list (option kv)) n p :
  n < length sl -> (forall j, j < n -> exists q, nth_error sl j = Some (Some q)) ->
  nth_error sl n = Some (Some p) ->
  take_live sl (S n) = take_live sl n ++ [p].
Proof.
  intros Hl Hs Hp. rewrite <- (take_live_snoc sl n p Hl Hs).
  rewrite (upd_same sl n (Some p) Hp). reflexivity.
Qed.

(* one step: pops the last entry *)
Lemma into_iter_next_exact (w : world) :
  WF (self w) ->
  wp into_iter_next
     (fun r w' => WF (self w') /\ cap (self w') = cap (self w) /\ log w' = log w /\
                  match r with
                  | None => len (self w) = 0 /\ self w' = self w
                  | Some p => S (len (self w')) = len (self w) /\
                              elems (self w) = elems (self w') ++ [p]
                  end)
     (fun _ => False) w.
Proof.
  intros Hw. unfold into_iter_next. apply wp_bind. apply wp_get_len.
  destruct (len (self w)) as [|n] eqn:Hn.
  - apply wp_ret. auto.
  - assert (Hi : n < len (self w)) by lia.
    destruct (WF_live _ _ Hw Hi) as [p Hp].
    apply wp_bind. apply wp_set_len. apply wp_bind.
    eapply wp_p_read; [simp_w; exact Hp|]. apply wp_ret. simp_w.
    split; [|split; [|split; [|split]]].
    + apply WF_set_slot_none_ge; [|cbn [set_len_m len]; lia].
      apply WF_set_len_le; [exact Hw | lia].
    + rewrite cap_set_slot. apply cap_set_len.
    + reflexivity.
    + reflexivity.
    + rewrite elems_set_slot_ge by (cbn [set_len_m len]; lia).
      unfold elems. cbn [set_len_m len slots]. rewrite Hn.
      destruct Hw as [Hl Hs]. apply take_live_last.
      * fold (cap (self w)). lia.
      * intros j Hj. apply Hs. lia.
      * exact Hp.
Qed.

(* IntoIter pops from the end: the yielded sequence is the reversed content,
   each entry once; what is left is a prefix *)
Lemma into_run_spec n : forall (w : world),
  WF (self w) ->
  wp (into_run n)
     (fun r w' => WF (self w') /\ cap (self w') = cap (self w) /\ log w' = log w /\
                  r = firstn n (rev (elems (self w))) /\
                  len (self w') = len (self w) - Nat.min n (len (self w)) /\
                  elems (self w') = firstn (len (self w) - Nat.min n (len (self w))) (elems (self w)))
     (fun _ => False) w.
Proof.
  induction n as [|n IH]; intros w Hw; cbn [into_run].
  - apply wp_ret. rewrite Nat.min_0_l, Nat.sub_0_r.
    split; [exact Hw|]. split; [reflexivity|]. split; [reflexivity|]. split; [reflexivity|].
    split; [reflexivity|]. rewrite <- (elems_length _ Hw). symmetry. apply firstn_all.
  - apply wp_bind.
    eapply wp_mono; [apply into_iter_next_exact; exact Hw | | auto]; cbn beta.
    intros [p|] w1 (Hw1 & Hc1 & Hl1 & H1).
    + destruct H1 as [Hlen He]. apply wp_bind.
      eapply wp_mono; [apply (IH w1 Hw1) | | auto]; cbn beta.
      intros r w2 (Hw2 & Hc2 & Hl2 & Hr & Hlen2 & He2). apply wp_ret.
      pose proof (elems_length _ Hw1) as HL1.
      split; [exact Hw2|]. split; [congruence|]. split; [congruence|].
      split; [|split].
      * rewrite He, rev_app_distr. cbn [rev app firstn]. rewrite Hr. reflexivity.
      * lia.
      * rewrite He2, He.
        replace (len (self w) - Nat.min (S n) (len (self w)))
          with (len (self w1) - Nat.min n (len (self w1))) by lia.
        rewrite firstn_app.
        replace (len (self w1) - Nat.min n (len (self w1)) - length (elems (self w1))) with 0 by lia.
        cbn [firstn]. rewrite app_nil_r. reflexivity.
    + destruct H1 as [Hlen He]. apply wp_ret.
      assert (Hnil : elems (self w) = []).
      { apply length_zero_iff_nil. rewrite (elems_length _ Hw). exact Hlen. }
      rewrite He, Hnil, Hlen. cbn [rev]. rewrite firstn_nil.
      split; [exact Hw|]. split; [reflexivity|]. split; [exact Hl1|]. split; [reflexivity|].
      split; [lia|]. rewrite firstn_nil. reflexivity.
Qed.

(* consuming the whole container yields exactly its content and leaves it empty *)
Lemma into_run_all (w : world) :
  WF (self w) ->
  wp (into_run (len (self w)))
     (fun r w' => Permutation r (elems (self w)) /\ len (self w') = 0)
     (fun _ => False) w.
Proof.
  intros Hw. eapply wp_mono; [apply into_run_spec; exact Hw | | auto]; cbn beta.
  intros r w' (_ & _ & _ & Hr & Hlen & _). split; [|lia].
  rewrite Hr. rewrite <- (elems_length _ Hw) at 1. rewrite <- rev_length, firstn_all.
  apply Permutation_sym. apply Permutation_rev.
Qed.

(* the exact order: reversed content *)
Lemma into_run_all_rev (w : world) :
  WF (self w) ->
  wp (into_run (len (self w)))
     (fun r w' => r = rev (elems (self w)) /\ len (self w') = 0 /\ elems (self w') = [])
     (fun _ => False) w.
Proof.
  intros Hw. eapply wp_mono; [apply into_run_spec; exact Hw | | auto]; cbn beta.
  intros r w' (_ & _ & _ & Hr & Hlen & He). split; [|split].
  - rewrite Hr. rewrite <- (elems_length _ Hw) at 1. rewrite <- rev_length. apply firstn_all.
  - lia.
  - rewrite He. replace (len (self w) - Nat.min (len (self w)) (len (self w))) with 0 by lia.
    reflexivity.
Qed.

(* ====================================================================== *)
(* 3. drain                                                                *)
(* ====================================================================== *)

(* the slots still owned by the cursor hold the corresponding entries of l *)
Definition Agree (l : list kv) (c : cursor) (m : map) : Prop :=
  forall j, fst c <= j < snd c ->
    exists p, nth_error l j = Some p /\ nth_error (slots m) j = Some (Some p).

Lemma drain_run_from (l : list kv) n : forall lo hi (w1 : world),
  DrainInv (lo, hi) (self w1) -> lo <= hi -> Agree l (lo, hi) (self w1) ->
  wp (drain_run n (lo, hi))
     (fun r w' => fst r = firstn (Nat.min n (hi - lo)) (skipn lo l) /\
                  snd r = (lo + Nat.min n (hi - lo), hi) /\
                  DrainInv (snd r) (self w') /\ Agree l (snd r) (self w') /\
                  cap (self w') = cap (self w1) /\ log w' = log w1)
     (fun _ => False) w1.
Proof.
  induction n as [|n IH]; intros lo hi w1 HD Hlo HA; cbn [drain_run].
  - apply wp_ret. cbn [fst snd]. rewrite Nat.min_0_l, Nat.add_0_r. cbn [firstn]. auto 10.
  - apply wp_bind. unfold drain_next. destruct (Nat.ltb_spec lo hi) as [Hlt|Hge].
    + destruct (HA lo) as [p [Hpl Hp]]; [cbn [fst snd]; lia|].
      apply wp_bind. eapply wp_p_read; [exact Hp|]. apply wp_ret. cbv beta iota.
      destruct HD as (HDl & HDc & HDs). cbn [fst snd] in HDc, HDs.
      apply wp_bind.
      eapply wp_mono; [apply (IH (S lo) hi) | | auto]; cbn beta.
      * simp_w. unfold DrainInv. cbn [fst snd]. rewrite cap_set_slot, len_set_slot.
        split; [exact HDl|]. split; [exact HDc|].
        intros j Hj. apply live_set_slot_neq; [lia | apply HDs; lia].
      * lia.
      * simp_w. intros j Hj. cbn [fst snd] in Hj.
        destruct (HA j) as [q [Hq1 Hq2]]; [cbn [fst snd]; lia|].
        exists q. split; [exact Hq1|]. cbn [set_slot_m slots].
        rewrite nth_error_upd_neq by lia. exact Hq2.
      * intros [r c''] w' (Hr & Hc & HD' & HA' & Hcap & Hlog).
        cbn [fst snd] in Hr, Hc, HD', HA'. cbv beta iota. apply wp_ret. cbn [fst snd].
        simp_w. rewrite cap_set_slot in Hcap.
        replace (Nat.min (S n) (hi - lo)) with (S (Nat.min n (hi - S lo))) by lia.
        rewrite (skipn_nth l lo p Hpl). cbn [firstn]. subst r c''.
        split; [reflexivity|]. split; [f_equal; lia|].
        replace (lo + S (Nat.min n (hi - S lo))) with (S lo + Nat.min n (hi - S lo)) by lia.
        auto 10.
    + apply wp_ret. cbv beta iota. apply wp_ret. cbn [fst snd].
      replace (Nat.min (S n) (hi - lo)) with 0 by lia. rewrite Nat.add_0_r. cbn [firstn]. auto 10.
Qed.

Lemma Agree_elems (m : map) n :
  WF m -> Agree (elems m) (0, len m) (set_len_m m n).
Proof.
  intros Hw j Hj. cbn [fst snd] in Hj.
  destruct (WF_live _ _ Hw (proj2 Hj)) as [p Hp]. exists p.
  split; [apply (elems_nth m j p Hw (proj2 Hj)); exact Hp | exact Hp].
Qed.

(* strong form: also says which entries the cursor still owns *)
Lemma drain_run_strong n (w : world) :
  WF (self w) ->
  wp (c <- drain ;; drain_run n c)
     (fun r w' => fst r = firstn n (elems (self w)) /\
                  snd r = (Nat.min n (len (self w)), len (self w)) /\
                  DrainInv (snd r) (self w') /\ Agree (elems (self w)) (snd r) (self w') /\
                  cap (self w') = cap (self w) /\ log w' = log w /\ len (self w') = 0)
     (fun _ => False) w.
Proof.
  intros Hw. pose proof Hw as [Hl Hs]. apply wp_bind. unfold drain.
  apply wp_bind. apply wp_p_prefix; [intros _ | lia].
  apply wp_bind. apply wp_get_len. apply wp_bind. apply wp_set_len. apply wp_ret.
  eapply wp_mono; [apply (drain_run_from (elems (self w)) n 0 (len (self w))) | | auto]; cbn beta.
  - simp_w. unfold DrainInv. cbn [fst snd set_len_m len]. split; [reflexivity|]. split.
    + rewrite cap_set_len. exact Hl.
    + intros j Hj. apply live_set_len. apply Hs. lia.
  - lia.
  - simp_w. apply Agree_elems. exact Hw.
  - intros r w' (Hr & Hc & HD & HA & Hcap & Hlog). simp_w.
    rewrite Nat.sub_0_r in Hr, Hc. cbn [skipn Nat.add] in Hr, Hc.
    rewrite <- (elems_length _ Hw) in Hr at 1. rewrite firstn_min_length in Hr.
    split; [exact Hr|]. split; [exact Hc|]. split; [exact HD|]. split; [exact HA|].
    split; [rewrite Hcap; apply cap_set_len|]. split; [exact Hlog|]. apply HD.
Qed.

(* 9. drain yields the content in order; the container is already empty *)
Lemma drain_run_spec n (w : world) :
  WF (self w) ->
  wp (c <- drain ;; drain_run n c)
     (fun r w' => fst r = firstn n (elems (self w)) /\
                  snd r = (Nat.min n (len (self w)), len (self w)) /\
                  DrainInv (snd r) (self w') /\
                  cap (self w') = cap (self w) /\ log w' = log w /\ len (self w') = 0)
     (fun w' => self w' = self w) w.
Proof.
  intros Hw. eapply wp_mono; [apply drain_run_strong; exact Hw | | intros w' []]; cbn beta.
  intros r w' (H1 & H2 & H3 & _ & H4 & H5 & H6). auto 10.
Qed.

(* taking everything yields exactly the content *)
Lemma drain_run_all (w : world) :
  WF (self w) ->
  wp (c <- drain ;; drain_run (len (self w)) c)
     (fun r w' => fst r = elems (self w) /\ cursor_len (snd r) = 0 /\ len (self w') = 0)
     (fun _ => False) w.
Proof.
  intros Hw. eapply wp_mono; [apply drain_run_strong; exact Hw | | auto]; cbn beta.
  intros r w' (H1 & H2 & _ & _ & _ & _ & H6). split; [|split; [|exact H6]].
  - rewrite H1. rewrite <- (elems_length _ Hw). apply firstn_all.
  - rewrite H2. unfold cursor_len. cbn [fst snd]. lia.
Qed.

(* 10. whatever number of items was taken before the drain is dropped, and
   whatever the Drop callbacks do, the container ends empty, well-formed, with
   the same capacity *)
Lemma drain_empties n (w : world) :
  WF (self w) ->
  let post := fun w' : world => WF (self w') /\ len (self w') = 0 /\ cap (self w') = cap (self w) in
  wp (c <- drain ;; r <- drain_run n c ;; drain_drop E (snd r))
     (fun _ => post) (fun w' => post w' \/ self w' = self w) w.
Proof.
  intros Hw post.
  apply (wp_bind_assoc drain (fun c => drain_run n c) (fun r => drain_drop E (snd r))).
  apply wp_bind.
  eapply wp_mono; [apply drain_run_strong; exact Hw | | intros w' []]; cbn beta.
  intros r w' (_ & _ & HD & _ & Hcap & _ & _).
  eapply wp_mono; [apply drain_drop_spec; exact HD | |]; cbn beta; unfold post.
  - intros _ w''. rewrite Hcap. auto.
  - intros w''. rewrite Hcap. auto.
Qed.

(* the same without the impossible slice-check panic *)
Lemma drain_empties_strong n (w : world) :
  WF (self w) ->
  let post := fun w' : world => WF (self w') /\ len (self w') = 0 /\ cap (self w') = cap (self w) in
  wp (c <- drain ;; r <- drain_run n c ;; drain_drop E (snd r)) (fun _ => post) post w.
Proof.
  intros Hw post.
  apply (wp_bind_assoc drain (fun c => drain_run n c) (fun r => drain_drop E (snd r))).
  apply wp_bind.
  eapply wp_mono; [apply drain_run_strong; exact Hw | | intros w' []]; cbn beta.
  intros r w' (_ & _ & HD & _ & Hcap & _ & _).
  eapply wp_mono; [apply drain_drop_spec; exact HD | |]; cbn beta; unfold post.
  - intros _ w''. rewrite Hcap. auto.
  - intros w''. rewrite Hcap. auto.
Qed.

(* mem::forget(drain): the container is empty and well-formed all the same *)
Lemma drain_forgotten n (w : world) :
  WF (self w) ->
  wp (c <- drain ;; drain_run n c)
     (fun _ w' => WF (self w') /\ len (self w') = 0 /\ cap (self w') = cap (self w))
     (fun w' => self w' = self w) w.
Proof.
  intros Hw. eapply wp_mono; [apply drain_run_spec; exact Hw | | auto]; cbn beta.
  intros r w' (_ & _ & HD & Hcap & _ & Hlen).
  split; [eapply DrainInv_WF; exact HD | auto].
Qed.

(* ====================================================================== *)
(* 4. what dropping a drain destroys                                       *)
(* ====================================================================== *)

(* the events of destroying one pair *)
Definition evp (p : kv) : list event := ev_drops (idK E (fst p) ++ idV E (snd p)).

Definition ev_drop_only (evs : list event) : Prop :=
  Forall (fun e => match e with EvDrop _ => True | _ => False end) evs.

(* the pairs in slots fst c .. snd c - 1 *)
Definition slot_pairs (m : map) (c : cursor) : list kv :=
  take_live (skipn (fst c) (slots m)) (cursor_len c).

Lemma ev_drop_only_evp p : ev_drop_only (evp p).
Proof.
  unfold ev_drop_only, evp, ev_drops. apply Forall_forall. intros e He.
  apply in_map_iff in He. destruct He as [x [<- _]]. exact I.
Qed.

Lemma ev_drop_only_flat l : ev_drop_only (flat_map evp l).
Proof.
  unfold ev_drop_only. induction l as [|p t IH]; cbn [flat_map]; [constructor|].
  apply Forall_app. split; [apply ev_drop_only_evp | exact IH].
Qed.

(* destroying a pair, any environment: the events are logged first, then the
   user's Drop code runs and may ask to unwind *)
Lemma drop_pair_logs p (w : world) :
  let post := fun w' : world => self w' = self w /\ log w' = log w ++ evp p in
  wp (drop_pair E p) (fun _ => post) post w.
Proof.
  intros post. unfold drop_pair. apply wp_bind. apply wp_emit.
  apply wp_bind. apply wp_cbd. intros bk s. apply wp_bind. apply wp_cbd. intros bv s'.
  destruct (bk || bv); [apply wp_panic | apply wp_ret]; unfold post; simp_w; split; reflexivity.
Qed.

Lemma drop_range_logs n : forall i (w : world),
  (forall j, i <= j < i + n -> live (self w) j) ->
  wp (drop_range E n i)
     (fun _ w' => log w' = log w ++ flat_map evp (take_live (skipn i (slots (self w))) n))
     (fun w' => exists k, log w' = log w ++ flat_map evp (firstn k (take_live (skipn i (slots (self w))) n)))
     w.
Proof.
  induction n as [|n IH]; intros i w Hl; cbn [drop_range].
  - apply wp_ret. cbn [take_live flat_map]. rewrite app_nil_r. reflexivity.
  - destruct (Hl i ltac:(lia)) as [p Hp].
    assert (Hsk : take_live (skipn i (slots (self w))) (S n)
                  = p :: take_live (skipn (S i) (slots (self w))) n).
    { rewrite (skipn_nth (slots (self w)) i (Some p) Hp). reflexivity. }
    rewrite Hsk.
    unfold p_drop. apply wp_bind. apply wp_bind.
    eapply wp_p_read; [exact Hp|].
    eapply wp_mono; [apply drop_pair_logs | |]; cbn beta.
    + intros _ w1 [Hs1 Hlog1]. simp_w.
      assert (Hsk1 : skipn (S i) (slots (self w1)) = skipn (S i) (slots (self w))).
      { rewrite Hs1. cbn [set_slot_m slots]. apply skipn_upd_lt. lia. }
      eapply wp_mono; [apply (IH (S i) w1) | |]; cbn beta.
      * intros j Hj. rewrite Hs1. apply live_set_slot_neq; [lia | apply Hl; lia].
      * intros _ w2 H2. rewrite H2, Hlog1, Hsk1. cbn [flat_map]. rewrite app_assoc. reflexivity.
      * intros w2 [k H2]. exists (S k). rewrite H2, Hlog1, Hsk1. cbn [firstn flat_map].
        rewrite app_assoc. reflexivity.
    + intros w1 [Hs1 Hlog1]. simp_w. exists 1. cbn [firstn flat_map].
      rewrite app_nil_r. exact Hlog1.
Qed.

(* 11. dropping a drain destroys exactly the pairs its cursor still owns, in
   slot order; when a Drop callback unwinds, a prefix of them was destroyed
   (the rest is leaked, not double-dropped) *)
Lemma drain_drop_logs c (w : world) :
  DrainInv c (self w) ->
  wp (drain_drop E c)
     (fun _ w' => exists evs, log w' = log w ++ evs /\
                    evs = flat_map evp (slot_pairs (self w) c) /\ ev_drop_only evs)
     (fun w' => exists evs k, log w' = log w ++ evs /\
                    evs = flat_map evp (firstn k (slot_pairs (self w) c)) /\ ev_drop_only evs)
     w.
Proof.
  intros (Hl & Hc & Hs). unfold drain_drop, slot_pairs.
  eapply wp_mono; [apply drop_range_logs | |]; cbn beta.
  - intros j Hj. apply Hs. unfold cursor_len in Hj. lia.
  - intros _ w' H. eexists. split; [exact H|]. split; [reflexivity | apply ev_drop_only_flat].
  - intros w' [k H]. eexists. exists k. split; [exact H|]. split; [reflexivity | apply ev_drop_only_flat].
Qed.

(* the pairs a cursor still owns after n steps of a drain are the content
   without its first n entries *)
Lemma Agree_slot_pairs (l : list kv) (m : map) : forall k lo,
  Agree l (lo, lo + k) m -> length l = lo + k ->
  take_live (skipn lo (slots m)) k = skipn lo l.
Proof.
  induction k as [|k IH]; intros lo HA Hlen.
  - cbn [take_live]. symmetry. apply skipn_all2. lia.
  - destruct (HA lo) as [p [Hp1 Hp2]]; [cbn [fst snd]; lia|].
    rewrite (skipn_nth (slots m) lo (Some p) Hp2), (skipn_nth l lo p Hp1).
    cbn [take_live]. f_equal. apply IH; [|lia].
    intros j Hj. cbn [fst snd] in Hj. apply HA. cbn [fst snd]. lia.
Qed.

(* a whole drain session: n items taken, then the drain is dropped.  The
   taken items are the first n entries; the destructor destroys exactly the
   others, each once, in order. *)
Lemma drain_session_logs n (w : world) :
  WF (self w) ->
  wp (c <- drain ;; r <- drain_run n c ;; drain_drop E (snd r) ;; ret (fst r))
     (fun r w' => r = firstn n (elems (self w)) /\
                  log w' = log w ++ flat_map evp (skipn n (elems (self w))))
     (fun w' => exists k, log w' = log w ++ flat_map evp (firstn k (skipn n (elems (self w)))))
     w.
Proof.
  intros Hw.
  apply (wp_bind_assoc drain (fun c => drain_run n c)
           (fun r => drain_drop E (snd r) ;; ret (fst r))).
  apply wp_bind.
  eapply wp_mono; [apply drain_run_strong; exact Hw | | intros w' []]; cbn beta.
  intros r w1 (Hr & Hc & HD & HA & _ & Hlog & _).
  assert (Hsp : slot_pairs (self w1) (snd r) = skipn n (elems (self w))).
  { unfold slot_pairs, cursor_len. rewrite Hc in *. cbn [fst snd].
    rewrite <- (skipn_min_length (elems (self w)) n), (elems_length _ Hw).
    pose proof (Nat.le_min_r n (len (self w))) as Hm.
    apply Agree_slot_pairs.
    - replace (Nat.min n (len (self w)) + (len (self w) - Nat.min n (len (self w))))
        with (len (self w)) by lia. exact HA.
    - rewrite (elems_length _ Hw). lia. }
  apply wp_bind.
  eapply wp_mono; [apply drain_drop_logs; exact HD | |]; cbn beta.
  - intros _ w2 (evs & H1 & H2 & _). apply wp_ret. split; [exact Hr|].
    rewrite H1, H2, Hsp, Hlog. reflexivity.
  - intros w2 (evs & k & H1 & H2 & _). exists k. rewrite H1, H2, Hsp, Hlog. reflexivity.
Qed.

End IterSpec.
