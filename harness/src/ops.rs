// The operations of coq/Model/Exec.v, executed on the real crate.
#![allow(clippy::all)]
use crate::elems::*;
use micromap::{Map, Set};
use std::fmt::Write as FmtWrite;
use std::mem;
use std::panic::{catch_unwind, AssertUnwindSafe};

const CANARY: u64 = 0x00c0_ffee_c0ff_ee11;

#[repr(C)]
pub struct Guarded<T> {
    pre: [u64; 8],
    pub v: T,
    post: [u64; 8],
}
impl<T> Guarded<T> {
    fn new(v: T) -> Self {
        Guarded { pre: [CANARY; 8], v, post: [CANARY; 8] }
    }
    fn intact(&self) -> bool {
        self.pre.iter().all(|x| *x == CANARY) && self.post.iter().all(|x| *x == CANARY)
    }
}

pub enum MReg {
    C0(Guarded<Map<Key, Val, 0>>),
    C1(Guarded<Map<Key, Val, 1>>),
    C2(Guarded<Map<Key, Val, 2>>),
    C3(Guarded<Map<Key, Val, 3>>),
    C4(Guarded<Map<Key, Val, 4>>),
    C8(Guarded<Map<Key, Val, 8>>),
    C17(Guarded<Map<Key, Val, 17>>),
}
pub enum SReg {
    C0(Guarded<Set<Key, 0>>),
    C1(Guarded<Set<Key, 1>>),
    C2(Guarded<Set<Key, 2>>),
    C3(Guarded<Set<Key, 3>>),
    C4(Guarded<Set<Key, 4>>),
    C8(Guarded<Set<Key, 8>>),
    C17(Guarded<Set<Key, 17>>),
}

macro_rules! with_m {
    ($r:expr, $m:ident => $b:expr) => {
        match $r {
            MReg::C0(g) => { let $m = &mut g.v; $b }
            MReg::C1(g) => { let $m = &mut g.v; $b }
            MReg::C2(g) => { let $m = &mut g.v; $b }
            MReg::C3(g) => { let $m = &mut g.v; $b }
            MReg::C4(g) => { let $m = &mut g.v; $b }
            MReg::C8(g) => { let $m = &mut g.v; $b }
            MReg::C17(g) => { let $m = &mut g.v; $b }
        }
    };
}
macro_rules! with_mr {
    ($r:expr, $m:ident => $b:expr) => {
        match $r {
            MReg::C0(g) => { let $m = &g.v; $b }
            MReg::C1(g) => { let $m = &g.v; $b }
            MReg::C2(g) => { let $m = &g.v; $b }
            MReg::C3(g) => { let $m = &g.v; $b }
            MReg::C4(g) => { let $m = &g.v; $b }
            MReg::C8(g) => { let $m = &g.v; $b }
            MReg::C17(g) => { let $m = &g.v; $b }
        }
    };
}
macro_rules! with_s {
    ($r:expr, $m:ident => $b:expr) => {
        match $r {
            SReg::C0(g) => { let $m = &mut g.v; $b }
            SReg::C1(g) => { let $m = &mut g.v; $b }
            SReg::C2(g) => { let $m = &mut g.v; $b }
            SReg::C3(g) => { let $m = &mut g.v; $b }
            SReg::C4(g) => { let $m = &mut g.v; $b }
            SReg::C8(g) => { let $m = &mut g.v; $b }
            SReg::C17(g) => { let $m = &mut g.v; $b }
        }
    };
}
macro_rules! with_sr {
    ($r:expr, $m:ident => $b:expr) => {
        match $r {
            SReg::C0(g) => { let $m = &g.v; $b }
            SReg::C1(g) => { let $m = &g.v; $b }
            SReg::C2(g) => { let $m = &g.v; $b }
            SReg::C3(g) => { let $m = &g.v; $b }
            SReg::C4(g) => { let $m = &g.v; $b }
            SReg::C8(g) => { let $m = &g.v; $b }
            SReg::C17(g) => { let $m = &g.v; $b }
        }
    };
}

fn mk_mreg(cap: u64) -> MReg {
    match cap {
        0 => MReg::C0(Guarded::new(Map::new())),
        1 => MReg::C1(Guarded::new(Map::new())),
        2 => MReg::C2(Guarded::new(Map::new())),
        3 => MReg::C3(Guarded::new(Map::new())),
        4 => MReg::C4(Guarded::new(Map::new())),
        8 => MReg::C8(Guarded::new(Map::new())),
        17 => MReg::C17(Guarded::new(Map::new())),
        _ => panic!("unsupported capacity {}", cap),
    }
}
fn mk_sreg(cap: u64) -> SReg {
    match cap {
        0 => SReg::C0(Guarded::new(Set::new())),
        1 => SReg::C1(Guarded::new(Set::new())),
        2 => SReg::C2(Guarded::new(Set::new())),
        3 => SReg::C3(Guarded::new(Set::new())),
        4 => SReg::C4(Guarded::new(Set::new())),
        8 => SReg::C8(Guarded::new(Set::new())),
        17 => SReg::C17(Guarded::new(Set::new())),
        _ => panic!("unsupported capacity {}", cap),
    }
}
impl MReg {
    fn cap(&self) -> usize { with_mr!(self, m => m.capacity()) }
    fn intact(&self) -> bool {
        match self {
            MReg::C0(g) => g.intact(), MReg::C1(g) => g.intact(), MReg::C2(g) => g.intact(),
            MReg::C3(g) => g.intact(), MReg::C4(g) => g.intact(), MReg::C8(g) => g.intact(),
            MReg::C17(g) => g.intact(),
        }
    }
    // Clone::clone_from between two registers of the same capacity
    fn clone_from_reg(&mut self, src: &MReg) {
        match (self, src) {
            (MReg::C0(d), MReg::C0(s)) => windowed(&s.v, || counted(|| d.v.clone_from(&s.v))),
            (MReg::C1(d), MReg::C1(s)) => windowed(&s.v, || counted(|| d.v.clone_from(&s.v))),
            (MReg::C2(d), MReg::C2(s)) => windowed(&s.v, || counted(|| d.v.clone_from(&s.v))),
            (MReg::C3(d), MReg::C3(s)) => windowed(&s.v, || counted(|| d.v.clone_from(&s.v))),
            (MReg::C4(d), MReg::C4(s)) => windowed(&s.v, || counted(|| d.v.clone_from(&s.v))),
            (MReg::C8(d), MReg::C8(s)) => windowed(&s.v, || counted(|| d.v.clone_from(&s.v))),
            (MReg::C17(d), MReg::C17(s)) => windowed(&s.v, || counted(|| d.v.clone_from(&s.v))),
            _ => unreachable!(),
        }
    }
    fn clone_reg(&self) -> MReg {
        match self {
            MReg::C0(g) => MReg::C0(Guarded::new(windowed(&g.v, || counted(|| g.v.clone())))),
            MReg::C1(g) => MReg::C1(Guarded::new(windowed(&g.v, || counted(|| g.v.clone())))),
            MReg::C2(g) => MReg::C2(Guarded::new(windowed(&g.v, || counted(|| g.v.clone())))),
            MReg::C3(g) => MReg::C3(Guarded::new(windowed(&g.v, || counted(|| g.v.clone())))),
            MReg::C4(g) => MReg::C4(Guarded::new(windowed(&g.v, || counted(|| g.v.clone())))),
            MReg::C8(g) => MReg::C8(Guarded::new(windowed(&g.v, || counted(|| g.v.clone())))),
            MReg::C17(g) => MReg::C17(Guarded::new(windowed(&g.v, || counted(|| g.v.clone())))),
        }
    }
}
impl SReg {
    fn clone_from_reg(&mut self, src: &SReg) {
        match (self, src) {
            (SReg::C0(d), SReg::C0(s)) => windowed(&s.v, || counted(|| d.v.clone_from(&s.v))),
            (SReg::C1(d), SReg::C1(s)) => windowed(&s.v, || counted(|| d.v.clone_from(&s.v))),
            (SReg::C2(d), SReg::C2(s)) => windowed(&s.v, || counted(|| d.v.clone_from(&s.v))),
            (SReg::C3(d), SReg::C3(s)) => windowed(&s.v, || counted(|| d.v.clone_from(&s.v))),
            (SReg::C4(d), SReg::C4(s)) => windowed(&s.v, || counted(|| d.v.clone_from(&s.v))),
            (SReg::C8(d), SReg::C8(s)) => windowed(&s.v, || counted(|| d.v.clone_from(&s.v))),
            (SReg::C17(d), SReg::C17(s)) => windowed(&s.v, || counted(|| d.v.clone_from(&s.v))),
            _ => unreachable!(),
        }
    }
    fn cap(&self) -> usize { with_sr!(self, m => m.capacity()) }
    fn intact(&self) -> bool {
        match self {
            SReg::C0(g) => g.intact(), SReg::C1(g) => g.intact(), SReg::C2(g) => g.intact(),
            SReg::C3(g) => g.intact(), SReg::C4(g) => g.intact(), SReg::C8(g) => g.intact(),
            SReg::C17(g) => g.intact(),
        }
    }
    fn clone_reg(&self) -> SReg {
        match self {
            SReg::C0(g) => SReg::C0(Guarded::new(windowed(&g.v, || counted(|| g.v.clone())))),
            SReg::C1(g) => SReg::C1(Guarded::new(windowed(&g.v, || counted(|| g.v.clone())))),
            SReg::C2(g) => SReg::C2(Guarded::new(windowed(&g.v, || counted(|| g.v.clone())))),
            SReg::C3(g) => SReg::C3(Guarded::new(windowed(&g.v, || counted(|| g.v.clone())))),
            SReg::C4(g) => SReg::C4(Guarded::new(windowed(&g.v, || counted(|| g.v.clone())))),
            SReg::C8(g) => SReg::C8(Guarded::new(windowed(&g.v, || counted(|| g.v.clone())))),
            SReg::C17(g) => SReg::C17(Guarded::new(windowed(&g.v, || counted(|| g.v.clone())))),
        }
    }
}

pub struct World {
    m: [MReg; 2],
    s: [SReg; 2],
}

// ---------------------------------------------------------------- helpers
type Out = Vec<u64>;

fn on() { with_ctx(|c| c.in_call = true); }
fn off() { with_ctx(|c| c.in_call = false); }
fn quiet(b: bool) { with_ctx(|c| c.quiet = b as u8); }
fn quiet_distinct() { with_ctx(|c| c.quiet = 2); }
fn leak_ok() { with_ctx(|c| c.leak_ok = true); }

// Drop something the caller received, outside the operation's event window.
fn caller_drop<T>(x: T) {
    off();
    drop(x);
    on();
}

// Run one API call with allocation counting (C06): zero allocator calls
// expected whenever the call returns normally.
fn counted<R>(f: impl FnOnce() -> R) -> R {
    let a0 = ALLOCS.with(|a| a.get());
    COUNTING.with(|c| c.set(true));
    let r = f();
    COUNTING.with(|c| c.set(false));
    let a1 = ALLOCS.with(|a| a.get());
    if a1 != a0 {
        fault(format!("ALLOC {} allocator calls inside a container operation", a1 - a0));
    }
    r
}

fn r_key(k: &Key, o: &mut Out) {
    if k.ok() { o.push(k.id); o.push(k.cls.0); } else { o.push(9004); o.push(0);
        fault(format!("USE_GARBAGE rendered key magic={:#x}", k.magic)); }
}
fn r_val(v: &Val, o: &mut Out) {
    if v.ok() { o.push(v.id); o.push(v.dat); } else { o.push(9004); o.push(0);
        fault(format!("USE_GARBAGE rendered value magic={:#x}", v.magic)); }
}
fn r_pair(k: &Key, v: &Val, o: &mut Out) {
    if k.ok() && v.ok() { o.push(k.id); o.push(k.cls.0); o.push(v.id); o.push(v.dat); }
    else { o.extend([9004, 0, 0, 0]);
        fault(format!("USE_GARBAGE rendered pair magic={:#x}/{:#x}", k.magic, v.magic)); }
}
fn live(id: u64) -> bool { with_ctx(|c| c.ledger.get(&id) == Some(&1)) }

fn r_str(s: &str, o: &mut Out) {
    o.push(s.len() as u64);
    o.extend(s.bytes().map(|b| b as u64));
}

// a fixed, non-allocating fmt sink
struct Buf { b: [u8; 8192], n: usize }
impl Buf { fn new() -> Buf { Buf { b: [0; 8192], n: 0 } }
    fn s(&self) -> &str { std::str::from_utf8(&self.b[..self.n]).unwrap() } }
impl FmtWrite for Buf {
    fn write_str(&mut self, s: &str) -> std::fmt::Result {
        let bs = s.as_bytes();
        if self.n + bs.len() > self.b.len() { return Err(std::fmt::Error); }
        self.b[self.n..self.n + bs.len()].copy_from_slice(bs);
        self.n += bs.len();
        Ok(())
    }
}
fn fmt_into(args: std::fmt::Arguments<'_>, o: &mut Out) {
    let mut b = Buf::new();
    counted(|| b.write_fmt(args)).expect("fmt");
    r_str(b.s(), o);
}

fn post_m<const N: usize>(m: &Map<Key, Val, N>, o: &mut Out) {
    o.push(7777); o.push(m.len() as u64); o.push(m.capacity() as u64);
    if m.len() > m.capacity() { o.push(9005); fault("LEN_GT_CAP len exceeds capacity".into()); return; }
    let mut n = 0;
    for (k, v) in m.iter() {
        if k.ok() && v.ok() && live(k.id) && live(v.id) { r_pair(k, v, o); }
        else { o.extend([9004, 0, 0, 0]);
            fault(format!("DEAD_IN_MAP iteration yields a slot that holds no live element (slot {})", n)); }
        n += 1;
    }
    if n != m.len() { fault(format!("LEN_MISMATCH len()={} but iteration yields {}", m.len(), n)); }
    if m.is_empty() != (m.len() == 0) { fault("IS_EMPTY is_empty() disagrees with len()".into()); }
    // with a lawful == (injected panics included) two stored keys are never equal
    if !with_ctx(|c| c.adv) && n == m.len() {
        let cls: Vec<u64> = m.keys().filter(|k| k.ok()).map(|k| k.cls.0).collect();
        for (i, c) in cls.iter().enumerate() { if cls[..i].contains(c) { fault(format!("DUP_KEY the map holds two keys of class {} although == is lawful", c)); break; } }
    }
}
fn post_s<const N: usize>(s: &Set<Key, N>, o: &mut Out) {
    o.push(7777); o.push(s.len() as u64); o.push(s.capacity() as u64);
    if s.len() > s.capacity() { o.push(9005); fault("LEN_GT_CAP len exceeds capacity".into()); return; }
    let mut n = 0;
    for k in s.iter() {
        if k.ok() && live(k.id) { r_key(k, o); }
        else { o.extend([9004, 0]);
            fault(format!("DEAD_IN_MAP iteration yields a slot that holds no live element (slot {})", n)); }
        n += 1;
    }
    if n != s.len() { fault(format!("LEN_MISMATCH len()={} but iteration yields {}", s.len(), n)); }
    if s.is_empty() != (s.len() == 0) { fault("IS_EMPTY is_empty() disagrees with len()".into()); }
    if !with_ctx(|c| c.adv) && n == s.len() {
        let cls: Vec<u64> = s.iter().filter(|k| k.ok()).map(|k| k.cls.0).collect();
        for (i, c) in cls.iter().enumerate() { if cls[..i].contains(c) { fault(format!("DUP_KEY the set holds two elements of class {} although == is lawful", c)); break; } }
    }
}

fn inside<T>(c: &T, addr: usize, sz: usize) {
    let base = c as *const T as usize;
    if !(addr >= base && addr + sz <= base + mem::size_of::<T>()) {
        fault(format!("OUTSIDE reference {:#x} is not inside the container value", addr));
    }
}
fn inside_range(base: usize, size: usize, addr: usize, sz: usize) {
    if !(addr >= base && addr + sz <= base + size) {
        fault(format!("OUTSIDE a closure received a reference {:#x} that is not inside the container value", addr));
    }
}
fn slot_of_val<const N: usize>(m: &Map<Key, Val, N>, addr: usize) -> u64 {
    inside(m, addr, mem::size_of::<Val>());
    m.iter().position(|(_, v)| v as *const Val as usize == addr).map(|i| i as u64).unwrap_or(9999)
}
fn slot_of_key<const N: usize>(m: &Map<Key, Val, N>, addr: usize) -> u64 {
    inside(m, addr, mem::size_of::<Key>());
    m.iter().position(|(k, _)| k as *const Key as usize == addr).map(|i| i as u64).unwrap_or(9999)
}
fn slot_of_skey<const N: usize>(s: &Set<Key, N>, addr: usize) -> Option<u64> {
    s.iter().position(|k| k as *const Key as usize == addr).map(|i| i as u64)
}

enum Qy { C(Cls), K(Key) }
macro_rules! with_q {
    ($q:expr, $x:ident => $b:expr) => {
        match $q { Qy::C($x) => $b, Qy::K($x) => $b }
    };
}
fn parse_q(t: &[u64]) -> (Qy, &[u64]) {
    if t[0] == 0 { (Qy::C(Cls(t[1])), &t[2..]) } else { (Qy::K(Key::new(t[1], t[2])), &t[3..]) }
}

fn lookup_act(c: u64, tab: &[(u64, u64)], dflt: u64) -> u64 {
    for (c2, a) in tab { if *c2 == c { return *a; } }
    dflt
}
fn parse_tab(n: u64, t: &[u64]) -> Vec<(u64, u64)> {
    (0..n as usize).filter(|i| 2 * i + 1 < t.len()).map(|i| (t[2 * i], t[2 * i + 1])).collect()
}

// a source iterator whose next() is user code
// size_hint is advisory: safe code may report anything, so the hints rotate through
// absent, under-reporting, exact and over-reporting (the model never consults a hint,
// and neither may the crate's memory safety or results depend on one)
struct Src<T> { it: std::vec::IntoIter<T>, mode: u64 }
thread_local! { static SRC_MODE: std::cell::Cell<u64> = const { std::cell::Cell::new(0) }; }
impl<T> Src<T> {
    fn new(items: Vec<T>) -> Src<T> {
        let mode = SRC_MODE.with(|m| { let v = m.get(); m.set(v + 1); v });
        Src { it: items.into_iter(), mode }
    }
}
impl<T> Iterator for Src<T> {
    type Item = T;
    fn next(&mut self) -> Option<T> { call_tick(); self.it.next() }
    fn size_hint(&self) -> (usize, Option<usize>) {
        let n = self.it.len();
        match self.mode % 5 { 0 => (0, None), 1 => (0, Some(0)), 2 => (n, Some(n)), 3 => (n / 2, Some(n / 2)), _ => (n + 3, Some(n + 7)) }
    }
}

fn opt_val(r: Option<Val>, o: &mut Out) {
    match &r { None => o.push(0), Some(v) => { o.push(1); r_val(v, o); } }
    caller_drop(r);
}
fn opt_pair(r: Option<(Key, Val)>, o: &mut Out) {
    match &r { None => o.push(0), Some((k, v)) => { o.push(1); r_pair(k, v, o); } }
    caller_drop(r);
}
fn opt_key(r: Option<Key>, o: &mut Out) {
    match &r { None => o.push(0), Some(k) => { o.push(1); r_key(k, o); } }
    caller_drop(r);
}

// ------------------------------------------------------------ map operations
fn map_op<const N: usize>(m: &mut Map<Key, Val, N>, op: &[u64], o: &mut Out) {
    match op[0] {
        10 => { let (k, v) = (Key::new(op[2], op[3]), Val::new(op[4], op[5]));
                let r = counted(|| m.insert(k, v)); opt_val(r, o); }
        11 => { let (k, v) = (Key::new(op[2], op[3]), Val::new(op[4], op[5]));
                let r = counted(|| m.insert_key_value(k, v)); opt_pair(r, o); }
        12 => { let (k, v) = (Key::new(op[2], op[3]), Val::new(op[4], op[5]));
                let r = counted(|| m.checked_insert(k, v));
                match r { None => o.push(2), Some(x) => opt_val(x, o) } }
        13 => { let (k, v) = (Key::new(op[2], op[3]), Val::new(op[4], op[5]));
                let r = counted(|| unsafe { m.insert_unchecked(k, v) }); opt_val(r, o); }
        20 => { let (q, _) = parse_q(&op[2..]);
                { let r = counted(|| with_q!(&q, x => m.get(x)));
                  match r { None => o.push(0), Some(v) => { o.push(1);
                      o.push(slot_of_val(m, v as *const Val as usize)); r_val(v, o); } } }
                caller_drop(q); }
        21 => { let (q, rest) = parse_q(&op[2..]); let d = rest[0];
                let got = { let r = counted(|| with_q!(&q, x => m.get_mut(x)));
                    r.map(|v| { let a = v as *mut Val as usize; let t = (a, v.ok(), v.id, v.dat); v.dat = d; t }) };
                match got { None => o.push(0), Some((a, ok, id, dat)) => {
                    o.push(1); o.push(slot_of_val(m, a));
                    if ok { o.push(id); o.push(dat); } else { o.extend([9004, 0]); } } }
                caller_drop(q); }
        22 => { let (q, _) = parse_q(&op[2..]);
                { let r = counted(|| with_q!(&q, x => m.get_key_value(x)));
                  match r { None => o.push(0), Some((k, v)) => { o.push(1);
                      let sv = slot_of_val(m, v as *const Val as usize);
                      let sk = slot_of_key(m, k as *const Key as usize);
                      if sk != sv { fault("PAIR_SPLIT key and value come from different slots".into()); }
                      o.push(sv); r_pair(k, v, o); } } }
                caller_drop(q); }
        23 => { let (q, _) = parse_q(&op[2..]);
                let r = counted(|| with_q!(&q, x => m.contains_key(x))); o.push(r as u64);
                caller_drop(q); }
        24 => { let (q, _) = parse_q(&op[2..]);
                { let v: &Val = counted(|| with_q!(&q, x => &m[x]));
                  o.push(slot_of_val(m, v as *const Val as usize)); r_val(v, o); }
                caller_drop(q); }
        25 => { let (q, rest) = parse_q(&op[2..]); let d = rest[0];
                let (a, ok, id, dat) = { let v: &mut Val = counted(|| with_q!(&q, x => &mut m[x]));
                    let t = (v as *mut Val as usize, v.ok(), v.id, v.dat); v.dat = d; t };
                o.push(slot_of_val(m, a));
                if ok { o.push(id); o.push(dat); } else { o.extend([9004, 0]); }
                caller_drop(q); }
        30 => { let (q, _) = parse_q(&op[2..]);
                let r = counted(|| with_q!(&q, x => m.remove(x))); opt_val(r, o); caller_drop(q); }
        31 => { let (q, _) = parse_q(&op[2..]);
                let r = counted(|| with_q!(&q, x => m.remove_entry(x))); opt_pair(r, o); caller_drop(q); }
        32 => { let dflt = op[2]; let tab = parse_tab(op[3], &op[4..]);
                let (base, size) = (m as *const Map<Key, Val, N> as usize, mem::size_of::<Map<Key, Val, N>>());
                counted(|| m.retain(|k, v| {
                    // the references a predicate receives point into the container itself (C06)
                    inside_range(base, size, k as *const Key as usize, mem::size_of::<Key>());
                    inside_range(base, size, v as *const Val as usize, mem::size_of::<Val>());
                    call_tick();
                    match lookup_act(k.cls.0, &tab, dflt) { 0 => false, 1 => true, _ => { v.dat += 100; true } } })); }
        33 => { counted(|| m.clear()); }
        34 => { let (take, fate) = (op[2], op[3]);
                let mut d = counted(|| m.drain());
                for _ in 0..take {
                    let l = d.len() as u64;
                    if d.size_hint() != (l as usize, Some(l as usize)) { fault("HINT drain size_hint != len".into()); }
                    let it = counted(|| d.next()); o.push(l);
                    match it { Some((k, v)) => { o.push(1); r_pair(&k, &v, o); caller_drop((k, v)); } None => o.push(0) } }
                o.push(d.len() as u64);
                fmt_into(format_args!("{:?}", d), o);
                fmt_into(format_args!("{:#?}", d), o);
                if fate == 0 { counted(|| drop(d)); }
                else if fate == 2 { let mut cnt = 0u64;
                    counted(|| d.for_each(|p| { call_tick(); cnt += 1; caller_drop(p); })); o.push(cnt); }
                else if fate == 3 { let c = counted(|| d.count()); o.push(c as u64); }
                else { leak_ok(); mem::forget(d); } }
        35 => { #[allow(deprecated)]
                let fresh = Map::<Key, Val, N>::with_capacity(op[2] as usize);
                let old = mem::replace(m, fresh); drop(old); }
        40 => iter_session(m, op[2], op[3], op[4], o),
        41 => into_session(m, op[2], op[3], op[4], o),
        42 => iter_nth_session(m, op[2], op[3], op[4], o),
        43 => { let (pre, nk) = (op[2], op[3] as usize);
                let mut d = counted(|| m.drain());
                for _ in 0..pre { if let Some(p) = counted(|| d.next()) { caller_drop(p); } }
                o.push(d.len() as u64);
                match counted(|| d.nth(nk)) { None => o.push(0), Some((k, v)) => { o.push(1); r_pair(&k, &v, o); caller_drop((k, v)); } }
                o.push(d.len() as u64);
                match counted(|| d.next()) { None => o.push(0), Some((k, v)) => { o.push(1); r_pair(&k, &v, o); caller_drop((k, v)); } }
                o.push(d.len() as u64);
                counted(|| drop(d)); }
        44 => into_nth_session(m, op[2], op[3], op[4] as usize, o),
        50 => entry_chain(m, op, o),
        51 => { let (u, wd, n) = (op[2] == 1, op[3], op[4] as usize);
                let cs: Vec<Cls> = op[5..5 + n].iter().map(|c| Cls(*c)).collect();
                match n {
                    0 => disj::<N, 0>(m, [], u, wd, o),
                    1 => disj::<N, 1>(m, [&cs[0]], u, wd, o),
                    2 => disj::<N, 2>(m, [&cs[0], &cs[1]], u, wd, o),
                    3 => disj::<N, 3>(m, [&cs[0], &cs[1], &cs[2]], u, wd, o),
                    4 => disj::<N, 4>(m, [&cs[0], &cs[1], &cs[2], &cs[3]], u, wd, o),
                    _ => disj::<N, 5>(m, [&cs[0], &cs[1], &cs[2], &cs[3], &cs[4]], u, wd, o),
                } }
        62 => { let arr = op[2] == 1; let n = op[3] as usize;
                let items: Vec<(Key, Val)> = (0..n).map(|i| { let t = &op[4 + 4 * i..];
                    (Key::new(t[0], t[1]), Val::new(t[2], t[3])) }).collect();
                let fresh: Map<Key, Val, N> = if arr {
                    let a: [(Key, Val); N] = match items.try_into() { Ok(a) => a, Err(_) => panic!("array length") };
                    counted(|| Map::from(a))
                } else {
                    let src = Src::new(items);
                    counted(|| src.collect())
                };
                let old = mem::replace(m, fresh); drop(old); }
        64 => { match op[2] { 0 => fmt_into(format_args!("{}", m), o),
                              1 => fmt_into(format_args!("{:?}", m), o),
                              _ => fmt_into(format_args!("{:#?}", m), o) }
                // formatting with width / fill / precision flags must not allocate either (C06);
                // the rendering itself is not compared
                let mut scratch = Out::new();
                fmt_into(format_args!("{:>40}", m), &mut scratch);
                fmt_into(format_args!("{:<8}", m), &mut scratch);
                fmt_into(format_args!("{:^60.3?}", m), &mut scratch); }
        _ => unreachable!(),
    }
}

fn disj<const N: usize, const J: usize>(m: &mut Map<Key, Val, N>, ks: [&Cls; J], unchecked: bool, wd: u64, o: &mut Out) {
    let got: Vec<Option<(usize, bool, u64, u64)>> = {
        let r: [Option<&mut Val>; J] = counted(|| if unchecked { unsafe { m.get_disjoint_unchecked_mut(ks) } }
                                                   else { m.get_disjoint_mut(ks) });
        let mut j = 0u64;
        r.into_iter().map(|x| { let t = x.map(|v| { let t = (v as *mut Val as usize, v.ok(), v.id, v.dat); v.dat = wd + j; t }); j += 1; t }).collect()
    };
    for i in 0..got.len() { for j in i + 1..got.len() {
        if let (Some(a), Some(b)) = (&got[i], &got[j]) { if a.0 == b.0 {
            fault(format!("ALIAS get_disjoint_mut returned the same slot at positions {} and {}", i, j)); } } } }
    for g in got { match g { None => o.push(0), Some((a, ok, id, dat)) => {
        o.push(1); o.push(slot_of_val(m, a));
        if ok { o.push(id); o.push(dat); } else { o.extend([9004, 0]); } } } }
}

// the library-provided Iterator methods must agree with stepping by next(): fold (count, sum, for_each ...) and last
fn provided_ok(folded: usize, last: Option<u64>, rest: &[u64]) {
    if folded != rest.len() { fault(format!("ITER_PROVIDED fold() visits {} items but next() yields {}", folded, rest.len())); }
    if last != rest.last().copied() { fault(format!("ITER_PROVIDED last() = {:?} but stepping ends with {:?}", last, rest.last())); }
}
fn hint3(len: usize, sh: (usize, Option<usize>), o: &mut Out) {
    o.push(len as u64); o.push(sh.0 as u64); o.push(sh.1.map(|x| x as u64).unwrap_or(9998));
}

fn iter_session<const N: usize>(m: &mut Map<Key, Val, N>, kind: u64, steps: u64, wd: u64, o: &mut Out) {
    // patches: (index in o, address, is_key) resolved once the borrow has ended
    let mut patch: Vec<(usize, usize, bool)> = Vec::new();
    match kind {
        0 => { let mut it = counted(|| m.iter());
               for _ in 0..steps { hint3(it.len(), it.size_hint(), o);
                   match counted(|| it.next()) { None => o.push(0), Some((k, v)) => { o.push(1);
                       o.push(slot_of_val(m, v as *const Val as usize)); r_pair(k, v, o); } } }
               fmt_into(format_args!("{:?}", it), o); fmt_into(format_args!("{:#?}", it), o);
               let rest: Vec<u64> = it.clone().map(|(_, v)| slot_of_val(m, v as *const Val as usize)).collect();
               provided_ok(it.clone().fold(0usize, |a, _| a + 1), it.clone().last().map(|(_, v)| slot_of_val(m, v as *const Val as usize)), &rest);
               o.push(rest.len() as u64); o.extend(rest); o.push(counted(|| it.count()) as u64); }
        1 => { { let mut it = counted(|| m.iter_mut());
                 for j in 0..steps { hint3(it.len(), it.size_hint(), o);
                   match counted(|| it.next()) { None => o.push(0), Some((k, v)) => { o.push(1);
                       patch.push((o.len(), v as *mut Val as usize, false)); o.push(0);
                       r_pair(k, v, o); v.dat = wd + j; } } }
                 fmt_into(format_args!("{:?}", it), o); fmt_into(format_args!("{:#?}", it), o);
                 o.push(0); o.push(counted(|| it.count()) as u64); }
               for (i, a, _) in patch { o[i] = slot_of_val(m, a); } }
        2 => { let mut it = counted(|| m.keys());
               for _ in 0..steps { hint3(it.len(), it.size_hint(), o);
                   match counted(|| it.next()) { None => o.push(0), Some(k) => { o.push(1);
                       o.push(slot_of_key(m, k as *const Key as usize)); r_key(k, o); } } }
               fmt_into(format_args!("{:?}", it), o); fmt_into(format_args!("{:#?}", it), o);
               let rest: Vec<u64> = it.clone().map(|k| slot_of_key(m, k as *const Key as usize)).collect();
               provided_ok(it.clone().fold(0usize, |a, _| a + 1), it.clone().last().map(|k| slot_of_key(m, k as *const Key as usize)), &rest);
               o.push(rest.len() as u64); o.extend(rest); o.push(counted(|| it.count()) as u64); }
        3 => { let mut it = counted(|| m.values());
               for _ in 0..steps { hint3(it.len(), it.size_hint(), o);
                   match counted(|| it.next()) { None => o.push(0), Some(v) => { o.push(1);
                       o.push(slot_of_val(m, v as *const Val as usize)); r_val(v, o); } } }
               fmt_into(format_args!("{:?}", it), o); fmt_into(format_args!("{:#?}", it), o);
               let rest: Vec<u64> = it.clone().map(|v| slot_of_val(m, v as *const Val as usize)).collect();
               provided_ok(it.clone().fold(0usize, |a, _| a + 1), it.clone().last().map(|v| slot_of_val(m, v as *const Val as usize)), &rest);
               o.push(rest.len() as u64); o.extend(rest); o.push(counted(|| it.count()) as u64); }
        _ => { { let mut it = counted(|| m.values_mut());
                 for j in 0..steps { hint3(it.len(), it.size_hint(), o);
                   match counted(|| it.next()) { None => o.push(0), Some(v) => { o.push(1);
                       patch.push((o.len(), v as *mut Val as usize, false)); o.push(0);
                       r_val(v, o); v.dat = wd + j; } } }
                 fmt_into(format_args!("{:?}", it), o); fmt_into(format_args!("{:#?}", it), o);
                 o.push(0); o.push(counted(|| it.count()) as u64); }
               for (i, a, _) in patch { o[i] = slot_of_val(m, a); } }
    }
}

fn iter_nth_session<const N: usize>(m: &mut Map<Key, Val, N>, kind: u64, pre: u64, nk: u64, o: &mut Out) {
    let nk = nk as usize;
    let mut patch: Vec<(usize, usize)> = Vec::new();
    macro_rules! shared { ($it:ident, $render:expr) => {{
        for _ in 0..pre { let _ = counted(|| $it.next()); }
        o.push($it.len() as u64);
        match counted(|| $it.nth(nk)) { None => o.push(0), Some(x) => { o.push(1); $render(x, o); } }
        o.push($it.len() as u64);
        match counted(|| $it.next()) { None => o.push(0), Some(x) => { o.push(1); $render(x, o); } }
        o.push($it.len() as u64);
    }}; }
    match kind {
        0 => { let mut it = counted(|| m.iter());
               shared!(it, |(k, v): (&Key, &Val), o: &mut Out| { o.push(slot_of_val(m, v as *const Val as usize)); r_pair(k, v, o); }) }
        2 => { let mut it = counted(|| m.keys());
               shared!(it, |k: &Key, o: &mut Out| { o.push(slot_of_key(m, k as *const Key as usize)); r_key(k, o); }) }
        3 => { let mut it = counted(|| m.values());
               shared!(it, |v: &Val, o: &mut Out| { o.push(slot_of_val(m, v as *const Val as usize)); r_val(v, o); }) }
        1 => { { let mut it = counted(|| m.iter_mut());
                 shared!(it, |(k, v): (&Key, &mut Val), o: &mut Out| { patch.push((o.len(), v as *mut Val as usize)); o.push(0); r_pair(k, v, o); }) }
               for (i, a) in patch { o[i] = slot_of_val(m, a); } }
        _ => { { let mut it = counted(|| m.values_mut());
                 shared!(it, |v: &mut Val, o: &mut Out| { patch.push((o.len(), v as *mut Val as usize)); o.push(0); r_val(v, o); }) }
               for (i, a) in patch { o[i] = slot_of_val(m, a); } }
    }
}

fn into_nth_session<const N: usize>(m: &mut Map<Key, Val, N>, kind: u64, pre: u64, nk: usize, o: &mut Out) {
    let old = mem::replace(m, Map::new());
    macro_rules! run { ($it:ident, $render:expr) => {{
        for _ in 0..pre { if let Some(x) = counted(|| $it.next()) { caller_drop(x); } }
        o.push($it.len() as u64);
        match counted(|| $it.nth(nk)) { None => o.push(0), Some(x) => { o.push(1); $render(&x, o); caller_drop(x); } }
        o.push($it.len() as u64);
        match counted(|| $it.next()) { None => o.push(0), Some(x) => { o.push(1); $render(&x, o); caller_drop(x); } }
        o.push($it.len() as u64);
        counted(|| drop($it));
    }}; }
    match kind {
        0 => { let mut it = counted(|| old.into_iter()); run!(it, |p: &(Key, Val), o: &mut Out| r_pair(&p.0, &p.1, o)) }
        1 => { let mut it = counted(|| old.into_keys()); run!(it, |k: &Key, o: &mut Out| r_key(k, o)) }
        _ => { let mut it = counted(|| old.into_values()); run!(it, |v: &Val, o: &mut Out| r_val(v, o)) }
    }
}

fn into_session<const N: usize>(m: &mut Map<Key, Val, N>, kind: u64, take: u64, fate: u64, o: &mut Out) {
    let old = mem::replace(m, Map::new());
    macro_rules! finish { ($it:ident) => {{
        fmt_into(format_args!("{:?}", $it), o); fmt_into(format_args!("{:#?}", $it), o);
        o.push($it.len() as u64);
        if fate == 0 { counted(|| drop($it)); }
        else if fate == 2 { let mut cnt = 0u64;
            counted(|| $it.for_each(|p| { call_tick(); cnt += 1; caller_drop(p); })); o.push(cnt); }
        else if fate == 3 { let c = counted(|| $it.count()); o.push(c as u64); }
        else { leak_ok(); mem::forget($it); }
    }}; }
    match kind {
        0 => { let mut it = counted(|| old.into_iter());
               for _ in 0..take { let l = it.len();
                   if it.size_hint() != (l, Some(l)) { fault("HINT into_iter size_hint != len".into()); }
                   o.push(l as u64);
                   match counted(|| it.next()) { None => o.push(0), Some((k, v)) => { o.push(1); r_pair(&k, &v, o); caller_drop((k, v)); } } }
               finish!(it) }
        1 => { let mut it = counted(|| old.into_keys());
               for _ in 0..take { let l = it.len();
                   if it.size_hint() != (l, Some(l)) { fault("HINT into_keys size_hint != len".into()); }
                   o.push(l as u64);
                   match counted(|| it.next()) { None => o.push(0), Some(k) => { o.push(1); r_key(&k, o); caller_drop(k); } } }
               finish!(it) }
        _ => { let mut it = counted(|| old.into_values());
               for _ in 0..take { let l = it.len();
                   if it.size_hint() != (l, Some(l)) { fault("HINT into_values size_hint != len".into()); }
                   o.push(l as u64);
                   match counted(|| it.next()) { None => o.push(0), Some(v) => { o.push(1); r_val(&v, o); caller_drop(v); } } }
               finish!(it) }
    }
}

fn entry_chain<const N: usize>(m: &mut Map<Key, Val, N>, op: &[u64], o: &mut Out) {
    use micromap::Entry;
    let k = Key::new(op[2], op[3]);
    let chain = op[4];
    let (c, d) = (op[5], op[6]);
    // result of a chain that hands out &mut V: (tag, addr, ok, id, dat)
    let mut refres: Option<(u64, usize, bool, u64, u64)> = None;
    let mut keyslot: Option<usize> = None; // chain 5, occupied: address of the stored key
    fn grab(tag: u64, v: &mut Val) -> Option<(u64, usize, bool, u64, u64)> {
        Some((tag, v as *mut Val as usize, v.ok(), v.id, v.dat))
    }
    match chain {
        0 => { let v = Val::new(c, d); let r = counted(|| m.entry(k).or_insert(v)); refres = grab(0, r); }
        1 => { let r = counted(|| m.entry(k).or_insert_with(|| { call_tick(); Val::new(c, d) })); refres = grab(0, r); }
        2 => { let r = counted(|| m.entry(k).or_insert_with_key(|_| { call_tick(); Val::new(c, d) })); refres = grab(0, r); }
        3 => { let r = counted(|| m.entry(k).or_default()); refres = grab(0, r); }
        4 => { let v = Val::new(c, d);
               let (base, size) = (m as *const Map<Key, Val, N> as usize, mem::size_of::<Map<Key, Val, N>>());
               let r = counted(|| m.entry(k).and_modify(|x| {
                   inside_range(base, size, x as *const Val as usize, mem::size_of::<Val>());
                   call_tick(); x.dat += 100; }).or_insert(v)); refres = grab(0, r); }
        5 => { let e = counted(|| m.entry(k));
               let occupied = matches!(e, Entry::Occupied(_));
               { let kk = e.key();
                 if occupied { o.push(0); keyslot = Some(kk as *const Key as usize); }
                 else { o.push(1); r_key(kk, o); } }
               drop(e); }
        6 => { match counted(|| m.entry(k)) {
                 Entry::Occupied(oe) => { let v = oe.get(); refres = Some((0, v as *const Val as usize, v.ok(), v.id, v.dat)); }
                 Entry::Vacant(ve) => { o.push(1); r_key(ve.key(), o); drop(ve); } } }
        7 => { match counted(|| m.entry(k)) {
                 Entry::Occupied(mut oe) => { let v = oe.get_mut(); refres = grab(0, v); v.dat = d; }
                 Entry::Vacant(ve) => { let k2 = ve.into_key(); o.push(1); r_key(&k2, o); caller_drop(k2); } } }
        8 => { match counted(|| m.entry(k)) {
                 Entry::Occupied(mut oe) => { let old = counted(|| oe.insert(Val::new(c, d))); o.push(0); r_val(&old, o); caller_drop(old); }
                 Entry::Vacant(ve) => { let r = counted(|| ve.insert(Val::new(c, d))); refres = grab(1, r); } } }
        9 => { match counted(|| m.entry(k)) {
                 Entry::Occupied(oe) => { let old = counted(|| oe.remove()); o.push(0); r_val(&old, o); caller_drop(old); }
                 Entry::Vacant(ve) => { drop(ve); o.push(1); } } }
        10 => { match counted(|| m.entry(k)) {
                 Entry::Occupied(oe) => { let (k2, v2) = counted(|| oe.remove_entry()); o.push(0); r_pair(&k2, &v2, o); caller_drop((k2, v2)); }
                 Entry::Vacant(ve) => { let k2 = ve.into_key(); o.push(1); r_key(&k2, o); caller_drop(k2); } } }
        _ => { match counted(|| m.entry(k)) {
                 Entry::Occupied(oe) => { let v = oe.into_mut(); refres = grab(0, v); v.dat = d; }
                 Entry::Vacant(ve) => { let r = counted(|| ve.insert(Val::new(c, d))); refres = grab(1, r); } } }
    }
    if let Some(a) = keyslot {
        let s = slot_of_key(m, a); o.push(s);
        if let Some((k, _)) = m.iter().nth(s as usize) { r_key(k, o); } else { o.extend([9004, 0]); }
    }
    if let Some((tag, a, ok, id, dat)) = refres {
        o.push(tag); o.push(slot_of_val(m, a));
        if ok { o.push(id); o.push(dat); } else { o.extend([9004, 0]); }
    }
}

// ------------------------------------------------------------ set operations
fn set_op<const N: usize>(s: &mut Set<Key, N>, op: &[u64], o: &mut Out) {
    match op[0] {
        110 => { let k = Key::new(op[2], op[3]); let r = counted(|| s.insert(k)); o.push(r as u64); }
        111 => { let k = Key::new(op[2], op[3]); let r = counted(|| s.replace(k)); opt_key(r, o); }
        123 => { let (q, _) = parse_q(&op[2..]);
                 let r = counted(|| with_q!(&q, x => s.contains(x))); o.push(r as u64); caller_drop(q); }
        122 => { let (q, _) = parse_q(&op[2..]);
                 { let r = counted(|| with_q!(&q, x => s.get(x)));
                   match r { None => o.push(0), Some(k) => { o.push(1);
                       let a = k as *const Key as usize; inside(s, a, mem::size_of::<Key>());
                       o.push(slot_of_skey(s, a).unwrap_or(9999)); r_key(k, o); } } }
                 caller_drop(q); }
        130 => { let (q, _) = parse_q(&op[2..]);
                 let r = counted(|| with_q!(&q, x => s.remove(x))); o.push(r as u64); caller_drop(q); }
        131 => { let (q, _) = parse_q(&op[2..]);
                 let r = counted(|| with_q!(&q, x => s.take(x))); opt_key(r, o); caller_drop(q); }
        132 => { let dflt = op[2]; let tab = parse_tab(op[3], &op[4..]);
                 let (base, size) = (s as *const Set<Key, N> as usize, mem::size_of::<Set<Key, N>>());
                 counted(|| s.retain(|k| {
                     inside_range(base, size, k as *const Key as usize, mem::size_of::<Key>());
                     call_tick(); lookup_act(k.cls.0, &tab, dflt) != 0 })); }
        133 => { counted(|| s.clear()); }
        134 => { let (take, fate) = (op[2], op[3]);
                 let mut d = counted(|| s.drain());
                 for _ in 0..take {
                     let l = d.len() as u64;
                     if d.size_hint() != (l as usize, Some(l as usize)) { fault("HINT set drain size_hint != len".into()); }
                     let it = counted(|| d.next()); o.push(l);
                     match it { Some(k) => { o.push(1); r_key(&k, o); caller_drop(k); } None => o.push(0) } }
                 o.push(d.len() as u64);
                 if fate == 0 { counted(|| drop(d)); }
                 else if fate == 2 { let mut cnt = 0u64;
                     counted(|| d.for_each(|p| { call_tick(); cnt += 1; caller_drop(p); })); o.push(cnt); }
                 else if fate == 3 { let c = counted(|| d.count()); o.push(c as u64); }
                 else { leak_ok(); mem::forget(d); } }
        135 => { let n = op[2] as usize;
                 let items: Vec<Key> = (0..n).map(|i| Key::new(op[3 + 2 * i], op[4 + 2 * i])).collect();
                 let src = Src::new(items);
                 counted(|| s.extend(src)); }
        140 => { let steps = op[2];
                 let mut it = counted(|| s.iter());
                 for _ in 0..steps { hint3(it.len(), it.size_hint(), o);
                     match counted(|| it.next()) { None => o.push(0), Some(k) => { o.push(1);
                         let a = k as *const Key as usize; inside(s, a, mem::size_of::<Key>());
                         o.push(slot_of_skey(s, a).unwrap_or(9999)); r_key(k, o); } } }
                 let rest: Vec<u64> = it.clone().map(|k| slot_of_skey(s, k as *const Key as usize).unwrap_or(9999)).collect();
                 provided_ok(it.clone().fold(0usize, |a, _| a + 1), it.clone().last().map(|k| slot_of_skey(s, k as *const Key as usize).unwrap_or(9999)), &rest);
                 o.push(rest.len() as u64); o.extend(rest); o.push(counted(|| it.count()) as u64); }
        141 => { let (take, fate) = (op[2], op[3]);
                 let old = mem::replace(s, Set::new());
                 let mut it = counted(|| old.into_iter());
                 for _ in 0..take { let l = it.len();
                     if it.size_hint() != (l, Some(l)) { fault("HINT set into_iter size_hint != len".into()); }
                     o.push(l as u64);
                     match counted(|| it.next()) { None => o.push(0), Some(k) => { o.push(1); r_key(&k, o); caller_drop(k); } } }
                 o.push(it.len() as u64);
                 if fate == 0 { counted(|| drop(it)); }
                 else if fate == 2 { let mut cnt = 0u64;
                     counted(|| it.for_each(|p| { call_tick(); cnt += 1; caller_drop(p); })); o.push(cnt); }
                 else if fate == 3 { let c = counted(|| it.count()); o.push(c as u64); }
                 else { leak_ok(); mem::forget(it); } }
        142 => { let (pre, nk) = (op[2], op[3] as usize);
                 let mut it = counted(|| s.iter());
                 for _ in 0..pre { let _ = counted(|| it.next()); }
                 o.push(it.len() as u64);
                 match counted(|| it.nth(nk)) { None => o.push(0), Some(k) => { o.push(1);
                     o.push(slot_of_skey(s, k as *const Key as usize).unwrap_or(9999)); r_key(k, o); } }
                 o.push(it.len() as u64);
                 match counted(|| it.next()) { None => o.push(0), Some(k) => { o.push(1);
                     o.push(slot_of_skey(s, k as *const Key as usize).unwrap_or(9999)); r_key(k, o); } }
                 o.push(it.len() as u64); }
        143 => { let (pre, nk) = (op[2], op[3] as usize);
                 let mut d = counted(|| s.drain());
                 for _ in 0..pre { if let Some(k) = counted(|| d.next()) { caller_drop(k); } }
                 o.push(d.len() as u64);
                 match counted(|| d.nth(nk)) { None => o.push(0), Some(k) => { o.push(1); r_key(&k, o); caller_drop(k); } }
                 o.push(d.len() as u64);
                 match counted(|| d.next()) { None => o.push(0), Some(k) => { o.push(1); r_key(&k, o); caller_drop(k); } }
                 o.push(d.len() as u64);
                 counted(|| drop(d)); }
        144 => { let (pre, nk) = (op[2], op[3] as usize);
                 let old = mem::replace(s, Set::new());
                 let mut it = counted(|| old.into_iter());
                 for _ in 0..pre { if let Some(k) = counted(|| it.next()) { caller_drop(k); } }
                 o.push(it.len() as u64);
                 match counted(|| it.nth(nk)) { None => o.push(0), Some(k) => { o.push(1); r_key(&k, o); caller_drop(k); } }
                 o.push(it.len() as u64);
                 match counted(|| it.next()) { None => o.push(0), Some(k) => { o.push(1); r_key(&k, o); caller_drop(k); } }
                 o.push(it.len() as u64);
                 counted(|| drop(it)); }
        162 => { let arr = op[2] == 1; let n = op[3] as usize;
                 let items: Vec<Key> = (0..n).map(|i| Key::new(op[4 + 2 * i], op[5 + 2 * i])).collect();
                 let fresh: Set<Key, N> = if arr {
                     let a: [Key; N] = match items.try_into() { Ok(a) => a, Err(_) => panic!("array length") };
                     counted(|| Set::from(a))
                 } else {
                     let src = Src::new(items);
                     counted(|| src.collect())
                 };
                 let old = mem::replace(s, fresh); drop(old); }
        164 => { match op[2] { 0 => fmt_into(format_args!("{}", s), o),
                               1 => fmt_into(format_args!("{:?}", s), o),
                               _ => fmt_into(format_args!("{:#?}", s), o) }
                 let mut scratch = Out::new();
                 fmt_into(format_args!("{:>40}", s), &mut scratch);
                 fmt_into(format_args!("{:<8}", s), &mut scratch);
                 fmt_into(format_args!("{:^60.3?}", s), &mut scratch); }
        _ => unreachable!(),
    }
}

// which operand and slot a yielded reference points into
fn side_slot<const N: usize, const M: usize>(a: &Set<Key, N>, b: &Set<Key, M>, k: &Key, left_only: bool, o: &mut Out) {
    let addr = k as *const Key as usize;
    if let Some(i) = slot_of_skey(a, addr) { inside(a, addr, mem::size_of::<Key>()); o.push(0); o.push(i); }
    else if let Some(i) = slot_of_skey(b, addr) { inside(b, addr, mem::size_of::<Key>()); o.push(1); o.push(i);
        if left_only { fault("NOT_LEFT difference/intersection yielded a reference into the right operand".into()); } }
    else { o.push(9); o.push(9999); fault("OUTSIDE set algebra yielded a reference into neither operand".into()); }
    r_key(k, o);
}

fn alg_run<'a, I, const N: usize, const M: usize>(mut it: I, a: &'a Set<Key, N>, b: &'a Set<Key, M>,
        steps: u64, mode: u64, left_only: bool, o: &mut Out)
where I: Iterator<Item = &'a Key> + Clone + std::fmt::Debug {
    for _ in 0..steps {
        let (lo, hi) = it.size_hint(); o.push(lo as u64); o.push(hi.map(|x| x as u64).unwrap_or(9998));
        match counted(|| it.next()) { None => o.push(0), Some(k) => { o.push(1); side_slot(a, b, k, left_only, o); } }
    }
    let (lo, hi) = it.size_hint(); o.push(lo as u64); o.push(hi.map(|x| x as u64).unwrap_or(9998));
    fmt_into(format_args!("{:?}", it), o);
    match mode {
        0 => { let mut rest: Vec<&Key> = Vec::new(); while let Some(k) = counted(|| it.next()) { rest.push(k); }
               if counted(|| it.next()).is_some() { fault("FUSED adaptor yielded after None".into()); }
               o.push(rest.len() as u64); for k in rest { side_slot(a, b, k, left_only, o); } }
        1 => { let mut rest: Vec<&Key> = Vec::with_capacity(64);
               rest = it.fold(rest, |mut acc, k| { acc.push(k); acc });
               o.push(rest.len() as u64); for k in rest { side_slot(a, b, k, left_only, o); } }
        2 => { let mut c = it.clone(); drop(it);
               let mut rest: Vec<&Key> = Vec::new(); while let Some(k) = counted(|| c.next()) { rest.push(k); }
               o.push(rest.len() as u64); for k in rest { side_slot(a, b, k, left_only, o); } }
        _ => { o.push(counted(|| it.count()) as u64); }
    }
}

fn alg<const N: usize, const M: usize>(a: &Set<Key, N>, b: &Set<Key, M>, kind: u64, steps: u64, mode: u64, o: &mut Out) {
    match kind {
        0 => alg_run(counted(|| a.difference(b)), a, b, steps, mode, true, o),
        1 => alg_run(counted(|| a.intersection(b)), a, b, steps, mode, true, o),
        2 => alg_run(counted(|| a.union(b)), a, b, steps, mode, false, o),
        3 => alg_run(counted(|| a.symmetric_difference(b)), a, b, steps, mode, false, o),
        _ => { quiet_distinct(); // copy the operands slot by slot, whatever == would say
               let ra: Set<&Key, N> = a.iter().collect();
               let rb: Set<&Key, M> = b.iter().collect();
               quiet(false);
               alg_run(counted(|| ra.difference_ref(&rb)), a, b, steps, mode, true, o); }
    }
}

fn pred<const N: usize, const M: usize>(a: &Set<Key, N>, b: &Set<Key, M>, kind: u64) -> bool {
    counted(|| match kind { 0 => a.is_disjoint(b), 1 => a.is_subset(b), _ => a.is_superset(b) })
}

fn sub<const N: usize, const M: usize>(a: &Set<Key, N>, b: &Set<Key, M>, o: &mut Out) {
    let res: Set<Key, N> = counted(|| a - b);
    o.push(res.len() as u64);
    for k in res.iter() { r_key(k, o); }
    drop(res);
}

const BCFG: bincode::config::Configuration<bincode::config::LittleEndian, bincode::config::Fixint> =
    bincode::config::standard().with_fixed_int_encoding();

// serde's own value deserializers over an iterator whose size_hint is inexact: MapAccess/SeqAccess::size_hint
// is None.  Objects created here are harness-internal: no events, identities rolled back.
struct P2(u64, u64);
impl<'de, E: serde::de::Error> serde::de::IntoDeserializer<'de, E> for P2 {
    type Deserializer = serde::de::value::SeqDeserializer<std::array::IntoIter<u64, 2>, E>;
    fn into_deserializer(self) -> Self::Deserializer { serde::de::value::SeqDeserializer::new([self.0, self.1].into_iter()) }
}
fn u64s(bytes: &[u8]) -> Vec<u64> {
    bytes.chunks_exact(8).map(|c| u64::from_le_bytes(c.try_into().unwrap())).collect()
}
fn hintless_map<const N: usize>(bytes: &[u8], expect: &Map<Key, Val, N>) {
    use serde::Deserialize;
    let w = u64s(bytes);
    let entries: Vec<(P2, P2)> = w[1..].chunks_exact(4).map(|c| (P2(c[0], c[1]), P2(c[2], c[3]))).collect();
    let saved = with_ctx(|c| { let s = (c.next_id, c.in_call, c.quiet); c.in_call = false; c.quiet = 1; s });
    let r = catch_unwind(AssertUnwindSafe(|| {
        let de = serde::de::value::MapDeserializer::<_, serde::de::value::Error>::new(entries.into_iter().filter(|_| true));
        Map::<Key, Val, N>::deserialize(de).map(|m| m == *expect && m.len() == expect.len())
    }));
    with_ctx(|c| { c.next_id = saved.0; c.in_call = saved.1; c.quiet = saved.2; });
    match r {
        Ok(Ok(true)) => {}
        Ok(Ok(false)) => fault("SERDE decoding the same entries without a size hint gives a different map".into()),
        Ok(Err(e)) => fault(format!("SERDE decoding the same entries without a size hint fails: {}", e)),
        Err(_) => fault("SERDE decoding the same entries without a size hint panics".into()),
    }
}
fn hintless_set<const N: usize>(bytes: &[u8], expect: &Set<Key, N>) {
    use serde::Deserialize;
    let w = u64s(bytes);
    let entries: Vec<P2> = w[1..].chunks_exact(2).map(|c| P2(c[0], c[1])).collect();
    let saved = with_ctx(|c| { let s = (c.next_id, c.in_call, c.quiet); c.in_call = false; c.quiet = 1; s });
    let r = catch_unwind(AssertUnwindSafe(|| {
        let de = serde::de::value::SeqDeserializer::<_, serde::de::value::Error>::new(entries.into_iter().filter(|_| true));
        Set::<Key, N>::deserialize(de).map(|m| m == *expect && m.len() == expect.len())
    }));
    with_ctx(|c| { c.next_id = saved.0; c.in_call = saved.1; c.quiet = saved.2; });
    match r {
        Ok(Ok(true)) => {}
        Ok(Ok(false)) => fault("SERDE decoding the same elements without a size hint gives a different set".into()),
        Ok(Err(e)) => fault(format!("SERDE decoding the same elements without a size hint fails: {}", e)),
        Err(_) => fault("SERDE decoding the same elements without a size hint panics".into()),
    }
}

// ---------------------------------------------------------------- dispatcher
fn target(op: &[u64]) -> Option<(bool, usize)> {
    let mr = |r: u64| r < 2;
    let sr = |r: u64| (2..4).contains(&r);
    let n = op.len();
    if n < 2 { return None; }
    match op[0] {
        10..=13 if n == 6 && mr(op[1]) => Some((false, op[1] as usize)),
        20..=25 | 30 | 31 | 32 if mr(op[1]) => Some((false, op[1] as usize)),
        33 if n == 2 && mr(op[1]) => Some((false, op[1] as usize)),
        34 if n == 4 && mr(op[1]) => Some((false, op[1] as usize)),
        35 if n == 3 && mr(op[1]) => Some((false, op[1] as usize)),
        40 | 41 | 42 | 44 if n == 5 && mr(op[1]) => Some((false, op[1] as usize)),
        43 if n == 4 && mr(op[1]) => Some((false, op[1] as usize)),
        50 if n == 7 && mr(op[1]) => Some((false, op[1] as usize)),
        51 if n >= 5 && mr(op[1]) => Some((false, op[1] as usize)),
        60 | 66 | 67 if n == 3 && mr(op[1]) && mr(op[2]) => Some((false, op[2] as usize)),
        68 if n == 2 && mr(op[1]) => Some((false, op[1] as usize)),
        168 if n == 2 && sr(op[1]) => Some((true, op[1] as usize - 2)),
        61 if n == 3 && mr(op[1]) && mr(op[2]) => Some((false, op[1] as usize)),
        62 if n >= 4 && mr(op[1]) => Some((false, op[1] as usize)),
        64 if n == 3 && mr(op[1]) => Some((false, op[1] as usize)),
        110 | 111 if n == 4 && sr(op[1]) => Some((true, op[1] as usize - 2)),
        122 | 123 | 130 | 131 | 132 if sr(op[1]) => Some((true, op[1] as usize - 2)),
        133 if n == 2 && sr(op[1]) => Some((true, op[1] as usize - 2)),
        134 | 141 | 142 | 143 | 144 if n == 4 && sr(op[1]) => Some((true, op[1] as usize - 2)),
        135 if n >= 3 && sr(op[1]) => Some((true, op[1] as usize - 2)),
        140 if n == 3 && sr(op[1]) => Some((true, op[1] as usize - 2)),
        160 | 166 | 167 if n == 3 && sr(op[1]) && sr(op[2]) => Some((true, op[2] as usize - 2)),
        161 | 172 if n == 3 && sr(op[1]) && sr(op[2]) => Some((true, op[1] as usize - 2)),
        162 if n >= 4 && sr(op[1]) => Some((true, op[1] as usize - 2)),
        164 if n == 3 && sr(op[1]) => Some((true, op[1] as usize - 2)),
        170 if n == 6 && sr(op[2]) && sr(op[3]) => Some((true, op[2] as usize - 2)),
        171 if n == 4 && sr(op[2]) && sr(op[3]) => Some((true, op[2] as usize - 2)),
        _ => None,
    }
}

fn do_op(w: &mut World, op: &[u64], o: &mut Out) {
    match op[0] {
        60 => { let fresh = w.m[op[1] as usize].clone_reg();
                let old = mem::replace(&mut w.m[op[2] as usize], fresh); drop(old); }
        67 => { let (r, r2) = (op[1] as usize, op[2] as usize);
                if r == r2 { let c = w.m[r].clone_reg(); w.m[r2].clone_from_reg(&c); drop(c); } // a.clone_from(&a) is not expressible; not generated
                else { let (lo, hi) = w.m.split_at_mut(1);
                       if r == 0 { hi[0].clone_from_reg(&lo[0]); } else { lo[0].clone_from_reg(&hi[0]); } } }
        167 => { let (r, r2) = (op[1] as usize - 2, op[2] as usize - 2);
                 if r == r2 { let c = w.s[r].clone_reg(); w.s[r2].clone_from_reg(&c); drop(c); }
                 else { let (lo, hi) = w.s.split_at_mut(1);
                        if r == 0 { hi[0].clone_from_reg(&lo[0]); } else { lo[0].clone_from_reg(&hi[0]); } } }
        68 => { with_m!(&mut w.m[op[1] as usize], m => { fn dflt<const N: usize>(_m: &Map<Key, Val, N>) -> Map<Key, Val, N> { Map::default() }
                    let fresh = dflt(m); let old = mem::replace(m, fresh); drop(old); }); }
        168 => { with_s!(&mut w.s[op[1] as usize - 2], s => { fn dflt<const N: usize>(_s: &Set<Key, N>) -> Set<Key, N> { Set::default() }
                    let fresh = dflt(s); let old = mem::replace(s, fresh); drop(old); }); }
        61 => { let (a, b) = (&w.m[op[1] as usize], &w.m[op[2] as usize]);
                let r = with_mr!(a, x => with_mr!(b, y => counted(|| x == y))); o.push(r as u64);
                // `!=` must be the negation of `==` (asked with honest, uncounted comparisons)
                quiet(true);
                let (e, n) = with_mr!(a, x => with_mr!(b, y => (x == y, x != y)));
                quiet(false);
                if e == n { fault(format!("NE_INCONSISTENT a == b is {} and a != b is {} on the same maps", e, n)); } }
        66 => { let bytes = with_mr!(&w.m[op[1] as usize], a => {
                    let bytes = bincode::serde::encode_to_vec(a, BCFG).expect("encode");
                    let announced = u64::from_le_bytes(bytes[0..8].try_into().unwrap());
                    o.push(announced); o.push(((bytes.len() - 8) / 32) as u64);
                    if a.len() as u64 != announced { fault("SERDE announced length != len()".into()); }
                    bytes });
                with_m!(&mut w.m[op[2] as usize], b => {
                    fn dec<const N: usize>(bytes: &[u8], _m: &Map<Key, Val, N>) -> Map<Key, Val, N> {
                        bincode::serde::decode_from_slice::<Map<Key, Val, N>, _>(bytes, BCFG).expect("decode").0 }
                    let fresh = dec(&bytes, b);
                    // the same entries through a deserializer that gives NO size hint must decode to an equal map
                    hintless_map(&bytes, &fresh);
                    let old = mem::replace(b, fresh); drop(old); }); }
        160 => { let fresh = w.s[op[1] as usize - 2].clone_reg();
                 let old = mem::replace(&mut w.s[op[2] as usize - 2], fresh); drop(old); }
        161 => { let (a, b) = (&w.s[op[1] as usize - 2], &w.s[op[2] as usize - 2]);
                 let r = with_sr!(a, x => with_sr!(b, y => counted(|| x == y))); o.push(r as u64);
                 quiet(true);
                 let (e, n) = with_sr!(a, x => with_sr!(b, y => (x == y, x != y)));
                 quiet(false);
                 if e == n { fault(format!("NE_INCONSISTENT a == b is {} and a != b is {} on the same sets", e, n)); } }
        166 => { let bytes = with_sr!(&w.s[op[1] as usize - 2], a => {
                    let bytes = bincode::serde::encode_to_vec(a, BCFG).expect("encode");
                    let announced = u64::from_le_bytes(bytes[0..8].try_into().unwrap());
                    o.push(announced); o.push(((bytes.len() - 8) / 16) as u64);
                    if a.len() as u64 != announced { fault("SERDE announced length != len()".into()); }
                    bytes });
                 with_s!(&mut w.s[op[2] as usize - 2], b => {
                    fn dec<const N: usize>(bytes: &[u8], _m: &Set<Key, N>) -> Set<Key, N> {
                        bincode::serde::decode_from_slice::<Set<Key, N>, _>(bytes, BCFG).expect("decode").0 }
                    let fresh = dec(&bytes, b);
                    hintless_set(&bytes, &fresh);
                    let old = mem::replace(b, fresh); drop(old); }); }
        170 => { let (a, b) = (&w.s[op[2] as usize - 2], &w.s[op[3] as usize - 2]);
                 with_sr!(a, x => with_sr!(b, y => alg(x, y, op[1], op[4], op[5], o))); }
        171 => { let (a, b) = (&w.s[op[2] as usize - 2], &w.s[op[3] as usize - 2]);
                 let r = with_sr!(a, x => with_sr!(b, y => pred(x, y, op[1]))); o.push(r as u64); }
        172 => { let (a, b) = (&w.s[op[1] as usize - 2], &w.s[op[2] as usize - 2]);
                 with_sr!(a, x => with_sr!(b, y => sub(x, y, o))); }
        x if x < 100 => { with_m!(&mut w.m[op[1] as usize], m => map_op(m, op, o)); }
        _ => { with_s!(&mut w.s[op[1] as usize - 2], s => set_op(s, op, o)); }
    }
}

fn events(o: &mut Out) {
    let (mut d, mut c) = with_ctx(|c| (c.drops.clone(), c.clones.clone()));
    d.sort(); c.sort();
    o.push(8888); o.extend(d); o.push(8889); o.extend(c);
}

fn post(w: &World, t: (bool, usize), o: &mut Out) {
    quiet(true);
    if t.0 { with_sr!(&w.s[t.1], s => post_s(s, o)); } else { with_mr!(&w.m[t.1], m => post_m(m, o)); }
    quiet(false);
}

fn step(w: &mut World, op: &[u64]) -> (Out, bool) {
    let mut out = Out::new();
    let t = match target(op) { Some(t) => t, None => return (vec![9], false) };
    if (op[0] == 60 || op[0] == 67) && w.m[op[1] as usize].cap() != w.m[op[2] as usize].cap() { return (vec![9], false); }
    if (op[0] == 160 || op[0] == 167) && w.s[op[1] as usize - 2].cap() != w.s[op[2] as usize - 2].cap() { return (vec![9], false); }
    with_ctx(|c| { c.drops.clear(); c.clones.clear(); c.op_ids.clear(); c.in_call = true; });
    CLONE_WIN.with(|w| w.set((0, 0)));
    let mut body = Out::new();
    let res = catch_unwind(AssertUnwindSafe(|| do_op(w, op, &mut body)));
    COUNTING.with(|c| c.set(false));
    with_ctx(|c| { c.in_call = false; c.quiet = 0; });
    let panicked = res.is_err();
    match res {
        Ok(()) => { out.push(1); out.extend(body); post(w, t, &mut out); events(&mut out); }
        Err(_) => { out.push(2); post(w, t, &mut out);
            // what the crate destroyed while unwinding: the objects handed in with this very call are struck out
            // (whether the crate or the caller's own frames destroyed them is not distinguished, see Exec.censor)
            let (mut d, mut c) = with_ctx(|c| (c.drops.iter().copied().filter(|i| !c.op_ids.contains(i)).collect::<Vec<u64>>(), c.clones.clone()));
            d.sort(); c.sort();
            out.push(8888); out.extend(d); out.push(8889); out.extend(c); }
    }
    for (i, r) in w.m.iter().enumerate() { if !r.intact() { fault(format!("CANARY memory next to map register {} was overwritten", i)); } }
    for (i, r) in w.s.iter().enumerate() { if !r.intact() { fault(format!("CANARY memory next to set register {} was overwritten", i)); } }
    (out, panicked)
}

fn teardown(w: &mut World) -> Out {
    let mut out = Out::new();
    for i in 0..4 {
        with_ctx(|c| { c.drops.clear(); c.clones.clear(); c.op_ids.clear(); c.in_call = true; });
        let res = if i < 2 {
            let cap = w.m[i].cap() as u64;
            let old = mem::replace(&mut w.m[i], mk_mreg(cap));
            catch_unwind(AssertUnwindSafe(|| drop(old)))
        } else {
            let cap = w.s[i - 2].cap() as u64;
            let old = mem::replace(&mut w.s[i - 2], mk_sreg(cap));
            catch_unwind(AssertUnwindSafe(|| drop(old)))
        };
        with_ctx(|c| c.in_call = false);
        let t = if i < 2 { (false, i) } else { (true, i - 2) };
        match res {
            Ok(()) => { out.push(1); post(w, t, &mut out); events(&mut out); }
            Err(_) => { out.push(2); post(w, t, &mut out); events(&mut out); }
        }
    }
    with_ctx(|c| { out.extend([8890, c.n_eq, c.n_clone, c.n_call, c.next_id]); });
    out
}

pub fn run_case(segs: &[Vec<u64>]) -> (Vec<Out>, Vec<String>, String) {
    let cfg = &segs[0];
    CTX.with(|c| *c.borrow_mut() = Ctx::new());
    with_ctx(|c| { c.adv = cfg[0] == 1; c.seed = cfg[1]; c.fk = cfg[2]; c.fa = cfg[3]; });
    SRC_MODE.with(|m| m.set(cfg[1] + segs.len() as u64));
    let mut w = World { m: [mk_mreg(cfg[4]), mk_mreg(cfg[5])], s: [mk_sreg(cfg[6]), mk_sreg(cfg[7])] };
    let mut obs = Vec::new();
    let mut panics = 0;
    for (j, op) in segs[1..].iter().enumerate() {
        let nf = with_ctx(|c| c.faults.len());
        let (o, p) = step(&mut w, op);
        if p { panics += 1; }
        with_ctx(|c| { for f in c.faults[nf..].iter_mut() { *f = format!("op={} {}", j, f); } });
        obs.push(o);
    }
    let nf = with_ctx(|c| c.faults.len());
    obs.push(teardown(&mut w));
    with_ctx(|c| { for f in c.faults[nf..].iter_mut() { *f = format!("op=teardown {}", f); } });
    drop(w);
    // every object must have been destroyed exactly once, unless something
    // was forgotten by the caller or a panic unwound (leaks are then allowed)
    let (faults, stat) = with_ctx(|c| {
        if !c.leak_ok {
            let mut leaked: Vec<u64> = c.ledger.iter().filter(|(_, s)| **s == 1).map(|(i, _)| *i).collect();
            leaked.sort();
            if !leaked.is_empty() { c.faults.push(format!("op=end LEAK objects never destroyed: {:?}", leaked)); }
        }
        (mem::take(&mut c.faults),
         format!("ops={} panics={} fired={} objects={}", segs.len() - 1, panics, c.fired as u8, c.ledger.len()))
    });
    (obs, faults, stat)
}
