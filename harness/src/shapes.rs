// Element-shape oracles: direct checks on the real crate with element types the
// model-correspondence suites do not use (the theorems are polymorphic in K and
// V; these runs look for shape-dependent code paths in the implementation):
// no-Drop types with an observable Clone, ZST keys/values, small Copy, large
// payloads.  Each failure is one FAULT line.
use crate::elems::{fault, ALLOCS, COUNTING};
use micromap::{IntoIter, IntoKeys, IntoValues, Iter, IterMut, Keys, Map, Set, Values, ValuesMut};
use std::cell::Cell;
use std::fmt::Write as FmtWrite;
use std::panic::{catch_unwind, AssertUnwindSafe};

thread_local! {
    static KCLONES: Cell<u64> = const { Cell::new(0) };
    static VCLONES: Cell<u64> = const { Cell::new(0) };
}

// no Drop glue, but Clone is observable
#[derive(Debug)]
struct CK { id: u64, gen: u32 }
impl PartialEq for CK { fn eq(&self, o: &CK) -> bool { self.id == o.id } }
impl Clone for CK { fn clone(&self) -> CK { KCLONES.with(|c| c.set(c.get() + 1)); CK { id: self.id, gen: self.gen + 1 } } }
#[derive(Debug)]
struct CV { dat: u64, gen: u32 }
impl PartialEq for CV { fn eq(&self, o: &CV) -> bool { self.dat == o.dat } }
impl Clone for CV { fn clone(&self) -> CV { VCLONES.with(|c| c.set(c.get() + 1)); CV { dat: self.dat, gen: self.gen + 1 } } }

fn clone_counts<const N: usize>() {
    for fill in 0..=N {
        let mut m: Map<CK, CV, N> = Map::new();
        for i in 0..fill { m.insert(CK { id: i as u64, gen: 0 }, CV { dat: 10 * i as u64, gen: 0 }); }
        if fill >= 2 { m.remove(&CK { id: 0, gen: 0 }); }
        let len = m.len() as u64;
        KCLONES.with(|c| c.set(0)); VCLONES.with(|c| c.set(0));
        let c = m.clone();
        let (kc, vc) = (KCLONES.with(|c| c.get()), VCLONES.with(|c| c.get()));
        if kc != len || vc != len {
            fault(format!("op=shapes CLONE_COUNT Map<no-Drop K, no-Drop V, {}>::clone of {} entries called K::clone {} times and V::clone {} times", N, len, kc, vc));
        }
        if c.iter().any(|(k, v)| k.gen != 1 || v.gen != 1) {
            fault(format!("op=shapes CLONE_COUNT Map<_,_,{}>::clone stored elements that did not come from exactly one clone() call", N));
        }
        if c != m || c.len() != m.len() {
            fault(format!("op=shapes CLONE_EQ clone of a Map<_,_,{}> with {} entries does not compare equal", N, len));
        }
        let mut s: Set<CK, N> = Set::new();
        for i in 0..fill { s.insert(CK { id: i as u64, gen: 0 }); }
        KCLONES.with(|c| c.set(0));
        let sc = s.clone();
        if KCLONES.with(|c| c.get()) != s.len() as u64 || sc.iter().any(|k| k.gen != 1) {
            fault(format!("op=shapes CLONE_COUNT Set<no-Drop T, {}>::clone of {} elements: wrong number of clone() calls", N, s.len()));
        }
    }
}

const CANARY: u64 = 0x5afe_5afe_5afe_5afe;
#[repr(C)]
struct G<T> { pre: [u64; 4], v: T, post: [u64; 4] }
impl<T> G<T> {
    fn new(v: T) -> Self { G { pre: [CANARY; 4], v, post: [CANARY; 4] } }
    fn ok(&self) -> bool { self.pre.iter().chain(self.post.iter()).all(|x| *x == CANARY) }
}

// a full container rejects a new key cleanly, whatever the element shape
fn overflow_shape<K: PartialEq + Clone + std::fmt::Debug, V: PartialEq + Clone + std::fmt::Debug, const N: usize>(
    name: &str, keys: &[K], extra: K, val: V) {
    let mut g = G::new(Map::<K, V, N>::new());
    for k in keys.iter().take(N) { g.v.insert(k.clone(), val.clone()); }
    if g.v.len() != N.min(keys.len()) { return; }
    let before: Vec<(K, V)> = g.v.iter().map(|(k, v)| (k.clone(), v.clone())).collect();
    if keys.iter().take(N).any(|k| *k == extra) {
        // the "new" key is not new for this shape (e.g. the only value of a ZST key): replacement must work
        if g.v.insert(extra.clone(), val.clone()).is_none() || g.v.len() != before.len() || !g.ok() {
            fault(format!("op=shapes OVERFLOW_STATE {}: replacing the present key on a full Map<_,_,{}> failed", name, N));
        }
        return;
    }
    let r = catch_unwind(AssertUnwindSafe(|| { g.v.insert(extra.clone(), val.clone()); }));
    if r.is_ok() { fault(format!("op=shapes OVERFLOW_OK {}: insert of a new key into a full Map<_,_,{}> did not panic", name, N)); }
    if !g.ok() { fault(format!("op=shapes CANARY {}: memory next to a full Map<_,_,{}> was overwritten by a rejected insert", name, N)); }
    let after: Vec<(K, V)> = g.v.iter().map(|(k, v)| (k.clone(), v.clone())).collect();
    if g.v.len() != before.len() || after != before {
        fault(format!("op=shapes OVERFLOW_STATE {}: a rejected insert changed a full Map<_,_,{}>", name, N));
    }
    if g.v.checked_insert(extra.clone(), val.clone()).is_some() {
        fault(format!("op=shapes OVERFLOW_STATE {}: checked_insert of a new key into a full Map<_,_,{}> did not return None", name, N));
    }
    let r = catch_unwind(AssertUnwindSafe(|| { g.v.entry(extra.clone()).or_insert(val.clone()); }));
    if r.is_ok() { fault(format!("op=shapes OVERFLOW_OK {}: entry().or_insert of a new key into a full Map<_,_,{}> did not panic", name, N)); }
    if !g.ok() || g.v.len() != before.len() { fault(format!("op=shapes OVERFLOW_STATE {}: entry insert damaged a full Map<_,_,{}>", name, N)); }
    if g.v.capacity() != N || g.v.len() > N { fault(format!("op=shapes LEN_GT_CAP {}: len {} capacity {}", name, g.v.len(), g.v.capacity())); }
    if let Some(k0) = keys.first() {
        if N > 0 && g.v.insert(k0.clone(), val.clone()).is_none() {
            fault(format!("op=shapes OVERFLOW_STATE {}: replacing a present key on a full Map<_,_,{}> reported it absent", name, N));
        }
    }
}

struct Buf { b: [u8; 4096], n: usize }
impl FmtWrite for Buf {
    fn write_str(&mut self, s: &str) -> std::fmt::Result {
        let bs = s.as_bytes();
        if self.n + bs.len() > self.b.len() { return Err(std::fmt::Error); }
        self.b[self.n..self.n + bs.len()].copy_from_slice(bs); self.n += bs.len(); Ok(())
    }
}

// no allocator call in any operation on non-allocating element types
fn no_alloc() {
    let a0 = ALLOCS.with(|a| a.get());
    COUNTING.with(|c| c.set(true));
    let r = catch_unwind(|| {
        let mut m: Map<u64, [u64; 4], 8> = Map::new();
        for i in 0..8u64 { m.insert(i, [i; 4]); }
        let _ = m.get(&3); let _ = m.get_mut(&4); let _ = m.contains_key(&9); let _ = m.get_key_value(&1);
        m.remove(&2); m.remove_entry(&0); m.checked_insert(20, [0; 4]); m.insert_key_value(3, [9; 4]);
        m.retain(|k, _| k % 2 == 1);
        *m.entry(5).or_insert([1; 4]) = [2; 4]; m.entry(77).or_insert_with(|| [7; 4]); m.entry(5).and_modify(|v| v[0] += 1).or_default();
        let [_a, _b] = m.get_disjoint_mut([&5, &77]);
        let c = m.clone(); let _ = c == m;
        let mut n = 0u64; for (k, v) in &m { n += k + v[0]; } for v in m.values_mut() { v[0] += n; }
        let _ = m.keys().count() + m.values().count() + m.iter().len();
        let mut b = Buf { b: [0; 4096], n: 0 };
        let _ = write!(b, "{:?} {:#?} {:>50?}", m, c, m);
        let d: Map<u64, u64, 4> = [(1, 1), (2, 2), (1, 3)].into_iter().collect(); let _ = write!(b, "{} {:>30} {:<5}", d, d, d);
        let _: u64 = m.drain().map(|(k, _)| k).sum(); let _: u64 = c.into_iter().map(|(k, _)| k).sum();
        let s1: Set<u32, 6> = [1, 2, 3, 4].into_iter().collect(); let mut s2: Set<u32, 4> = Set::from([3, 4, 5, 6]);
        let _ = s1.union(&s2).count() + s1.intersection(&s2).count() + s1.difference(&s2).count() + s1.symmetric_difference(&s2).count();
        let _ = s1.is_subset(&s2) | s1.is_disjoint(&s2) | s2.is_superset(&s1); let s3 = &s1 - &s2; let _ = s3 == s1;
        s2.retain(|x| *x > 4); s2.extend([7u32, 8].iter()); let _ = s2.take(&5); let _ = s2.replace(6);
        let _ = write!(b, "{} {:?} {:#?} {:>20}", s1, s2, s3, s1);
        let _ = write!(b, "{:?} {:?} {:?}", s1.iter().len(), s1.union(&s2), s1.difference(&s3));
        let z: Map<(), (), 1> = Map::new(); let _ = z.len(); let mut zs: Set<(), 1> = Set::new(); zs.insert(()); let _ = zs.contains(&());
    });
    COUNTING.with(|c| c.set(false));
    let a1 = ALLOCS.with(|a| a.get());
    if r.is_err() { fault("op=shapes SHAPES_PANIC the allocation-free scenario panicked".into()); }
    else if a1 != a0 { fault(format!("op=shapes ALLOC {} allocator calls in container operations on non-allocating element types", a1 - a0)); }
}


// the Default constants of the iterator types are empty, exact and fused; Extend<&T>
// (Copy elements) equals Extend<T> of the copies, overflow included
fn misc_surface() {
    fn empty<I: Iterator + ExactSizeIterator + std::fmt::Debug>(name: &str, mut it: I) {
        if it.len() != 0 || it.size_hint() != (0, Some(0)) { fault(format!("op=shapes ITER_DEFAULT {}::default() reports len {} size_hint {:?}", name, it.len(), it.size_hint())); }
        if format!("{:?}", it) != "[]" { fault(format!("op=shapes ITER_DEFAULT {}::default() renders as {:?}", name, format!("{:?}", it))); }
        if it.next().is_some() || it.next().is_some() || it.len() != 0 { fault(format!("op=shapes ITER_DEFAULT {}::default() yields an item", name)); }
    }
    empty("Iter", Iter::<u32, String>::default());
    empty("IterMut", IterMut::<u32, String>::default());
    empty("IntoIter", IntoIter::<u32, String, 3>::default());
    empty("IntoIter<_,_,0>", IntoIter::<String, u8, 0>::default());
    empty("Keys", Keys::<u32, String>::default());
    empty("Values", Values::<u32, String>::default());
    empty("ValuesMut", ValuesMut::<u32, String>::default());
    empty("IntoKeys", IntoKeys::<String, u32, 2>::default());
    empty("IntoValues", IntoValues::<u32, String, 2>::default());
    // Extend<&T>
    let srcs: [&[u32]; 5] = [&[], &[1], &[1, 2, 1, 3], &[4, 4, 4, 4, 4, 4], &[5, 6, 7, 8, 9]];
    for pre in 0..=3u32 {
        for src in srcs.iter() {
            let mut a: Set<u32, 4> = Set::new(); let mut b: Set<u32, 4> = Set::new();
            for i in 0..pre { a.insert(100 + i); b.insert(100 + i); }
            let ra = catch_unwind(AssertUnwindSafe(|| a.extend(src.iter())));
            let rb = catch_unwind(AssertUnwindSafe(|| b.extend(src.iter().copied())));
            let (va, vb): (Vec<u32>, Vec<u32>) = (a.iter().copied().collect(), b.iter().copied().collect());
            if ra.is_ok() != rb.is_ok() || va != vb || a.len() != b.len() {
                fault(format!("op=shapes EXTEND_REF Set<u32,4> with {} elements: extend(&items {:?}) gives {:?} (panicked: {}), extend(items) gives {:?} (panicked: {})", pre, src, va, ra.is_err(), vb, rb.is_err()));
            }
        }
    }
}

pub fn run() {
    clone_counts::<1>(); clone_counts::<3>(); clone_counts::<8>();
    overflow_shape::<u8, (), 0>("u8 -> () (ZST value)", &[], 1, ());
    overflow_shape::<u8, (), 2>("u8 -> () (ZST value)", &[1, 2], 3, ());
    overflow_shape::<(), u64, 1>("() (ZST key) -> u64", &[()], (), 5);
    overflow_shape::<u32, u32, 3>("small Copy", &[1, 2, 3], 4, 9);
    overflow_shape::<u64, [u64; 32], 2>("large payload", &[1, 2], 3, [7; 32]);
    overflow_shape::<String, Vec<u8>, 2>("heap-owning", &["a".to_string(), "b".to_string()], "c".to_string(), vec![1, 2, 3]);
    overflow_shape::<u16, [u8; 3], 8>("odd-sized", &[1, 2, 3, 4, 5, 6, 7, 8], 9, [1, 2, 3]);
    no_alloc();
    misc_surface();
}
