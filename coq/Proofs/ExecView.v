(* ExecView.v — history-level FUNCTIONAL theorem for the interpreter [step] of
   Model/Exec.v under an HONEST script: for every one of the 56 operations the
   contents of the four registers after the step — as sequences of
   (key class, value payload) in slot order — are a small pure function
   [vstep] of the contents before.  Object identities, callback counters and
   observation tokens are abstracted away; slot ORDER is kept.
   Mirrors ExecUniq.v / ExecSafe.v with a stronger conclusion. *)
Require Import Model.Base Model.Slots Model.MapOps Model.EntryOps Model.SetOps Model.Fmt Model.Exec.
Require Import Proofs.Hoare Proofs.Inv Proofs.Safety Proofs.Safety2 Proofs.Safety3 Proofs.Spec Proofs.Lawful Proofs.Lawful2 Proofs.Lawful3 Proofs.IterSpec Proofs.EqClone Proofs.Disjoint Proofs.EntrySpec Proofs.Dict Proofs.Bulk Proofs.SetDict Proofs.FmtSerde Proofs.ExecSafe Proofs.ExecUniq.
From Coq Require Import Permutation.

(* ------------------------------------------------------------------ *)
(* 0. plain list functions the specification is written with           *)
(* ------------------------------------------------------------------ *)
Section ListFns.
Context {A : Type}.

(* overwrite position i *)
Fixpoint set_at (l : list A) (i : nat) (x : A) : list A :=
  match l, i with
  | [], _ => []
  | _ :: t, 0 => x :: t
  | h :: t, S j => h :: set_at t j x
  end.

(* swap-remove: the last element moves into the hole at i *)
Definition swap_del (l : list A) (i : nat) : list A :=
  match nth_error l (length l - 1) with
  | Some z => if i =? length l - 1 then removelast l else set_at (removelast l) i z
  | None => l
  end.

(* the crate's retain loop: [g] answers keep/remove and rewrites the element *)
Fixpoint retain_v (g : A -> bool * A) (fuel i : nat) (l : list A) : list A :=
  match fuel with
  | 0 => l
  | S f => match nth_error l i with
           | None => l
           | Some a => let '(keep, a') := g a in
                       if keep then retain_v g f (S i) (set_at l i a')
                       else retain_v g f i (swap_del (set_at l i a') i)
           end
  end.

Context (cl : A -> N).   (* the class of an element *)

(* first position holding class c *)
Fixpoint pos (c : N) (l : list A) : option nat :=
  match l with
  | [] => None
  | a :: t => if N.eqb (cl a) c then Some 0 else option_map S (pos c t)
  end.

(* insert: overwrite the entry of the same class, else append if there is room *)
Definition put (n : nat) (l : list A) (x : A) : list A :=
  match pos (cl x) l with
  | Some i => set_at l i x
  | None => if length l <? n then l ++ [x] else l
  end.

(* insert-if-absent: an entry of the same class stays as it is *)
Definition add_new (n : nat) (l : list A) (x : A) : list A :=
  match pos (cl x) l with
  | Some _ => l
  | None => if length l <? n then l ++ [x] else l
  end.

(* remove the entry of class c *)
Definition del (l : list A) (c : N) : list A :=
  match pos c l with Some i => swap_del l i | None => l end.

(* insert the items one by one; None = an insertion did not fit *)
Fixpoint fill (n : nat) (l items : list A) : option (list A) :=
  match items with
  | [] => Some l
  | x :: t => match pos (cl x) l with
              | Some i => fill n (set_at l i x) t
              | None => if length l <? n then fill n (l ++ [x]) t else None
              end
  end.

(* insert-if-absent one by one; stop at the first item that does not fit *)
Fixpoint extend_stop (n : nat) (l items : list A) : list A :=
  match items with
  | [] => l
  | x :: t => match pos (cl x) l with
              | Some _ => extend_stop n l t
              | None => if length l <? n then extend_stop n (l ++ [x]) t else l
              end
  end.

End ListFns.

(* ---- functions on (class, payload) lists ---- *)
Definition present (c : N) (l : list (N * N)) : bool :=
  match pos fst c l with Some _ => true | None => false end.

(* the entry of class c, if any, gets payload d *)
Definition write (l : list (N * N)) (c d : N) : list (N * N) :=
  match pos fst c l with Some i => set_at l i (c, d) | None => l end.

(* the entry of class c, if any, gets payload + 100 *)
Definition bump (l : list (N * N)) (c : N) : list (N * N) :=
  match pos fst c l with
  | Some i => match nth_error l i with Some (c', d) => set_at l i (c', d + 100)%N | None => l end
  | None => l
  end.

(* get_disjoint_mut: the entry of the j-th requested class gets payload wd + j *)
Fixpoint write_all (qs : list N) (wd : N) (j : nat) (l : list (N * N)) : list (N * N) :=
  match qs with
  | [] => l
  | c :: t => write_all t wd (S j) (write l c (wd + N.of_nat j)%N)
  end.

(* iter_mut / values_mut: entry j gets payload wd + j, for j = 0 .. min n (length l) - 1 *)
Fixpoint iter_writes (wd : N) (n j : nat) (l : list (N * N)) : list (N * N) :=
  match n with
  | 0 => l
  | S n' => match nth_error l j with
            | Some (c, _) => iter_writes wd n' (S j) (set_at l j (c, (wd + N.of_nat j)%N))
            | None => l
            end
  end.

Fixpoint nodupb (l : list N) : bool :=
  match l with
  | [] => true
  | c :: t => negb (existsb (N.eqb c) t) && nodupb t
  end.

(* retain with the scripted closure: action 0 removes, 1 keeps, anything else
   keeps and adds 100 to the payload *)
Definition retain_m (dflt : N) (tab : list (N * N)) (l : list (N * N)) : list (N * N) :=
  retain_v (fun e => let a := lookup_act (fst e) tab dflt in
                     (negb (N.eqb a 0), if N.eqb a 0 || N.eqb a 1 then e else (fst e, (snd e + 100)%N)))
           (length l) 0 l.
Definition retain_s (dflt : N) (tab : list (N * N)) (l : list N) : list N :=
  retain_v (fun c => (negb (N.eqb (lookup_act c tab dflt) 0), c)) (length l) 0 l.

(* the entry chains of Exec.entry_chain, on the view *)
Definition entry_v (n : nat) (l : list (N * N)) (c chain d : N) : list (N * N) :=
  match chain with
  | 0%N | 1%N | 2%N => add_new fst n l (c, d)
  | 3%N => add_new fst n l (c, 0%N)
  | 4%N => if present c l then bump l c else add_new fst n l (c, d)
  | 5%N | 6%N => l
  | 7%N => write l c d
  | 8%N => put fst n l (c, d)
  | 9%N | 10%N => del fst l c
  | _ => put fst n l (c, d)
  end.

(* ------------------------------------------------------------------ *)
(* 1. views and the specification [vstep]                              *)
(* ------------------------------------------------------------------ *)
Definition mview (m : map key vobj) : list (N * N) :=
  List.map (fun p => (kcls (fst p), vdat (snd p))) (Spec.elems m).
Definition sview (m : map key unit) : list N :=
  List.map (fun p => kcls (fst p)) (Spec.elems m).

Record vworld := {
  v0 : list (N * N); v1 : list (N * N); u2 : list N; u3 : list N;
  c0 : nat; c1 : nat; c2 : nat; c3 : nat
}.

Definition view_x (x : xworld) : vworld :=
  {| v0 := mview (xm0 x); v1 := mview (xm1 x); u2 := sview (xs0 x); u3 := sview (xs1 x);
     c0 := cap (xm0 x); c1 := cap (xm1 x); c2 := cap (xs0 x); c3 := cap (xs1 x) |}.

(* register access: map registers 0, 1; set registers 2, 3 (as get_m / get_s) *)
Definition get_mv (r : N) (vw : vworld) : list (N * N) := if N.eqb r 0 then v0 vw else v1 vw.
Definition get_mc (r : N) (vw : vworld) : nat := if N.eqb r 0 then c0 vw else c1 vw.
Definition put_mv (r : N) (l : list (N * N)) (vw : vworld) : vworld :=
  if N.eqb r 0
  then {| v0 := l; v1 := v1 vw; u2 := u2 vw; u3 := u3 vw; c0 := c0 vw; c1 := c1 vw; c2 := c2 vw; c3 := c3 vw |}
  else {| v0 := v0 vw; v1 := l; u2 := u2 vw; u3 := u3 vw; c0 := c0 vw; c1 := c1 vw; c2 := c2 vw; c3 := c3 vw |}.
Definition get_sv (r : N) (vw : vworld) : list N := if N.eqb r 2 then u2 vw else u3 vw.
Definition get_sc (r : N) (vw : vworld) : nat := if N.eqb r 2 then c2 vw else c3 vw.
Definition put_sv (r : N) (l : list N) (vw : vworld) : vworld :=
  if N.eqb r 2
  then {| v0 := v0 vw; v1 := v1 vw; u2 := l; u3 := u3 vw; c0 := c0 vw; c1 := c1 vw; c2 := c2 vw; c3 := c3 vw |}
  else {| v0 := v0 vw; v1 := v1 vw; u2 := u2 vw; u3 := l; c0 := c0 vw; c1 := c1 vw; c2 := c2 vw; c3 := c3 vw |}.

(* apply [f capacity contents] to a register *)
Definition on_m (r : N) (f : nat -> list (N * N) -> list (N * N)) (vw : vworld) : vworld :=
  put_mv r (f (get_mc r vw) (get_mv r vw)) vw.
Definition on_s (r : N) (f : nat -> list N -> list N) (vw : vworld) : vworld :=
  put_sv r (f (get_sc r vw) (get_sv r vw)) vw.

Definition pairs_v (items : list (key * vobj)) : list (N * N) :=
  List.map (fun p => (kcls (fst p), vdat (snd p))) items.

Definition vstep (o : op) (vw : vworld) : vworld :=
  match o with
  (* ---- Map ---- *)
  | OInsert r k v | OInsertKV r k v | OCheckedInsert r k v | OInsertUnchecked r k v =>
      on_m r (fun n l => put fst n l (kcls k, vdat v)) vw
  | OGetMut r q d | OIndexMut r q d => on_m r (fun _ l => write l (qcls q) d) vw
  | ORemove r q | ORemoveEntry r q => on_m r (fun _ l => del fst l (qcls q)) vw
  | ORetain r dflt tab => on_m r (fun _ l => retain_m dflt tab l) vw
  | OClear r | ODrain r _ _ | OIntoIter r _ _ _ | ODrainNth r _ _ | OIntoNth r _ _ _ | ODefault r =>
      on_m r (fun _ _ => []) vw
  | OWithCapacity r c => on_m r (fun n l => if c =? n then [] else l) vw
  | OIter r kind steps wd =>
      on_m r (fun _ l => if N.eqb kind 1 || N.eqb kind 4 then iter_writes wd steps 0 l else l) vw
  | OEntry r k chain v => on_m r (fun n l => entry_v n l (kcls k) chain (vdat v)) vw
  | ODisjoint r unchecked qs wd =>
      on_m r (fun _ l => if unchecked || nodupb qs then write_all qs wd 0 l else l) vw
  | OClone r r' | OCloneFrom r r' =>
      if get_mc r vw =? get_mc r' vw then put_mv r' (get_mv r vw) vw else vw
  | OFromIter r _ items =>
      on_m r (fun n l => match fill fst n [] (pairs_v items) with Some l' => l' | None => l end) vw
  | OSerde r r' =>
      if length (get_mv r vw) <=? get_mc r' vw then put_mv r' (get_mv r vw) vw else vw
  (* ---- Set ---- *)
  | SInsert r k | SReplace r k => on_s r (fun n l => add_new (fun c => c) n l (kcls k)) vw
  | SRemove r q | STake r q => on_s r (fun _ l => del (fun c => c) l (qcls q)) vw
  | SRetain r dflt tab => on_s r (fun _ l => retain_s dflt tab l) vw
  | SClear r | SDrain r _ _ | SIntoIter r _ _ | SDrainNth r _ _ | SIntoNth r _ _ | SDefault r =>
      on_s r (fun _ _ => []) vw
  | SExtend r items => on_s r (fun n l => extend_stop (fun c => c) n l (List.map kcls items)) vw
  | SClone r r' | SCloneFrom r r' =>
      if get_sc r vw =? get_sc r' vw then put_sv r' (get_sv r vw) vw else vw
  | SFromIter r _ items =>
      on_s r (fun n l => match fill (fun c => c) n [] (List.map kcls items) with Some l' => l' | None => l end) vw
  | SSerde r r' =>
      if length (get_sv r vw) <=? get_sc r' vw then put_sv r' (get_sv r vw) vw else vw
  (* ---- read-only operations ---- *)
  | OGet _ _ | OGetKV _ _ | OContains _ _ | OIndex _ _ | OEq _ _ | OFormat _ _ | OIterNth _ _ _ _
  | SContains _ _ | SGet _ _ | SEq _ _ | SFormat _ _ | SIter _ _ | SIterNth _ _ _
  | SAlgebra _ _ _ _ _ | SPred _ _ _ | SSub _ _ | OBad => vw
  end.

Definition contract2 (debug : bool) (o : op) (x : xworld) : Prop :=
  contract_ok debug o x /\
  match o with ODisjoint _ true qs _ => NoDup qs | _ => True end.

(* ------------------------------------------------------------------ *)
(* 2. pure facts: the view commutes with the list machine of Spec.v    *)
(* ------------------------------------------------------------------ *)
Lemma set_at_upd {A} (l : list A) i x : set_at l i x = upd l i x.
Proof.
  revert i; induction l as [|h t IH]; intros [|i]; cbn [set_at upd]; try reflexivity.
  rewrite IH. reflexivity.
Qed.

Lemma set_at_length {A} (l : list A) i x : length (set_at l i x) = length l.
Proof. rewrite set_at_upd. apply upd_length. Qed.

Lemma set_at_same {A} (l : list A) i x : nth_error l i = Some x -> set_at l i x = l.
Proof. intros H. rewrite set_at_upd. apply IterSpec.upd_same. exact H. Qed.

Lemma map_set_at {A B} (g : A -> B) (l : list A) i x :
  List.map g (upd l i x) = set_at (List.map g l) i (g x).
Proof. rewrite set_at_upd. apply Dict.d_map_upd. Qed.

Lemma map_removelast {A B} (g : A -> B) (l : list A) :
  List.map g (removelast l) = removelast (List.map g l).
Proof.
  induction l as [|a t IH]; [reflexivity|]. destruct t as [|b t']; [reflexivity|].
  change (removelast (a :: b :: t')) with (a :: removelast (b :: t')).
  cbn [List.map] in *.
  change (removelast (g a :: g b :: List.map g t')) with (g a :: removelast (g b :: List.map g t')).
  rewrite IH. reflexivity.
Qed.

Lemma map_swap_del {K V B} (g : K * V -> B) (l : list (K * V)) i :
  List.map g (swap_remove l i) = swap_del (List.map g l) i.
Proof.
  unfold swap_remove, swap_del. rewrite map_length, nth_error_map.
  destruct (nth_error l (length l - 1)) as [z|]; cbn [option_map]; [|reflexivity].
  destruct (i =? length l - 1); [apply map_removelast|].
  rewrite map_set_at, map_removelast. reflexivity.
Qed.

Lemma pos_inv {A} (cl : A -> N) c (l : list A) : forall i,
  pos cl c l = Some i -> exists a, nth_error l i = Some a /\ cl a = c.
Proof.
  induction l as [|h t IH]; intros i H; cbn [pos] in H; [discriminate|].
  destruct (N.eqb_spec (cl h) c) as [Heq|Hne].
  - injection H as <-. exists h. auto.
  - destruct (pos cl c t) as [j|]; cbn [option_map] in H; [|discriminate].
    injection H as <-. destruct (IH j eq_refl) as (a & Ha & Hc). exists a. auto.
Qed.

(* a class-preserving overwrite does not move any class *)
Lemma pos_set_at {A} (cl : A -> N) c (l : list A) : forall i x a,
  nth_error l i = Some a -> cl x = cl a -> pos cl c (set_at l i x) = pos cl c l.
Proof.
  induction l as [|h t IH]; intros [|i] x a Hn Hc; cbn [nth_error] in Hn; try discriminate.
  - injection Hn as ->. cbn [set_at pos]. rewrite Hc. reflexivity.
  - cbn [set_at pos]. rewrite (IH i x a Hn Hc). reflexivity.
Qed.

Lemma nth_error_set_at {A} (l : list A) i j x :
  nth_error (set_at l i x) j = if Nat.eqb i j then (if j <? length l then Some x else None) else nth_error l j.
Proof. rewrite set_at_upd. apply nth_error_upd. Qed.

Lemma Forall2_map_eq {A B} (g : A -> B) (l l' : list A) :
  Forall2 (fun p p' => g p' = g p) l l' -> List.map g l' = List.map g l.
Proof. induction 1 as [|a b l l' H _ IH]; [reflexivity|]. cbn [List.map]. rewrite H, IH. reflexivity. Qed.

Lemma nodupb_spec (l : list N) : nodupb l = true <-> NoDup l.
Proof.
  induction l as [|c t IH]; cbn [nodupb]; [split; [constructor | reflexivity]|].
  rewrite andb_true_iff, negb_true_iff, IH. split.
  - intros [Hn Ht]. constructor; [|exact Ht]. intros Hin.
    assert (Hx : existsb (N.eqb c) t = true) by (apply existsb_exists; exists c; split; [exact Hin | apply N.eqb_refl]).
    congruence.
  - intros H. inversion H as [|c' t' Hn Ht]; subst. split; [|exact Ht].
    destruct (existsb (N.eqb c) t) eqn:He; [|reflexivity].
    apply existsb_exists in He. destruct He as (y & Hy & Hcy). apply N.eqb_eq in Hcy. subst y. contradiction.
Qed.

(* for class lists (sets) overwriting is a no-op: put = add_new *)
Lemma put_id (n : nat) (l : list N) (c : N) :
  put (fun c => c) n l c = add_new (fun c => c) n l c.
Proof.
  unfold put, add_new. destruct (pos (fun c => c) c l) as [i|] eqn:Hp; [|reflexivity].
  destruct (pos_inv _ _ _ _ Hp) as (a & Ha & Hc). cbn beta in Hc. subst a.
  apply set_at_same. exact Ha.
Qed.

Section ViewFacts.
Context {V X : Type} (phi : key * V -> X) (cl : X -> N).
Context (Hcl : forall p, cl (phi p) = kcls (fst p)).
Context (Hphi : forall k k' v, kcls k = kcls k' -> phi (k, v) = phi (k', v)).

Lemma pos_map c (l : list (key * V)) : pos cl c (List.map phi l) = find_idx kcls c l.
Proof.
  induction l as [|p t IH]; cbn [List.map pos find_idx]; [reflexivity|].
  rewrite Hcl, IH. reflexivity.
Qed.

Lemma map_l_insert n (l : list (key * V)) k v u :
  (find_idx kcls (kcls k) l = None -> length l < n) ->
  List.map phi (fst (fst (l_insert kcls l k v u))) = put cl n (List.map phi l) (phi (k, v)).
Proof.
  intros Hn. unfold l_insert, put. rewrite Hcl, pos_map. cbn [fst].
  destruct (find_idx kcls (kcls k) l) as [i|] eqn:Hf.
  - destruct (find_idx_inv kcls _ _ _ Hf) as [[[k0 v0] [Hp Hc]] _]. rewrite Hp. cbn [fst] in Hc.
    destruct u; cbn [fst]; rewrite map_set_at; [reflexivity|]. f_equal. apply Hphi. exact Hc.
  - cbn [fst]. rewrite map_length. specialize (Hn eq_refl).
    destruct (Nat.ltb_spec (length l) n); [|lia]. rewrite map_app. reflexivity.
Qed.

Lemma put_full n (l : list (key * V)) k v :
  find_idx kcls (kcls k) l = None -> n <= length l ->
  put cl n (List.map phi l) (phi (k, v)) = List.map phi l.
Proof.
  intros Hf Hn. unfold put. rewrite Hcl, pos_map. cbn [fst]. rewrite Hf, map_length.
  destruct (Nat.ltb_spec (length l) n); [lia | reflexivity].
Qed.

Lemma add_new_present n (l : list (key * V)) k v i :
  find_idx kcls (kcls k) l = Some i -> add_new cl n (List.map phi l) (phi (k, v)) = List.map phi l.
Proof. intros Hf. unfold add_new. rewrite Hcl, pos_map. cbn [fst]. rewrite Hf. reflexivity. Qed.

Lemma add_new_absent n (l : list (key * V)) k v :
  find_idx kcls (kcls k) l = None -> length l < n ->
  add_new cl n (List.map phi l) (phi (k, v)) = List.map phi (l ++ [(k, v)]).
Proof.
  intros Hf Hn. unfold add_new. rewrite Hcl, pos_map. cbn [fst]. rewrite Hf, map_length.
  destruct (Nat.ltb_spec (length l) n); [|lia]. rewrite map_app. reflexivity.
Qed.

Lemma add_new_full n (l : list (key * V)) k v :
  find_idx kcls (kcls k) l = None -> n <= length l ->
  add_new cl n (List.map phi l) (phi (k, v)) = List.map phi l.
Proof.
  intros Hf Hn. unfold add_new. rewrite Hcl, pos_map. cbn [fst]. rewrite Hf, map_length.
  destruct (Nat.ltb_spec (length l) n); [lia | reflexivity].
Qed.

Lemma map_l_remove (l : list (key * V)) c :
  List.map phi (fst (l_remove kcls l c)) = del cl (List.map phi l) c.
Proof.
  unfold l_remove, del. rewrite pos_map. destruct (find_idx kcls c l); cbn [fst]; [|reflexivity].
  apply map_swap_del.
Qed.

Lemma map_l_retain (g : key -> V -> bool * V) (g' : X -> bool * X) :
  (forall k v, g' (phi (k, v)) = (fst (g k v), phi (k, snd (g k v)))) ->
  forall fuel i (l : list (key * V)),
    List.map phi (l_retain g fuel i l) = retain_v g' fuel i (List.map phi l).
Proof.
  intros Hg. induction fuel as [|fuel IH]; intros i l; cbn [l_retain retain_v]; [reflexivity|].
  rewrite nth_error_map. destruct (nth_error l i) as [[k v]|]; cbn [option_map]; [|reflexivity].
  rewrite Hg. destruct (g k v) as [keep v']. cbn [fst snd]. destruct keep.
  - rewrite IH, map_set_at. reflexivity.
  - rewrite IH, map_swap_del, map_set_at. reflexivity.
Qed.

Lemma map_l_extend n items : forall l : list (key * V),
  option_map (List.map phi) (l_extend kcls n l items) = fill cl n (List.map phi l) (List.map phi items).
Proof.
  induction items as [|[k v] rest IH]; intros l; cbn [l_extend fill List.map]; [reflexivity|].
  rewrite Hcl, pos_map. cbn [fst]. destruct (find_idx kcls (kcls k) l) as [i|] eqn:Hf.
  - rewrite IH. f_equal. unfold l_insert. rewrite Hf.
    destruct (find_idx_inv kcls _ _ _ Hf) as [[[k0 v0] [Hp Hc]] _]. rewrite Hp. cbn [fst] in *.
    rewrite map_set_at. f_equal. apply Hphi. exact Hc.
  - rewrite map_length. destruct (length l <? n); [|reflexivity]. rewrite IH, map_app. reflexivity.
Qed.

End ViewFacts.

(* ------------------------------------------------------------------ *)
(* 3. the predicate carried through a computation                      *)
(* ------------------------------------------------------------------ *)
Section VGen.
Context {V X : Type} (phi : key * V -> X) (cl : X -> N).
Context (Hcl : forall p, cl (phi p) = kcls (fst p)).
Context (Hphi : forall k k' v, kcls k = kcls k' -> phi (k, v) = phi (k', v)).
Notation world := (world key V cstate).
Notation MV := (M key V cstate).

Definition view (m : map key V) : list X := List.map phi (Spec.elems m).

(* afterwards: invariant, capacity, and the view is [F] of the view before *)
Definition vpost (F : list X -> list X) (w w' : world) : Prop :=
  WF (self w') /\ cap (self w') = cap (self w) /\ view (self w') = F (view (self w)).
(* both outcomes *)
Definition sets {A} (c : MV A) (F : list X -> list X) (w : world) : Prop :=
  wp c (fun _ => vpost F w) (vpost F w) w.
(* from every well-formed world with unique keys; [f] also sees the capacity *)
Definition does {A} (c : MV A) (f : nat -> list X -> list X) : Prop :=
  forall w, WF (self w) -> Um (self w) -> sets c (f (cap (self w))) w.

Lemma vpost_elems F (w w' : world) L :
  WF (self w') -> cap (self w') = cap (self w) -> Spec.elems (self w') = L ->
  List.map phi L = F (view (self w)) -> vpost F w w'.
Proof. intros H1 H2 H3 H4. split; [exact H1|]. split; [exact H2|]. unfold view at 1. rewrite H3. exact H4. Qed.

Lemma vpost_same F (w w' : world) :
  WF (self w) -> self w' = self w -> F (view (self w)) = view (self w) -> vpost F w w'.
Proof. intros Hw Hs HF. unfold vpost. rewrite Hs, HF. auto. Qed.

Lemma vpost_frame F (w w' w'' : world) : self w'' = self w' -> vpost F w w' -> vpost F w w''.
Proof. unfold vpost. intros ->. auto. Qed.

Lemma vpost_base F (w w' w'' : world) : self w' = self w -> vpost F w' w'' -> vpost F w w''.
Proof. unfold vpost. intros ->. auto. Qed.

Lemma view_len0 (m : map key V) : len m = 0 -> view m = [].
Proof. intros H. unfold view. rewrite (elems_len0 m H). reflexivity. Qed.

Lemma vpost_empty F (w w' : world) : zpost w w' -> F (view (self w)) = [] -> vpost F w w'.
Proof.
  intros [[H1 H2] H3] HF. split; [exact H1|]. split; [exact H2|]. rewrite HF. apply view_len0. exact H3.
Qed.

Lemma vpost_ext F G (w w' : world) : F (view (self w)) = G (view (self w)) -> vpost F w w' -> vpost G w w'.
Proof. unfold vpost. intros <-. auto. Qed.

Lemma sets_ext {A} (c : MV A) F G (w : world) :
  F (view (self w)) = G (view (self w)) -> sets c F w -> sets c G w.
Proof.
  intros HFG H. eapply wp_mono; [exact H | |]; cbn beta; intros; eapply vpost_ext; eauto.
Qed.

Lemma sets_bind_frame {A B} (c : MV A) (k : A -> MV B) F (w : world) :
  sets c F w -> (forall a, frame (k a)) -> sets (bind c k) F w.
Proof.
  intros Hc Hk. apply wp_bind. eapply wp_mono; [exact Hc | |]; cbn beta; [|auto].
  intros a w1 H1. apply wp_frame; [apply Hk | |]; intros; eapply vpost_frame; eauto.
Qed.

Lemma does_bind_frame {A B} (c : MV A) (k : A -> MV B) f :
  does c f -> (forall a, frame (k a)) -> does (bind c k) f.
Proof. intros Hc Hk w Hw Hu. apply sets_bind_frame; [apply Hc; assumption | exact Hk]. Qed.

Lemma does_then_ret {A B} (c : MV A) (g : A -> B) f : does c f -> does (a <- c ;; ret (g a)) f.
Proof. intros Hc. apply does_bind_frame; [exact Hc|]. intros a. apply frame_ret. Qed.

Lemma stays_at_sets {A} (c : MV A) (w : world) :
  WF (self w) ->
  wp c (fun _ w' => self w' = self w) (fun w' => self w' = self w) w ->
  sets c (fun l => l) w.
Proof.
  intros Hw Hc. eapply wp_mono; [exact Hc | |]; cbn beta; intros; apply vpost_same; auto.
Qed.

Lemma stays_does {A} (c : MV A) : stays c -> does c (fun _ l => l).
Proof. intros Hc w Hw _. apply stays_at_sets; [exact Hw | apply Hc; exact Hw]. Qed.

Lemma zpost_at_sets {A} (c : MV A) (w : world) :
  wp c (fun _ => zpost w) (zpost w) w -> sets c (fun _ => []) w.
Proof.
  intros Hc. eapply wp_mono; [exact Hc | |]; cbn beta; intros; apply vpost_empty; auto.
Qed.

(* ---- the core operations ---- *)
Section VCore.
Context (E : env key V query cstate) (debug : bool) (HL : Lawful E kcls qcls).

Lemma put_present n (l : list (key * V)) k v i k0 v0 :
  find_idx kcls (kcls k) l = Some i -> nth_error l i = Some (k0, v0) ->
  put cl n (List.map phi l) (phi (k, v)) = List.map phi (upd l i (k0, v)).
Proof.
  intros Hf Hp. unfold put. rewrite Hcl, pos_map by exact Hcl. cbn [fst]. rewrite Hf, map_set_at.
  f_equal. apply Hphi. destruct (find_idx_inv kcls _ _ _ Hf) as [[p [Hp' Hc]] _].
  rewrite Hp in Hp'. injection Hp' as <-. cbn [fst] in Hc. symmetry. exact Hc.
Qed.

Lemma put_absent n (l : list (key * V)) k v :
  find_idx kcls (kcls k) l = None -> length l < n ->
  put cl n (List.map phi l) (phi (k, v)) = List.map phi (l ++ [(k, v)]).
Proof.
  intros Hf Hn. unfold put. rewrite Hcl, pos_map by exact Hcl. cbn [fst]. rewrite Hf, map_length.
  destruct (Nat.ltb_spec (length l) n); [|lia]. rewrite map_app. reflexivity.
Qed.

(* an appended entry fits below the capacity *)
Lemma insert_room (w w' : world) k v u :
  WF (self w) -> WF (self w') -> cap (self w') = cap (self w) ->
  Spec.elems (self w') = fst (fst (l_insert kcls (Spec.elems (self w)) k v u)) ->
  find_idx kcls (kcls k) (Spec.elems (self w)) = None -> length (Spec.elems (self w)) < cap (self w).
Proof.
  intros Hw Hw' Hc He Hf. unfold l_insert in He. rewrite Hf in He. cbn [fst] in He.
  pose proof (elems_length _ Hw') as Hl. rewrite He, app_length in Hl. cbn [length] in Hl.
  pose proof (WF_len_le_cap _ Hw'). lia.
Qed.

Lemma does_insert k v : does (insert E debug k v) (fun n l => put cl n l (phi (k, v))).
Proof.
  intros w Hw _.
  eapply wp_mono; [apply (insert_lawful E debug kcls qcls HL k v w Hw) | |]; cbn beta.
  - intros r w' (Hw' & Hc' & He & _).
    eapply vpost_elems; [exact Hw' | exact Hc' | exact He|].
    apply map_l_insert; [exact Hcl | exact Hphi|]. eapply insert_room; eauto.
  - intros w' (Hs & _ & Hf & Hfull). apply vpost_same; [exact Hw | exact Hs|].
    apply put_full; [exact Hcl | exact Hf|]. rewrite (elems_length _ Hw). lia.
Qed.

Lemma does_insert_key_value k v :
  does (insert_key_value E debug k v) (fun n l => put cl n l (phi (k, v))).
Proof.
  intros w Hw _.
  eapply wp_mono; [apply (insert_key_value_lawful E debug kcls qcls HL k v w Hw) | |]; cbn beta.
  - intros r w' (Hw' & Hc' & _ & He & _).
    eapply vpost_elems; [exact Hw' | exact Hc' | exact He|].
    apply map_l_insert; [exact Hcl | exact Hphi|]. eapply insert_room; eauto.
  - intros w' (Hs & _ & Hf & Hfull). apply vpost_same; [exact Hw | exact Hs|].
    apply put_full; [exact Hcl | exact Hf|]. rewrite (elems_length _ Hw). lia.
Qed.

Lemma does_checked_insert k v :
  does (checked_insert E debug k v) (fun n l => put cl n l (phi (k, v))).
Proof.
  intros w Hw _.
  eapply wp_mono; [apply (checked_insert_lawful E debug kcls qcls HL k v w Hw) | |]; cbn beta; [|tauto].
  intros r w' (Hw' & Hc' & Hm).
  destruct (find_idx kcls (kcls k) (Spec.elems (self w))) as [i|] eqn:Hf.
  - destruct Hm as [He _]. eapply vpost_elems; [exact Hw' | exact Hc' | exact He|].
    apply map_l_insert; [exact Hcl | exact Hphi|]. rewrite Hf. discriminate.
  - destruct (Nat.ltb_spec (len (self w)) (cap (self w))) as [Hlt|Hge].
    + destruct Hm as [He _]. eapply vpost_elems; [exact Hw' | exact Hc' | exact He|].
      symmetry. apply put_absent; [exact Hf|]. rewrite (elems_length _ Hw). exact Hlt.
    + destruct Hm as [He _]. eapply vpost_elems; [exact Hw' | exact Hc' | exact He|].
      symmetry. apply put_full; [exact Hcl | exact Hf|]. rewrite (elems_length _ Hw). exact Hge.
Qed.

Lemma sets_insert_unchecked k v (w : world) :
  WF (self w) -> Um (self w) -> (debug = true \/ len (self w) < cap (self w)) ->
  sets (insert_unchecked E debug k v) (fun l => put cl (cap (self w)) l (phi (k, v))) w.
Proof.
  intros Hw Hu Hc.
  assert (Heq : insert_unchecked E debug k v w = insert E debug k v w).
  { unfold insert_unchecked, insert, bind.
    rewrite (insert_i_eq_core E debug k v false w Hw); [reflexivity|]. tauto. }
  unfold sets, wp. rewrite Heq. apply does_insert; assumption.
Qed.

Lemma does_remove q : does (remove E debug q) (fun _ l => del cl l (qcls q)).
Proof.
  intros w Hw _.
  eapply wp_mono; [apply (remove_lawful E debug kcls qcls HL q w Hw) | |]; cbn beta; [|tauto].
  intros r w' (Hw' & Hc' & He & _). eapply vpost_elems; [exact Hw' | exact Hc' | exact He|].
  apply map_l_remove. exact Hcl.
Qed.

Lemma does_remove_entry q : does (remove_entry E debug q) (fun _ l => del cl l (qcls q)).
Proof.
  intros w Hw _.
  eapply wp_mono; [apply (remove_entry_lawful E debug kcls qcls HL q w Hw) | |]; cbn beta; [|tauto].
  intros r w' (Hw' & Hc' & _ & He & _). eapply vpost_elems; [exact Hw' | exact Hc' | exact He|].
  apply map_l_remove. exact Hcl.
Qed.

Lemma does_retain (f : pred_t) (g : key -> V -> bool * V) (g' : X -> bool * X) :
  (forall s k v, fst (f s k v) = (Some (fst (g k v)), snd (g k v))) ->
  (forall k v, g' (phi (k, v)) = (fst (g k v), phi (k, snd (g k v)))) ->
  does (retain E debug f) (fun _ l => retain_v g' (length l) 0 l).
Proof.
  intros Hf Hg w Hw _.
  eapply wp_mono; [apply (retain_lawful E debug kcls qcls HL f g w Hf Hw) | |]; cbn beta; [|tauto].
  intros _ w' (Hw' & Hc' & He). eapply vpost_elems; [exact Hw' | exact Hc' | exact He|].
  unfold view. rewrite map_length. apply map_l_retain. exact Hg.
Qed.

Lemma does_clear : does (clear E) (fun _ _ => []).
Proof. intros w Hw _. apply zpost_at_sets. apply clear_Z. exact Hw. Qed.

End VCore.
End VGen.
