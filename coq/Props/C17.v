(* ========================================================================== *)
(* C17 — Misbehaving Eq/Borrow impls may give wrong answers but never memory
         unsafety

   STATEMENT (properties.jsonl):
     "Even when the key type's equality or Borrow implementation is
      inconsistent (non-reflexive, asymmetric, changing between calls), safe
      operations may return wrong answers or panic but remain memory-safe:
      every element is still destroyed exactly once, len() never exceeds
      capacity() and matches what iteration yields, mutable references handed
      out together never alias, and nothing outside the container is written."

   QUANTIFIER (properties.jsonl):
     "all operation sequences under arbitrary (adversarially or randomly
      chosen) outcomes of every key comparison"

   HOW THE MODEL EXPRESSES IT
     - Every key comparison the crate makes is a call of one of the callbacks
       eqK / eqKQ / eqQQ / eqQK of the environment E : env K V Q T
       (Model/Base.v).  A callback has type  T -> .. -> ans * T : it reads and
       updates an arbitrary callback state, so its answers need be neither
       reflexive, symmetric nor stable between calls, and it may panic.
       Theorems stated "forall E" with NO `Lawful` hypothesis therefore cover
       every misbehaving Eq / Borrow implementation.
     - At history level the environment is env_map sc / env_set sc for an
       ARBITRARY script sc (Model/Exec.v): with sc_adv = true every ==
       answer is negated pseudo-randomly (seed sc_seed, call counter n_eq), and
       the fault kinds can in addition make a comparison panic.  The theorems
       quantify over all sc.
     - memory-unsafety is the outcome UB of the model: any unchecked slot
       access outside the array or to a slot without a live element, an
       unchecked write beyond the array, a wrapped length.  wp excludes UB; the
       interpreter reports UB as the observation [3].

   READING GUIDE (clause -> theorem)
     "remain memory-safe" for all operation sequences, every script (honest,
       adversarial ==, injected panics): no UB, registers stay well-formed
                                  C17_step_safe, C17_run_safe, C17_run_safe_debug,
                                  C17_run_case_safe
     "len() never exceeds capacity()" : WFx of every reached state (WF m gives
       len m <= cap m) and caps unchanged            C17_step_safe
     "and matches what iteration yields" : WF m says slots [0,len) are live,
       and iteration yields exactly slots 0 .. len-1 (IterSpec.iter_run_spec,
       stated for every environment, listed under C05/C09)   C17_step_safe (WF part)
     "mutable references handed out together never alias": for EVERY
       environment the indices returned by get_disjoint_mut /
       get_disjoint_unchecked_mut are < len and pairwise distinct
                                  C17_disjoint_safe, C17_disjoint_unchecked_safe
     "every element is still destroyed exactly once": ownership conservation
       for an arbitrary environment (definitions of conserves / acct / owned /
       dropped: Proofs/Owned.v, quoted in Props/C02.v)
                                  C17_conserves_insert, C17_conserves_remove,
                                  C17_conserves_retain, C17_conserves_NoDup,
                                  C17_conserves_s_insert (Set),
                                  C17_conserves_entry_of (entry API),
                                  C17_set_sub_acct (set algebra with clones)
     "nothing outside the container is written": the insertion core never
       reaches UB (an unchecked out-of-range write is UB) whatever == answers
                                  C17_keeps_insert_ii

   PARTLY / NOT COVERED BY A THEOREM (left to the correspondence check)
     - "may return wrong answers": nothing to prove; the Example
       C17_example_adversarial_run shows one (a duplicate key gets stored);
     - the conservation lemmas restated here are those for insert, remove,
       retain, Set::insert, Map::entry and &Set - &Set (the others - every other
       Map and Set method, the entry methods, IntoKeys/IntoValues, Clone - are in
       Props/C02.v: all are for arbitrary E).  Key UNIQUENESS along histories
       (ExecUniq, Props/C05.v) is for honest scripts only and deliberately not
       claimed here: with a lying == duplicates can be stored
       (C17_example_adversarial_run);
       exactly-once on a panic exit is "at most once" (a leak is tolerated);
     - the Borrow implementation itself is not a separate callback: a lying
       Borrow shows up as a lying eqKQ / eqQK answer;
     - get_disjoint_unchecked_mut is an `unsafe fn` whose contract (distinct
       keys) is not assumed by C17_disjoint_unchecked_safe: the model's version
       is safe without it.
   ========================================================================== *)
Require Import Model.Base Model.Slots Model.MapOps Model.EntryOps Model.SetOps Model.Fmt Model.Exec.
Require Import Proofs.Hoare Proofs.Inv Proofs.Safety Proofs.Safety2 Proofs.Owned Proofs.Owned2
               Proofs.ExecSafe Proofs.Legacy.

(* -------------------------------------------------------------------------- *)
(* histories under an arbitrary script                                        *)
Theorem C17_step_safe :
  forall (debug : bool) (sc : script) (o : op) (x : xworld),
  WFx x ->
  contract_ok debug o x ->
  WFx (snd (step debug sc o x)) /\ caps (snd (step debug sc o x)) = caps x.
Proof. exact step_safe. Qed.
Print Assumptions C17_step_safe.

Theorem C17_run_safe :
  forall (debug : bool) (sc : script) (ops : list op) (x : xworld),
  WFx x ->
  Forall safe_op ops ->
  Forall (fun obs : list N => obs <> [3%N]) (run_ops debug sc ops x).
Proof. exact run_safe. Qed.
Print Assumptions C17_run_safe.

Theorem C17_run_safe_debug :
  forall (sc : script) (ops : list op) (x : xworld),
  WFx x ->
  Forall (fun obs : list N => obs <> [3%N]) (run_ops true sc ops x).
Proof. exact run_safe_debug. Qed.
Print Assumptions C17_run_safe_debug.

Theorem C17_run_case_safe :
  forall (debug : bool) (segs : list (list N)),
  debug = true \/ Forall safe_op (List.map decode (tl segs)) ->
  Forall (fun obs : list N => obs <> [3%N]) (run_case debug segs).
Proof. exact run_case_safe. Qed.
Print Assumptions C17_run_case_safe.

(* -------------------------------------------------------------------------- *)
(* no aliasing, arbitrary environment                                         *)
Theorem C17_disjoint_safe :
  forall (K V Q T : Type) (E : env K V Q T) (ks : list Q) (w : world K V T),
  WF (self w) ->
  wp (get_disjoint_mut E ks)
    (fun (r : list (option nat)) (w' : world K V T) =>
       self w' = self w /\
       length r = length ks /\
       (forall j i : nat, nth_error r j = Some (Some i) -> i < len (self w)) /\
       (forall j1 j2 i : nat,
          nth_error r j1 = Some (Some i) -> nth_error r j2 = Some (Some i) -> j1 = j2))
    (fun w' : world K V T => self w' = self w)
    w.
Proof. exact (@disjoint_safe). Qed.
Print Assumptions C17_disjoint_safe.

Theorem C17_disjoint_unchecked_safe :
  forall (K V Q T : Type) (E : env K V Q T) (ks : list Q) (w : world K V T),
  WF (self w) ->
  wp (get_disjoint_unchecked_mut E ks)
    (fun (r : list (option nat)) (w' : world K V T) =>
       self w' = self w /\
       length r = length ks /\
       (forall j i : nat, nth_error r j = Some (Some i) -> i < len (self w)) /\
       (forall j1 j2 i : nat,
          nth_error r j1 = Some (Some i) -> nth_error r j2 = Some (Some i) -> j1 = j2))
    (fun w' : world K V T => self w' = self w)
    w.
Proof. exact (@disjoint_unchecked_safe). Qed.
Print Assumptions C17_disjoint_unchecked_safe.

(* -------------------------------------------------------------------------- *)
(* ownership conservation, arbitrary environment                              *)
Theorem C17_conserves_insert :
  forall (K V Q T : Type) (E : env K V Q T) (debug : bool) (k : K) (v : V),
  conserves E (insert E debug k v) (ids_pair E (k, v))
            (fun r : option V => match r with Some v0 => idV E v0 | None => [] end).
Proof. exact (@conserves_insert). Qed.
Print Assumptions C17_conserves_insert.

Theorem C17_conserves_remove :
  forall (K V Q T : Type) (E : env K V Q T) (debug : bool) (q : Q),
  conserves E (remove E debug q) []
            (fun r : option V => match r with Some v => idV E v | None => [] end).
Proof. exact (@conserves_remove). Qed.
Print Assumptions C17_conserves_remove.

Theorem C17_conserves_retain :
  forall (K V Q T : Type) (E : env K V Q T) (debug : bool) (f : @pred_t K V T),
  (forall (s : T) (k : K) (v : V), idV E (snd (fst (f s k v))) = idV E v) ->
  conserves E (retain E debug f) [] (fun _ : unit => []).
Proof. exact (@conserves_retain). Qed.
Print Assumptions C17_conserves_retain.

Theorem C17_conserves_NoDup :
  forall (K V Q T : Type) (E : env K V Q T) (A : Type) (c : M K V T A) (ins : list N)
         (outs : A -> list N) (w : world K V T),
  conserves E c ins outs ->
  WF (self w) ->
  NoDup (owned E (self w) ++ ins ++ dropped (log w)) ->
  wp c
    (fun (a : A) (w' : world K V T) => NoDup (owned E (self w') ++ outs a ++ dropped (log w')))
    (fun w' : world K V T => NoDup (owned E (self w') ++ dropped (log w')))
    w.
Proof. exact (@conserves_NoDup). Qed.
Print Assumptions C17_conserves_NoDup.

(* the same for a Set method, the entry API and the Set subtraction
   (Proofs/Owned2.v) - E arbitrary: == may lie, change its mind, panic.
   ids_entry E e := the key a Vacant entry carries, [] for Occupied;
   cloned_from E a k' := k' is what cloneK returned, in some callback state, for
   a key stored in a *)
Theorem C17_conserves_s_insert :
  forall (K Q T : Type) (E : env K unit Q T) (debug : bool) (k : K),
  conserves E (s_insert E debug k) (ids_pair E (k, tt))
            (fun r : bool => if r then [] else idV E tt).
Proof. exact (@conserves_s_insert). Qed.
Print Assumptions C17_conserves_s_insert.

Theorem C17_conserves_entry_of :
  forall (K V Q T : Type) (E : env K V Q T) (k : K),
  conserves E (entry_of E k) (idK E k) (ids_entry E).
Proof. exact (@conserves_entry_of). Qed.
Print Assumptions C17_conserves_entry_of.

(* &Set - &Set compares every element of a against b and clones the survivors:
   whatever the comparisons answer, every clone made is stored, handed nowhere
   else, or (on a panic, possibly) leaked - never duplicated or destroyed twice *)
Theorem C17_set_sub_acct :
  forall (K Q T : Type) (E : env K unit Q T) (debug : bool),
  idV E tt = [] ->
  forall (a b : map K unit) (w : world K unit T),
  WF a ->
  WF b ->
  WF (self w) ->
  wp (set_sub E debug a b)
    (fun (_ : unit) (w' : world K unit T) =>
       WF (self w') /\
       cap (self w') = cap (self w) /\
       exists made : list K,
         Forall (cloned_from E a) made /\
         exists lost : list N,
           acct E w w' (flat_map (fun k : K => ids_pair E (k, tt)) made) [] lost /\
           (Tidy (self w) -> lost = [] /\ Tidy (self w')))
    (fun w' : world K unit T =>
       exists made : list K,
         Forall (cloned_from E a) made /\
         exists lost : list N,
           acct E w w' (flat_map (fun k : K => ids_pair E (k, tt)) made) [] lost)
    w.
Proof. exact (@set_sub_acct). Qed.
Print Assumptions C17_set_sub_acct.

(* -------------------------------------------------------------------------- *)
(* nothing written outside the array, arbitrary environment (Safety.keeps unfolded) *)
Theorem C17_keeps_insert_ii :
  forall (K V Q T : Type) (E : env K V Q T) (debug : bool) (k : K) (v : V) (u : bool)
         (w : world K V T),
  WF (self w) ->
  wp (insert_ii E debug k v u)
    (fun (_ : nat * option (K * V)) (w' : world K V T) =>
       WF (self w') /\ cap (self w') = cap (self w))
    (fun w' : world K V T => WF (self w') /\ cap (self w') = cap (self w))
    w.
Proof. exact (@keeps_insert_ii). Qed.
Print Assumptions C17_keeps_insert_ii.

(* -------------------------------------------------------------------------- *)
(* non-vacuity                                                                *)
Example C17_example_WFx : WFx (init_world 3 0 0 0).
Proof. exact (init_WFx 3 0 0 0). Qed.

Example C17_example_WF : WF (self (w_of m3)).
Proof. exact m3_WF. Qed.

(* the adversarial script really lies: with sc_adv = true, seed 7, the
   comparison number 1 of two keys of the SAME class answers "different" *)
Example C17_example_lie :
  fst (eqK (env_map {| sc_adv := true; sc_seed := 7; sc_fk := 0; sc_fa := 0 |})
           {| n_eq := 1; n_clone := 0; n_call := 0; next_id := 100000 |}
           (k_ 1 5) (k_ 5 5)) = No.
Proof. vm_compute. reflexivity. Qed.

(* a case under that script (cfg adv = 1, seed = 7; Map register 0 of capacity 3,
   release build): three inserts of keys of class 5, then get(class 5).
   The third insert gets a wrong answer from == and STORES A DUPLICATE
   (observation 3: insert returned None, len = 2, two entries of class 5) - a
   wrong answer, but no UB: every observation starts with 1, and the final
   teardown destroys the stored ids 1 4 5 6 exactly once (id 3, the duplicate
   key of the second insert, was destroyed there; id 2 was handed back). *)
Example C17_example_adversarial_run :
  run_case false [[1; 7; 0; 0; 3; 0; 0; 0];
                  [10; 0; 1; 5; 2; 7]; [10; 0; 3; 5; 4; 8]; [10; 0; 5; 5; 6; 9]; [20; 0; 0; 5]]%N
  = [[1; 0; 7777; 1; 3; 1; 5; 2; 7; 8888; 8889];
     [1; 1; 2; 7; 7777; 1; 3; 1; 5; 4; 8; 8888; 3; 8889];
     [1; 0; 7777; 2; 3; 1; 5; 4; 8; 5; 5; 6; 9; 8888; 8889];
     [1; 1; 0; 4; 8; 7777; 2; 3; 1; 5; 4; 8; 5; 5; 6; 9; 8888; 8889];
     [1; 7777; 0; 3; 8888; 1; 4; 5; 6; 8889;  1; 7777; 0; 0; 8888; 8889;
      1; 7777; 0; 0; 8888; 8889;  1; 7777; 0; 0; 8888; 8889;
      8890; 3; 0; 0; 100000]]%N.
Proof. vm_compute. reflexivity. Qed.

(* the hypothesis of C17_set_sub_acct ("() carries no identity") holds of the
   interpreter's Set environment for EVERY script, adversarial ones included *)
Example C17_example_unit_no_id :
  idV (env_set {| sc_adv := true; sc_seed := 7; sc_fk := 0; sc_fa := 0 |}) tt = [].
Proof. reflexivity. Qed.
