#!/usr/bin/env python3
"""mkmeta.py <round> <result.tsv> [<result2.tsv> ...] : write seeded/<id>/meta.json from the agent's meta.agent.json and the
recorded outcome(s) of tools/parmut.sh (the first result file = the machinery as it stood, later files = after
strengthening)."""
import json, os, sys
root = os.path.dirname(os.path.dirname(os.path.abspath(__file__)))
rnd = int(sys.argv[1])
runs = []
for f in sys.argv[2:]:
    d = {}
    for ln in open(f):
        t = ln.rstrip("\n").split("\t")
        if len(t) >= 4:
            d.setdefault(t[0], []).append((t[1], t[2], t[3][:600]))
    runs.append((os.path.basename(f), d))
for sid in sorted(os.listdir(root + "/seeded")):
    ap = f"{root}/seeded/{sid}/meta.agent.json"
    mp = f"{root}/seeded/{sid}/meta.json"
    if not os.path.exists(ap) or os.path.exists(mp):
        continue
    a = json.load(open(ap))
    checks = []
    for name, d in runs:
        for prop, verdict, text in d.get(sid, []):
            checks.append(f"[{name}] ./check quick {prop} with the change applied (scratch sandbox of tools/parmut.sh): {verdict} -- {text}")
    m = {"property": a.get("property", sid[:3]), "round": rnd, "breaks": a.get("summary", ""), "needs": a.get("needs", ""),
         "release_only": bool(a.get("release_only", False)),
         "confirmed_by": [f"tools/confirm_mut.sh {sid} (or the same steps by hand for feature-gated demos): the existing tests pass with the "
                          "change; demo.rs fails with the change and passes without it (scratch worktree under /tmp/mut, removed afterwards)"],
         "checks_run": checks,
         "author": "independent sub-agent given only the property text, a scratch worktree and summaries of the earlier seeded changes (to avoid duplicates)"}
    json.dump(m, open(mp, "w"), indent=1)
    print("wrote", mp)
