(* Spec.v — the pure "list machine" (what the live prefix of a container is,
   as a list, and how each operation transforms it), the ideal dictionary view
   of such a list, and the notion of a lawful environment. *)
Require Import Model.Base Model.Slots Model.MapOps Proofs.Hoare Proofs.Inv.
From Coq Require Import Permutation.

Section Elems.
Context {K V : Type}.
Notation kv := (K * V)%type.
Notation map := (map K V).

(* the live prefix, as a list (dead slots inside the prefix are skipped: they
   do not occur in well-formed containers) *)
Fixpoint take_live (sl : list (option kv)) (n : nat) {struct n} : list kv :=
  match n, sl with
  | S n', Some p :: t => p :: take_live t n'
  | S n', None :: t => take_live t n'
  | _, _ => []
  end.
Definition elems (m : map) : list kv := take_live (slots m) (len m).

Lemma take_live_all_live sl n :
  n <= length sl -> (forall i, i < n -> exists p, nth_error sl i = Some (Some p)) ->
  length (take_live sl n) = n /\
  forall i, i < n -> nth_error (take_live sl n) i = match nth_error sl i with Some (Some p) => Some p | _ => None end.
Proof.
  revert sl; induction n as [|n IH]; intros sl Hl Hs.
  - split; [reflexivity | intros i Hi; lia].
  - destruct sl as [|o t]; [cbn [length] in Hl; lia|].
    destruct (Hs 0 ltac:(lia)) as [p Hp]. cbn [nth_error] in Hp. injection Hp as ->.
    cbn [take_live length] in *.
    destruct (IH t ltac:(lia)) as [IH1 IH2].
    { intros i Hi. apply (Hs (S i)). lia. }
    split; [rewrite IH1; reflexivity|].
    intros [|i] Hi; cbn [nth_error]; [reflexivity | apply IH2; lia].
Qed.

Lemma elems_length (m : map) : WF m -> length (elems m) = len m.
Proof. intros [Hl Hs]. apply take_live_all_live; [exact Hl | exact Hs]. Qed.

Lemma elems_nth (m : map) i p :
  WF m -> i < len m -> (nth_error (elems m) i = Some p <-> nth_error (slots m) i = Some (Some p)).
Proof.
  intros [Hl Hs] Hi. destruct (take_live_all_live (slots m) (len m) Hl Hs) as [_ H].
  unfold elems. rewrite (H i Hi). destruct (Hs i Hi) as [q Hq]. rewrite Hq.
  split; intros H0; injection H0 as ->; reflexivity.
Qed.

Lemma elems_nth_slot (m : map) i p :
  WF m -> nth_error (elems m) i = Some p -> i < len m /\ nth_error (slots m) i = Some (Some p).
Proof.
  intros Hw H. assert (Hi : i < len m).
  { rewrite <- (elems_length m Hw). apply nth_error_Some. rewrite H. discriminate. }
  split; [exact Hi | apply (elems_nth m i p Hw Hi); exact H].
Qed.

(* two well-formed containers with the same length and the same slots inside
   the prefix have the same elems *)
Lemma take_live_ext sl1 sl2 n :
  (forall i, i < n -> nth_error sl1 i = nth_error sl2 i) ->
  n <= length sl1 -> take_live sl1 n = take_live sl2 n.
Proof.
  revert sl1 sl2; induction n as [|n IH]; intros sl1 sl2 H Hl; [reflexivity|].
  destruct sl1 as [|a t1]; [cbn [length] in Hl; lia|].
  pose proof (H 0 ltac:(lia)) as H0. cbn [nth_error] in H0.
  destruct sl2 as [|b t2]; [discriminate|]. injection H0 as ->.
  cbn [take_live]. cbn [length] in Hl.
  assert (IH' : take_live t1 n = take_live t2 n).
  { apply IH; [|lia]. intros i Hi. apply (H (S i)). lia. }
  destruct b; rewrite IH'; reflexivity.
Qed.

(* writing a live slot = updating the list *)
Lemma take_live_upd sl n i p :
  i < n -> n <= length sl -> (forall j, j < n -> exists q, nth_error sl j = Some (Some q)) ->
  take_live (upd sl i (Some p)) n = upd (take_live sl n) i p.
Proof.
  revert sl i; induction n as [|n IH]; intros sl i Hi Hl Hs; [lia|].
  destruct sl as [|o t]; [cbn [length] in Hl; lia|].
  destruct (Hs 0 ltac:(lia)) as [q Hq]. cbn [nth_error] in Hq. injection Hq as ->.
  destruct i as [|i]; cbn [upd take_live]; [reflexivity|].
  f_equal. apply IH; [lia | cbn [length] in Hl; lia |].
  intros j Hj. apply (Hs (S j)). lia.
Qed.

Lemma elems_set_slot (m : map) i p :
  WF m -> i < len m -> elems (set_slot_m m i (Some p)) = upd (elems m) i p.
Proof. intros [Hl Hs] Hi. unfold elems, set_slot_m; cbn [slots len]. apply take_live_upd; auto. Qed.

(* writing at or beyond the prefix does not change the list *)
Lemma take_live_upd_ge sl n i x : n <= i -> take_live (upd sl i x) n = take_live sl n.
Proof.
  revert sl i; induction n as [|n IH]; intros sl i Hi; [destruct sl; reflexivity|].
  destruct sl as [|o t]; [reflexivity|]. destruct i as [|i]; [lia|].
  cbn [upd take_live]. rewrite IH by lia. reflexivity.
Qed.

Lemma elems_set_slot_ge (m : map) i x : len m <= i -> elems (set_slot_m m i x) = elems m.
Proof. intros H. unfold elems, set_slot_m; cbn [slots len]. apply take_live_upd_ge; exact H. Qed.

(* appending *)
Lemma take_live_snoc sl n p :
  n < length sl -> (forall j, j < n -> exists q, nth_error sl j = Some (Some q)) ->
  take_live (upd sl n (Some p)) (S n) = take_live sl n ++ [p].
Proof.
  revert sl; induction n as [|n IH]; intros sl Hl Hs.
  - destruct sl as [|o t]; [cbn [length] in Hl; lia|]. cbn [upd take_live]. destruct t; reflexivity.
  - destruct sl as [|o t]; [cbn [length] in Hl; lia|].
    destruct (Hs 0 ltac:(lia)) as [q Hq]. cbn [nth_error] in Hq. injection Hq as ->.
    cbn [upd]. change (take_live (Some q :: upd t n (Some p)) (S (S n))) with (q :: take_live (upd t n (Some p)) (S n)).
    change (take_live (Some q :: t) (S n)) with (q :: take_live t n).
    cbn [app]. f_equal. apply IH; [cbn [length] in Hl; lia|].
    intros j Hj. apply (Hs (S j)). lia.
Qed.

Lemma elems_append (m : map) p :
  WF m -> len m < cap m ->
  elems (set_len_m (set_slot_m m (len m) (Some p)) (S (len m))) = elems m ++ [p].
Proof. intros [Hl Hs] Hc. unfold elems, set_len_m, set_slot_m; cbn [slots len]. apply take_live_snoc; auto. Qed.

(* shrinking *)
Lemma take_live_shrink sl n :
  S n <= length sl -> (forall j, j < S n -> exists q, nth_error sl j = Some (Some q)) ->
  take_live sl n = removelast (take_live sl (S n)).
Proof.
  revert sl; induction n as [|n IH]; intros sl Hl Hs.
  - destruct sl as [|o t]; [cbn [length] in Hl; lia|].
    destruct (Hs 0 ltac:(lia)) as [q Hq]. cbn [nth_error] in Hq. injection Hq as ->.
    cbn [take_live]. destruct t; reflexivity.
  - destruct sl as [|o t]; [cbn [length] in Hl; lia|].
    destruct (Hs 0 ltac:(lia)) as [q Hq]. cbn [nth_error] in Hq. injection Hq as ->.
    change (take_live (Some q :: t) (S n)) with (q :: take_live t n).
    change (take_live (Some q :: t) (S (S n))) with (q :: take_live t (S n)).
    assert (Hn : take_live t (S n) <> []).
    { destruct t as [|o' t']; [cbn [length] in Hl; lia|].
      destruct (Hs 1 ltac:(lia)) as [q' Hq']. cbn [nth_error] in Hq'. injection Hq' as ->.
      cbn [take_live]. discriminate. }
    rewrite (IH t); [|cbn [length] in Hl; lia | intros j Hj; apply (Hs (S j)); lia].
    destruct (take_live t (S n)) eqn:Ht; [congruence|]. reflexivity.
Qed.

End Elems.

(* ------------------------------------------------------------------------ *)
Section ListMachine.
Context {K V : Type} (ck : K -> N).
Notation kv := (K * V)%type.

(* index of the first entry whose key has class c: the linear scan *)
Fixpoint find_idx (c : N) (l : list kv) : option nat :=
  match l with
  | [] => None
  | p :: t => if N.eqb (ck (fst p)) c then Some 0 else option_map S (find_idx c t)
  end.

(* the ideal-dictionary view of a list: class -> stored pair *)
Definition lookup (l : list kv) (c : N) : option kv :=
  match find_idx c l with Some i => nth_error l i | None => None end.

(* keys pairwise different *)
Definition Uniq (l : list kv) : Prop := NoDup (List.map (fun p => ck (fst p)) l).

(* swap-remove: the last entry takes the place of entry i *)
Definition swap_remove (l : list kv) (i : nat) : list kv :=
  match nth_error l (length l - 1) with
  | Some lastp => if i =? length l - 1 then removelast l else upd (removelast l) i lastp
  | None => l
  end.

(* find-or-append; returns new list, slot, displaced pair *)
Definition l_insert (l : list kv) (k : K) (v : V) (update_key : bool) : list kv * nat * option kv :=
  match find_idx (ck k) l with
  | Some i =>
      match nth_error l i with
      | Some (k0, v0) =>
          if update_key then (upd l i (k, v), i, Some (k0, v0))
          else (upd l i (k0, v), i, Some (k, v0))
      | None => (l, i, None)
      end
  | None => (l ++ [(k, v)], length l, None)
  end.

Definition l_remove (l : list kv) (c : N) : list kv * option kv :=
  match find_idx c l with
  | Some i => (swap_remove l i, nth_error l i)
  | None => (l, None)
  end.

End ListMachine.

(* ------------------------------------------------------------------------ *)
(* A lawful environment: == is class equality on every flavour of comparison,
   never panics; Clone yields an object of the same class / an equal value;
   Drop does not panic.  [ck]/[cq] give the equality class of a key / query. *)
Section Lawful.
Context {K V Q T : Type}.

Record Lawful (E : env K V Q T) (ck : K -> N) (cq : Q -> N) : Prop := {
  law_eqK  : forall s a b, fst (eqK E s a b) = if N.eqb (ck a) (ck b) then Yes else No;
  law_eqKQ : forall s a q, fst (eqKQ E s a q) = if N.eqb (ck a) (cq q) then Yes else No;
  law_eqQQ : forall s q q', fst (eqQQ E s q q') = if N.eqb (cq q) (cq q') then Yes else No;
  law_eqQK : forall s q a, fst (eqQK E s q a) = if N.eqb (cq q) (ck a) then Yes else No;
  law_dropK : forall s k, fst (dropK E s k) = false;
  law_dropV : forall s v, fst (dropV E s v) = false
}.

End Lawful.
