#!/bin/bash
# parmut.sh <jobs-file> <result.tsv> [workers]
#   Runs seeded changes against the quick checks IN PARALLEL and WITHOUT touching /repo or /verif: every worker gets
#   its own scratch sandbox /tmp/par/w<k>/{repo,verif} (repo = a git worktree of /repo's HEAD, verif = a copy of this
#   checkout with the path "/repo" rewritten), applies one change at a time there, runs the property's quick check,
#   undoes the change.  Jobs file: one line per job "<id> <absolute patch.diff> <Cxx> [<Cxx>...]"; an <id> of
#   "UNCHANGED" with patch "-" runs the checks on the unchanged copy (false-alarm control).
#   Results: "<id>\t<prop>\tCAUGHT|CAUGHT(no-input)|MISSED|PATCH-DOES-NOT-APPLY\t<summary line>".
# This is a development tool (mutation testing of the machinery); the registered checks never use it.
set -u
jobs=$(readlink -f "$1"); res=$(readlink -f -m "$2"); W=${3:-5}
here="$(cd "$(dirname "$0")/.." && pwd)"
P=${PAR_BASE:-/tmp/par}
mkdir -p $P; : > "$res"
queue=$P/queue.$$; cp "$jobs" $queue; lock=$P/lock.$$; : > $lock

worker() {
  k=$1; sb=$P/w$k
  rm -rf $sb/verif; git -C /repo worktree remove --force $sb/repo 2>/dev/null; rm -rf $sb; mkdir -p $sb
  git -C /repo worktree add -q --detach $sb/repo HEAD || exit 2
  rsync -a --exclude .git --exclude out --exclude '.cache/run' --exclude '.cache/target-miri' "$here"/ $sb/verif/
  sed -i "s#^REPO = \"/repo\"#REPO = \"$sb/repo\"#" $sb/verif/tools/mmcheck.py
  sed -i "s#path = \"/repo\"#path = \"$sb/repo\"#" $sb/verif/harness/Cargo.toml
  while :; do
    line=$(flock $lock sh -c "head -1 $queue; sed -i 1d $queue")
    [ -z "$line" ] && break
    set -- $line; id=$1; patch=$2; shift 2
    if [ "$patch" != "-" ]; then
      git -C $sb/repo apply "$patch" 2>/dev/null || { for p in "$@"; do echo -e "$id\t$p\tPATCH-DOES-NOT-APPLY" >> "$res"; done; continue; }
    fi
    for p in "$@"; do
      out=$(cd $sb/verif && timeout 1500 ./check quick $p 2>&1 | grep -E "quick:|VIOLATION|KNOWN|^  \(" | tr '\n' ' ' | cut -c1-700)
      if echo "$out" | grep -q VIOLATION; then v=CAUGHT; else v=MISSED; fi
      echo "$out" | grep -o "VIOLATION property=[^ ]* replay=[^ ]*\( no-failing-input-found\)\?" | grep -qv "no-failing-input-found" || { [ $v = CAUGHT ] && v="CAUGHT(no-input)"; }
      echo -e "$id\t$p\t$v\t$out" >> "$res"
    done
    git -C $sb/repo checkout -q -- . ; git -C $sb/repo clean -fdq src tests 2>/dev/null
  done
  rm -rf $sb/verif; git -C /repo worktree remove --force $sb/repo 2>/dev/null; rm -rf $sb
}

for k in $(seq 1 $W); do worker $k & done
wait
rm -f $queue $lock
echo done >> "$res"
