(* MoreEq.v — closing audit findings for C14 (equality), C15 (clone) and C18
   (unchecked fast paths): the existing run-level and list-level facts of
   EqClone / Owned2 / Disjoint / Dict composed into single statements about the
   model's own functions, plus the Exec-level "only the target register
   changes" facts for EVERY script. *)
Require Import Model.Base Model.Slots Model.MapOps Model.EntryOps Model.SetOps Model.Fmt Model.Exec.
Require Import Proofs.Hoare Proofs.Inv Proofs.Safety Proofs.Safety2 Proofs.Spec Proofs.Lawful Proofs.Lawful2 Proofs.Lawful3.
Require Import Proofs.EqClone Proofs.Disjoint Proofs.Dict Proofs.Bulk Proofs.Owned Proofs.Owned2 Proofs.FmtSerde.
Require Import Proofs.ExecSafe Proofs.ExecUniq Proofs.ExecView Proofs.Gaps Proofs.Legacy.
From Coq Require Import Permutation.

(* ======================================================================== *)
(* PART A — C14: == under a lawful environment                               *)
(* ======================================================================== *)
Section EqIff.
Context {K V Q T : Type} (E : env K V Q T).
Context (ck : K -> N) (cq : Q -> N) (HL : Lawful E ck cq).
Context (veq : V -> V -> bool) (HV : forall s a b, fst (eqV E s a b) = if veq a b then Yes else No).
Notation world := (world K V T). Notation map := (map K V). Notation kv := (K * V)%type.

(* A1 (finding 1): ONE statement about map_eq itself: it returns, changes
   nothing, and answers true exactly when the two dictionaries agree at every
   class *)
Lemma map_eq_iff (a b : map) (w : world) :
  WF a -> WF b -> Uniq ck (elems a) -> Uniq ck (elems b) ->
  wp (map_eq E a b)
     (fun r w' => stable w w' /\
        (r = true <->
         forall c, match lookup ck (elems a) c, lookup ck (elems b) c with
                   | Some (_, v), Some (_, v') => veq v' v = true
                   | None, None => True
                   | _, _ => False
                   end))
     (fun _ => False) w.
Proof.
  intros Ha Hb Hua Hub.
  eapply wp_mono; [apply (map_eq_lawful E ck cq HL veq HV a b w Ha Hb) | | auto]; cbn beta.
  intros r w' [Hst ->]. split; [exact Hst|].
  rewrite <- (elems_length a Ha), <- (elems_length b Hb).
  apply map_eq_extensional; assumption.
Qed.

(* the same as an equation between outcomes *)
Lemma map_eq_run (a b : map) (w : world) :
  WF a -> WF b ->
  exists w', map_eq E a b w =
             Ok ((length (elems a) =? length (elems b)) && forallb (entry_ok_in ck veq (elems b)) (elems a)) w' /\
             stable w w'.
Proof.
  intros Ha Hb. pose proof (map_eq_lawful E ck cq HL veq HV a b w Ha Hb) as H. unfold wp in H.
  destruct (map_eq E a b w) as [r w'|w'|]; [|contradiction|contradiction].
  destruct H as [Hst ->]. exists w'. split; [|exact Hst].
  rewrite (elems_length a Ha), (elems_length b Hb). reflexivity.
Qed.

(* A2 (finding 2): symmetry and reflexivity of the RUN.  The laws of V's == are
   stated on the environment: x == x answers Yes; x == y and y == x answer alike *)
Lemma veq_sym_of_env (s : T) :
  (forall s s' x y, fst (eqV E s x y) = fst (eqV E s' y x)) -> forall x y, veq x y = veq y x.
Proof.
  intros Hs x y. pose proof (Hs s s x y) as H. rewrite !HV in H.
  destruct (veq x y), (veq y x); try reflexivity; discriminate.
Qed.

Lemma veq_refl_of_env (s : T) :
  (forall s x, fst (eqV E s x x) = Yes) -> forall x, veq x x = true.
Proof.
  intros Hr x. pose proof (Hr s x) as H. rewrite HV in H. destruct (veq x x); [reflexivity | discriminate].
Qed.

Lemma map_eq_sym_run (a b : map) (w : world) :
  (forall s s' x y, fst (eqV E s x y) = fst (eqV E s' y x)) ->
  WF a -> WF b -> Uniq ck (elems a) -> Uniq ck (elems b) ->
  exists r w1 w2, map_eq E a b w = Ok r w1 /\ map_eq E b a w = Ok r w2 /\ stable w w1 /\ stable w w2.
Proof.
  intros Hs Ha Hb Hua Hub.
  destruct (map_eq_run a b w Ha Hb) as (w1 & H1 & Hst1).
  destruct (map_eq_run b a w Hb Ha) as (w2 & H2 & Hst2).
  rewrite (map_eq_sym ck veq (elems b) (elems a) Hub Hua (veq_sym_of_env (cb w) Hs)) in H2.
  eauto 10.
Qed.

Lemma map_eq_refl_run (a : map) (w : world) :
  (forall s x, fst (eqV E s x x) = Yes) ->
  WF a -> Uniq ck (elems a) ->
  exists w', map_eq E a a w = Ok true w' /\ stable w w'.
Proof.
  intros Hr Ha Hua. destruct (map_eq_run a a w Ha Ha) as (w' & H & Hst).
  rewrite (map_eq_refl ck veq (elems a) Hua (veq_refl_of_env (cb w) Hr)) in H. eauto.
Qed.

(* A5 (finding 5): "regardless of the history".  Two histories of dictionary
   operations (Dict.dop) run from empty containers of capacities na, nb: both
   runs exist, and == on the two results answers true exactly when the two IDEAL
   dictionaries (Dict.dfinal) agree at every class *)
Lemma abs_lookup_dfind (m : map) (d : list kv) c : Abs ck m d -> lookup ck (elems m) c = d_find ck d c.
Proof. intros (_ & Hu & Hp). rewrite <- (d_find_perm ck _ _ c Hu Hp). symmetry. apply d_find_lookup. Qed.

Lemma map_eq_abs (a b : map) (da db : list kv) (w : world) :
  Abs ck a da -> Abs ck b db ->
  wp (map_eq E a b)
     (fun r w' => stable w w' /\
        (r = true <->
         forall c, match d_find ck da c, d_find ck db c with
                   | Some (_, v), Some (_, v') => veq v' v = true
                   | None, None => True
                   | _, _ => False
                   end))
     (fun _ => False) w.
Proof.
  intros Aa Ab. pose proof Aa as (Ha & Hua & _). pose proof Ab as (Hb & Hub & _).
  eapply wp_mono; [apply (map_eq_iff a b w Ha Hb Hua Hub) | | auto]; cbn beta.
  intros r w' [Hst Hiff]. split; [exact Hst|]. rewrite Hiff.
  split; intros H c; specialize (H c);
    rewrite ?(abs_lookup_dfind a da c Aa), ?(abs_lookup_dfind b db c Ab) in *; exact H.
Qed.

Lemma map_eq_histories (debug : bool) (na nb : nat) (ops_a ops_b : list (@dop K V Q))
      (sa sb : T) (la lb : list event) :
  exists wa wb,
    mfinal E debug ops_a {| cb := sa; log := la; self := new_map na |} = Some wa /\
    mfinal E debug ops_b {| cb := sb; log := lb; self := new_map nb |} = Some wb /\
    cap (self wa) = na /\ cap (self wb) = nb /\
    forall w : world,
      wp (map_eq E (self wa) (self wb))
         (fun r w' => stable w w' /\
            (r = true <->
             forall c, match d_find ck (dfinal ck cq na ops_a []) c, d_find ck (dfinal ck cq nb ops_b []) c with
                       | Some (_, v), Some (_, v') => veq v' v = true
                       | None, None => True
                       | _, _ => False
                       end))
         (fun _ => False) w.
Proof.
  destruct (run_refines_state_new E debug ck cq HL na ops_a sa la) as (wa & Hfa & Aa & Hca).
  destruct (run_refines_state_new E debug ck cq HL nb ops_b sb lb) as (wb & Hfb & Ab & Hcb).
  exists wa, wb. repeat (split; [assumption|]). intros w. apply map_eq_abs; assumption.
Qed.

(* with a reflexive V ==: histories whose ideal dictionaries are the same finite
   map produce containers that compare equal *)
Lemma map_eq_same_dict (debug : bool) (na nb : nat) (ops_a ops_b : list (@dop K V Q))
      (sa sb : T) (la lb : list event) :
  (forall s x, fst (eqV E s x x) = Yes) ->
  (forall c, d_find ck (dfinal ck cq na ops_a []) c = d_find ck (dfinal ck cq nb ops_b []) c) ->
  exists wa wb,
    mfinal E debug ops_a {| cb := sa; log := la; self := new_map na |} = Some wa /\
    mfinal E debug ops_b {| cb := sb; log := lb; self := new_map nb |} = Some wb /\
    forall w : world, exists w', map_eq E (self wa) (self wb) w = Ok true w' /\ stable w w'.
Proof.
  intros Hr Hd.
  destruct (map_eq_histories debug na nb ops_a ops_b sa sb la lb) as (wa & wb & Hfa & Hfb & _ & _ & H).
  exists wa, wb. split; [exact Hfa|]. split; [exact Hfb|]. intros w.
  specialize (H w). unfold wp in H.
  destruct (map_eq E (self wa) (self wb) w) as [r w'|w'|]; [|contradiction|contradiction].
  destruct H as [Hst Hiff]. exists w'. split; [|exact Hst]. f_equal.
  apply Hiff. intros c. rewrite (Hd c).
  destruct (d_find ck (dfinal ck cq nb ops_b []) c) as [[k v]|]; [|exact I].
  apply (veq_refl_of_env (cb w) Hr).
Qed.

(* ---------------------------------------------------------------------- *)
(* C15, finding 6: clone, then ==, in one statement                         *)
Context (HCK : forall s k, exists k' s', cloneK E s k = (Some k', s') /\ ck k' = ck k).
Context (HCV : forall s v, exists v' s', cloneV E s v = (Some v', s') /\ veq v' v = true).

Lemma clone_compares_equal (src : map) (w : world) :
  WF src -> WF (self w) -> len (self w) = 0 -> cap (self w) = cap src -> Uniq ck (elems src) ->
  wp (clone_from_src E src)
     (fun _ w' => WF (self w') /\ Uniq ck (elems (self w')) /\
                  forall w0 : world,
                    wp (map_eq E src (self w')) (fun r w1 => r = true /\ stable w0 w1) (fun _ => False) w0)
     (fun _ => False) w.
Proof.
  intros Hsrc Hw Hl Hc Hu.
  eapply wp_mono; [apply (clone_lawful E ck veq HCK HCV src w Hsrc Hw Hl Hc) | | auto]; cbn beta.
  intros _ w' (Hw' & _ & Hlen & Hf & _).
  destruct (clone_equal ck veq _ _ Hu Hf) as [Hu' Hb].
  split; [exact Hw'|]. split; [exact Hu'|]. intros w0.
  eapply wp_mono; [apply (map_eq_lawful E ck cq HL veq HV src (self w') w0 Hsrc Hw') | | auto]; cbn beta.
  intros r w1 [Hst ->]. split; [|exact Hst].
  rewrite <- (elems_length src Hsrc), <- (elems_length (self w') Hw'). exact Hb.
Qed.

End EqIff.

(* A3 (finding 3): sets.  Set<T,N> = Map<T,(),N>; when () == () answers Yes, two
   sets compare equal exactly when they hold the same element classes *)
Section SetEq.
Context {K Q T : Type} (E : env K unit Q T).
Context (ck : K -> N) (cq : Q -> N) (HL : Lawful E ck cq).
Context (HVu : forall s a b, fst (eqV E s a b) = if (fun _ _ : unit => true) a b then Yes else No).

Lemma set_eq_iff (a b : map K unit) (w : world K unit T) :
  WF a -> WF b -> Uniq ck (elems a) -> Uniq ck (elems b) ->
  wp (map_eq E a b)
     (fun r w' => stable w w' /\
        (r = true <->
         forall c, In c (List.map (fun p => ck (fst p)) (elems a)) <->
                   In c (List.map (fun p => ck (fst p)) (elems b))))
     (fun _ => False) w.
Proof.
  intros Ha Hb Hua Hub.
  eapply wp_mono; [apply (map_eq_iff E ck cq HL (fun _ _ : unit => true) HVu a b w Ha Hb Hua Hub) | | auto]; cbn beta.
  intros r w' [Hst Hiff]. split; [exact Hst|]. rewrite Hiff.
  fold (classes ck (elems a)). fold (classes ck (elems b)).
  split.
  - intros H c. specialize (H c). rewrite <- !(lookup_Some_iff ck).
    destruct (lookup ck (elems a) c) as [[k v]|]; destruct (lookup ck (elems b) c) as [[k' v']|];
      try contradiction; split; intros [p Hp]; try discriminate; eexists; reflexivity.
  - intros H c. specialize (H c). rewrite <- !(lookup_Some_iff ck) in H.
    destruct (lookup ck (elems a) c) as [[k v]|]; destruct (lookup ck (elems b) c) as [[k' v']|];
      try reflexivity; try exact I.
    + destruct (proj1 H (ex_intro _ _ eq_refl)) as [p Hp]. discriminate.
    + destruct (proj2 H (ex_intro _ _ eq_refl)) as [p Hp]. discriminate.
Qed.

End SetEq.

(* the Set environment of the correspondence check *)
Lemma set_eq_iff_env_set sc (a b : map key unit) (w : world key unit cstate) :
  honest sc -> WF a -> WF b -> Uniq kcls (Spec.elems a) -> Uniq kcls (Spec.elems b) ->
  wp (map_eq (env_set sc) a b)
     (fun r w' => stable w w' /\
        (r = true <->
         forall c, In c (List.map (fun p => kcls (fst p)) (Spec.elems a)) <->
                   In c (List.map (fun p => kcls (fst p)) (Spec.elems b))))
     (fun _ => False) w.
Proof.
  intros Hh. apply (set_eq_iff (env_set sc) kcls qcls (env_set_lawful sc Hh) (env_set_eqV sc)).
Qed.

(* ======================================================================== *)
(* PART B — C15: independence of a clone, relative to THE RUN that made it   *)
(* ======================================================================== *)
Section CloneRun.
Context {K V Q T : Type} (E : env K V Q T).
Notation world := (world K V T). Notation map := (map K V). Notation kv := (K * V)%type.

(* B7 (finding 7): ANY environment.  [made] = the identities returned by the
   Clone calls of this very run that were written into the clone
   (Owned2.clone_made replays them from cb w); [orphan] = the identities of the
   key made by K::clone whose value's Clone then panicked (Owned2.clone_orphans;
   [] when no Clone panics) - one more object made by this run, destroyed by the
   unwinding.  If no identity of [made] is held by the source, then on normal
   return the clone and the source share no identity.  If a Clone panics, the
   abandoned clone holds nothing and what the unwinding destroyed (d) is exactly
   made ++ orphan: no identity of the source either, as soon as the orphan key
   is new as well. *)
Lemma clone_disjoint_run (src : map) (w : world) :
  WF src -> WF (self w) -> len (self w) = 0 -> cap (self w) = cap src -> Tidy (self w) ->
  let made := flat_map (ids_pair E) (clone_made E src (len src) 0 (cb w)) in
  let orphan := clone_orphans E src (len src) 0 (cb w) in
  (forall x, In x made -> ~ In x (owned E src)) ->
  wp (clone_from_src E src)
     (fun _ w' => WF (self w') /\ Tidy (self w') /\
                  Permutation (owned E (self w')) made /\
                  dropped (log w') = dropped (log w) /\
                  (forall x, In x (owned E (self w')) -> ~ In x (owned E src)) /\
                  (forall x, In x (owned E src) -> ~ In x (owned E (self w'))))
     (fun w' => owned E (self w') = [] /\
                exists d, dropped (log w') = dropped (log w) ++ d /\
                          Permutation d (made ++ orphan) /\
                          ((forall x, In x orphan -> ~ In x (owned E src)) ->
                           forall x, In x d -> ~ In x (owned E src)))
     w.
Proof.
  intros Hsrc Hw Hl Hc Ht made orphan Hfresh.
  eapply wp_mono; [apply (clone_acct E src w Hsrc Hw Hl Hc Ht) | |]; cbn beta; fold made; fold orphan.
  - intros _ w' (Hw' & Ht' & _ & _ & Hd & HP).
    split; [exact Hw'|]. split; [exact Ht'|]. split; [exact HP|]. split; [exact Hd|].
    split.
    + intros x Hx. apply Hfresh. eapply Permutation_in; [exact HP | exact Hx].
    + intros x Hx Hx'. apply (Hfresh x); [eapply Permutation_in; [exact HP | exact Hx'] | exact Hx].
  - intros w' (Ho & d & Hd & HP). split; [exact Ho|]. exists d. split; [exact Hd|]. split; [exact HP|].
    intros Horph x Hx. pose proof (Permutation_in x HP Hx) as Hin. apply in_app_or in Hin.
    destruct Hin as [Hin|Hin]; [apply Hfresh; exact Hin | apply Horph; exact Hin].
Qed.

(* B8a (finding 8, destruction): destroying a container destroys only identities
   it holds - so nothing of a container it shares no identity with.  ANY
   environment (Drop may panic: both outcomes). *)
Lemma drop_map_only_own (other : map) (w : world) :
  WF (self w) ->
  (forall x, In x (owned E (self w)) -> ~ In x (owned E other)) ->
  let post := fun w' : world =>
    exists d, dropped (log w') = dropped (log w) ++ d /\
              (forall x, In x d -> In x (owned E (self w))) /\
              (forall x, In x d -> ~ In x (owned E other)) in
  wp (drop_map E) (fun _ => post) post w.
Proof.
  intros Hw Hdis post.
  assert (Hgen : forall w' : world,
             (exists d, dropped (log w') = dropped (log w) ++ d /\
                        Permutation (owned E (self w') ++ d) (owned E (self w))) -> post w').
  { intros w' (d & Hd & HP). exists d. split; [exact Hd|].
    assert (Hin : forall x, In x d -> In x (owned E (self w))).
    { intros x Hx. eapply Permutation_in; [exact HP|]. apply in_or_app. right. exact Hx. }
    split; [exact Hin|]. intros x Hx. apply Hdis. apply Hin. exact Hx. }
  eapply wp_mono; [apply (drop_map_log E w Hw) | |]; cbn beta.
  - intros _ w'. apply Hgen.
  - intros w'. apply Hgen.
Qed.

(* clone, then destroy EITHER copy (from any later world holding it): the
   identities destroyed are none of the other copy's *)
Lemma clone_destruction_independent (src : map) (w : world) :
  WF src -> WF (self w) -> len (self w) = 0 -> cap (self w) = cap src -> Tidy (self w) ->
  (forall x, In x (flat_map (ids_pair E) (clone_made E src (len src) 0 (cb w))) -> ~ In x (owned E src)) ->
  wp (clone_from_src E src)
     (fun _ w' =>
        (* the clone is destroyed *)
        (forall w2 : world, self w2 = self w' ->
           wp (drop_map E)
              (fun _ w3 => exists d, dropped (log w3) = dropped (log w2) ++ d /\
                                     forall x, In x d -> In x (owned E (self w')) /\ ~ In x (owned E src))
              (fun w3 => exists d, dropped (log w3) = dropped (log w2) ++ d /\
                                   forall x, In x d -> In x (owned E (self w')) /\ ~ In x (owned E src)) w2) /\
        (* the original is destroyed *)
        (forall w2 : world, self w2 = src ->
           wp (drop_map E)
              (fun _ w3 => exists d, dropped (log w3) = dropped (log w2) ++ d /\
                                     forall x, In x d -> In x (owned E src) /\ ~ In x (owned E (self w')))
              (fun w3 => exists d, dropped (log w3) = dropped (log w2) ++ d /\
                                   forall x, In x d -> In x (owned E src) /\ ~ In x (owned E (self w'))) w2))
     (fun _ => True) w.
Proof.
  intros Hsrc Hw Hl Hc Ht Hfresh.
  eapply wp_mono; [apply (clone_disjoint_run src w Hsrc Hw Hl Hc Ht Hfresh) | | auto]; cbn beta.
  intros _ w' (Hw' & _ & _ & _ & Hd1 & Hd2). split.
  - intros w2 Hs2.
    assert (Hw2 : WF (self w2)) by (rewrite Hs2; exact Hw').
    assert (Hdis : forall x, In x (owned E (self w2)) -> ~ In x (owned E src)) by (rewrite Hs2; exact Hd1).
    eapply wp_mono; [apply (drop_map_only_own src w2 Hw2 Hdis) | |]; cbn beta;
      intros; match goal with H : exists _, _ |- _ => destruct H as (d & Hd & Hi & Hn) end;
      exists d; (split; [exact Hd|]); intros x Hx; (split; [rewrite <- Hs2; apply Hi; exact Hx | apply Hn; exact Hx]).
  - intros w2 Hs2.
    assert (Hw2 : WF (self w2)) by (rewrite Hs2; exact Hsrc).
    assert (Hdis : forall x, In x (owned E (self w2)) -> ~ In x (owned E (self w'))) by (rewrite Hs2; exact Hd2).
    eapply wp_mono; [apply (drop_map_only_own (self w') w2 Hw2 Hdis) | |]; cbn beta;
      intros; match goal with H : exists _, _ |- _ => destruct H as (d & Hd & Hi & Hn) end;
      exists d; (split; [exact Hd|]); intros x Hx; (split; [rewrite <- Hs2; apply Hi; exact Hx | apply Hn; exact Hx]).
Qed.

End CloneRun.

(* ---------------------------------------------------------------------- *)
(* the run-relative hypothesis holds of the interpreter's own environments, for
   EVERY script (honest, adversarial, with injected faults): the Clone callback
   takes new identities from the counter next_id of the callback state         *)
Lemma clone_tick_ge sc s o s' :
  clone_tick sc s = (o, s') ->
  (next_id s <= next_id s')%N /\ forall i, o = Some i -> i = next_id s /\ next_id s' = (next_id s + 1)%N.
Proof.
  unfold clone_tick. destruct (N.eqb (sc_fk sc) 2 && N.eqb (sc_fa sc) (n_clone s)); intros H; injection H as <- <-;
    cbn [next_id]; (split; [lia|]); intros i Hi; [discriminate | injection Hi as <-; split; reflexivity].
Qed.

Lemma clone_pair_res_map_ge sc (p p' : key * vobj) s s' :
  clone_pair_res (env_map sc) p s = (Some p', s') ->
  (next_id s <= next_id s')%N /\
  forall x, In x (ids_pair (env_map sc) p') -> (next_id s <= x)%N.
Proof.
  unfold clone_pair_res. cbn [env_map cloneK cloneV]. unfold clone_key_cb.
  destruct (clone_tick sc s) as [o1 s1] eqn:H1. destruct (clone_tick_ge sc s o1 s1 H1) as [Hle1 Hi1].
  destruct o1 as [i1|]; cbn [option_map]; [|discriminate].
  destruct (clone_tick sc s1) as [o2 s2] eqn:H2. destruct (clone_tick_ge sc s1 o2 s2 H2) as [Hle2 Hi2].
  destruct o2 as [i2|]; cbn [option_map]; [|discriminate].
  intros H. injection H as <- <-. destruct (Hi1 i1 eq_refl) as [-> _]. destruct (Hi2 i2 eq_refl) as [-> _].
  split; [lia|]. intros x Hx. unfold ids_pair in Hx. cbn [env_map idK idV fst snd kid vid app In] in Hx.
  destruct Hx as [<-|[<-|[]]]; lia.
Qed.

Lemma clone_pair_res_set_ge sc (p p' : key * unit) s s' :
  clone_pair_res (env_set sc) p s = (Some p', s') ->
  (next_id s <= next_id s')%N /\
  forall x, In x (ids_pair (env_set sc) p') -> (next_id s <= x)%N.
Proof.
  unfold clone_pair_res. cbn [env_set cloneK cloneV]. unfold clone_key_cb.
  destruct (clone_tick sc s) as [o1 s1] eqn:H1. destruct (clone_tick_ge sc s o1 s1 H1) as [Hle1 Hi1].
  destruct o1 as [i1|]; cbn [option_map]; [|discriminate].
  intros H. injection H as <- <-. destruct (Hi1 i1 eq_refl) as [-> _].
  split; [lia|]. intros x Hx. unfold ids_pair in Hx. cbn [env_set idK idV fst snd kid app In] in Hx.
  destruct Hx as [<-|[]]; lia.
Qed.

Lemma clone_made_map_ge sc (src : map key vobj) : forall n i s x,
  In x (flat_map (ids_pair (env_map sc)) (clone_made (env_map sc) src n i s)) -> (next_id s <= x)%N.
Proof.
  induction n as [|n IH]; intros i s x Hx; cbn [clone_made] in Hx; [destruct Hx|].
  destruct (nth_error (slots src) i) as [[p|]|]; try destruct Hx.
  destruct (clone_pair_res (env_map sc) p s) as [[p'|] s'] eqn:Hr; [|destruct Hx].
  destruct (clone_pair_res_map_ge sc p p' s s' Hr) as [Hle Hid].
  cbn [flat_map] in Hx. apply in_app_or in Hx. destruct Hx as [Hx|Hx]; [apply Hid; exact Hx|].
  specialize (IH (S i) s' x Hx). lia.
Qed.

Lemma clone_made_set_ge sc (src : map key unit) : forall n i s x,
  In x (flat_map (ids_pair (env_set sc)) (clone_made (env_set sc) src n i s)) -> (next_id s <= x)%N.
Proof.
  induction n as [|n IH]; intros i s x Hx; cbn [clone_made] in Hx; [destruct Hx|].
  destruct (nth_error (slots src) i) as [[p|]|]; try destruct Hx.
  destruct (clone_pair_res (env_set sc) p s) as [[p'|] s'] eqn:Hr; [|destruct Hx].
  destruct (clone_pair_res_set_ge sc p p' s s' Hr) as [Hle Hid].
  cbn [flat_map] in Hx. apply in_app_or in Hx. destruct Hx as [Hx|Hx]; [apply Hid; exact Hx|].
  specialize (IH (S i) s' x Hx). lia.
Qed.

Lemma clone_orphan_map_ge sc (p : key * vobj) s x :
  In x (clone_orphan (env_map sc) p s) -> (next_id s <= x)%N.
Proof.
  unfold clone_orphan. cbn [env_map cloneK cloneV]. unfold clone_key_cb.
  destruct (clone_tick sc s) as [o1 s1] eqn:H1. destruct (clone_tick_ge sc s o1 s1 H1) as [Hle1 Hi1].
  destruct o1 as [i1|]; cbn [option_map]; [|intros []].
  destruct (clone_tick sc s1) as [o2 s2] eqn:H2.
  destruct o2 as [i2|]; cbn [option_map]; [intros []|].
  destruct (Hi1 i1 eq_refl) as [-> _]. cbn [env_map idK kid In]. intros [<-|[]]. lia.
Qed.

Lemma clone_orphan_set_nil sc (p : key * unit) s : clone_orphan (env_set sc) p s = [].
Proof.
  unfold clone_orphan. cbn [env_set cloneK cloneV]. unfold clone_key_cb.
  destruct (clone_tick sc s) as [o1 s1]. destruct o1; reflexivity.
Qed.

Lemma clone_orphans_map_ge sc (src : map key vobj) : forall n i s x,
  In x (clone_orphans (env_map sc) src n i s) -> (next_id s <= x)%N.
Proof.
  induction n as [|n IH]; intros i s x Hx; cbn [clone_orphans] in Hx; [destruct Hx|].
  destruct (nth_error (slots src) i) as [[p|]|]; try destruct Hx.
  destruct (clone_pair_res (env_map sc) p s) as [[p'|] s'] eqn:Hr.
  - destruct (clone_pair_res_map_ge sc p p' s s' Hr) as [Hle _]. specialize (IH (S i) s' x Hx). lia.
  - apply (clone_orphan_map_ge sc p s x Hx).
Qed.

Lemma clone_orphans_set_nil sc (src : map key unit) : forall n i s, clone_orphans (env_set sc) src n i s = [].
Proof.
  induction n as [|n IH]; intros i s; cbn [clone_orphans]; [reflexivity|].
  destruct (nth_error (slots src) i) as [[p|]|]; try reflexivity.
  destruct (clone_pair_res (env_set sc) p s) as [[p'|] s']; [apply IH | apply clone_orphan_set_nil].
Qed.

(* ... so whenever the counter is above every identity held by the source, the
   hypothesis of clone_disjoint_run / clone_destruction_independent holds *)
Lemma clone_fresh_env_map sc (src : map key vobj) (s : cstate) :
  (forall x, In x (owned (env_map sc) src) -> (x < next_id s)%N) ->
  forall x, In x (flat_map (ids_pair (env_map sc)) (clone_made (env_map sc) src (len src) 0 s)) ->
            ~ In x (owned (env_map sc) src).
Proof. intros Hlt x Hx Hin. pose proof (clone_made_map_ge sc src _ _ _ _ Hx). specialize (Hlt x Hin). lia. Qed.

Lemma clone_fresh_env_set sc (src : map key unit) (s : cstate) :
  (forall x, In x (owned (env_set sc) src) -> (x < next_id s)%N) ->
  forall x, In x (flat_map (ids_pair (env_set sc)) (clone_made (env_set sc) src (len src) 0 s)) ->
            ~ In x (owned (env_set sc) src).
Proof. intros Hlt x Hx Hin. pose proof (clone_made_set_ge sc src _ _ _ _ Hx). specialize (Hlt x Hin). lia. Qed.

(* the checked system: clone and source share no identity, EVERY script *)
Lemma clone_disjoint_env_map sc (src : map key vobj) (w : world key vobj cstate) :
  WF src -> WF (self w) -> len (self w) = 0 -> cap (self w) = cap src -> Tidy (self w) ->
  (forall x, In x (owned (env_map sc) src) -> (x < next_id (cb w))%N) ->
  wp (clone_from_src (env_map sc) src)
     (fun _ w' => (forall x, In x (owned (env_map sc) (self w')) -> ~ In x (owned (env_map sc) src)) /\
                  (forall x, In x (owned (env_map sc) src) -> ~ In x (owned (env_map sc) (self w'))) /\
                  dropped (log w') = dropped (log w))
     (fun w' => owned (env_map sc) (self w') = [] /\
                exists d, dropped (log w') = dropped (log w) ++ d /\
                          forall x, In x d -> ~ In x (owned (env_map sc) src))
     w.
Proof.
  intros Hsrc Hw Hl Hc Ht Hlt.
  eapply wp_mono; [apply (clone_disjoint_run (env_map sc) src w Hsrc Hw Hl Hc Ht (clone_fresh_env_map sc src (cb w) Hlt)) | |];
    cbn beta.
  - intros _ w' (_ & _ & _ & Hd & H1 & H2). auto.
  - intros w' (Ho & d & Hd & _ & H1). split; [exact Ho|]. exists d. split; [exact Hd|]. apply H1.
    intros x Hx Hin. pose proof (clone_orphans_map_ge sc src _ _ _ _ Hx). specialize (Hlt x Hin). lia.
Qed.

Lemma clone_disjoint_env_set sc (src : map key unit) (w : world key unit cstate) :
  WF src -> WF (self w) -> len (self w) = 0 -> cap (self w) = cap src -> Tidy (self w) ->
  (forall x, In x (owned (env_set sc) src) -> (x < next_id (cb w))%N) ->
  wp (clone_from_src (env_set sc) src)
     (fun _ w' => (forall x, In x (owned (env_set sc) (self w')) -> ~ In x (owned (env_set sc) src)) /\
                  (forall x, In x (owned (env_set sc) src) -> ~ In x (owned (env_set sc) (self w'))) /\
                  dropped (log w') = dropped (log w))
     (fun w' => owned (env_set sc) (self w') = [] /\
                exists d, dropped (log w') = dropped (log w) ++ d /\
                          forall x, In x d -> ~ In x (owned (env_set sc) src))
     w.
Proof.
  intros Hsrc Hw Hl Hc Ht Hlt.
  eapply wp_mono; [apply (clone_disjoint_run (env_set sc) src w Hsrc Hw Hl Hc Ht (clone_fresh_env_set sc src (cb w) Hlt)) | |];
    cbn beta.
  - intros _ w' (_ & _ & _ & Hd & H1 & H2). auto.
  - intros w' (Ho & d & Hd & _ & H1). split; [exact Ho|]. exists d. split; [exact Hd|]. apply H1.
    intros x Hx. rewrite clone_orphans_set_nil in Hx. destruct Hx.
Qed.

(* B9 (finding 9): the Set analogue of FmtSerde.clone_honest_map *)
Lemma clone_honest_set sc (src : map key unit) (w : world key unit cstate) : honest sc ->
  WF src -> WF (self w) -> len (self w) = 0 -> cap (self w) = cap src ->
  wp (clone_from_src (env_set sc) src)
     (fun _ w' => WF (self w') /\ cap (self w') = cap src /\ len (self w') = len src /\
        Forall2 (fun p p' : key * unit => kcls (fst p') = kcls (fst p)) (Spec.elems src) (Spec.elems (self w')))
     (fun _ => False) w.
Proof.
  intros Hh Hsrc Hw Hl Hc.
  eapply wp_mono;
    [apply (clone_lawful (env_set sc) kcls (fun _ _ : unit => true)
              (env_set_cloneK sc Hh) (env_set_cloneV sc) src w Hsrc Hw Hl Hc) | | auto]; cbn beta.
  intros _ w' (H1 & H2 & H3 & H4 & _). split; [exact H1|]. split; [exact H2|]. split; [exact H3|].
  eapply Forall2_impl'; [|exact H4]. cbn beta. intros a b [H _]. exact H.
Qed.

(* finding 6 on the two environments of the correspondence check *)
Lemma clone_compares_equal_map sc (src : map key vobj) (w : world key vobj cstate) : honest sc ->
  WF src -> WF (self w) -> len (self w) = 0 -> cap (self w) = cap src -> Uniq kcls (Spec.elems src) ->
  wp (clone_from_src (env_map sc) src)
     (fun _ w' => WF (self w') /\ Uniq kcls (Spec.elems (self w')) /\
                  forall w0 : world key vobj cstate,
                    wp (map_eq (env_map sc) src (self w')) (fun r w1 => r = true /\ stable w0 w1) (fun _ => False) w0)
     (fun _ => False) w.
Proof.
  intros Hh.
  apply (clone_compares_equal (env_map sc) kcls qcls (env_map_lawful sc Hh)
           (fun a b => N.eqb (vdat a) (vdat b)) (env_map_eqV sc Hh) (env_map_cloneK sc Hh) (env_map_cloneV sc Hh)).
Qed.

Lemma clone_compares_equal_set sc (src : map key unit) (w : world key unit cstate) : honest sc ->
  WF src -> WF (self w) -> len (self w) = 0 -> cap (self w) = cap src -> Uniq kcls (Spec.elems src) ->
  wp (clone_from_src (env_set sc) src)
     (fun _ w' => WF (self w') /\ Uniq kcls (Spec.elems (self w')) /\
                  forall w0 : world key unit cstate,
                    wp (map_eq (env_set sc) src (self w')) (fun r w1 => r = true /\ stable w0 w1) (fun _ => False) w0)
     (fun _ => False) w.
Proof.
  intros Hh.
  apply (clone_compares_equal (env_set sc) kcls qcls (env_set_lawful sc Hh)
           (fun _ _ : unit => true) (env_set_eqV sc) (env_set_cloneK sc Hh) (env_set_cloneV sc)).
Qed.

(* ======================================================================== *)
(* PART C — Exec level: an operation writes only its target register.       *)
(* In the model containers are VALUES: an operand passed as a parameter      *)
(* (map_eq's a and b, clone_from_src's src) cannot be modified by the callee  *)
(* at all - that is structural, not a theorem.  What CAN be stated with       *)
(* content is what the interpreter writes back into its registers.            *)
(* ======================================================================== *)

(* the four containers held by an interpreter state *)
Definition regs (x : xworld) : map key vobj * map key vobj * map key unit * map key unit :=
  (xm0 x, xm1 x, xs0 x, xs1 x).

(* two register numbers name the same map / set register (get_m, get_s decode
   them by comparing with 0 / 2) *)
Definition same_m (r r' : N) : Prop := N.eqb r 0 = N.eqb r' 0.
Definition same_s (r r' : N) : Prop := N.eqb r 2 = N.eqb r' 2.

(* ---- C4 (C14 finding 4): == writes back what it read, for EVERY script ---- *)
Section SelfKept.
Context {K V Q T : Type} (E : env K V Q T).
Notation world := (world K V T). Notation M := (M K V T).

(* in every outcome other than UB the container in [self] is the one before *)
Definition self_kept {A} (c : M A) : Prop :=
  forall w, match c w with Ok _ w' => self w' = self w | Panic w' => self w' = self w | UB => True end.

Lemma self_kept_ret {A} (a : A) : self_kept (ret a).
Proof. intros w. reflexivity. Qed.
Lemma self_kept_ub {A} : self_kept (@ub K V T A).
Proof. intros w. exact I. Qed.
Lemma self_kept_panic {A} : self_kept (@panic K V T A).
Proof. intros w. reflexivity. Qed.
Lemma self_kept_cbk f : self_kept (@cbk K V T f).
Proof. intros w. unfold cbk. destruct (f (cb w)) as [a s]. destruct a; reflexivity. Qed.
Lemma self_kept_on_map {A} (m : map K V) (c : M A) : self_kept (on_map m c).
Proof. intros w. unfold on_map. destruct (c _); first [reflexivity | exact I]. Qed.
Lemma self_kept_bind {A B} (c : M A) (f : A -> M B) :
  self_kept c -> (forall a, self_kept (f a)) -> self_kept (bind c f).
Proof.
  intros Hc Hf w. unfold bind. specialize (Hc w). destruct (c w) as [a w1|w1|]; [|exact Hc|exact I].
  specialize (Hf a w1). destruct (f a w1) as [b w2|w2|]; [congruence | congruence | exact I].
Qed.

Lemma self_kept_eq_loop (a b : map K V) : forall n i, self_kept (eq_loop E a b n i).
Proof.
  induction n as [|n IH]; intros i; cbn [eq_loop]; [apply self_kept_ret|].
  destruct (nth_error (slots a) i) as [[[k v]|]|]; try apply self_kept_ub.
  apply self_kept_bind; [apply self_kept_on_map|]. intros [j|]; [|apply self_kept_ret].
  destruct (nth_error (slots b) j) as [[[k' v']|]|]; try apply self_kept_ub.
  apply self_kept_bind; [apply self_kept_cbk|]. intros [|]; [apply IH | apply self_kept_ret].
Qed.

(* no well-formedness needed, any environment *)
Lemma self_kept_map_eq (a b : map K V) : self_kept (map_eq E a b).
Proof.
  unfold map_eq. destruct (len a =? len b); [|apply self_kept_ret].
  destruct (len a <=? cap a); [apply self_kept_eq_loop | apply self_kept_panic].
Qed.

End SelfKept.

Lemma regs_put_m_same r c x : regs (put_m r (get_m r x) c x) = regs x.
Proof. unfold regs, put_m, get_m. destruct (N.eqb r 0); reflexivity. Qed.
Lemma regs_put_s_same r c x : regs (put_s r (get_s r x) c x) = regs x.
Proof. unfold regs, put_s, get_s. destruct (N.eqb r 2); reflexivity. Qed.
Lemma regs_kill x : regs (kill x) = regs x.
Proof. reflexivity. Qed.

Lemma run_m_self_kept r (c : Mm (list N)) x : self_kept c -> regs (snd (run_m r c x)) = regs x.
Proof.
  intros Hc. unfold run_m. specialize (Hc {| cb := xcb x; log := []; self := get_m r x |}).
  destruct (c _) as [body w|w|]; cbn [finish snd self] in *;
    [rewrite Hc; apply regs_put_m_same | rewrite Hc; apply regs_put_m_same | apply regs_kill].
Qed.
Lemma run_s_self_kept r (c : Ms (list N)) x : self_kept c -> regs (snd (run_s r c x)) = regs x.
Proof.
  intros Hc. unfold run_s. specialize (Hc {| cb := xcb x; log := []; self := get_s r x |}).
  destruct (c _) as [body w|w|]; cbn [finish snd self] in *;
    [rewrite Hc; apply regs_put_s_same | rewrite Hc; apply regs_put_s_same | apply regs_kill].
Qed.

(* every script, every state (well formed or not), both values of debug, whether
   the comparison returns, panics or is undefined: all four registers hold
   afterwards literally the containers they held before *)
Theorem step_OEq_regs debug sc r r' x : regs (snd (step debug sc (OEq r r') x)) = regs x.
Proof.
  unfold step. destruct (xdead x); [reflexivity|].
  apply run_m_self_kept. apply self_kept_bind; [apply self_kept_map_eq | intros; apply self_kept_ret].
Qed.
Theorem step_SEq_regs debug sc r r' x : regs (snd (step debug sc (SEq r r') x)) = regs x.
Proof.
  unfold step. destruct (xdead x); [reflexivity|].
  apply run_s_self_kept. apply self_kept_bind; [apply self_kept_map_eq | intros; apply self_kept_ret].
Qed.

(* the view-level instances (the specification's step for == is the identity) *)
Lemma vstep_OEq r r' vw : vstep (OEq r r') vw = vw.
Proof. reflexivity. Qed.
Lemma vstep_SEq r r' vw : vstep (SEq r r') vw = vw.
Proof. reflexivity. Qed.

Lemma view_x_regs x x' : regs x' = regs x -> view_x x' = view_x x.
Proof. unfold regs, view_x. intros H. injection H as -> -> -> ->. reflexivity. Qed.

Theorem step_OEq_view debug sc r r' x :
  view_x (snd (step debug sc (OEq r r') x)) = vstep (OEq r r') (view_x x).
Proof. rewrite vstep_OEq. apply view_x_regs. apply step_OEq_regs. Qed.
Theorem step_SEq_view debug sc r r' x :
  view_x (snd (step debug sc (SEq r r') x)) = vstep (SEq r r') (view_x x).
Proof. rewrite vstep_SEq. apply view_x_regs. apply step_SEq_regs. Qed.

(* ---- C8b (C15 finding 8, changes): every operation writes only its target ---- *)
(* the register an operation may write back to *)
Definition m_target (o : op) : option N :=
  match o with
  | OInsert r _ _ | OInsertKV r _ _ | OCheckedInsert r _ _ | OInsertUnchecked r _ _
  | OGet r _ | OGetMut r _ _ | OGetKV r _ | OContains r _ | OIndex r _ | OIndexMut r _ _
  | ORemove r _ | ORemoveEntry r _ | ORetain r _ _ | OClear r | ODrain r _ _ | OWithCapacity r _
  | OIter r _ _ _ | OIntoIter r _ _ _ | OEntry r _ _ _ | ODisjoint r _ _ _
  | OEq r _ | OFromIter r _ _ | OFormat r _ | ODefault r
  | OIterNth r _ _ _ | ODrainNth r _ _ | OIntoNth r _ _ _ => Some r
  | OClone _ r' | OCloneFrom _ r' | OSerde _ r' => Some r'
  | _ => None
  end.
Definition s_target (o : op) : option N :=
  match o with
  | SInsert r _ | SReplace r _ | SContains r _ | SGet r _ | SRemove r _ | STake r _
  | SRetain r _ _ | SClear r | SDrain r _ _ | SExtend r _ | SIter r _ | SIntoIter r _ _
  | SEq r _ | SFromIter r _ _ | SAlgebra _ r _ _ _ | SPred _ r _ | SSub r _ | SFormat r _
  | SDefault r | SIterNth r _ _ | SDrainNth r _ _ | SIntoNth r _ _ => Some r
  | SClone _ r' | SCloneFrom _ r' | SSerde _ r' => Some r'
  | _ => None
  end.

(* [r] is not the map (set) register that [o] writes *)
Definition not_m_target (o : op) (r : N) : Prop :=
  match m_target o with Some t => ~ same_m t r | None => True end.
Definition not_s_target (o : op) (r : N) : Prop :=
  match s_target o with Some t => ~ same_s t r | None => True end.

(* view level: a pure fact about the specification [vstep] *)
Lemma get_mv_put_mv_other t r l vw : ~ same_m t r -> get_mv r (put_mv t l vw) = get_mv r vw.
Proof. unfold same_m, get_mv, put_mv. destruct (N.eqb t 0), (N.eqb r 0); intros H; try reflexivity; exfalso; apply H; reflexivity. Qed.
Lemma get_sv_put_sv_other t r l vw : ~ same_s t r -> get_sv r (put_sv t l vw) = get_sv r vw.
Proof. unfold same_s, get_sv, put_sv. destruct (N.eqb t 2), (N.eqb r 2); intros H; try reflexivity; exfalso; apply H; reflexivity. Qed.
Lemma get_mv_put_sv t r l vw : get_mv r (put_sv t l vw) = get_mv r vw.
Proof. unfold get_mv, put_sv. destruct (N.eqb t 2), (N.eqb r 0); reflexivity. Qed.
Lemma get_sv_put_mv t r l vw : get_sv r (put_mv t l vw) = get_sv r vw.
Proof. unfold get_sv, put_mv. destruct (N.eqb t 0), (N.eqb r 2); reflexivity. Qed.

Lemma vstep_other_register_unchanged o vw r :
  (not_m_target o r -> get_mv r (vstep o vw) = get_mv r vw) /\
  (not_s_target o r -> get_sv r (vstep o vw) = get_sv r vw).
Proof.
  unfold not_m_target, not_s_target.
  destruct o; cbn [vstep m_target s_target]; unfold on_m, on_s; split; intros H;
    repeat match goal with |- context [if ?b then _ else _] => destruct b end;
    first [ reflexivity
          | apply get_mv_put_mv_other; exact H
          | apply get_sv_put_sv_other; exact H
          | apply get_mv_put_sv
          | apply get_sv_put_mv ].
Qed.

(* Exec level, EVERY script, every state: literal equality of the containers *)
Lemma get_m_put_m_other t r m c x : ~ same_m t r -> get_m r (put_m t m c x) = get_m r x.
Proof. unfold same_m, get_m, put_m. destruct (N.eqb t 0), (N.eqb r 0); intros H; try reflexivity; exfalso; apply H; reflexivity. Qed.
Lemma get_s_put_s_other t r m c x : ~ same_s t r -> get_s r (put_s t m c x) = get_s r x.
Proof. unfold same_s, get_s, put_s. destruct (N.eqb t 2), (N.eqb r 2); intros H; try reflexivity; exfalso; apply H; reflexivity. Qed.
Lemma get_m_put_s t r m c x : get_m r (put_s t m c x) = get_m r x.
Proof. unfold get_m, put_s. destruct (N.eqb t 2), (N.eqb r 0); reflexivity. Qed.
Lemma get_s_put_m t r m c x : get_s r (put_m t m c x) = get_s r x.
Proof. unfold get_s, put_m. destruct (N.eqb t 0), (N.eqb r 2); reflexivity. Qed.

Lemma run_m_other t (c : Mm (list N)) x r :
  (~ same_m t r -> get_m r (snd (run_m t c x)) = get_m r x) /\ get_s r (snd (run_m t c x)) = get_s r x.
Proof.
  unfold run_m. destruct (c _) as [body w|w|]; cbn [finish snd]; split; intros;
    first [apply get_m_put_m_other; assumption | apply get_s_put_m | reflexivity].
Qed.
Lemma run_s_other t (c : Ms (list N)) x r :
  (~ same_s t r -> get_s r (snd (run_s t c x)) = get_s r x) /\ get_m r (snd (run_s t c x)) = get_m r x.
Proof.
  unfold run_s. destruct (c _) as [body w|w|]; cbn [finish snd]; split; intros;
    first [apply get_s_put_s_other; assumption | apply get_m_put_s | reflexivity].
Qed.

Theorem step_other_register_unchanged debug sc o x r :
  (not_m_target o r -> get_m r (snd (step debug sc o x)) = get_m r x) /\
  (not_s_target o r -> get_s r (snd (step debug sc o x)) = get_s r x).
Proof.
  unfold not_m_target, not_s_target, step. destruct (xdead x); [split; reflexivity|].
  destruct o; cbn [m_target s_target]; split; intros H;
    repeat match goal with |- context [if ?b then _ else _] => destruct b end;
    first [ reflexivity
          | apply (proj1 (run_m_other _ _ _ _)); exact H
          | apply (proj2 (run_m_other _ _ _ _))
          | apply (proj1 (run_s_other _ _ _ _)); exact H
          | apply (proj2 (run_s_other _ _ _ _)) ].
Qed.

(* whole histories that never target register r leave it as it was *)
Theorem run_other_register_unchanged debug sc ops : forall x r,
  (Forall (fun o => not_m_target o r) ops -> get_m r (run_final debug sc ops x) = get_m r x) /\
  (Forall (fun o => not_s_target o r) ops -> get_s r (run_final debug sc ops x) = get_s r x).
Proof.
  induction ops as [|o t IH]; intros x r; cbn [run_final]; [split; reflexivity|].
  destruct (IH (snd (step debug sc o x)) r) as [IHm IHs].
  destruct (step_other_register_unchanged debug sc o x r) as [Hm Hs].
  split; intros HF; inversion HF as [|o' t' Ho Ht]; subst.
  - rewrite (IHm Ht). apply Hm. exact Ho.
  - rewrite (IHs Ht). apply Hs. exact Ho.
Qed.

(* the clause of C15 as one statement: clone register r into r' (different
   registers); afterwards ANY history of operations that do not target r' leaves
   the clone exactly as it was made, and any history that does not target r
   leaves the original exactly as it was.  Every script. *)
Theorem clone_then_changes_independent debug sc r r' ops x :
  let x1 := snd (step debug sc (OClone r r') x) in
  (Forall (fun o => not_m_target o r') ops -> get_m r' (run_final debug sc ops x1) = get_m r' x1) /\
  (Forall (fun o => not_m_target o r) ops -> get_m r (run_final debug sc ops x1) = get_m r x1) /\
  (~ same_m r' r -> get_m r x1 = get_m r x).
Proof.
  intros x1. split; [apply run_other_register_unchanged|]. split; [apply run_other_register_unchanged|].
  intros Hn. apply (proj1 (step_other_register_unchanged debug sc (OClone r r') x r)). exact Hn.
Qed.
Theorem sclone_then_changes_independent debug sc r r' ops x :
  let x1 := snd (step debug sc (SClone r r') x) in
  (Forall (fun o => not_s_target o r') ops -> get_s r' (run_final debug sc ops x1) = get_s r' x1) /\
  (Forall (fun o => not_s_target o r) ops -> get_s r (run_final debug sc ops x1) = get_s r x1) /\
  (~ same_s r' r -> get_s r x1 = get_s r x).
Proof.
  intros x1. split; [apply run_other_register_unchanged|]. split; [apply run_other_register_unchanged|].
  intros Hn. apply (proj2 (step_other_register_unchanged debug sc (SClone r r') x r)). exact Hn.
Qed.

(* ======================================================================== *)
(* PART D — C18                                                              *)
(* ======================================================================== *)
Section Unchecked.
Context {K V Q T : Type} (E : env K V Q T) (debug : bool).
Notation world := (world K V T). Notation map := (map K V). Notation kv := (K * V)%type.
Notation M := (M K V T).

(* D10 (finding 10): get_disjoint_mut IS the overlap assertion followed by
   get_disjoint_unchecked_mut.  ANY environment, any state, any keys. *)
Lemma disjoint_mut_eq_unchecked (ks : list Q) (w w1 : world) :
  assert_distinct E ks w = Ok tt w1 ->
  get_disjoint_mut E ks w = get_disjoint_unchecked_mut E ks w1.
Proof.
  intros H. destruct ks as [|k ks'].
  - cbn in H. injection H as <-. reflexivity.
  - unfold get_disjoint_mut, bind. rewrite H. reflexivity.
Qed.

(* ... and when the assertion fails, so does get_disjoint_mut, in the same world *)
Lemma disjoint_mut_panics (ks : list Q) (w w1 : world) :
  assert_distinct E ks w = Panic w1 -> get_disjoint_mut E ks w = Panic w1.
Proof.
  intros H. destruct ks as [|k ks']; [discriminate|].
  unfold get_disjoint_mut, bind. rewrite H. reflexivity.
Qed.

Lemma world_eta (w : world) : w = {| cb := cb w; log := log w; self := self w |}.
Proof. destruct w; reflexivity. Qed.

Section LawfulU.
Context (ck : K -> N) (cq : Q -> N) (HL : Lawful E ck cq).

(* under a lawful == and pairwise different requested classes the assertion
   returns, and changes NOTHING but the callback state (the q == q' calls it
   made): container and log are the same.  No hypothesis on the container. *)
Lemma assert_distinct_ok (ks : list Q) (w : world) :
  NoDup (List.map cq ks) ->
  exists s1, assert_distinct E ks w = Ok tt (with_cb w s1).
Proof.
  intros Hnd. pose proof (assert_distinct_lawful E ck cq HL ks w) as H. unfold wp in H.
  destruct (assert_distinct E ks w) as [[] w1|w1|]; [| destruct H as [_ Hn]; contradiction | contradiction].
  destruct H as [[Hs Hl] _]. exists (cb w1). f_equal. unfold with_cb. rewrite <- Hs, <- Hl. apply world_eta.
Qed.

Lemma disjoint_mut_eq_unchecked_lawful (ks : list Q) (w : world) :
  NoDup (List.map cq ks) ->
  exists s1, assert_distinct E ks w = Ok tt (with_cb w s1) /\
             get_disjoint_mut E ks w = get_disjoint_unchecked_mut E ks (with_cb w s1).
Proof.
  intros Hnd. destruct (assert_distinct_ok ks w Hnd) as [s1 H]. exists s1. split; [exact H|].
  apply disjoint_mut_eq_unchecked. exact H.
Qed.

(* D11 (finding 11): within its contract insert_unchecked has the
   specification of insert - and cannot panic *)
Lemma insert_unchecked_eq_insert_contract k v (w : world) :
  WF (self w) ->
  (len (self w) < cap (self w) \/ exists i, find_idx ck (ck k) (elems (self w)) = Some i) ->
  insert_unchecked E debug k v w = insert E debug k v w.
Proof.
  intros Hw [Hroom|[i Hf]].
  - apply insert_unchecked_eq_insert; assumption.
  - apply (insert_unchecked_eq_insert_present E debug ck cq HL k v i w Hw Hf).
Qed.

Lemma insert_unchecked_spec k v (w : world) :
  WF (self w) ->
  (len (self w) < cap (self w) \/ exists i, find_idx ck (ck k) (elems (self w)) = Some i) ->
  wp (insert_unchecked E debug k v)
     (fun r w' => WF (self w') /\ cap (self w') = cap (self w) /\
                  elems (self w') = fst (fst (l_insert ck (elems (self w)) k v false)) /\
                  r = option_map snd (snd (l_insert ck (elems (self w)) k v false)) /\
                  logged w w' (match snd (l_insert ck (elems (self w)) k v false) with
                               | Some (k', _) => ev_drops (idK E k') | None => [] end))
     (fun _ => False) w.
Proof.
  intros Hw Hc. pose proof (insert_lawful E debug ck cq HL k v w Hw) as H.
  unfold wp in *. rewrite (insert_unchecked_eq_insert_contract k v w Hw Hc).
  destruct (insert E debug k v w) as [r w'|w'|]; [exact H | | exact H].
  destruct H as (_ & _ & Hn & Hfull). destruct Hc as [Hroom|[i Hf]]; [lia | congruence].
Qed.

(* key uniqueness for a general class function *)
Lemma Uniq_l_insert_gen (l : list kv) k v u : Uniq ck l -> Uniq ck (fst (fst (l_insert ck l k v u))).
Proof.
  intros Hu. unfold l_insert. destruct (find_idx ck (ck k) l) as [i|] eqn:Hf.
  - destruct (find_idx_inv ck (ck k) l i Hf) as [[[k0 v0] [Hp Hc]] _]. rewrite Hp.
    cbn [fst] in Hc. unfold Uniq in *.
    destruct u; cbn [fst].
    + rewrite (map_upd_same (fun p : kv => ck (fst p)) l i (k, v) (k0, v0) Hp); [exact Hu | cbn [fst]; congruence].
    + rewrite (map_upd_same (fun p : kv => ck (fst p)) l i (k0, v) (k0, v0) Hp); [exact Hu | reflexivity].
  - cbn [fst]. apply (Uniq_snoc ck l (k, v)); [exact Hu | exact Hf].
Qed.

Lemma insert_unchecked_keeps_uniq k v (w : world) :
  WF (self w) -> Uniq ck (elems (self w)) ->
  (len (self w) < cap (self w) \/ exists i, find_idx ck (ck k) (elems (self w)) = Some i) ->
  wp (insert_unchecked E debug k v)
     (fun _ w' => WF (self w') /\ cap (self w') = cap (self w) /\ Uniq ck (elems (self w')))
     (fun _ => False) w.
Proof.
  intros Hw Hu Hc.
  eapply wp_mono; [apply (insert_unchecked_spec k v w Hw Hc) | | auto]; cbn beta.
  intros r w' (Hw' & Hc' & He & _). split; [exact Hw'|]. split; [exact Hc'|].
  rewrite He. apply Uniq_l_insert_gen. exact Hu.
Qed.

(* D12 (finding 12): histories.  A history of dictionary operations in which
   some inserts are made through insert_unchecked. *)
Inductive uop :=
| UBase (o : @dop K V Q)
| UInsertUnchecked (k : K) (v : V).

Definition erase (o : uop) : @dop K V Q :=
  match o with UBase o => o | UInsertUnchecked k v => DInsert k v end.

Definition mstep_u (o : uop) : M (@dres K V) :=
  match o with
  | UBase o => mstep E debug o
  | UInsertUnchecked k v =>
      r <- insert_unchecked E debug k v ;; ret (match r with None => RNone | Some v0 => RVal v0 end)
  end.

(* the documented contract, checked on the IDEAL dictionary of capacity n *)
Definition contract_u (n : nat) (o : uop) (d : list kv) : Prop :=
  match o with
  | UBase _ => True
  | UInsertUnchecked k _ => d_find ck d (ck k) <> None \/ length d < n
  end.

Fixpoint contracts_u (n : nat) (ops : list uop) (d : list kv) : Prop :=
  match ops with
  | [] => True
  | o :: t => contract_u n o d /\ contracts_u n t (snd (dstep ck cq n (erase o) d))
  end.

Fixpoint mrun_u (ops : list uop) (w : world) : list (@dres K V) :=
  match ops with
  | [] => []
  | o :: t => match mstep_u o w with
              | Ok r w' => r :: mrun_u t w'
              | Panic w' => RPanic :: mrun_u t w'
              | UB => []
              end
  end.

Fixpoint mfinal_u (ops : list uop) (w : world) : option world :=
  match ops with
  | [] => Some w
  | o :: t => match mstep_u o w with
              | Ok _ w' => mfinal_u t w'
              | Panic w' => mfinal_u t w'
              | UB => None
              end
  end.

(* one step: the same outcome (result, container, log, callback state) as insert *)
Lemma mstep_u_eq n (o : uop) (w : world) (d : list kv) :
  Abs ck (self w) d -> cap (self w) = n -> contract_u n o d ->
  mstep_u o w = mstep E debug (erase o) w.
Proof.
  intros Ha Hc Hk. destruct o as [o|k v]; [reflexivity|].
  cbn [mstep_u erase mstep]. unfold bind.
  pose proof Ha as (Hw & Hu & Hp).
  rewrite (insert_unchecked_eq_insert_contract k v w Hw); [reflexivity|].
  cbn [contract_u] in Hk. destruct Hk as [Hpres|Hroom].
  - right. destruct (find_idx ck (ck k) (elems (self w))) as [i|] eqn:Hf; [exists i; reflexivity|].
    exfalso. apply Hpres. exact (proj1 (d_abs_none ck _ _ _ Hu Hp Hf)).
  - left. rewrite (abs_len ck w d Ha). lia.
Qed.

Theorem run_u_eq n (ops : list uop) : forall (w : world) (d : list kv),
  Abs ck (self w) d -> cap (self w) = n -> contracts_u n ops d ->
  mrun_u ops w = mrun E debug (List.map erase ops) w /\
  mfinal_u ops w = mfinal E debug (List.map erase ops) w.
Proof.
  induction ops as [|o t IH]; intros w d Ha Hc Hk; [split; reflexivity|].
  cbn [contracts_u] in Hk. destruct Hk as [Hk Hkt].
  cbn [mrun_u mfinal_u List.map mrun mfinal]. rewrite (mstep_u_eq n o w d Ha Hc Hk).
  pose proof (step_refines E debug ck cq HL n (erase o) w d Ha Hc) as Hs.
  destruct (mstep E debug (erase o) w) as [r w'|w'|]; [| |split; reflexivity].
  - destruct Hs as (_ & Ha' & Hc'). destruct (IH w' _ Ha' Hc' Hkt) as [H1 H2]. rewrite H1, H2. split; reflexivity.
  - destruct Hs as (_ & Hd & Hs'). rewrite Hd in Hkt. rewrite <- Hs' in Ha, Hc.
    destruct (IH w' _ Ha Hc Hkt) as [H1 H2]. rewrite H1, H2. split; reflexivity.
Qed.

(* hence such a history refines the ideal dictionary like any other: same
   results, a final state that exists (no UB on the way) and abstracts to the
   dictionary's final state, same capacity *)
Theorem run_u_refines n (ops : list uop) (w : world) (d : list kv) :
  Abs ck (self w) d -> cap (self w) = n -> contracts_u n ops d ->
  mrun_u ops w = drun ck cq n (List.map erase ops) d /\
  exists wf, mfinal_u ops w = Some wf /\
             Abs ck (self wf) (dfinal ck cq n (List.map erase ops) d) /\ cap (self wf) = n.
Proof.
  intros Ha Hc Hk. destruct (run_u_eq n ops w d Ha Hc Hk) as [H1 H2]. rewrite H1, H2. split.
  - apply (run_refines E debug ck cq HL); assumption.
  - apply (run_refines_state E debug ck cq HL); assumption.
Qed.

Theorem run_u_refines_new n (ops : list uop) s lg :
  contracts_u n ops [] ->
  mrun_u ops {| cb := s; log := lg; self := new_map n |} = drun ck cq n (List.map erase ops) [] /\
  exists wf, mfinal_u ops {| cb := s; log := lg; self := new_map n |} = Some wf /\
             Abs ck (self wf) (dfinal ck cq n (List.map erase ops) []) /\ cap (self wf) = n.
Proof. intros Hk. apply run_u_refines; cbn [self]; [apply Abs_new | apply cap_new | exact Hk]. Qed.

End LawfulU.
End Unchecked.

(* ======================================================================== *)
(* ROUND 2                                                                   *)
(* ======================================================================== *)
Require Import Proofs.SetDict Proofs.MoreOwned.

(* ---------------------------------------------------------------------- *)
(* PART E — C14, second audit                                               *)
Section EqIff2.
Context {K V Q T : Type} (E : env K V Q T).
Context (ck : K -> N) (cq : Q -> N) (HL : Lawful E ck cq).
Context (veq : V -> V -> bool) (HV : forall s a b, fst (eqV E s a b) = if veq a b then Yes else No).
Notation world := (world K V T). Notation map := (map K V). Notation kv := (K * V)%type.

(* E6 (finding 6): the environment-level laws used by map_eq_sym_run /
   map_eq_refl_run are EQUIVALENT (given HV) to the laws of the boolean function
   veq: nothing beyond "V's == is symmetric / reflexive" is assumed *)
Lemma eqV_sym_of_veq : (forall x y, veq x y = veq y x) ->
  forall s s' x y, fst (eqV E s x y) = fst (eqV E s' y x).
Proof. intros Hs s s' x y. rewrite !HV, (Hs x y). reflexivity. Qed.

Lemma eqV_refl_of_veq : (forall x, veq x x = true) -> forall s x, fst (eqV E s x x) = Yes.
Proof. intros Hr s x. rewrite HV, Hr. reflexivity. Qed.

Lemma map_eq_sym_run_veq (a b : map) (w : world) :
  (forall x y, veq x y = veq y x) ->
  WF a -> WF b -> Uniq ck (elems a) -> Uniq ck (elems b) ->
  exists r w1 w2, map_eq E a b w = Ok r w1 /\ map_eq E b a w = Ok r w2 /\ stable w w1 /\ stable w w2.
Proof. intros Hs. apply (map_eq_sym_run E ck cq HL veq HV a b w (eqV_sym_of_veq Hs)). Qed.

Lemma map_eq_refl_run_veq (a : map) (w : world) :
  (forall x, veq x x = true) ->
  WF a -> Uniq ck (elems a) ->
  exists w', map_eq E a a w = Ok true w' /\ stable w w'.
Proof. intros Hr. apply (map_eq_refl_run E ck cq HL veq HV a w (eqV_refl_of_veq Hr)). Qed.

(* E4 (finding 4): histories whose ideal dictionaries hold the same classes with
   ==-related values (NOT necessarily the same objects) give containers that
   compare equal.  Replaces map_eq_same_dict, whose hypothesis equated the
   stored (key object, value) pairs themselves. *)
Lemma map_eq_agree_dict (debug : bool) (na nb : nat) (ops_a ops_b : list (@dop K V Q))
      (sa sb : T) (la lb : list event) :
  (forall c, match d_find ck (dfinal ck cq na ops_a []) c, d_find ck (dfinal ck cq nb ops_b []) c with
             | Some (_, v), Some (_, v') => veq v' v = true
             | None, None => True
             | _, _ => False
             end) ->
  exists wa wb,
    mfinal E debug ops_a {| cb := sa; log := la; self := new_map na |} = Some wa /\
    mfinal E debug ops_b {| cb := sb; log := lb; self := new_map nb |} = Some wb /\
    forall w : world, exists w', map_eq E (self wa) (self wb) w = Ok true w' /\ stable w w'.
Proof.
  intros Hd.
  destruct (map_eq_histories E ck cq HL veq HV debug na nb ops_a ops_b sa sb la lb)
    as (wa & wb & Hfa & Hfb & _ & _ & H).
  exists wa, wb. split; [exact Hfa|]. split; [exact Hfb|]. intros w.
  specialize (H w). unfold wp in H.
  destruct (map_eq E (self wa) (self wb) w) as [r w'|w'|]; [|contradiction|contradiction].
  destruct H as [Hst Hiff]. exists w'. split; [|exact Hst]. f_equal. apply Hiff. exact Hd.
Qed.

End EqIff2.

(* E5 (finding 5): the Set twin of map_eq_histories.  Two histories of the nine
   set operations (SetDict.sop) run from empty sets of any capacities: both runs
   exist, and == on the results answers true exactly when the two IDEAL sets
   (SetDict.fsfinal) hold the same element classes.
   Reflexivity / symmetry for sets are the instances of map_eq_refl_run_veq /
   map_eq_sym_run_veq at veq := fun _ _ => true (trivially reflexive and
   symmetric): see set_eq_sym_run / set_eq_refl_run below. *)
Section SetEq2.
Context {K Q T : Type} (E : env K unit Q T).
Context (ck : K -> N) (cq : Q -> N) (HL : Lawful E ck cq).
Context (HVu : forall s a b, fst (eqV E s a b) = Yes).
Notation world := (world K unit T).

Lemma sabs_classes (m : map K unit) (s : list K) c :
  SAbs ck m s -> (In c (List.map (fun p => ck (fst p)) (elems m)) <-> In c (List.map ck s)).
Proof.
  intros (_ & _ & Hp). rewrite <- (map_map fst ck).
  split; apply Permutation_in; [|apply Permutation_sym]; apply Permutation_map; exact Hp.
Qed.

Lemma set_eq_histories (debug : bool) (na nb : nat) (ops_a ops_b : list (@sop K Q))
      (sa sb : T) (la lb : list event) :
  exists wa wb,
    smfinal E debug ops_a {| cb := sa; log := la; self := new_map na |} = Some wa /\
    smfinal E debug ops_b {| cb := sb; log := lb; self := new_map nb |} = Some wb /\
    cap (self wa) = na /\ cap (self wb) = nb /\
    forall w : world,
      wp (map_eq E (self wa) (self wb))
         (fun r w' => stable w w' /\
            (r = true <->
             forall c, In c (List.map ck (fsfinal ck cq na ops_a [])) <->
                       In c (List.map ck (fsfinal ck cq nb ops_b []))))
         (fun _ => False) w.
Proof.
  destruct (srun_refines_state_new E debug ck cq HL na ops_a sa la) as (wa & Hfa & Aa & Hca).
  destruct (srun_refines_state_new E debug ck cq HL nb ops_b sb lb) as (wb & Hfb & Ab & Hcb).
  exists wa, wb. repeat (split; [assumption|]). intros w.
  pose proof Aa as (Ha & Hua & _). pose proof Ab as (Hb & Hub & _).
  eapply wp_mono; [apply (set_eq_iff E ck cq HL HVu (self wa) (self wb) w Ha Hb Hua Hub) | | auto]; cbn beta.
  intros r w' [Hst Hiff]. split; [exact Hst|]. rewrite Hiff.
  split; intros H c; specialize (H c).
  - rewrite <- (sabs_classes _ _ c Aa), <- (sabs_classes _ _ c Ab). exact H.
  - rewrite (sabs_classes _ _ c Aa), (sabs_classes _ _ c Ab). exact H.
Qed.

Lemma set_eq_sym_run (a b : map K unit) (w : world) :
  WF a -> WF b -> Uniq ck (elems a) -> Uniq ck (elems b) ->
  exists r w1 w2, map_eq E a b w = Ok r w1 /\ map_eq E b a w = Ok r w2 /\ stable w w1 /\ stable w w2.
Proof.
  apply (map_eq_sym_run_veq E ck cq HL (fun _ _ : unit => true) HVu a b w). reflexivity.
Qed.

Lemma set_eq_refl_run (a : map K unit) (w : world) :
  WF a -> Uniq ck (elems a) -> exists w', map_eq E a a w = Ok true w' /\ stable w w'.
Proof.
  apply (map_eq_refl_run_veq E ck cq HL (fun _ _ : unit => true) HVu a w). reflexivity.
Qed.

End SetEq2.

(* ---------------------------------------------------------------------- *)
(* PART F — C15, second audit: findings 2 and 3                             *)

(* F3 (finding 3): clone_lawful instantiated at the two environments of the
   correspondence check WITH its log clause: exactly one K::clone and one
   V::clone event per stored entry, in slot order *)
Lemma clone_honest_map_full sc (src : map key vobj) (w : world key vobj cstate) : honest sc ->
  WF src -> WF (self w) -> len (self w) = 0 -> cap (self w) = cap src ->
  wp (clone_from_src (env_map sc) src)
     (fun _ w' => WF (self w') /\ cap (self w') = cap src /\ len (self w') = len src /\
        Forall2 (fun p p' => kcls (fst p') = kcls (fst p) /\ N.eqb (vdat (snd p')) (vdat (snd p)) = true)
                (Spec.elems src) (Spec.elems (self w')) /\
        logged w w' (flat_map (fun p : key * vobj => [EvCloneK (kid (fst p)); EvCloneV (vid (snd p))])
                              (Spec.elems src)))
     (fun _ => False) w.
Proof.
  intros Hh Hsrc Hw Hl Hc.
  exact (clone_lawful (env_map sc) kcls (fun a b => N.eqb (vdat a) (vdat b))
           (env_map_cloneK sc Hh) (env_map_cloneV sc Hh) src w Hsrc Hw Hl Hc).
Qed.

Lemma clone_honest_set_full sc (src : map key unit) (w : world key unit cstate) : honest sc ->
  WF src -> WF (self w) -> len (self w) = 0 -> cap (self w) = cap src ->
  wp (clone_from_src (env_set sc) src)
     (fun _ w' => WF (self w') /\ cap (self w') = cap src /\ len (self w') = len src /\
        Forall2 (fun p p' : key * unit => kcls (fst p') = kcls (fst p)) (Spec.elems src) (Spec.elems (self w')) /\
        logged w w' (flat_map (fun p : key * unit => [EvCloneK (kid (fst p))]) (Spec.elems src)))
     (fun _ => False) w.
Proof.
  intros Hh Hsrc Hw Hl Hc.
  eapply wp_mono;
    [apply (clone_lawful (env_set sc) kcls (fun _ _ : unit => true)
              (env_set_cloneK sc Hh) (env_set_cloneV sc) src w Hsrc Hw Hl Hc) | | auto]; cbn beta.
  intros _ w' (H1 & H2 & H3 & H4 & H5). split; [exact H1|]. split; [exact H2|]. split; [exact H3|]. split.
  - eapply Forall2_impl'; [|exact H4]. cbn beta. intros a b [H _]. exact H.
  - exact H5.
Qed.

(* F2 (finding 2): a later HISTORY on one copy cannot destroy, store or hand out
   an object of the other copy.  ANY environment.  [foreign] = identities that
   the container does not hold and that no operation of the history hands in. *)
Section Foreign.
Context {K V Q T : Type} (E : env K V Q T) (debug : bool).
Notation world := (world K V T). Notation map := (map K V).

Lemma history_foreign_untouched (foreign : list N) (ops : list (@dop K V Q)) (w : world) :
  WF (self w) -> Forall (op_ok E) ops ->
  (forall x, In x foreign -> ~ In x (owned E (self w)) /\ ~ In x (flat_map (op_ins E) ops) /\
                             ~ In x (dropped (log w))) ->
  exists wf, mfinal E debug ops w = Some wf /\ WF (self wf) /\
    forall x, In x foreign ->
      ~ In x (owned E (self wf)) /\ ~ In x (mouts E debug ops w) /\ ~ In x (dropped (log wf)).
Proof.
  intros Hw Hok Hf.
  destruct (run_acct E debug ops w Hw Hok) as (wf & lost & H1 & H2 & _ & HP).
  exists wf. split; [exact H1|]. split; [exact H2|]. intros x Hx. destruct (Hf x Hx) as (Ha & Hb & Hc).
  apply (count_occ_not_In N.eq_dec) in Ha. apply (count_occ_not_In N.eq_dec) in Hb.
  apply (count_occ_not_In N.eq_dec) in Hc.
  apply (perm_cnt1 _ _ x) in HP. rewrite !count_occ_app in HP.
  split; [apply (proj2 (count_occ_not_In N.eq_dec _ x)); lia|].
  split; apply (proj2 (count_occ_not_In N.eq_dec _ x)); lia.
Qed.

(* composed with clone_disjoint_run: after a Clone that returned, run ANY history
   of dictionary operations on the clone (resp. on the original), from any later
   world holding it in which the other copy's objects are alive (not in the drop
   log), handing in only identities that are not the other copy's: afterwards no
   identity of the other copy is stored in the mutated copy, has been handed out
   by the history, or HAS BEEN DESTROYED *)
Lemma clone_then_history_independent (src : map) (w : world) :
  WF src -> WF (self w) -> len (self w) = 0 -> cap (self w) = cap src -> Tidy (self w) ->
  (forall x, In x (flat_map (ids_pair E) (clone_made E src (len src) 0 (cb w))) -> ~ In x (owned E src)) ->
  wp (clone_from_src E src)
     (fun _ w' =>
        (forall (ops : list (@dop K V Q)) (w2 : world),
            self w2 = self w' -> Forall (op_ok E) ops ->
            (forall x, In x (owned E src) -> ~ In x (flat_map (op_ins E) ops) /\ ~ In x (dropped (log w2))) ->
            exists wf, mfinal E debug ops w2 = Some wf /\
              forall x, In x (owned E src) ->
                ~ In x (owned E (self wf)) /\ ~ In x (mouts E debug ops w2) /\ ~ In x (dropped (log wf))) /\
        (forall (ops : list (@dop K V Q)) (w2 : world),
            self w2 = src -> Forall (op_ok E) ops ->
            (forall x, In x (owned E (self w')) -> ~ In x (flat_map (op_ins E) ops) /\ ~ In x (dropped (log w2))) ->
            exists wf, mfinal E debug ops w2 = Some wf /\
              forall x, In x (owned E (self w')) ->
                ~ In x (owned E (self wf)) /\ ~ In x (mouts E debug ops w2) /\ ~ In x (dropped (log wf))))
     (fun _ => True) w.
Proof.
  intros Hsrc Hw Hl Hc Ht Hfresh.
  eapply wp_mono; [apply (clone_disjoint_run E src w Hsrc Hw Hl Hc Ht Hfresh) | | auto]; cbn beta.
  intros _ w' (Hw' & _ & _ & _ & Hd1 & Hd2). split.
  - intros ops w2 Hs2 Hok Hins.
    destruct (history_foreign_untouched (owned E src) ops w2) as (wf & H1 & _ & H2);
      [rewrite Hs2; exact Hw' | exact Hok | | eauto].
    intros x Hx. destruct (Hins x Hx) as [Hi1 Hi2].
    split; [rewrite Hs2; apply Hd2; exact Hx | split; assumption].
  - intros ops w2 Hs2 Hok Hins.
    destruct (history_foreign_untouched (owned E (self w')) ops w2) as (wf & H1 & _ & H2);
      [rewrite Hs2; exact Hsrc | exact Hok | | eauto].
    intros x Hx. destruct (Hins x Hx) as [Hi1 Hi2].
    split; [rewrite Hs2; apply Hd1; exact Hx | split; assumption].
Qed.

End Foreign.

(* ---------------------------------------------------------------------- *)
(* PART G — C18, second audit                                               *)
Section Unchecked2.
Context {K V Q T : Type} (E : env K V Q T) (debug : bool).
Context (ck : K -> N) (cq : Q -> N) (HL : Lawful E ck cq).
Notation world := (world K V T). Notation map := (map K V). Notation kv := (K * V)%type.
Notation M := (M K V T).

(* G7 (finding 7): the ownership ledger of insert_unchecked within its whole
   contract, as ONE statement: it cannot panic; what was stored, handed in and
   destroyed before = what is stored, handed back, (lost) and destroyed after;
   from a tidy container nothing is lost *)
Lemma insert_unchecked_acct k v (w : world) :
  WF (self w) ->
  (len (self w) < cap (self w) \/ exists i, find_idx ck (ck k) (elems (self w)) = Some i) ->
  wp (insert_unchecked E debug k v)
     (fun r w' => WF (self w') /\ cap (self w') = cap (self w) /\
        exists lost, acct E w w' (ids_pair E (k, v)) (match r with Some v0 => idV E v0 | None => [] end) lost /\
                     (Tidy (self w) -> lost = [] /\ Tidy (self w')))
     (fun _ => False) w.
Proof.
  intros Hw Hc.
  pose proof (insert_unchecked_spec E debug ck cq HL k v w Hw Hc) as H1.
  pose proof (conserves_insert E debug k v w Hw) as H2.
  unfold wp in *. rewrite (insert_unchecked_eq_insert_contract E debug ck cq HL k v w Hw Hc) in *.
  destruct (insert E debug k v w) as [r w'|w'|]; [exact H2 | exact H1 | exact H1].
Qed.

(* G8 (finding 8): histories that also contain get_disjoint_mut /
   get_disjoint_unchecked_mut calls.  The observable result of such a call is
   what the returned references point to; on the ideal dictionary: the
   association of every requested class. *)
Inductive wop :=
| WBase (o : @uop K V Q)
| WDisjoint (unchecked : bool) (ks : list Q).

Inductive wres := WR (r : @dres K V) | WMany (l : list (option kv)).

Fixpoint read_opt_slots (l : list (option nat)) : M (list (option kv)) :=
  match l with
  | [] => ret []
  | None :: t => r <- read_opt_slots t ;; ret (None :: r)
  | Some i :: t => p <- p_ref i ;; r <- read_opt_slots t ;; ret (Some p :: r)
  end.

Definition mstep_w (o : wop) : M wres :=
  match o with
  | WBase o => r <- mstep_u E debug o ;; ret (WR r)
  | WDisjoint u ks =>
      l <- (if u then get_disjoint_unchecked_mut E ks else get_disjoint_mut E ks) ;;
      r <- read_opt_slots l ;; ret (WMany r)
  end.

(* every unchecked call is replaced by its checked counterpart *)
Definition erase_w (o : wop) : wop :=
  match o with
  | WBase o => WBase (UBase (erase o))
  | WDisjoint _ ks => WDisjoint false ks
  end.

(* the ideal dictionary: the checked call panics on overlapping requests; the
   flag does not occur *)
Definition dstep_w (n : nat) (o : wop) (d : list kv) : wres * list kv :=
  match o with
  | WBase o => let '(r, d') := dstep ck cq n (erase o) d in (WR r, d')
  | WDisjoint _ ks =>
      (if nodupb (List.map cq ks) then WMany (List.map (fun q => d_find ck d (cq q)) ks) else WR RPanic, d)
  end.

(* the documented contracts: insert_unchecked as before; get_disjoint_unchecked_mut:
   pairwise different requested classes *)
Definition contract_w (n : nat) (o : wop) (d : list kv) : Prop :=
  match o with
  | WBase o => contract_u ck n o d
  | WDisjoint true ks => NoDup (List.map cq ks)
  | WDisjoint false _ => True
  end.

Fixpoint contracts_w (n : nat) (ops : list wop) (d : list kv) : Prop :=
  match ops with
  | [] => True
  | o :: t => contract_w n o d /\ contracts_w n t (snd (dstep_w n o d))
  end.

Fixpoint mrun_w (ops : list wop) (w : world) : list wres :=
  match ops with
  | [] => []
  | o :: t => match mstep_w o w with
              | Ok r w' => r :: mrun_w t w'
              | Panic w' => WR RPanic :: mrun_w t w'
              | UB => []
              end
  end.

Fixpoint mfinal_w (ops : list wop) (w : world) : option world :=
  match ops with
  | [] => Some w
  | o :: t => match mstep_w o w with
              | Ok _ w' => mfinal_w t w'
              | Panic w' => mfinal_w t w'
              | UB => None
              end
  end.

Fixpoint drun_w (n : nat) (ops : list wop) (d : list kv) : list wres :=
  match ops with
  | [] => []
  | o :: t => let '(r, d') := dstep_w n o d in r :: drun_w n t d'
  end.

Fixpoint dfinal_w (n : nat) (ops : list wop) (d : list kv) : list kv :=
  match ops with
  | [] => d
  | o :: t => dfinal_w n t (snd (dstep_w n o d))
  end.

Lemma read_opt_slots_spec (l : list kv) : forall (qs : list N) (w : world),
  WF (self w) -> elems (self w) = l ->
  wp (read_opt_slots (List.map (fun c => find_idx ck c l) qs))
     (fun r w' => w' = w /\ r = List.map (fun c => lookup ck l c) qs) (fun _ => False) w.
Proof.
  induction qs as [|c qs IH]; intros w Hw He; cbn [List.map read_opt_slots].
  - apply wp_ret. split; reflexivity.
  - unfold lookup at 1. destruct (find_idx ck c l) as [i|] eqn:Hf.
    + destruct (find_idx_inv ck c l i Hf) as [[p [Hp _]] _]. rewrite <- He in Hp.
      destruct (elems_nth_slot _ _ _ Hw Hp) as [_ Hsl]. rewrite He in Hp. rewrite Hp.
      apply wp_bind. eapply wp_p_ref; [exact Hsl|]. apply wp_bind.
      eapply wp_mono; [apply (IH w Hw He) | | auto]; cbn beta.
      intros r w' [-> ->]. apply wp_ret. split; reflexivity.
    + apply wp_bind. eapply wp_mono; [apply (IH w Hw He) | | auto]; cbn beta.
      intros r w' [-> ->]. apply wp_ret. split; reflexivity.
Qed.

Lemma world_stable_eq (w w' : world) : stable w w' -> w' = with_cb w (cb w').
Proof. intros [Hs Hl]. unfold with_cb. rewrite <- Hs, <- Hl. apply world_eta. Qed.

(* one step refines the ideal step *)
Lemma step_w_refines n (o : wop) (w : world) (d : list kv) :
  Abs ck (self w) d -> cap (self w) = n -> contract_w n o d ->
  match mstep_w o w with
  | Ok r w' => fst (dstep_w n o d) = r /\ Abs ck (self w') (snd (dstep_w n o d)) /\ cap (self w') = n
  | Panic w' => fst (dstep_w n o d) = WR RPanic /\ snd (dstep_w n o d) = d /\ self w' = self w
  | UB => False
  end.
Proof.
  intros Ha Hc Hk. destruct o as [o|u ks].
  - cbn [mstep_w dstep_w contract_w] in *. unfold bind.
    rewrite (mstep_u_eq E debug ck cq HL n o w d Ha Hc Hk).
    pose proof (step_refines E debug ck cq HL n (erase o) w d Ha Hc) as Hs.
    destruct (dstep ck cq n (erase o) d) as [r' d']. cbn [fst snd] in *.
    destruct (mstep E debug (erase o) w) as [r w'|w'|]; [|exact (match Hs with conj H1 H2 => conj (f_equal WR H1) H2 end)|exact Hs].
    destruct Hs as (<- & H2). cbn [ret]. split; [reflexivity | exact H2].
  - cbn [mstep_w dstep_w fst snd]. pose proof Ha as (Hw & Hu & Hp).
    assert (Hchecked : NoDup (List.map cq ks) ->
              forall c : M (list (option nat)),
                wp c (fun r w' => stable w w' /\ r = List.map (fun q => find_idx ck (cq q) (elems (self w))) ks)
                   (fun _ => False) w ->
                match bind c (fun l => r <- read_opt_slots l ;; ret (WMany r)) w with
                | Ok r w' => WMany (List.map (fun q => d_find ck d (cq q)) ks) = r /\ Abs ck (self w') d /\ cap (self w') = n
                | Panic _ => False
                | UB => False
                end).
    { intros Hnd c Hcw. unfold bind at 1. unfold wp in Hcw.
      destruct (c w) as [l w1|w1|]; [|contradiction|contradiction].
      destruct Hcw as [Hst ->]. pose proof Hst as [Hs1 _].
      pose proof (read_opt_slots_spec (elems (self w)) (List.map cq ks) w1) as Hr.
      rewrite map_map in Hr. specialize (Hr ltac:(rewrite Hs1; exact Hw) ltac:(rewrite Hs1; reflexivity)).
      unfold bind. unfold wp in Hr.
      destruct (read_opt_slots _ w1) as [r w2|w2|]; [|contradiction|contradiction].
      destruct Hr as [-> ->]. cbn [ret]. rewrite Hs1. split; [|split; [exact Ha | exact Hc]].
      f_equal. rewrite map_map. apply map_ext. intros q. symmetry. apply (abs_lookup_dfind ck (self w) d (cq q) Ha). }
    destruct (nodupb (List.map cq ks)) eqn:Hnb.
    + assert (Hnd : NoDup (List.map cq ks)) by (apply nodupb_spec; exact Hnb).
      destruct u.
      * pose proof (Hchecked Hnd _ (disjoint_unchecked_lawful E ck cq HL ks w Hw Hu Hnd)) as H.
        destruct (bind _ _ w) as [r w'|w'|]; [exact H | destruct H | destruct H].
      * pose proof (Hchecked Hnd _ (disjoint_lawful E ck cq HL ks w Hw Hu Hnd)) as H.
        destruct (bind _ _ w) as [r w'|w'|]; [exact H | destruct H | destruct H].
    + assert (Hnd : ~ NoDup (List.map cq ks)).
      { intros H. apply nodupb_spec in H. congruence. }
      destruct u; [cbn [contract_w] in Hk; contradiction|].
      pose proof (disjoint_overlap_panics E ck cq HL ks w Hw Hnd) as H. unfold wp in H. unfold bind.
      destruct (get_disjoint_mut E ks w) as [r w'|w'|]; [destruct H | | destruct H].
      split; [reflexivity|]. split; [reflexivity | apply H].
Qed.

Theorem run_w_refines n (ops : list wop) : forall (w : world) (d : list kv),
  Abs ck (self w) d -> cap (self w) = n -> contracts_w n ops d ->
  mrun_w ops w = drun_w n ops d /\
  exists wf, mfinal_w ops w = Some wf /\ Abs ck (self wf) (dfinal_w n ops d) /\ cap (self wf) = n.
Proof.
  induction ops as [|o t IH]; intros w d Ha Hc Hk.
  - split; [reflexivity|]. exists w. split; [reflexivity|]. split; assumption.
  - cbn [contracts_w] in Hk. destruct Hk as [Hk Hkt].
    cbn [mrun_w mfinal_w drun_w dfinal_w].
    pose proof (step_w_refines n o w d Ha Hc Hk) as Hs.
    destruct (dstep_w n o d) as [r' d'] eqn:Hd. cbn [fst snd] in *.
    destruct (mstep_w o w) as [r w'|w'|]; [| |destruct Hs].
    + destruct Hs as (<- & Ha' & Hc'). destruct (IH w' d' Ha' Hc' Hkt) as [H1 H2]. rewrite H1. split; [reflexivity | exact H2].
    + destruct Hs as (-> & -> & Hs'). rewrite <- Hs' in Ha, Hc.
      destruct (IH w' d Ha Hc Hkt) as [H1 H2]. rewrite H1. split; [reflexivity | exact H2].
Qed.

(* the ideal run does not see whether a call was checked or unchecked ... *)
Lemma dstep_w_erase n o d : dstep_w n (erase_w o) d = dstep_w n o d.
Proof. destruct o as [[o|k v]|u ks]; reflexivity. Qed.

Lemma drun_w_erase n ops : forall d,
  drun_w n (List.map erase_w ops) d = drun_w n ops d /\ dfinal_w n (List.map erase_w ops) d = dfinal_w n ops d.
Proof.
  induction ops as [|o t IH]; intros d; [split; reflexivity|].
  cbn [List.map drun_w dfinal_w]. rewrite dstep_w_erase.
  destruct (dstep_w n o d) as [r d']. cbn [snd]. destruct (IH d') as [H1 H2]. rewrite H1, H2. split; reflexivity.
Qed.

Lemma contracts_w_erase n ops : forall d, contracts_w n ops d -> contracts_w n (List.map erase_w ops) d.
Proof.
  induction ops as [|o t IH]; intros d Hk; [exact I|].
  cbn [List.map contracts_w] in *. destruct Hk as [Hk Hkt]. rewrite dstep_w_erase. split; [|apply IH; exact Hkt].
  destruct o as [[o|k v]|u ks]; exact I.
Qed.

(* ... hence a history with unchecked calls (insert_unchecked,
   get_disjoint_unchecked_mut) made within their contracts has exactly the
   results of the history in which every one of them is replaced by the checked
   call, and both end in containers holding the same dictionary *)
Theorem run_w_eq_checked n (ops : list wop) (w : world) (d : list kv) :
  Abs ck (self w) d -> cap (self w) = n -> contracts_w n ops d ->
  mrun_w ops w = mrun_w (List.map erase_w ops) w /\
  exists wf wf', mfinal_w ops w = Some wf /\ mfinal_w (List.map erase_w ops) w = Some wf' /\
                 Abs ck (self wf) (dfinal_w n ops d) /\ Abs ck (self wf') (dfinal_w n ops d) /\
                 cap (self wf) = n /\ cap (self wf') = n.
Proof.
  intros Ha Hc Hk.
  destruct (run_w_refines n ops w d Ha Hc Hk) as (H1 & wf & H2 & H3 & H4).
  destruct (run_w_refines n (List.map erase_w ops) w d Ha Hc (contracts_w_erase n ops d Hk)) as (H1' & wf' & H2' & H3' & H4').
  destruct (drun_w_erase n ops d) as [He1 He2]. rewrite He1 in H1'. rewrite He2 in H3'.
  split; [congruence|]. exists wf, wf'. auto 10.
Qed.

End Unchecked2.

(* ======================================================================== *)
(* PART H — C15 finding 1: the identity counter is above every stored         *)
(* identity in EVERY state the interpreter reaches (every script)             *)
(* ======================================================================== *)
(* H0. a small logic: [NB F ida c] - started in a world whose stored identities
   and whose free identities F (arguments, locals) are all below the counter
   next_id, the computation c (whatever its outcome) ends in such a world again,
   the identities [ida a] carried by its result are below the counter, and the
   counter did not decrease.  UB is vacuous here (it is excluded by ExecSafe). *)
Section NBGen.
Context {V : Type} (E : env key V query cstate).
Notation M := (M key V cstate). Notation world := (world key V cstate). Notation map := (map key V).
Notation kv := (key * V)%type.

Definition nid (w : world) : N := next_id (cb w).
Definition ltn (n : N) (l : list N) : Prop := forall id, In id l -> (id < n)%N.
Definition okm (n : N) (m : map) : Prop := ltn n (owned E m).
Definition okw (w : world) : Prop := okm (nid w) (self w).

Definition NB {A} (F : list N) (ida : A -> list N) (c : M A) : Prop :=
  forall w, okw w -> ltn (nid w) F ->
    match c w with
    | Ok a w' => okw w' /\ ltn (nid w') (ida a) /\ (nid w <= nid w')%N
    | Panic w' => okw w' /\ (nid w <= nid w')%N
    | UB => True
    end.

Definition no_ids {A} : A -> list N := fun _ => [].

Ltac nlia := unfold nid in *; cbn [cb] in *; lia.

Lemma ltn_mono n n' l : (n <= n')%N -> ltn n l -> ltn n' l.
Proof. intros Hle H id Hid. specialize (H id Hid). nlia. Qed.
Lemma ltn_incl n l l' : incl l' l -> ltn n l -> ltn n l'.
Proof. intros Hi H id Hid. apply H. apply Hi. exact Hid. Qed.
Lemma ltn_app n l l' : ltn n l -> ltn n l' -> ltn n (l ++ l').
Proof. intros H1 H2 id Hid. apply in_app_or in Hid. destruct Hid; auto. Qed.
Lemma ltn_nil n : ltn n [].
Proof. intros id []. Qed.

Lemma NB_conseq {A} F F' (ida ida' : A -> list N) (c : M A) :
  NB F ida c -> incl F F' -> (forall a, incl (ida' a) (ida a ++ F')) -> NB F' ida' c.
Proof.
  intros Hc Hi Ha w Hw HF. specialize (Hc w Hw (ltn_incl _ _ _ Hi HF)).
  destruct (c w) as [a w'|w'|]; [|exact Hc|exact I].
  destruct Hc as (H1 & H2 & H3). split; [exact H1|]. split; [|exact H3].
  apply (ltn_incl _ _ _ (Ha a)). apply ltn_app; [exact H2 | eapply ltn_mono; eauto].
Qed.

Lemma NB_bind {A B} F (ida : A -> list N) (idb : B -> list N) (c : M A) (f : A -> M B) :
  NB F ida c -> (forall a, NB (ida a ++ F) idb (f a)) -> NB F idb (bind c f).
Proof.
  intros Hc Hf w Hw HF. unfold bind. specialize (Hc w Hw HF).
  destruct (c w) as [a w1|w1|]; [|exact Hc|exact I].
  destruct Hc as (H1 & H2 & H3).
  specialize (Hf a w1 H1 (ltn_app _ _ _ H2 (ltn_mono _ _ _ H3 HF))).
  destruct (f a w1) as [b w2|w2|]; [|destruct Hf as [H4 H5]; split; [exact H4 | nlia]|exact I].
  destruct Hf as (H4 & H5 & H6). split; [exact H4|]. split; [exact H5 | nlia].
Qed.

Lemma NB_ret {A} F (ida : A -> list N) (a : A) : incl (ida a) F -> NB F ida (ret a).
Proof.
  intros Hi w Hw HF. cbn. split; [exact Hw|]. split; [eapply ltn_incl; eauto | nlia].
Qed.
Lemma NB_panic {A} F (ida : A -> list N) : NB F ida (@panic key V cstate A).
Proof. intros w Hw HF. cbn. split; [exact Hw | nlia]. Qed.
Lemma NB_ub {A} F (ida : A -> list N) : NB F ida (@ub key V cstate A).
Proof. intros w Hw HF. exact I. Qed.

(* a computation that leaves container and counter alone and returns nothing that
   carries an identity *)
Lemma NB_pure {A} F (c : M A) :
  (forall w, match c w with
             | Ok _ w' => self w' = self w /\ nid w' = nid w
             | Panic w' => self w' = self w /\ nid w' = nid w
             | UB => True end) ->
  NB F no_ids c.
Proof.
  intros H w Hw HF. specialize (H w). unfold okw in *.
  destruct (c w) as [a w'|w'|]; [| |exact I]; destruct H as [Hs Hn]; rewrite Hs, Hn.
  - split; [exact Hw|]. split; [apply ltn_nil | nlia].
  - split; [exact Hw | nlia].
Qed.

Lemma NB_get_len F : NB F no_ids (@get_len key V cstate).
Proof. apply NB_pure. intros w. split; reflexivity. Qed.
Lemma NB_get_cap F : NB F no_ids (@get_cap key V cstate).
Proof. apply NB_pure. intros w. split; reflexivity. Qed.
Lemma NB_emit F e : NB F no_ids (@emit key V cstate e).
Proof. apply NB_pure. intros w. split; reflexivity. Qed.
Lemma NB_cbk F f : (forall s, next_id (snd (f s)) = next_id s) -> NB F no_ids (@cbk key V cstate f).
Proof.
  intros Hf. apply NB_pure. intros w. unfold cbk. specialize (Hf (cb w)).
  destruct (f (cb w)) as [a s]. cbn [snd] in Hf. destruct a; split; try reflexivity; exact Hf.
Qed.
Lemma NB_cbd F f : (forall s, next_id (snd (f s)) = next_id s) -> NB F no_ids (@cbd key V cstate f).
Proof.
  intros Hf. apply NB_pure. intros w. unfold cbd. specialize (Hf (cb w)).
  destruct (f (cb w)) as [a s]. cbn [snd] in Hf. split; [reflexivity | exact Hf].
Qed.

(* a value-producing callback: the counter does not decrease and what is returned
   is below the new counter (or was among the free identities) *)
Lemma NB_cbo {A} F (ida : A -> list N) (f : cstate -> option A * cstate) :
  (forall s, (next_id s <= next_id (snd (f s)))%N /\
             match fst (f s) with
             | Some x => forall id, In id (ida x) -> (id < next_id (snd (f s)))%N \/ In id F
             | None => True end) ->
  NB F ida (cbo f).
Proof.
  intros Hf w Hw HF. unfold cbo. destruct (Hf (cb w)) as [Hle Hx].
  destruct (f (cb w)) as [o s]. cbn [fst snd] in *. unfold okw, nid in *. cbn [cb self].
  assert (Hok : okm (next_id s) (self w)) by (eapply ltn_mono; eauto).
  destruct o as [x|]; [|split; [exact Hok | exact Hle]].
  split; [exact Hok|]. split; [|exact Hle].
  cbn [cb]. intros id Hid. destruct (Hx id Hid) as [H|H]; [exact H|]. specialize (HF id H). nlia.
Qed.

(* ---- the container ---- *)
Lemma ids_slots_nth (sl : list (option kv)) i p :
  nth_error sl i = Some (Some p) -> incl (ids_pair E p) (ids_slots E sl).
Proof.
  revert i; induction sl as [|o t IH]; intros [|i] H; cbn [nth_error] in H; try discriminate.
  - injection H as ->. rewrite ids_slots_cons. apply incl_appl. apply incl_refl.
  - rewrite ids_slots_cons. apply incl_appr. eapply IH; eauto.
Qed.

Lemma ids_slots_upd_incl (sl : list (option kv)) i x :
  incl (ids_slots E (upd sl i x)) (ids_slots E sl ++ match x with Some p => ids_pair E p | None => [] end).
Proof.
  revert i; induction sl as [|o t IH]; intros i; [destruct i; cbn; intros id []|].
  destruct i as [|i]; cbn [upd]; rewrite !ids_slots_cons.
  - intros id Hid. apply in_app_or in Hid. rewrite !in_app_iff. tauto.
  - intros id Hid. apply in_app_or in Hid. destruct Hid as [H|H].
    + rewrite !in_app_iff. tauto.
    + apply IH in H. rewrite !in_app_iff in *. tauto.
Qed.

Lemma NB_get_self F : NB F (owned E) (@get_self key V cstate).
Proof. intros w Hw HF. cbn. split; [exact Hw|]. split; [exact Hw | nlia]. Qed.
Lemma NB_put_self F m : incl (owned E m) F -> NB F no_ids (@put_self key V cstate m).
Proof.
  intros Hi w Hw HF. cbn. unfold okw, okm, nid. cbn [self cb].
  split; [eapply ltn_incl; eauto|]. split; [apply ltn_nil | nlia].
Qed.
Lemma NB_set_len F n : NB F no_ids (@set_len key V cstate n).
Proof. intros w Hw HF. cbn. split; [exact Hw|]. split; [apply ltn_nil | nlia]. Qed.
Lemma NB_set_slot F i x :
  incl (match x with Some p => ids_pair E p | None => [] end) F -> NB F no_ids (@set_slot key V cstate i x).
Proof.
  intros Hi w Hw HF. cbn. unfold okw, okm, nid, owned. cbn [self cb slots].
  split; [|split; [apply ltn_nil | nlia]].
  eapply ltn_incl; [apply ids_slots_upd_incl|]. apply ltn_app; [exact Hw | eapply ltn_incl; eauto].
Qed.
Lemma NB_p_ref F i : NB F (ids_pair E) (@p_ref key V cstate i).
Proof.
  intros w Hw HF. unfold p_ref. destruct (nth_error (slots (self w)) i) as [[p|]|] eqn:Hn; try exact I.
  split; [exact Hw|]. split; [|nlia]. eapply ltn_incl; [apply (ids_slots_nth _ _ _ Hn) | exact Hw].
Qed.

(* ---- frames ---- *)
Lemma NB_on_unwind {A} F (ida : A -> list N) (cl : M unit) (c : M A) :
  NB F ida c -> NB F no_ids cl -> NB F ida (on_unwind cl c).
Proof.
  intros Hc Hcl w Hw HF. unfold on_unwind. specialize (Hc w Hw HF).
  destruct (c w) as [a w1|w1|]; [exact Hc| |exact I]. destruct Hc as [H1 H2].
  specialize (Hcl w1 H1 (ltn_mono _ _ _ H2 HF)).
  destruct (cl w1) as [u w2|w2|]; [| |exact I].
  - destruct Hcl as (H3 & _ & H4). split; [exact H3 | nlia].
  - destruct Hcl as (H3 & H4). split; [exact H3 | nlia].
Qed.

(* run c on another container m, keeping the current one aside *)
Lemma NB_on_map {A} F (ida : A -> list N) (m : map) (c : M A) :
  incl (owned E m) F -> NB F ida c -> NB F ida (on_map m c).
Proof.
  intros Hm Hc w Hw HF. unfold on_map.
  specialize (Hc {| cb := cb w; log := log w; self := m |}).
  unfold okw, okm, nid in *. cbn [cb self] in *.
  specialize (Hc (ltn_incl _ _ _ Hm HF) HF).
  destruct (c _) as [a w1|w1|]; [| |exact I]; cbn [cb self].
  - destruct Hc as (_ & H2 & H3). split; [eapply ltn_mono; eauto|]. split; assumption.
  - destruct Hc as (_ & H3). split; [eapply ltn_mono; eauto | exact H3].
Qed.

Lemma NB_swap_self {A} F (ida : A -> list N) (m0 : map) (c : M A) :
  incl (owned E m0) F -> NB F ida c ->
  NB F (fun r : A * map => ida (fst r) ++ owned E (snd r)) (swap_self m0 c).
Proof.
  intros Hm Hc w Hw HF. unfold swap_self.
  specialize (Hc {| cb := cb w; log := log w; self := m0 |}).
  unfold okw, okm, nid in *. cbn [cb self] in *.
  specialize (Hc (ltn_incl _ _ _ Hm HF) HF).
  destruct (c _) as [a w1|w1|]; [| |exact I]; cbn [cb self fst snd].
  - destruct Hc as (H1 & H2 & H3). split; [eapply ltn_mono; eauto|]. split; [apply ltn_app; assumption | exact H3].
  - destruct Hc as (_ & H3). split; [eapply ltn_mono; eauto | exact H3].
Qed.

End NBGen.

Arguments no_ids {A} _ /.

(* H1. what the logic needs to know about an environment *)
Record EnvOK {V : Type} (E : env key V query cstate) : Prop := {
  eo_eqK : forall s a b, next_id (snd (eqK E s a b)) = next_id s;
  eo_eqKQ : forall s a q, next_id (snd (eqKQ E s a q)) = next_id s;
  eo_eqQQ : forall s q q', next_id (snd (eqQQ E s q q')) = next_id s;
  eo_eqQK : forall s q a, next_id (snd (eqQK E s q a)) = next_id s;
  eo_eqV : forall s a b, next_id (snd (eqV E s a b)) = next_id s;
  eo_dropK : forall s k, next_id (snd (dropK E s k)) = next_id s;
  eo_dropV : forall s v, next_id (snd (dropV E s v)) = next_id s;
  eo_cloneK : forall s k, (next_id s <= next_id (snd (cloneK E s k)))%N /\
                match fst (cloneK E s k) with
                | Some k' => forall id, In id (idK E k') -> (id < next_id (snd (cloneK E s k)))%N
                | None => True end;
  eo_cloneV : forall s v, (next_id s <= next_id (snd (cloneV E s v)))%N /\
                match fst (cloneV E s v) with
                | Some v' => forall id, In id (idV E v') -> (id < next_id (snd (cloneV E s v)))%N
                | None => True end
}.

Create HintDb nb discriminated.

Ltac solve_incl :=
  lazymatch goal with |- ?G => tryif has_evar G then fail else idtac end;
  repeat lazymatch goal with |- forall _, _ => intro end;
  repeat match goal with
         | a : (_ * _)%type |- _ => destruct a
         | a : option _ |- _ => destruct a
         | a : unit |- _ => destruct a
         | a : (_ + _)%type |- _ => destruct a
         end;
  let id := fresh "id" in let Hin := fresh "Hin" in
  unfold incl; intros id Hin;
  repeat match goal with H : incl _ _ |- _ => specialize (H id) end;
  unfold no_ids, ids_pair in *; cbn [fst snd idK idV env_map env_set] in *;
  rewrite ?cf_owned_new in *;
  repeat rewrite in_app_iff in *; cbn [In] in *; tauto.

#[global] Hint Extern 1 (incl _ _) => solve_incl : nb.
#[global] Hint Extern 1 (forall _, incl _ _) => solve_incl : nb.

Ltac nb_leaf :=
  first [ solve [eauto with nb]
        | eapply NB_conseq; [ | apply incl_refl | ]; [ solve [eauto with nb] | solve_incl ]
        | eapply NB_conseq; [ solve [eauto with nb] | solve_incl | solve_incl ] ].

Ltac nb_extra := fail.
Ltac nb :=
  lazymatch goal with
  | |- NB _ _ _ (on_map _ _) => apply NB_on_map; [solve_incl | nb]
  | |- NB _ _ _ (on_unwind _ _) => apply NB_on_unwind; [nb | nb]
  | |- NB _ _ _ (bind ?c _) =>
      lazymatch c with
      | bind _ _ => eapply (NB_bind _ _ no_ids); [nb | intros ?; nb]
      | ret _ => eapply (NB_bind _ _ no_ids); [nb | intros ?; nb]
      | finally_drop _ _ => eapply (NB_bind _ _ no_ids); [nb | intros ?; nb]
      | on_map _ _ => eapply NB_bind; [apply NB_on_map; [solve_incl | nb_leaf] | intros ?; nb]
      | on_unwind _ _ => first [ eapply NB_bind; [apply NB_on_unwind; [nb_leaf | nb] | intros ?; nb]
                               | eapply (NB_bind _ _ no_ids); [apply NB_on_unwind; [nb | nb] | intros ?; nb] ]
      | swap_self _ _ => eapply NB_bind; [apply (NB_swap_self _ _ no_ids); [solve_incl | nb] | intros ?; nb]
      | (if _ then _ else _) => eapply (NB_bind _ _ no_ids); [nb | intros ?; nb]
      | (match _ with _ => _ end) => eapply (NB_bind _ _ no_ids); [nb | intros ?; nb]
      | _ => eapply NB_bind; [nb_leaf | intros ?; nb]
      end
  | |- NB _ _ _ (ret _) => apply NB_ret; solve_incl
  | |- NB _ _ _ panic => apply NB_panic
  | |- NB _ _ _ ub => apply NB_ub
  | |- NB _ _ _ (if ?b then _ else _) => destruct b; nb
  | |- NB _ _ _ (match ?x with _ => _ end) => destruct x; nb
  | |- NB _ _ _ _ => first [nb_extra | nb_leaf]
  end.

#[global] Hint Resolve NB_get_len NB_get_cap NB_emit NB_get_self NB_set_len NB_p_ref NB_panic NB_ub : nb.
#[global] Hint Resolve NB_put_self NB_set_slot : nb.

Section NBOps.
Context {V : Type} (E : env key V query cstate) (HE : EnvOK E) (debug : bool).
Notation M := (M key V cstate). Notation world := (world key V cstate). Notation map := (map key V).
Notation kv := (key * V)%type.
Notation NB := (NB E).

(* ---- Slots.v ---- *)
Lemma NB_p_read F i : NB F (ids_pair E) (p_read i).
Proof. unfold p_read. nb. Qed.
Lemma NB_p_write F i x : incl (ids_pair E x) F -> NB F no_ids (p_write i x).
Proof. intros H. unfold p_write. nb. Qed.
Lemma NB_p_write_checked F i x : incl (ids_pair E x) F -> NB F no_ids (p_write_checked i x).
Proof. intros H. unfold p_write_checked. nb. Qed.
Lemma NB_p_replace F i (f : kv -> kv) :
  (forall p, incl (ids_pair E (f p)) (ids_pair E p ++ F)) -> NB F (ids_pair E) (p_replace i f).
Proof.
  intros H. unfold p_replace. eapply NB_bind; [apply NB_p_ref|]. intros p.
  eapply (NB_bind _ _ no_ids); [apply NB_set_slot; apply H|]. intros ?. nb.
Qed.
Lemma NB_p_prefix F : NB F no_ids (@p_prefix key V cstate).
Proof. unfold p_prefix. nb. Qed.
Lemma NB_dbg_assert F c : NB F no_ids (@dbg_assert key V cstate debug c).
Proof. unfold dbg_assert. nb. Qed.
Lemma NB_dec_len F : NB F no_ids (@dec_len key V cstate debug).
Proof. unfold dec_len. nb. Qed.
Lemma NB_check_index F i : NB F no_ids (@check_index key V cstate i).
Proof. unfold check_index. nb. Qed.

Lemma NB_cbd_dropK F k : NB F no_ids (cbd (fun s => dropK E s k)).
Proof. apply NB_cbd. intros s. apply (eo_dropK E HE). Qed.
Lemma NB_cbd_dropV F v : NB F no_ids (cbd (fun s => dropV E s v)).
Proof. apply NB_cbd. intros s. apply (eo_dropV E HE). Qed.
Hint Resolve NB_p_read NB_p_write NB_p_write_checked NB_p_prefix NB_dbg_assert NB_dec_len NB_check_index
     NB_cbd_dropK NB_cbd_dropV : nb.

Lemma NB_drop_key F k : NB F no_ids (drop_key E k).
Proof. unfold drop_key. nb. Qed.
Lemma NB_drop_val F v : NB F no_ids (drop_val E v).
Proof. unfold drop_val. nb. Qed.
Lemma NB_drop_pair F p : NB F no_ids (drop_pair E p).
Proof. unfold drop_pair. nb. Qed.
Lemma NB_drop_args F k v : NB F no_ids (drop_args E k v).
Proof. unfold drop_args. nb. Qed.
Lemma NB_unwind_key F k : NB F no_ids (unwind_key E k).
Proof. unfold unwind_key. nb. Qed.
Lemma NB_unwind_val F v : NB F no_ids (unwind_val E v).
Proof. unfold unwind_val. nb. Qed.
Lemma NB_unwind_pair F p : NB F no_ids (unwind_pair E p).
Proof. unfold unwind_pair. nb. Qed.
Lemma NB_unwind_args F k v : NB F no_ids (unwind_args E k v).
Proof. unfold unwind_args. nb. Qed.
Hint Resolve NB_drop_key NB_drop_val NB_drop_pair NB_drop_args NB_unwind_key NB_unwind_val NB_unwind_pair
     NB_unwind_args : nb.
Lemma NB_unwind_pairs F l : NB F no_ids (unwind_pairs E l).
Proof. induction l as [|p t IH]; cbn [unwind_pairs]; nb. Qed.
Lemma NB_p_drop F i : NB F no_ids (p_drop E i).
Proof. unfold p_drop. nb. Qed.
Hint Resolve NB_unwind_pairs NB_p_drop : nb.

Lemma NB_scan_loop (test : kv -> M bool) : (forall F p, NB F no_ids (test p)) ->
  forall n i F, NB F no_ids (scan_loop test n i).
Proof. intros Ht. induction n as [|n IH]; intros i F; cbn [scan_loop]; nb. Qed.
Lemma NB_scan (test : kv -> M bool) F : (forall F p, NB F no_ids (test p)) -> NB F no_ids (scan test).
Proof. intros Ht. unfold scan. pose proof (NB_scan_loop test Ht). nb. Qed.

Lemma NB_test_q q F p : NB F no_ids (test_q E q p).
Proof. unfold test_q. apply NB_cbk. intros s. apply (eo_eqKQ E HE). Qed.
Lemma NB_test_k k F p : NB F no_ids (test_k E k p).
Proof. unfold test_k. apply NB_cbk. intros s. apply (eo_eqK E HE). Qed.
Lemma NB_scan_q F q : NB F no_ids (scan (test_q E q)).
Proof. apply NB_scan. intros. apply NB_test_q. Qed.
Lemma NB_scan_k F k : NB F no_ids (scan (test_k E k)).
Proof. apply NB_scan. intros. apply NB_test_k. Qed.
Hint Resolve NB_scan_q NB_scan_k NB_test_q NB_test_k : nb.

(* ---- MapOps.v ---- *)
Lemma NB_drop_range n : forall i F, NB F no_ids (drop_range E n i).
Proof. induction n as [|n IH]; intros i F; cbn [drop_range]; nb. Qed.
Lemma NB_unwind_range n : forall i F, NB F no_ids (unwind_range E n i).
Proof. induction n as [|n IH]; intros i F; cbn [unwind_range]; nb. Qed.
Hint Resolve NB_drop_range NB_unwind_range : nb.
Lemma NB_clear F : NB F no_ids (clear E).
Proof. unfold clear. nb. Qed.
Lemma NB_drop_map F : NB F no_ids (drop_map E).
Proof. unfold drop_map. nb. Qed.
Lemma NB_unwind_map F : NB F no_ids (unwind_map E).
Proof. unfold unwind_map. nb. Qed.
Lemma NB_unwind_drain F c : NB F no_ids (unwind_drain E c).
Proof. unfold unwind_drain. nb. Qed.
Lemma NB_drain_drop F c : NB F no_ids (drain_drop E c).
Proof. unfold drain_drop. nb. Qed.
Hint Resolve NB_clear NB_drop_map NB_unwind_map NB_unwind_drain NB_drain_drop : nb.

Lemma NB_finally_drop {A} F (ida : A -> list N) (c : M A) : NB F ida c -> NB F ida (finally_drop E c).
Proof.
  intros Hc w Hw HF. unfold finally_drop. specialize (Hc w Hw HF).
  destruct (c w) as [a w1|w1|]; [exact Hc| |exact I]. destruct Hc as [H1 H2].
  pose proof (NB_unwind_map F w1 H1 (ltn_mono _ _ _ H2 HF)) as Hu.
  destruct (unwind_map E w1) as [u w2|w2|]; [| |exact I].
  - destruct Hu as (H3 & _ & H4). split; [exact H3 | lia].
  - destruct Hu as (H3 & H4). split; [exact H3 | lia].
Qed.

Lemma NB_remove_index_read F i : NB F (ids_pair E) (remove_index_read debug i).
Proof. unfold remove_index_read. nb. Qed.
Hint Resolve NB_remove_index_read : nb.
Lemma NB_remove_index_drop F i : NB F no_ids (remove_index_drop E debug i).
Proof. unfold remove_index_drop. nb. Qed.
Hint Resolve NB_remove_index_drop : nb.

(* a retain closure: may advance the counter, may rewrite the value but not which
   object it is *)
Definition pred_ok (f : @pred_t key V cstate) : Prop :=
  forall s k v, (next_id s <= next_id (snd (f s k v)))%N /\ incl (idV E (snd (fst (f s k v)))) (idV E v).

Lemma NB_call_pred F f i : pred_ok f -> NB F no_ids (call_pred f i).
Proof.
  intros Hf w Hw HF. unfold call_pred, bind, p_ref.
  destruct (nth_error (slots (self w)) i) as [[p|]|] eqn:Hn; try exact I.
  destruct (Hf (cb w) (fst p) (snd p)) as [Hle Hid].
  destruct (f (cb w) (fst p) (snd p)) as [[r v'] s]. cbn [fst snd] in *.
  assert (Hok : okw E {| cb := s; log := log w ++ [EvCall 0];
                         self := {| len := len (self w); slots := upd (slots (self w)) i (Some (fst p, v')) |} |}).
  { unfold okw, okm, nid, owned. cbn [cb self slots].
    eapply ltn_incl; [apply ids_slots_upd_incl|]. apply ltn_app; [eapply ltn_mono; [exact Hle | exact Hw]|].
    pose proof (ids_slots_nth E _ _ _ Hn) as Hp. intros id Hin. unfold ids_pair in Hin. cbn [fst snd] in Hin.
    apply in_app_or in Hin. assert (Hx : In id (ids_pair E p)).
    { unfold ids_pair. apply in_or_app. destruct Hin as [H|H]; [left; exact H | right; apply Hid; exact H]. }
    specialize (Hw id (Hp id Hx)). unfold nid in Hw. lia. }
  destruct r as [b|]; (split; [exact Hok|]); [split; [apply ltn_nil|]|]; unfold nid; cbn [cb]; exact Hle.
Qed.

Lemma NB_retain_loop f : pred_ok f -> forall fuel i F, NB F no_ids (retain_loop E debug f fuel i).
Proof.
  intros Hf. induction fuel as [|fuel IH]; intros i F; cbn [retain_loop]; pose proof (NB_call_pred) as Hcp; nb.
Qed.
Lemma NB_retain F f : pred_ok f -> NB F no_ids (retain E debug f).
Proof. intros Hf. unfold retain. pose proof (NB_retain_loop f Hf). nb. Qed.

Lemma NB_contains_key F q : NB F no_ids (contains_key E q).
Proof. unfold contains_key. nb. Qed.
Lemma NB_remove F q : NB F (fun r => match r with Some v => idV E v | None => [] end) (remove E debug q).
Proof. unfold remove. nb. Qed.
Lemma NB_remove_entry F q :
  NB F (fun r => match r with Some p => ids_pair E p | None => [] end) (remove_entry E debug q).
Proof. unfold remove_entry. nb. Qed.

Notation ids_ins := (fun r : nat * option kv => match snd r with Some p => ids_pair E p | None => [] end).

Lemma NB_insert_ii F k v u : incl (ids_pair E (k, v)) F -> NB F ids_ins (insert_ii E debug k v u).
Proof.
  intros H. unfold insert_ii.
  eapply (NB_bind _ _ no_ids); [apply NB_on_unwind; nb|]. intros [i|].
  - destruct u.
    + eapply NB_bind; [apply NB_p_replace; solve_incl|]. intros old. nb.
    + eapply NB_bind; [apply NB_p_replace; solve_incl|]. intros old. nb.
  - eapply NB_bind; [nb_leaf|]. intros i. eapply NB_bind; [nb_leaf|]. intros c.
    eapply (NB_bind _ _ no_ids); [apply NB_on_unwind; nb|]. intros ?. nb.
Qed.

Lemma NB_insert_ii_for_full F k v u : incl (ids_pair E (k, v)) F ->
  NB F (fun r : option (nat * kv) => match r with Some x => ids_pair E (snd x) | None => [] end)
     (insert_ii_for_full E k v u).
Proof.
  intros H. unfold insert_ii_for_full.
  eapply (NB_bind _ _ no_ids); [apply NB_on_unwind; nb|]. intros [i|].
  - destruct u.
    + eapply NB_bind; [apply NB_p_replace; solve_incl|]. intros old. nb.
    + eapply NB_bind; [apply NB_p_replace; solve_incl|]. intros old. nb.
  - nb.
Qed.

Lemma NB_insert_i_loop k : forall fuel i F, NB F ids_ins (insert_i_loop E debug k fuel i).
Proof. induction fuel as [|fuel IH]; intros i F; cbn [insert_i_loop]; nb. Qed.
Hint Resolve NB_insert_i_loop NB_insert_ii NB_insert_ii_for_full NB_contains_key NB_remove NB_remove_entry : nb.

Lemma NB_insert_i F k v u : incl (ids_pair E (k, v)) F -> NB F ids_ins (insert_i E debug k v u).
Proof.
  intros H. unfold insert_i. eapply NB_bind; [nb_leaf|]. intros n.
  eapply NB_bind; [apply NB_on_unwind; [apply NB_insert_i_loop | nb]|]. intros [target existing].
  eapply (NB_bind _ _ no_ids); [nb|]. intros ?.
  destruct existing as [[old_k old_v]|]; [destruct u|]; nb.
Qed.

Notation ids_optv := (fun r : option V => match r with Some v => idV E v | None => [] end).
Notation ids_optp := (fun r : option kv => match r with Some p => ids_pair E p | None => [] end).

Lemma NB_keep_value F e : incl (ids_optp e) F -> NB F ids_optv (keep_value E e).
Proof. intros H. unfold keep_value. destruct e as [[k' v']|]; nb. Qed.

Lemma NB_insert F k v : incl (ids_pair E (k, v)) F -> NB F ids_optv (insert E debug k v).
Proof.
  intros H. unfold insert. eapply NB_bind; [apply NB_insert_ii; exact H|]. intros [i e].
  apply NB_keep_value. solve_incl.
Qed.
Lemma NB_insert_key_value F k v : incl (ids_pair E (k, v)) F -> NB F ids_optp (insert_key_value E debug k v).
Proof.
  intros H. unfold insert_key_value. eapply NB_bind; [apply NB_insert_ii; exact H|]. intros [i e]. nb.
Qed.
Lemma NB_insert_unchecked F k v : incl (ids_pair E (k, v)) F -> NB F ids_optv (insert_unchecked E debug k v).
Proof.
  intros H. unfold insert_unchecked. eapply NB_bind; [apply NB_insert_i; exact H|]. intros [i e].
  apply NB_keep_value. solve_incl.
Qed.
Lemma NB_checked_insert F k v : incl (ids_pair E (k, v)) F ->
  NB F (fun r : option (option V) => match r with Some (Some v0) => idV E v0 | _ => [] end) (checked_insert E debug k v).
Proof.
  intros H. unfold checked_insert. eapply NB_bind; [nb_leaf|]. intros n. eapply NB_bind; [nb_leaf|]. intros c.
  destruct (n <? c).
  - eapply NB_bind; [apply NB_insert_ii; exact H|]. intros [i e].
    eapply NB_bind; [apply NB_keep_value; solve_incl|]. intros r. nb.
  - eapply NB_bind; [apply NB_insert_ii_for_full; exact H|]. intros [[i [k' v']]|]; nb.
Qed.
Hint Resolve NB_insert NB_insert_key_value NB_insert_unchecked NB_checked_insert NB_keep_value : nb.

Lemma NB_get F q : NB F no_ids (get E q).
Proof. unfold get. nb. Qed.
Lemma NB_get_mut F q : NB F no_ids (get_mut E q).
Proof. unfold get_mut. nb. Qed.
Lemma NB_get_key_value F q : NB F no_ids (get_key_value E q).
Proof. unfold get_key_value. nb. Qed.
Hint Resolve NB_get NB_get_mut NB_get_key_value : nb.
Lemma NB_index F q : NB F no_ids (index E q).
Proof. unfold index. nb. Qed.
Lemma NB_index_mut F q : NB F no_ids (index_mut E q).
Proof. unfold index_mut. nb. Qed.
Hint Resolve NB_index NB_index_mut : nb.

Lemma NB_cbk_QQ F q q' : NB F no_ids (cbk (fun s => eqQQ E s q q')).
Proof. apply NB_cbk. intros s. apply (eo_eqQQ E HE). Qed.
Lemma NB_cbk_QK F q a : NB F no_ids (cbk (fun s => eqQK E s q a)).
Proof. apply NB_cbk. intros s. apply (eo_eqQK E HE). Qed.
Lemma NB_cbk_V F a b : NB F no_ids (cbk (fun s => eqV E s a b)).
Proof. apply NB_cbk. intros s. apply (eo_eqV E HE). Qed.
Hint Resolve NB_cbk_QQ NB_cbk_QK NB_cbk_V : nb.

Lemma NB_assert_ne_all F k rest : NB F no_ids (assert_ne_all E k rest).
Proof. induction rest as [|k' rest IH]; cbn [assert_ne_all]; nb. Qed.
Hint Resolve NB_assert_ne_all : nb.
Lemma NB_assert_distinct F ks : NB F no_ids (assert_distinct E ks).
Proof. induction ks as [|k rest IH]; cbn [assert_distinct]; nb. Qed.
Lemma NB_position ks p : forall j F, NB F no_ids (position E ks p j).
Proof. induction ks as [|k ks IH]; intros j F; cbn [position]; nb. Qed.
Hint Resolve NB_assert_distinct NB_position : nb.
Lemma NB_fill_stack ks J n : forall i stack F, NB F no_ids (fill_stack E ks J n i stack).
Proof. induction n as [|n IH]; intros i stack F; cbn [fill_stack]; nb. Qed.
Lemma NB_split_back J st : forall rest out F, NB F no_ids (@split_back key V cstate J st rest out).
Proof. induction st as [|[pair_i ks_i] st IH]; intros rest out F; cbn [split_back]; nb. Qed.
Hint Resolve NB_fill_stack NB_split_back : nb.
Lemma NB_get_disjoint_unchecked_mut F ks : NB F no_ids (get_disjoint_unchecked_mut E ks).
Proof. unfold get_disjoint_unchecked_mut. destruct ks as [|k [|k2 ks']]; nb. Qed.
Hint Resolve NB_get_disjoint_unchecked_mut : nb.
Lemma NB_get_disjoint_mut F ks : NB F no_ids (get_disjoint_mut E ks).
Proof. unfold get_disjoint_mut. destruct ks as [|k ks']; nb. Qed.
Hint Resolve NB_get_disjoint_mut : nb.

(* Clone: the only place (with Default and the decoders) where new identities appear *)
Lemma NB_cloneK F k : NB F (idK E) (cbo (fun s => cloneK E s k)).
Proof.
  apply NB_cbo. intros s. destruct (eo_cloneK E HE s k) as [H1 H2]. split; [exact H1|].
  destruct (fst (cloneK E s k)); [|exact I]. intros id Hid. left. apply H2. exact Hid.
Qed.
Lemma NB_cloneV F v : NB F (idV E) (cbo (fun s => cloneV E s v)).
Proof.
  apply NB_cbo. intros s. destruct (eo_cloneV E HE s v) as [H1 H2]. split; [exact H1|].
  destruct (fst (cloneV E s v)); [|exact I]. intros id Hid. left. apply H2. exact Hid.
Qed.
Hint Resolve NB_cloneK NB_cloneV : nb.

Lemma NB_clone_pair F p : NB F (ids_pair E) (clone_pair E p).
Proof.
  unfold clone_pair. eapply (NB_bind _ _ no_ids); [nb_leaf|]. intros ?.
  eapply NB_bind; [apply NB_cloneK|]. intros k'.
  eapply (NB_bind _ _ no_ids); [nb_leaf|]. intros ?.
  eapply NB_bind; [apply NB_on_unwind; [apply NB_cloneV | nb]|]. intros v'. nb.
Qed.
Hint Resolve NB_clone_pair : nb.
Lemma NB_clone_loop src n : forall i F, NB F no_ids (clone_loop E src n i).
Proof.
  induction n as [|n IH]; intros i F; cbn [clone_loop]; [nb|].
  destruct (nth_error (slots src) i) as [[p|]|]; nb.
Qed.
Hint Resolve NB_clone_loop : nb.
Lemma NB_clone_from_src F src : NB F no_ids (clone_from_src E src).
Proof. unfold clone_from_src. apply NB_finally_drop. nb. Qed.

Hint Resolve NB_clone_from_src : nb.

Lemma NB_eq_loop a b n : forall i F, incl (owned E b) F -> NB F no_ids (eq_loop E a b n i).
Proof.
  induction n as [|n IH]; intros i F Hb; cbn [eq_loop]; [nb|].
  destruct (nth_error (slots a) i) as [[[k v]|]|]; nb.
Qed.
Lemma NB_map_eq F a b : incl (owned E b) F -> NB F no_ids (map_eq E a b).
Proof.
  intros Hb. unfold map_eq. destruct (len a =? len b); [|nb].
  destruct (len a <=? cap a); [|nb]. apply NB_eq_loop. exact Hb.
Qed.

Definition nx_ok (nx : cstate -> ans * cstate) : Prop := forall s, next_id (snd (nx s)) = next_id s.

Lemma NB_call_next F nx : nx_ok nx -> NB F no_ids (@call_next key V cstate nx).
Proof. intros H. unfold call_next. pose proof (NB_cbk E) as Hc. nb. Qed.
Lemma NB_drop_opt_val F o : NB F no_ids (drop_opt_val E o).
Proof. unfold drop_opt_val. destruct o; nb. Qed.
Hint Resolve NB_drop_opt_val : nb.

Lemma NB_extend_loop nx : nx_ok nx -> forall items F,
  incl (flat_map (ids_pair E) items) F -> NB F no_ids (extend_loop E debug nx items).
Proof.
  intros Hn. induction items as [|[k v] rest IH]; intros F Hi; cbn [extend_loop]; [apply NB_call_next; exact Hn|].
  cbn [flat_map] in Hi.
  eapply (NB_bind _ _ no_ids); [apply NB_on_unwind; [apply NB_call_next; exact Hn | nb]|]. intros ?.
  eapply (NB_bind _ _ no_ids).
  { apply NB_on_unwind; [|nb]. eapply NB_bind; [apply NB_insert; solve_incl|]. intros old. nb. }
  intros ?. apply IH. solve_incl.
Qed.
Lemma NB_from_iter F nx items : nx_ok nx -> incl (flat_map (ids_pair E) items) F ->
  NB F no_ids (from_iter E debug nx items).
Proof. intros Hn Hi. unfold from_iter. apply NB_finally_drop. apply NB_extend_loop; assumption. Qed.

Lemma NB_drain F : NB F no_ids (@drain key V cstate).
Proof. unfold drain. nb. Qed.
Lemma NB_drain_next F c :
  NB F (fun r : option kv * cursor => match fst r with Some p => ids_pair E p | None => [] end)
     (@drain_next key V cstate c).
Proof. unfold drain_next. destruct c as [lo hi]. nb. Qed.
Lemma NB_iter F : NB F no_ids (@iter key V cstate).
Proof. unfold iter. nb. Qed.
Lemma NB_iter_next F c : NB F no_ids (@iter_next key V cstate c).
Proof. unfold iter_next. destruct c as [lo hi]. nb. Qed.
Lemma NB_into_iter_next F : NB F ids_optp (@into_iter_next key V cstate).
Proof. unfold into_iter_next. eapply NB_bind; [nb_leaf|]. intros [|n']; nb. Qed.
Hint Resolve NB_drain NB_drain_next NB_iter NB_iter_next NB_into_iter_next NB_map_eq : nb.

(* ---- EntryOps.v ---- *)
Notation ids_entry := (fun e : @entry key => match e with Occupied _ => [] | Vacant k => idK E k end).

Lemma NB_entry_of F k : incl (idK E k) F -> NB F ids_entry (entry_of E k).
Proof.
  intros H. unfold entry_of. eapply (NB_bind _ _ no_ids); [apply NB_on_unwind; nb|]. intros [i|]; nb.
Qed.
Lemma NB_occ_key F i : NB F no_ids (@occ_key key V cstate i).
Proof. unfold occ_key. nb. Qed.
Lemma NB_occ_get F i : NB F no_ids (@occ_get key V cstate i).
Proof. unfold occ_get. nb. Qed.
Lemma NB_occ_get_mut F i : NB F no_ids (@occ_get_mut key V cstate i).
Proof. unfold occ_get_mut. nb. Qed.
Lemma NB_occ_into_mut F i : NB F no_ids (@occ_into_mut key V cstate i).
Proof. unfold occ_into_mut. nb. Qed.
Lemma NB_occ_insert F i v : incl (idV E v) F -> NB F (idV E) (@occ_insert key V cstate i v).
Proof.
  intros H. unfold occ_insert. eapply NB_bind; [apply NB_p_replace; solve_incl|]. intros old. nb.
Qed.
Lemma NB_occ_remove_entry F i : NB F (ids_pair E) (@occ_remove_entry key V cstate debug i).
Proof. unfold occ_remove_entry. nb. Qed.
Lemma NB_occ_remove F i : NB F (idV E) (occ_remove E debug i).
Proof. unfold occ_remove. nb. Qed.
Hint Resolve NB_occ_key NB_occ_get NB_occ_get_mut NB_occ_into_mut NB_occ_insert NB_occ_remove_entry NB_occ_remove : nb.
Lemma NB_vac_insert F k v : incl (ids_pair E (k, v)) F -> NB F no_ids (vac_insert E debug k v).
Proof.
  intros H. unfold vac_insert. eapply NB_bind; [apply NB_insert_ii; exact H|]. intros [index e].
  destruct e; nb.
Qed.
Hint Resolve NB_vac_insert : nb.

(* a closure producing a value: the counter does not decrease; the value is new
   (below the new counter) or one of the free identities *)
Definition mk_ok (F : list N) (f : cstate -> option V * cstate) : Prop :=
  forall s, (next_id s <= next_id (snd (f s)))%N /\
            match fst (f s) with
            | Some v => forall id, In id (idV E v) -> (id < next_id (snd (f s)))%N \/ In id F
            | None => True end.
Lemma NB_call_mk F f : mk_ok F f -> NB F (idV E) (@call_mk key V cstate f).
Proof. intros H. unfold call_mk. eapply (NB_bind _ _ no_ids); [nb_leaf|]. intros ?.
  eapply NB_conseq; [apply (NB_cbo E F (idV E) f H) | solve_incl | solve_incl]. Qed.

Definition modf_ok (f : @modf_t V cstate) : Prop :=
  forall s v, (next_id s <= next_id (snd (f s v)))%N /\ incl (idV E (snd (fst (f s v)))) (idV E v).

Lemma NB_call_modf F f i : modf_ok f -> NB F no_ids (call_modf f i).
Proof.
  intros Hf w Hw HF. unfold call_modf, bind, p_ref.
  destruct (nth_error (slots (self w)) i) as [[p|]|] eqn:Hn; try exact I.
  destruct (Hf (cb w) (snd p)) as [Hle Hid].
  destruct (f (cb w) (snd p)) as [[boom v'] s]. cbn [fst snd] in *.
  assert (Hok : okw E {| cb := s; log := log w ++ [EvCall 3];
                         self := {| len := len (self w); slots := upd (slots (self w)) i (Some (fst p, v')) |} |}).
  { unfold okw, okm, nid, owned. cbn [cb self slots].
    eapply ltn_incl; [apply ids_slots_upd_incl|]. apply ltn_app; [eapply ltn_mono; [exact Hle | exact Hw]|].
    pose proof (ids_slots_nth E _ _ _ Hn) as Hp. intros id Hin. unfold ids_pair in Hin. cbn [fst snd] in Hin.
    apply in_app_or in Hin. assert (Hx : In id (ids_pair E p)).
    { unfold ids_pair. apply in_or_app. destruct Hin as [H|H]; [left; exact H | right; apply Hid; exact H]. }
    specialize (Hw id (Hp id Hx)). unfold nid in Hw. lia. }
  destruct boom; (split; [exact Hok|]); [|split; [apply ltn_nil|]]; unfold nid; cbn [cb]; exact Hle.
Qed.

Lemma NB_and_modify F e f : modf_ok f -> incl (ids_entry e) F -> NB F ids_entry (and_modify e f).
Proof. intros Hf H. unfold and_modify. pose proof NB_call_modf as Hm. destruct e; nb. Qed.
Lemma NB_entry_key F e : incl (ids_entry e) F ->
  NB F (fun x : nat + key => match x with inl _ => [] | inr k => idK E k end) (@entry_key key V cstate e).
Proof. intros H. unfold entry_key. destruct e; nb. Qed.
Lemma NB_or_insert F e v : incl (ids_entry e) F -> incl (idV E v) F -> NB F no_ids (or_insert E debug e v).
Proof. intros H1 H2. unfold or_insert. destruct e; nb. Qed.
Lemma NB_or_insert_with F e f : incl (ids_entry e) F -> mk_ok F f -> NB F no_ids (or_insert_with E debug e f).
Proof.
  intros H1 H2. unfold or_insert_with. destruct e as [i|k]; [nb|].
  eapply NB_bind; [apply NB_on_unwind; [apply NB_call_mk; exact H2 | nb]|]. intros v. nb.
Qed.
Lemma NB_or_insert_with_key F e f : incl (ids_entry e) F -> (forall k, mk_ok F (f k)) ->
  NB F no_ids (or_insert_with_key E debug e f).
Proof.
  intros H1 H2. unfold or_insert_with_key. destruct e as [i|k]; [nb|].
  eapply NB_bind; [apply NB_on_unwind; [apply NB_call_mk; apply H2 | nb]|]. intros v. nb.
Qed.

End NBOps.

#[global] Hint Resolve
  NB_p_read NB_p_write NB_p_write_checked NB_p_prefix NB_dbg_assert NB_dec_len NB_check_index
  NB_cbd_dropK NB_cbd_dropV NB_drop_key NB_drop_val NB_drop_pair NB_drop_args NB_unwind_key NB_unwind_val
  NB_unwind_pair NB_unwind_args NB_unwind_pairs NB_p_drop NB_scan_q NB_scan_k NB_test_q NB_test_k
  NB_drop_range NB_unwind_range NB_clear NB_drop_map NB_unwind_map NB_unwind_drain NB_drain_drop
  NB_remove_index_read NB_remove_index_drop NB_call_pred NB_retain_loop NB_retain
  NB_contains_key NB_remove NB_remove_entry NB_insert_i_loop NB_insert_ii NB_insert_ii_for_full NB_insert_i
  NB_keep_value NB_insert NB_insert_key_value NB_insert_unchecked NB_checked_insert
  NB_get NB_get_mut NB_get_key_value NB_index NB_index_mut NB_cbk_QQ NB_cbk_QK NB_cbk_V
  NB_assert_ne_all NB_assert_distinct NB_position NB_fill_stack NB_split_back
  NB_get_disjoint_unchecked_mut NB_get_disjoint_mut NB_cloneK NB_cloneV NB_clone_pair NB_clone_loop
  NB_clone_from_src NB_eq_loop NB_map_eq NB_call_next NB_drop_opt_val NB_extend_loop NB_from_iter
  NB_drain NB_drain_next NB_iter NB_iter_next NB_into_iter_next
  NB_entry_of NB_occ_key NB_occ_get NB_occ_get_mut NB_occ_into_mut NB_occ_insert NB_occ_remove_entry
  NB_occ_remove NB_vac_insert NB_call_mk NB_call_modf NB_and_modify NB_entry_key NB_or_insert
  NB_or_insert_with NB_or_insert_with_key : nb.

Ltac nb_extra ::=
  lazymatch goal with
  | |- NB _ _ _ (finally_drop _ _) => eapply NB_finally_drop; [solve [eauto with nb] | nb]
  end.

(* ---- SetOps.v ---- *)
Section NBSet.
Context (E : env key unit query cstate) (HE : EnvOK E) (HU : idV E tt = []) (debug : bool).
Notation M := (M key unit cstate). Notation smap := (map key unit).
Notation NB := (NB E).

Lemma incl_pair_unit k F : incl (idK E k) F -> incl (ids_pair E (k, tt)) F.
Proof. intros H. unfold ids_pair. cbn [fst snd]. rewrite HU, app_nil_r. exact H. Qed.

Lemma NB_s_contains F q : NB F no_ids (s_contains E q).
Proof. unfold s_contains. nb. Qed.
Lemma NB_s_remove F q : NB F no_ids (s_remove E debug q).
Proof. unfold s_remove. nb. Qed.
Lemma NB_s_insert F k : incl (idK E k) F -> NB F no_ids (s_insert E debug k).
Proof.
  intros H. unfold s_insert. eapply NB_bind; [apply (NB_insert E HE); apply incl_pair_unit; exact H|]. intros r. nb.
Qed.
Lemma NB_s_get F q : NB F no_ids (s_get E q).
Proof. unfold s_get. nb. Qed.
Lemma NB_s_take F q : NB F (fun r : option key => match r with Some k => idK E k | None => [] end) (s_take E debug q).
Proof. unfold s_take. eapply NB_bind; [nb_leaf|]. intros [[k u]|]; nb. Qed.
Lemma NB_s_replace F k : incl (idK E k) F ->
  NB F (fun r : option key => match r with Some k => idK E k | None => [] end) (s_replace E debug k).
Proof.
  intros H. unfold s_replace. eapply NB_bind; [apply (NB_insert_ii E HE); apply incl_pair_unit; exact H|].
  intros [i [[k0 u]|]]; nb.
Qed.
Lemma NB_s_clear F : NB F no_ids (s_clear E).
Proof. unfold s_clear. nb. Qed.
Lemma NB_s_retain F f : (forall s k, (next_id s <= next_id (snd (f s k)))%N) -> NB F no_ids (s_retain E debug f).
Proof.
  intros Hf. unfold s_retain. apply (NB_retain E HE). intros s k v. specialize (Hf s k).
  destruct (f s k) as [r s']. cbn [fst snd] in *. split; [exact Hf | apply incl_refl].
Qed.
Hint Resolve NB_s_contains NB_s_remove NB_s_insert NB_s_get NB_s_take NB_s_replace NB_s_clear : nb.

Lemma NB_s_extend_loop nx : nx_ok nx -> forall items F,
  incl (flat_map (idK E) items) F -> NB F no_ids (s_extend_loop E debug nx items).
Proof.
  intros Hn. induction items as [|k rest IH]; intros F Hi; cbn [s_extend_loop]; [apply (NB_call_next E); exact Hn|].
  cbn [flat_map] in Hi. pose proof (NB_call_next E (V:=unit)) as Hcn.
  eapply (NB_bind _ _ no_ids); [apply NB_on_unwind; [apply Hcn; exact Hn | nb]|]. intros ?.
  eapply (NB_bind _ _ no_ids).
  { apply NB_on_unwind; [|nb]. eapply NB_bind; [apply NB_s_insert; solve_incl|]. intros ?. nb. }
  intros ?. apply IH. solve_incl.
Qed.
Lemma NB_s_from_iter F nx items : nx_ok nx -> incl (flat_map (idK E) items) F ->
  NB F no_ids (s_from_iter E debug nx items).
Proof. intros Hn Hi. unfold s_from_iter. apply (NB_finally_drop E HE). apply NB_s_extend_loop; assumption. Qed.

(* set algebra: the operands a, b are parameters; the current container is left alone *)
Lemma NB_contains_in F' (m : smap) k : incl (owned E m) F' -> NB F' no_ids (contains_in E m k).
Proof. intros Hm. unfold contains_in. nb. Qed.
Lemma NB_siter_next F' (m : smap) c : incl (owned E m) F' -> NB F' no_ids (siter_next m c).
Proof. intros Hm. unfold siter_next. nb. Qed.
Lemma NB_difference F' (m : smap) : incl (owned E m) F' -> NB F' no_ids (difference m).
Proof. intros Hm. unfold difference. nb. Qed.
Hint Resolve NB_contains_in NB_siter_next NB_difference : nb.

Lemma NB_filter_next F' (x y : smap) want n : incl (owned E y) F' -> forall lo, NB F' no_ids (filter_next E x y want n lo).
Proof.
  intros Hy. induction n as [|n IH]; intros lo; cbn [filter_next]; [nb|].
  destruct (nth_error (slots x) lo) as [[[k u]|]|]; nb.
Qed.
Lemma NB_filter_fold (x y : smap) want n : forall lo acc F', incl (owned E y) F' -> NB F' no_ids (filter_fold E x y want n lo acc).
Proof.
  induction n as [|n IH]; intros lo acc F' Hy; cbn [filter_fold]; [nb|].
  destruct (nth_error (slots x) lo) as [[[k u]|]|]; nb.
Qed.
Lemma NB_siter_fold (y : smap) n : forall lo acc F', NB F' no_ids (@siter_fold key cstate y n lo acc).
Proof.
  induction n as [|n IH]; intros lo acc F'; cbn [siter_fold]; [nb|].
  destruct (nth_error (slots y) lo) as [[p|]|]; nb.
Qed.
Lemma NB_all_in (x y : smap) want n : forall lo F', incl (owned E y) F' -> NB F' no_ids (all_in E x y want n lo).
Proof.
  induction n as [|n IH]; intros lo F' Hy; cbn [all_in]; [nb|].
  destruct (nth_error (slots x) lo) as [[[k u]|]|]; nb.
Qed.
Hint Resolve NB_filter_next NB_filter_fold NB_siter_fold NB_all_in : nb.

Lemma NB_diff_next F' (x y : smap) c : incl (owned E y) F' -> NB F' no_ids (diff_next E x y c).
Proof. intros Hy. unfold diff_next. nb. Qed.
Lemma NB_inter_next F' (x y : smap) c : incl (owned E y) F' -> NB F' no_ids (inter_next E x y c).
Proof. intros Hy. unfold inter_next. nb. Qed.
Lemma NB_diff_fold F' (x y : smap) c acc : incl (owned E y) F' -> NB F' no_ids (diff_fold E x y c acc).
Proof. intros Hy. unfold diff_fold. nb. Qed.
Lemma NB_inter_fold F' (x y : smap) c acc : incl (owned E y) F' -> NB F' no_ids (inter_fold E x y c acc).
Proof. intros Hy. unfold inter_fold. nb. Qed.
Hint Resolve NB_diff_next NB_inter_next NB_diff_fold NB_inter_fold : nb.

Lemma NB_union F (a b : smap) : incl (owned E a) F -> incl (owned E b) F -> NB F no_ids (union a b).
Proof. intros Ha Hb. unfold union. nb. Qed.
Lemma NB_union_next F (a b : smap) u : incl (owned E a) F -> incl (owned E b) F -> NB F no_ids (union_next E a b u).
Proof. intros Ha Hb. unfold union_next. destruct (front u); nb. Qed.
Lemma NB_union_fold F (a b : smap) u : incl (owned E a) F -> incl (owned E b) F -> NB F no_ids (union_fold E a b u).
Proof. intros Ha Hb. unfold union_fold. destruct (front u); nb. Qed.
Lemma NB_symdiff F (a b : smap) : incl (owned E a) F -> incl (owned E b) F -> NB F no_ids (symdiff a b).
Proof. intros Ha Hb. unfold symdiff. nb. Qed.
Lemma NB_symdiff_next F (a b : smap) u : incl (owned E a) F -> incl (owned E b) F -> NB F no_ids (symdiff_next E a b u).
Proof. intros Ha Hb. unfold symdiff_next. destruct (front u); nb. Qed.
Lemma NB_symdiff_fold F (a b : smap) u : incl (owned E a) F -> incl (owned E b) F -> NB F no_ids (symdiff_fold E a b u).
Proof. intros Ha Hb. unfold symdiff_fold. destruct (front u); nb. Qed.
Lemma NB_iter_all F' (x y : smap) want : incl (owned E x) F' -> incl (owned E y) F' -> NB F' no_ids (iter_all E x y want).
Proof. intros Hx Hy. unfold iter_all. nb. Qed.
Hint Resolve NB_iter_all : nb.
Lemma NB_is_disjoint F (a b : smap) : incl (owned E a) F -> incl (owned E b) F -> NB F no_ids (is_disjoint E a b).
Proof. intros Ha Hb. unfold is_disjoint. nb. Qed.
Lemma NB_is_subset F' (x y : smap) : incl (owned E x) F' -> incl (owned E y) F' -> NB F' no_ids (is_subset E x y).
Proof. intros Hx Hy. unfold is_subset. nb. Qed.
Lemma NB_is_superset F (a b : smap) : incl (owned E a) F -> incl (owned E b) F -> NB F no_ids (is_superset E a b).
Proof. intros Ha Hb. unfold is_superset. apply NB_is_subset; assumption. Qed.

Lemma NB_clone_key F' k : NB F' (idK E) (clone_key E k).
Proof. unfold clone_key. nb. Qed.
Hint Resolve NB_clone_key : nb.
Lemma NB_sub_loop (a b : smap) fuel : forall c F', incl (owned E b) F' -> NB F' no_ids (sub_loop E debug a b fuel c).
Proof.
  induction fuel as [|fuel IH]; intros c F' Hy; cbn [sub_loop]; [nb|].
  eapply NB_bind; [nb_leaf|]. intros [[i|] c']; [|nb].
  destruct (nth_error (slots a) i) as [[[k u]|]|]; nb.
Qed.
Lemma NB_set_sub F (a b : smap) : incl (owned E a) F -> incl (owned E b) F -> NB F no_ids (set_sub E debug a b).
Proof. intros Ha Hb. unfold set_sub. pose proof (NB_sub_loop a b). nb. Qed.
End NBSet.

#[global] Hint Resolve NB_s_contains NB_s_remove NB_s_insert NB_s_get NB_s_take NB_s_replace NB_s_clear
  NB_s_retain NB_s_extend_loop NB_s_from_iter NB_contains_in NB_siter_next NB_difference NB_filter_next
  NB_filter_fold NB_siter_fold NB_all_in NB_diff_next NB_inter_next NB_diff_fold NB_inter_fold
  NB_union NB_union_next NB_union_fold NB_symdiff NB_symdiff_next NB_symdiff_fold NB_iter_all
  NB_is_disjoint NB_is_subset NB_is_superset NB_clone_key NB_sub_loop NB_set_sub : nb.

(* ---- Exec.v: the sessions that are generic in the element type ---- *)
Section NBExecGen.
Context {V : Type} (E : env key V query cstate) (HE : EnvOK E) (debug : bool).
Notation M := (M key V cstate). Notation world := (world key V cstate).
Notation NB := (NB E).

Lemma NB_put_self_new F n : NB F no_ids (put_self (@new_map key V n)).
Proof. apply NB_put_self. rewrite cf_owned_new. intros id []. Qed.
Hint Resolve NB_put_self_new : nb.

Lemma NB_const {A} F (f : world -> A) : NB F no_ids (fun w => Ok (f w) w).
Proof. apply NB_pure. intros w. split; reflexivity. Qed.

Lemma NB_opt_slot F rp r : NB F no_ids (@opt_slot V rp r).
Proof. unfold opt_slot. destruct r; nb. Qed.
Hint Resolve NB_opt_slot : nb.

Lemma NB_replace_with F build body : NB F no_ids build -> NB F no_ids (replace_with E build body).
Proof.
  intros Hb. unfold replace_with. eapply NB_bind; [nb_leaf|]. intros c.
  eapply NB_bind; [apply (NB_swap_self _ _ no_ids); [solve_incl|]|].
  { eapply NB_conseq; [exact Hb | solve_incl | solve_incl]. }
  intros [u fresh]. eapply NB_bind; [apply NB_get_self|]. intros old.
  eapply (NB_bind _ _ no_ids); [apply NB_put_self; solve_incl|]. intros ?.
  eapply NB_bind; [apply (NB_swap_self _ _ no_ids); [solve_incl | nb]|]. intros [u2 m2]. nb.
Qed.
Lemma NB_drop_reg F : NB F no_ids (drop_reg E).
Proof. unfold drop_reg. nb. Qed.

(* drain sessions *)
Lemma NB_drain_steps rp n : forall c acc F, NB F no_ids (@drain_steps V rp n c acc).
Proof. induction n as [|n IH]; intros c acc F; cbn [drain_steps]; nb. Qed.
Lemma NB_dbg_range F dk dv alt c : NB F no_ids (@dbg_range V dk dv alt c).
Proof. unfold dbg_range. apply NB_const. Qed.
Lemma NB_call_or_drain F cl p c : nx_ok cl -> NB F no_ids (call_or_drain E cl p c).
Proof. intros Hcl. unfold call_or_drain. pose proof (NB_cbk E) as Hk. nb. Qed.
Hint Resolve NB_drain_steps NB_dbg_range NB_call_or_drain : nb.
Lemma NB_drain_for_each cl : nx_ok cl -> forall fuel c cnt F, NB F no_ids (drain_for_each E cl fuel c cnt).
Proof. intros Hcl. induction fuel as [|fuel IH]; intros c cnt F; cbn [drain_for_each]; nb. Qed.
Lemma NB_drain_count fuel : forall c cnt F, NB F no_ids (drain_count E fuel c cnt).
Proof. induction fuel as [|fuel IH]; intros c cnt F; cbn [drain_count]; nb. Qed.
Hint Resolve NB_drain_for_each NB_drain_count : nb.
Lemma NB_drain_session F rp dk dv with_dbg cl take fate : nx_ok cl ->
  NB F no_ids (drain_session E rp dk dv with_dbg cl take fate).
Proof. intros Hcl. unfold drain_session. nb. Qed.

(* nth sessions *)
Lemma NB_b_skip n : forall c F, NB F no_ids (@b_skip V n c).
Proof. induction n as [|n IH]; intros c F; cbn [b_skip]; nb. Qed.
Lemma NB_b_nth n : forall c F, NB F no_ids (@b_nth V n c).
Proof. induction n as [|n IH]; intros c F; cbn [b_nth]; nb. Qed.
Lemma NB_r_slot_item F proj o : NB F no_ids (@r_slot_item V proj o).
Proof. unfold r_slot_item. destruct o; nb. Qed.
Hint Resolve NB_b_skip NB_b_nth NB_r_slot_item : nb.
Lemma NB_iter_nth_session F proj pre nk : NB F no_ids (@iter_nth_session V proj pre nk).
Proof. unfold iter_nth_session. nb. Qed.
Lemma NB_d_skip n : forall c F, NB F no_ids (@d_skip V n c).
Proof. induction n as [|n IH]; intros c F; cbn [d_skip]; nb. Qed.
Lemma NB_d_nth n : forall c F,
  NB F (fun r : option (key * V) * cursor => match fst r with Some p => ids_pair E p | None => [] end) (d_nth E n c).
Proof. induction n as [|n IH]; intros c F; cbn [d_nth]; nb. Qed.
Hint Resolve NB_d_skip NB_d_nth : nb.
Lemma NB_drain_nth_session F rp pre nk : NB F no_ids (drain_nth_session E rp pre nk).
Proof. unfold drain_nth_session. nb. Qed.

Section IntoNth.
Context (item : key * V -> M (list N)) (rest : key * V -> M unit).
Context (Hitem : forall F p, NB F no_ids (item p)) (Hrest : forall F p, NB F no_ids (rest p)).
Lemma NB_i_skip n : forall F, NB F no_ids (i_skip item n).
Proof. induction n as [|n IH]; intros F; cbn [i_skip]; nb. Qed.
Lemma NB_i_nth n : forall F, NB F no_ids (i_nth item rest n).
Proof. induction n as [|n IH]; intros F; cbn [i_nth]; nb. Qed.
Lemma NB_into_nth_session F pre nk : NB F no_ids (into_nth_session E item rest pre nk).
Proof. unfold into_nth_session. pose proof NB_i_skip. pose proof NB_i_nth. nb. Qed.
End IntoNth.

(* the decoders: two (one) new identities are taken from the counter *)
Lemma NB_fresh {A} F (ida : A -> list N) (n : N) (f : N -> M A) :
  (forall id, NB (List.map (fun j => (id + j)%N) (List.map N.of_nat (seq 0 (N.to_nat n))) ++ F) ida (f id)) ->
  NB F ida (id <- get_next_id ;; bump_id (id + n) ;; f id).
Proof.
  intros Hf w Hw HF. unfold bind, get_next_id, bump_id.
  set (w1 := {| cb := _; log := log w; self := self w |}).
  assert (Hn1 : nid w1 = (nid w + n)%N) by reflexivity.
  assert (Hw1 : okw E w1) by (unfold okw in *; rewrite Hn1; eapply ltn_mono; [|exact Hw]; lia).
  specialize (Hf (next_id (cb w)) w1 Hw1).
  assert (HF1 : ltn (nid w1) (List.map (fun j => (next_id (cb w) + j)%N) (List.map N.of_nat (seq 0 (N.to_nat n))) ++ F)).
  { apply ltn_app; [|eapply ltn_mono; [|exact HF]; lia].
    intros id Hid. apply in_map_iff in Hid. destruct Hid as (j & <- & Hj).
    apply in_map_iff in Hj. destruct Hj as (i & <- & Hi). apply in_seq in Hi. rewrite Hn1. unfold nid. lia. }
  specialize (Hf HF1). destruct (f (next_id (cb w)) w1) as [a w2|w2|]; [| |exact I].
  - destruct Hf as (H1 & H2 & H3). split; [exact H1|]. split; [exact H2 | lia].
  - destruct Hf as (H1 & H3). split; [exact H1 | lia].
Qed.

End NBExecGen.

#[global] Hint Resolve NB_put_self_new NB_opt_slot NB_replace_with NB_drop_reg NB_drain_steps NB_dbg_range
  NB_call_or_drain NB_drain_for_each NB_drain_count NB_drain_session NB_b_skip NB_b_nth NB_r_slot_item
  NB_iter_nth_session NB_d_skip NB_d_nth NB_drain_nth_session NB_i_skip NB_i_nth NB_into_nth_session : nb.

(* ---- the interpreter's environments and closures ---- *)
Lemma call_tick_nid sc s : next_id (snd (call_tick sc s)) = next_id s.
Proof. reflexivity. Qed.

Lemma clone_tick_ok sc s :
  (next_id s <= next_id (snd (clone_tick sc s)))%N /\
  match fst (clone_tick sc s) with Some i => (i < next_id (snd (clone_tick sc s)))%N | None => True end.
Proof.
  unfold clone_tick. destruct (N.eqb (sc_fk sc) 2 && N.eqb (sc_fa sc) (n_clone s)); cbn [fst snd next_id]; split; try lia; exact I.
Qed.

Lemma envok_map sc : EnvOK (env_map sc).
Proof.
  constructor; intros; cbn [env_map eqK eqKQ eqQQ eqQK eqV dropK dropV cloneK cloneV idK idV snd];
    try apply cf_eq_answer_nid; try reflexivity.
  - unfold clone_key_cb. destruct (clone_tick_ok sc s) as [H1 H2].
    destruct (clone_tick sc s) as [[i|] s']; cbn [fst snd option_map] in *; (split; [exact H1|]); [|exact I].
    intros id [<-|[]]. exact H2.
  - destruct (clone_tick_ok sc s) as [H1 H2].
    destruct (clone_tick sc s) as [[i|] s']; cbn [fst snd option_map] in *; (split; [exact H1|]); [|exact I].
    intros id [<-|[]]. exact H2.
Qed.

Lemma envok_set sc : EnvOK (env_set sc).
Proof.
  constructor; intros; cbn [env_set eqK eqKQ eqQQ eqQK eqV dropK dropV cloneK cloneV idK idV snd fst];
    try apply cf_eq_answer_nid; try reflexivity.
  - unfold clone_key_cb. destruct (clone_tick_ok sc s) as [H1 H2].
    destruct (clone_tick sc s) as [[i|] s']; cbn [fst snd option_map] in *; (split; [exact H1|]); [|exact I].
    intros id [<-|[]]. exact H2.
  - split; [lia|]. intros id [].
Qed.
#[global] Hint Resolve envok_map envok_set : nb.

Lemma nx_ok_cb sc : nx_ok (nx_cb sc).
Proof. intros s. reflexivity. Qed.
Lemma nx_ok_none : nx_ok nx_none.
Proof. intros s. reflexivity. Qed.
Lemma nx_ok_if sc (b : bool) : nx_ok (if b then nx_none else nx_cb sc).
Proof. destruct b; [apply nx_ok_none | apply nx_ok_cb]. Qed.
Lemma pred_ok_m sc dflt tab : pred_ok (env_map sc) (pred_m sc dflt tab).
Proof.
  intros s k v. unfold pred_m. destruct (call_tick sc s) as [boom s'] eqn:Hc.
  assert (Hn : next_id s' = next_id s) by (rewrite <- (call_tick_nid sc s), Hc; reflexivity).
  destruct boom; [|destruct (N.eqb _ 0); [|destruct (N.eqb _ 1)]]; cbn [fst snd]; (split; [lia | apply incl_refl]).
Qed.
Lemma pred_s_nid sc dflt tab s k : (next_id s <= next_id (snd (pred_s sc dflt tab s k)))%N.
Proof.
  unfold pred_s. destruct (call_tick sc s) as [boom s'] eqn:Hc.
  assert (Hn : next_id s' = next_id s) by (rewrite <- (call_tick_nid sc s), Hc; reflexivity).
  destruct boom; cbn [snd]; lia.
Qed.
Lemma mk_ok_val sc F v : incl (idV (env_map sc) v) F -> mk_ok (env_map sc) F (mk_val sc v).
Proof.
  intros Hi s. unfold mk_val. destruct (call_tick sc s) as [boom s'] eqn:Hc.
  assert (Hn : next_id s' = next_id s) by (rewrite <- (call_tick_nid sc s), Hc; reflexivity).
  destruct boom; cbn [fst snd]; (split; [lia|]); [exact I|]. intros id Hid. right. apply Hi. exact Hid.
Qed.
Lemma mk_ok_default sc F : mk_ok (env_map sc) F (mk_default sc).
Proof.
  intros s. unfold mk_default. destruct (call_tick sc s) as [boom s'] eqn:Hc.
  assert (Hn : next_id s' = next_id s) by (rewrite <- (call_tick_nid sc s), Hc; reflexivity).
  destruct boom; cbn [fst snd next_id]; (split; [lia|]); [exact I|].
  cbn [env_map idV vid]. intros id [<-|[]]. left. lia.
Qed.
Lemma modf_ok_add sc : modf_ok (env_map sc) (modf_add sc).
Proof.
  intros s v. unfold modf_add. destruct (call_tick sc s) as [boom s'] eqn:Hc.
  assert (Hn : next_id s' = next_id s) by (rewrite <- (call_tick_nid sc s), Hc; reflexivity).
  destruct boom; cbn [fst snd]; (split; [lia | apply incl_refl]).
Qed.
#[global] Hint Resolve nx_ok_cb nx_ok_none nx_ok_if pred_ok_m pred_s_nid mk_ok_val mk_ok_default modf_ok_add : nb.

(* ---- Exec.v: Map sessions ---- *)
Section NBExecMap.
Context (debug : bool) (sc : script).
Notation Em := (env_map sc).
Notation NB := (NB Em).

Lemma NB_set_dat F i d : NB F no_ids (set_dat i d).
Proof.
  unfold set_dat. eapply NB_bind; [apply (NB_p_replace Em); solve_incl|]. intros ?. nb.
Qed.
Hint Resolve NB_set_dat : nb.

Lemma NB_iter_steps kind wd n : forall j c acc F, NB F no_ids (iter_steps kind wd n j c acc).
Proof. induction n as [|n IH]; intros j c acc F; cbn [iter_steps]; nb. Qed.
Lemma NB_dbg_iter F kind alt c : NB F no_ids (dbg_iter kind alt c).
Proof. unfold dbg_iter. apply NB_const. Qed.
Lemma NB_rest_slots n : forall lo F, NB F no_ids (rest_slots n lo).
Proof. induction n as [|n IH]; intros lo F; cbn [rest_slots]; nb. Qed.
Hint Resolve NB_iter_steps NB_dbg_iter NB_rest_slots : nb.
Lemma NB_iter_session F kind steps wd : NB F no_ids (iter_session kind steps wd).
Proof. unfold iter_session. nb. Qed.

Lemma NB_into_steps_item F kind p : NB F no_ids (into_steps_item sc kind p).
Proof. unfold into_steps_item. nb. Qed.
Lemma NB_unwind_item F kind p : NB F no_ids (unwind_item sc kind p).
Proof. unfold unwind_item. nb. Qed.
Lemma NB_into_rest F kind p : NB F no_ids (into_rest sc kind p).
Proof. unfold into_rest. nb. Qed.
Hint Resolve NB_into_steps_item NB_unwind_item NB_into_rest : nb.
Lemma NB_into_steps kind n : forall acc F, NB F no_ids (into_steps sc kind n acc).
Proof. induction n as [|n IH]; intros acc F; cbn [into_steps]; nb. Qed.
Lemma NB_dbg_into F kind alt : NB F no_ids (dbg_into kind alt).
Proof. unfold dbg_into. apply NB_const. Qed.
Lemma NB_cbk_nx F : NB F no_ids (cbk (nx_cb sc)).
Proof. apply NB_cbk. intros s. reflexivity. Qed.
Hint Resolve NB_into_steps NB_dbg_into NB_cbk_nx : nb.
Lemma NB_into_for_each kind fuel : forall cnt F, NB F no_ids (into_for_each sc kind fuel cnt).
Proof. induction fuel as [|fuel IH]; intros cnt F; cbn [into_for_each]; nb. Qed.
Lemma NB_into_count kind fuel : forall cnt F, NB F no_ids (into_count sc kind fuel cnt).
Proof. induction fuel as [|fuel IH]; intros cnt F; cbn [into_count]; nb. Qed.
Hint Resolve NB_into_for_each NB_into_count : nb.
Lemma NB_into_session F kind take fate : NB F no_ids (into_session sc kind take fate).
Proof. unfold into_session. nb. Qed.

Lemma NB_r_slotval F tag i : NB F no_ids (r_slotval tag i).
Proof. unfold r_slotval. nb. Qed.
Hint Resolve NB_r_slotval : nb.
Lemma NB_entry_chain F k chain v : incl [kid k; vid v] F -> NB F no_ids (entry_chain debug sc k chain v).
Proof.
  intros H. unfold entry_chain.
  eapply NB_bind; [apply (NB_entry_of Em (envok_map sc)); solve_incl|]. intros e.
  assert (He : incl (match e with Occupied _ => [] | Vacant k0 => idK Em k0 end)
                    ((match e with Occupied _ => [] | Vacant k0 => idK Em k0 end) ++ F)) by (apply incl_appl, incl_refl).
  assert (Hv : incl (idV Em v) ((match e with Occupied _ => [] | Vacant k0 => idK Em k0 end) ++ F)) by solve_incl.
  repeat lazymatch goal with
         | |- NB _ _ _ (match ?c with _ => _ end) =>
             lazymatch type of c with N => destruct c | positive => destruct c end
         end.
  all: try (eapply NB_bind;
            [first [ apply (NB_or_insert Em (envok_map sc)); assumption
                   | apply (NB_or_insert_with Em (envok_map sc)); [assumption | auto with nb]
                   | apply (NB_or_insert_with_key Em (envok_map sc)); [assumption | intros; auto with nb] ]
            | intros ?; nb]).
  all: try (destruct e; nb).
Qed.

Lemma NB_disjoint_render wd l : forall j F, NB F no_ids (disjoint_render l wd j).
Proof. induction l as [|[i|] l IH]; intros j F; cbn [disjoint_render]; nb. Qed.
Hint Resolve NB_disjoint_render : nb.
Lemma NB_disjoint_session F unchecked qs wd : NB F no_ids (disjoint_session sc unchecked qs wd).
Proof. unfold disjoint_session. destruct unchecked; nb. Qed.
Lemma NB_format_m F style : NB F no_ids (format_m style).
Proof.
  unfold format_m. eapply (NB_bind _ _ no_ids); [nb_leaf|]. intros ?. apply (NB_const Em).
Qed.
Lemma NB_visit_map items : forall F, NB F no_ids (visit_map debug sc items).
Proof.
  induction items as [|[k v] rest IH]; intros F; cbn [visit_map]; [nb|].
  apply (NB_fresh Em F no_ids 2). intros id. change (List.map N.of_nat (seq 0 (N.to_nat 2))) with [0%N; 1%N]. cbn [List.map].
  eapply NB_bind; [apply (NB_insert Em (envok_map sc))|].
  { unfold ids_pair. cbn [fst snd env_map idK idV kid vid]. intros x Hx. cbn [app In] in Hx.
    rewrite in_app_iff. cbn [In]. rewrite N.add_0_r. tauto. }
  intros old. nb.
Qed.
End NBExecMap.

(* ---- Exec.v: Set sessions ---- *)
Section NBExecSet.
Context (debug : bool) (sc : script).
Notation Es := (env_set sc).
Notation NB := (NB Es).

Lemma HU_set : idV Es tt = [].
Proof. reflexivity. Qed.

Lemma NB_format_s F style : NB F no_ids (format_s style).
Proof.
  unfold format_s. eapply (NB_bind _ _ no_ids); [nb_leaf|]. intros ?. apply (NB_const Es).
Qed.
Lemma NB_visit_seq items : forall F, NB F no_ids (visit_seq debug sc items).
Proof.
  induction items as [|k rest IH]; intros F; cbn [visit_seq]; [nb|].
  apply (NB_fresh Es F no_ids 1). intros id. change (List.map N.of_nat (seq 0 (N.to_nat 1))) with [0%N]. cbn [List.map].
  eapply NB_bind; [apply (NB_s_insert Es (envok_set sc) HU_set)|].
  { cbn [env_set idK kid]. intros x Hx. cbn [In] in Hx. rewrite in_app_iff. cbn [In]. rewrite N.add_0_r. tauto. }
  intros ?. nb.
Qed.

Lemma NB_r_side F a b x : NB F no_ids (r_side a b x).
Proof. unfold r_side. destruct (nth_error _ _) as [[p|]|]; nb. Qed.
Hint Resolve NB_r_side : nb.
Lemma NB_r_sides a b l : forall F, NB F no_ids (r_sides a b l).
Proof. induction l as [|x t IH]; intros F; cbn [r_sides]; nb. Qed.
Hint Resolve NB_r_sides : nb.


Lemma NB_rest_slots_s n : forall lo F, NB F no_ids (rest_slots_s n lo).
Proof. induction n as [|n IH]; intros lo F; cbn [rest_slots_s]; nb. Qed.
Lemma NB_set_iter_steps n : forall c acc F, NB F no_ids (set_iter_steps n c acc).
Proof. induction n as [|n IH]; intros c acc F; cbn [set_iter_steps]; nb. Qed.
Hint Resolve NB_rest_slots_s NB_set_iter_steps : nb.
Lemma NB_set_iter_session F steps : NB F no_ids (set_iter_session steps).
Proof. unfold set_iter_session. nb. Qed.
Lemma NB_set_into_steps n : forall acc F, NB F no_ids (set_into_steps n acc).
Proof. induction n as [|n IH]; intros acc F; cbn [set_into_steps]; nb. Qed.
Lemma NB_cbk_nx_s F : NB F no_ids (cbk (nx_cb sc)).
Proof. apply NB_cbk. intros s. reflexivity. Qed.
Hint Resolve NB_cbk_nx_s : nb.
Lemma NB_set_into_for_each fuel : forall cnt F, NB F no_ids (set_into_for_each sc fuel cnt).
Proof. induction fuel as [|fuel IH]; intros cnt F; cbn [set_into_for_each]; nb. Qed.
Lemma NB_set_into_count fuel : forall cnt F, NB F no_ids (set_into_count sc fuel cnt).
Proof. induction fuel as [|fuel IH]; intros cnt F; cbn [set_into_count]; nb. Qed.
End NBExecSet.

#[global] Hint Resolve NB_set_dat NB_iter_steps NB_dbg_iter NB_rest_slots NB_iter_session NB_into_steps_item
  NB_unwind_item NB_into_rest NB_into_steps NB_dbg_into NB_cbk_nx NB_into_for_each NB_into_count
  NB_into_session NB_r_slotval NB_entry_chain NB_disjoint_render NB_disjoint_session NB_format_m NB_visit_map
  NB_format_s NB_visit_seq NB_r_side NB_r_sides NB_rest_slots_s NB_set_iter_steps
  NB_set_iter_session NB_set_into_steps NB_cbk_nx_s NB_set_into_for_each NB_set_into_count HU_set : nb.

Section NBExecAlg.
Context (sc : script).
Notation Es := (env_set sc).
Notation NB := (NB Es).
Context (a b : map key unit) (F0 : list N) (Ha : incl (owned Es a) F0) (Hb : incl (owned Es b) F0).

Lemma NB_alg_init F kind : incl F0 F -> NB F no_ids (alg_init kind a b).
Proof.
  intros HF. assert (Ha' : incl (owned Es a) F) by (eapply incl_tran; eauto).
  assert (Hb' : incl (owned Es b) F) by (eapply incl_tran; eauto).
  unfold alg_init.
  destruct (N.eqb kind 2); [nb|]. destruct (N.eqb kind 3); nb.
Qed.
Lemma NB_alg_next F kind st : incl F0 F -> NB F no_ids (alg_next sc kind a b st).
Proof.
  intros HF. assert (Ha' : incl (owned Es a) F) by (eapply incl_tran; eauto).
  assert (Hb' : incl (owned Es b) F) by (eapply incl_tran; eauto).
  unfold alg_next. destruct st as [c|u].
  - destruct (N.eqb kind 1); nb.
  - destruct (N.eqb kind 2); nb.
Qed.
Lemma NB_alg_fold F kind st : incl F0 F -> NB F no_ids (alg_fold sc kind a b st).
Proof.
  intros HF. assert (Ha' : incl (owned Es a) F) by (eapply incl_tran; eauto).
  assert (Hb' : incl (owned Es b) F) by (eapply incl_tran; eauto).
  unfold alg_fold. destruct st as [c|u].
  - destruct (N.eqb kind 1); nb.
  - destruct (N.eqb kind 2); nb.
Qed.
Lemma NB_alg_steps kind n : forall st acc F, incl F0 F -> NB F no_ids (alg_steps sc kind a b n st acc).
Proof.
  induction n as [|n IH]; intros st acc F HF; cbn [alg_steps]; [nb|].
  destruct (alg_hint kind a b st) as [lo hi].
  eapply NB_bind; [apply NB_alg_next; exact HF|]. intros [[x|] st'].
  - eapply (NB_bind _ _ no_ids); [nb_leaf|]. intros h. apply IH. solve_incl.
  - apply IH. solve_incl.
Qed.
Lemma NB_alg_session kind steps mode : NB F0 no_ids (alg_session sc kind a b steps mode).
Proof.
  unfold alg_session.
  eapply (NB_bind _ _ no_ids); [apply NB_alg_init; apply incl_refl|]. intros st.
  eapply (NB_bind _ _ no_ids); [apply NB_alg_steps; solve_incl|]. intros [acc st'].
  destruct (alg_hint kind a b st') as [lo hi].
  eapply (NB_bind _ _ no_ids); [apply NB_alg_fold; solve_incl|]. intros dbg.
  eapply (NB_bind _ _ no_ids); [apply NB_alg_fold; solve_incl|]. intros rest.
  nb.
Qed.
End NBExecAlg.

#[global] Hint Resolve NB_alg_session : nb.

(* ---- H2. the invariant of interpreter states ---- *)
(* identities do not depend on the script: they are kid / vid *)
Definition mids (m : map key vobj) : list N := owned (env_map xi_sc0) m.
Definition sids (m : map key unit) : list N := owned (env_set xi_sc0) m.
Lemma owned_mids sc m : owned (env_map sc) m = mids m.
Proof. reflexivity. Qed.
Lemma owned_sids sc m : owned (env_set sc) m = sids m.
Proof. reflexivity. Qed.

Definition allx (x : xworld) : list N := mids (xm0 x) ++ mids (xm1 x) ++ sids (xs0 x) ++ sids (xs1 x).

(* every identity held in any slot of any register is below the counter *)
Definition below (x : xworld) : Prop := forall id, In id (allx x) -> (id < next_id (xcb x))%N.

Lemma init_below c0 c1 c2 c3 : below (init_world c0 c1 c2 c3).
Proof.
  intros id Hid. unfold allx, init_world, mids, sids in Hid. cbn [xm0 xm1 xs0 xs1] in Hid.
  rewrite !cf_owned_new in Hid. destruct Hid.
Qed.

Lemma incl_get_m r x : incl (mids (get_m r x)) (allx x).
Proof. unfold get_m, allx. destruct (N.eqb r 0); intros id H; rewrite !in_app_iff; tauto. Qed.
Lemma incl_get_s r x : incl (sids (get_s r x)) (allx x).
Proof. unfold get_s, allx. destruct (N.eqb r 2); intros id H; rewrite !in_app_iff; tauto. Qed.

Lemma allx_put_m r m c x id : In id (allx (put_m r m c x)) -> In id (mids m) \/ In id (allx x).
Proof. unfold put_m, allx. destruct (N.eqb r 0); cbn [xm0 xm1 xs0 xs1]; rewrite !in_app_iff; tauto. Qed.
Lemma allx_put_s r m c x id : In id (allx (put_s r m c x)) -> In id (sids m) \/ In id (allx x).
Proof. unfold put_s, allx. destruct (N.eqb r 2); cbn [xm0 xm1 xs0 xs1]; rewrite !in_app_iff; tauto. Qed.
Lemma xcb_put_m r m c x : xcb (put_m r m c x) = c.
Proof. unfold put_m. destruct (N.eqb r 0); reflexivity. Qed.
Lemma xcb_put_s r m c x : xcb (put_s r m c x) = c.
Proof. unfold put_s. destruct (N.eqb r 2); reflexivity. Qed.

Lemma run_m_below sc r (c : Mm (list N)) x F (ida : list N -> list N) :
  below x -> ltn (next_id (xcb x)) F -> NB (env_map sc) F ida c ->
  below (snd (run_m r c x)) /\ (next_id (xcb x) <= next_id (xcb (snd (run_m r c x))))%N.
Proof.
  intros Hx HF Hc. unfold run_m.
  set (w0 := {| cb := xcb x; log := []; self := get_m r x |}).
  assert (Hw0 : okw (env_map sc) w0).
  { unfold okw, okm, nid. cbn [cb self w0]. rewrite owned_mids. intros id Hid. apply Hx. apply (incl_get_m r x). exact Hid. }
  specialize (Hc w0 Hw0 HF).
  assert (Hput : forall w : world key _ cstate, okw (env_map sc) w -> (nid w0 <= nid w)%N ->
            below (put_m r (self w) (cb w) x) /\ (next_id (xcb x) <= next_id (xcb (put_m r (self w) (cb w) x)))%N).
  { intros w H1 H3. rewrite xcb_put_m. unfold nid in H3. cbn [cb w0] in H3. split; [|exact H3].
    intros id Hid. rewrite xcb_put_m. apply allx_put_m in Hid. destruct Hid as [Hid|Hid].
    - apply (H1 id). rewrite owned_mids. exact Hid.
    - specialize (Hx id Hid). lia. }
  destruct (c w0) as [body w|w|]; cbn [finish snd]; [| |split; [exact Hx | cbn [kill xcb]; lia]].
  - destruct Hc as (H1 & _ & H3). apply Hput; assumption.
  - destruct Hc as (H1 & H3). apply Hput; assumption.
Qed.

Lemma run_s_below sc r (c : Ms (list N)) x F (ida : list N -> list N) :
  below x -> ltn (next_id (xcb x)) F -> NB (env_set sc) F ida c ->
  below (snd (run_s r c x)) /\ (next_id (xcb x) <= next_id (xcb (snd (run_s r c x))))%N.
Proof.
  intros Hx HF Hc. unfold run_s.
  set (w0 := {| cb := xcb x; log := []; self := get_s r x |}).
  assert (Hw0 : okw (env_set sc) w0).
  { unfold okw, okm, nid. cbn [cb self w0]. rewrite owned_sids. intros id Hid. apply Hx. apply (incl_get_s r x). exact Hid. }
  specialize (Hc w0 Hw0 HF).
  assert (Hput : forall w : world key _ cstate, okw (env_set sc) w -> (nid w0 <= nid w)%N ->
            below (put_s r (self w) (cb w) x) /\ (next_id (xcb x) <= next_id (xcb (put_s r (self w) (cb w) x)))%N).
  { intros w H1 H3. rewrite xcb_put_s. unfold nid in H3. cbn [cb w0] in H3. split; [|exact H3].
    intros id Hid. rewrite xcb_put_s. apply allx_put_s in Hid. destruct Hid as [Hid|Hid].
    - apply (H1 id). rewrite owned_sids. exact Hid.
    - specialize (Hx id Hid). lia. }
  destruct (c w0) as [body w|w|]; cbn [finish snd]; [| |split; [exact Hx | cbn [kill xcb]; lia]].
  - destruct Hc as (H1 & _ & H3). apply Hput; assumption.
  - destruct Hc as (H1 & H3). apply Hput; assumption.
Qed.

Lemma flat_map_kid (items : list key) : flat_map (idK (env_set xi_sc0)) items = List.map kid items.
Proof. induction items as [|k t IH]; [reflexivity|]. cbn [flat_map List.map]. rewrite IH. reflexivity. Qed.

(* EVERY script, every state (no well-formedness, no contract needed: an undefined
   step leaves registers and counter as they are), all 56 operations: if the
   stored identities and the identities the operation hands in are below the
   counter, so are the stored identities afterwards *)
Theorem step_below debug sc o x :
  below x -> (forall id, In id (op_ids o) -> (id < next_id (xcb x))%N) ->
  below (snd (step debug sc o x)) /\ (next_id (xcb x) <= next_id (xcb (snd (step debug sc o x))))%N.
Proof.
  intros Hx Hids. unfold step. destruct (xdead x); [split; [exact Hx | cbn [snd]; lia]|].
  set (F := op_ids o ++ allx x).
  assert (HF : ltn (next_id (xcb x)) F).
  { intros id Hid. apply in_app_or in Hid. destruct Hid; [apply Hids | apply Hx]; assumption. }
  assert (Hm : forall r, incl (owned (env_map sc) (get_m r x)) F).
  { intros r id Hid. apply in_or_app. right. apply (incl_get_m r x). exact Hid. }
  assert (Hs : forall r, incl (owned (env_set sc) (get_s r x)) F).
  { intros r id Hid. apply in_or_app. right. apply (incl_get_s r x). exact Hid. }
  assert (Ho : incl (op_ids o) F) by (apply incl_appl, incl_refl).
  clearbody F.
  destruct o; cbn [op_ids] in Ho;
    repeat match goal with |- context [if ?b then _ else _] =>
             lazymatch b with Nat.eqb _ _ => destruct b end end;
    try (split; [exact Hx | cbn [snd]; lia]);
    first [ eapply (run_m_below sc _ _ _ F no_ids); [exact Hx | exact HF | ]
          | eapply (run_s_below sc _ _ _ F no_ids); [exact Hx | exact HF | ] ].
  all: try (pose proof (Hm r) as Hmr); try (pose proof (Hm r') as Hmr');
       try (pose proof (Hs r) as Hsr); try (pose proof (Hs r') as Hsr').
  all: clear Hm Hs Hx Hids HF.
  all: try solve [nb].
  all: try solve [apply NB_replace_with; [auto with nb | nb]].
  - (* OWithCapacity *)
    eapply NB_bind; [nb_leaf|]. intros n. destruct (with_capacity_ok c n); [|nb].
    apply NB_replace_with; [auto with nb | nb].
  - (* SIntoNth *)
    eapply NB_bind; [nb_leaf|]. intros c. eapply NB_bind; [apply NB_get_self|]. intros old.
    eapply (NB_bind _ _ no_ids); [nb_leaf|]. intros ?.
    eapply NB_bind; [apply (NB_swap_self _ _ no_ids); [solve_incl|]|].
    { apply (NB_into_nth_session (env_set sc) (envok_set sc)); intros; nb. }
    intros [body m]. nb.
Qed.

Theorem run_below debug sc ops : forall x,
  below x -> (forall o id, In o ops -> In id (op_ids o) -> (id < next_id (xcb x))%N) ->
  below (run_final debug sc ops x) /\ (next_id (xcb x) <= next_id (xcb (run_final debug sc ops x)))%N.
Proof.
  induction ops as [|o t IH]; intros x Hx Hids; cbn [run_final]; [split; [exact Hx | lia]|].
  destruct (step_below debug sc o x Hx) as [Hb Hle].
  { intros id Hid. apply (Hids o id); [left; reflexivity | exact Hid]. }
  destruct (IH (snd (step debug sc o x)) Hb) as [Hb' Hle'].
  { intros o' id Ho' Hid. specialize (Hids o' id (or_intror Ho') Hid). lia. }
  split; [exact Hb' | lia].
Qed.

(* from the interpreter's initial state: every state reached by operations whose
   handed-in identities are below 100000 (the initial counter) satisfies [below] *)
Corollary run_below_init debug sc ops c0 c1 c2 c3 :
  (forall o id, In o ops -> In id (op_ids o) -> (id < 100000)%N) ->
  below (run_final debug sc ops (init_world c0 c1 c2 c3)).
Proof. intros H. apply run_below; [apply init_below | exact H]. Qed.

(* ---- H3. Clone at the interpreter: independence in every reachable state ---- *)
Lemma run_clone_disjoint_m sc r r' x :
  below x -> WFx x -> cap (get_m r x) = cap (get_m r' x) -> ~ same_m r' r ->
  let x1 := snd (run_m r' (replace_with (env_map sc) (clone_from_src (env_map sc) (get_m r x)) []) x) in
  get_m r x1 = get_m r x /\
  (get_m r' x1 = get_m r' x \/
   forall id, In id (mids (get_m r' x1)) -> ~ In id (mids (get_m r x1))).
Proof.
  intros Hx Hwf Hc Hn x1.
  assert (Hr : get_m r x1 = get_m r x) by (apply (proj1 (run_m_other r' _ x r)); exact Hn).
  split; [exact Hr|]. rewrite Hr. unfold x1, run_m.
  set (w0 := {| cb := xcb x; log := []; self := get_m r' x |}).
  pose proof (op_clone_acct (env_map sc) (get_m r x) [] w0 (WFx_get_m r x Hwf) (WFx_get_m r' x Hwf) Hc) as H.
  cbv zeta in H. unfold wp in H.
  assert (Hfresh : forall w : world key vobj cstate,
            Permutation (owned (env_map sc) (self w))
              (flat_map (ids_pair (env_map sc)) (clone_made (env_map sc) (get_m r x) (len (get_m r x)) 0 (cb w0))) ->
            forall id, In id (mids (self w)) -> ~ In id (mids (get_m r x))).
  { intros w HP id Hid Hsrc. rewrite <- (owned_mids sc) in Hid.
    pose proof (clone_made_map_ge sc _ _ _ _ _ (Permutation_in id HP Hid)) as Hge. cbn [cb w0] in Hge.
    specialize (Hx id (incl_get_m r x id Hsrc)). lia. }
  destruct (replace_with _ _ _ w0) as [body w|w|]; cbn [finish snd]; [| |destruct H].
  - right. rewrite cf_get_m_put_same. destruct H as (_ & _ & _ & _ & _ & _ & HP & _). apply Hfresh. exact HP.
  - rewrite cf_get_m_put_same. destruct H as [[Hs _]|(_ & _ & _ & _ & HP & _)].
    + left. exact Hs.
    + right. apply Hfresh. exact HP.
Qed.

Lemma run_clone_disjoint_s sc r r' x :
  below x -> WFx x -> cap (get_s r x) = cap (get_s r' x) -> ~ same_s r' r ->
  let x1 := snd (run_s r' (replace_with (env_set sc) (clone_from_src (env_set sc) (get_s r x)) []) x) in
  get_s r x1 = get_s r x /\
  (get_s r' x1 = get_s r' x \/
   forall id, In id (sids (get_s r' x1)) -> ~ In id (sids (get_s r x1))).
Proof.
  intros Hx Hwf Hc Hn x1.
  assert (Hr : get_s r x1 = get_s r x) by (apply (proj1 (run_s_other r' _ x r)); exact Hn).
  split; [exact Hr|]. rewrite Hr. unfold x1, run_s.
  set (w0 := {| cb := xcb x; log := []; self := get_s r' x |}).
  pose proof (op_clone_acct (env_set sc) (get_s r x) [] w0 (WFx_get_s r x Hwf) (WFx_get_s r' x Hwf) Hc) as H.
  cbv zeta in H. unfold wp in H.
  assert (Hfresh : forall w : world key unit cstate,
            Permutation (owned (env_set sc) (self w))
              (flat_map (ids_pair (env_set sc)) (clone_made (env_set sc) (get_s r x) (len (get_s r x)) 0 (cb w0))) ->
            forall id, In id (sids (self w)) -> ~ In id (sids (get_s r x))).
  { intros w HP id Hid Hsrc. rewrite <- (owned_sids sc) in Hid.
    pose proof (clone_made_set_ge sc _ _ _ _ _ (Permutation_in id HP Hid)) as Hge. cbn [cb w0] in Hge.
    specialize (Hx id (incl_get_s r x id Hsrc)). lia. }
  destruct (replace_with _ _ _ w0) as [body w|w|]; cbn [finish snd]; [| |destruct H].
  - right. rewrite cf_get_s_put_same. destruct H as (_ & _ & _ & _ & _ & _ & HP & _). apply Hfresh. exact HP.
  - rewrite cf_get_s_put_same. destruct H as [[Hs _]|(_ & _ & _ & _ & HP & _)].
    + left. exact Hs.
    + right. apply Hfresh. exact HP.
Qed.

(* In EVERY state satisfying [below] (hence every state reachable from init_world by
   operations handing in identities below 100000), for EVERY script: after
   `OClone r r'` into a different register the original is literally what it was,
   and the destination either is literally what it was (capacities differ: the
   harness does not issue the call; or a Clone panicked: the partial clone was
   destroyed, the destination untouched) or shares NO identity with the original. *)
Theorem step_OClone_disjoint debug sc r r' x :
  below x -> WFx x -> ~ same_m r' r ->
  let x1 := snd (step debug sc (OClone r r') x) in
  get_m r x1 = get_m r x /\
  (get_m r' x1 = get_m r' x \/ forall id, In id (mids (get_m r' x1)) -> ~ In id (mids (get_m r x1))).
Proof.
  intros Hx Hwf Hn. unfold step. assert (Hd : xdead x = false) by apply Hwf. rewrite Hd.
  destruct (Nat.eqb_spec (cap (get_m r x)) (cap (get_m r' x))) as [Hc|Hc]; [|cbn [snd]; auto].
  apply run_clone_disjoint_m; assumption.
Qed.
Theorem step_OCloneFrom_disjoint debug sc r r' x :
  below x -> WFx x -> ~ same_m r' r ->
  let x1 := snd (step debug sc (OCloneFrom r r') x) in
  get_m r x1 = get_m r x /\
  (get_m r' x1 = get_m r' x \/ forall id, In id (mids (get_m r' x1)) -> ~ In id (mids (get_m r x1))).
Proof.
  intros Hx Hwf Hn. unfold step. assert (Hd : xdead x = false) by apply Hwf. rewrite Hd.
  destruct (Nat.eqb_spec (cap (get_m r x)) (cap (get_m r' x))) as [Hc|Hc]; [|cbn [snd]; auto].
  apply run_clone_disjoint_m; assumption.
Qed.
Theorem step_SClone_disjoint debug sc r r' x :
  below x -> WFx x -> ~ same_s r' r ->
  let x1 := snd (step debug sc (SClone r r') x) in
  get_s r x1 = get_s r x /\
  (get_s r' x1 = get_s r' x \/ forall id, In id (sids (get_s r' x1)) -> ~ In id (sids (get_s r x1))).
Proof.
  intros Hx Hwf Hn. unfold step. assert (Hd : xdead x = false) by apply Hwf. rewrite Hd.
  destruct (Nat.eqb_spec (cap (get_s r x)) (cap (get_s r' x))) as [Hc|Hc]; [|cbn [snd]; auto].
  apply run_clone_disjoint_s; assumption.
Qed.
Theorem step_SCloneFrom_disjoint debug sc r r' x :
  below x -> WFx x -> ~ same_s r' r ->
  let x1 := snd (step debug sc (SCloneFrom r r') x) in
  get_s r x1 = get_s r x /\
  (get_s r' x1 = get_s r' x \/ forall id, In id (sids (get_s r' x1)) -> ~ In id (sids (get_s r x1))).
Proof.
  intros Hx Hwf Hn. unfold step. assert (Hd : xdead x = false) by apply Hwf. rewrite Hd.
  destruct (Nat.eqb_spec (cap (get_s r x)) (cap (get_s r' x))) as [Hc|Hc]; [|cbn [snd]; auto].
  apply run_clone_disjoint_s; assumption.
Qed.

(* when the call RETURNED (observation starts with 1) the destination is the
   complete clone: no identity in common with the original *)
Theorem step_OClone_returned_disjoint debug sc r r' x t :
  below x -> WFx x -> ~ same_m r' r ->
  fst (step debug sc (OClone r r') x) = 1%N :: t ->
  let x1 := snd (step debug sc (OClone r r') x) in
  forall id, In id (mids (get_m r' x1)) -> ~ In id (mids (get_m r x1)).
Proof.
  intros Hx Hwf Hn. unfold step. assert (Hd : xdead x = false) by apply Hwf. rewrite Hd.
  destruct (Nat.eqb_spec (cap (get_m r x)) (cap (get_m r' x))) as [Hc|Hc]; [|cbn [fst]; discriminate].
  intros Hobs. cbv zeta.
  rewrite (proj1 (run_m_other r' _ x r) Hn). unfold run_m in *.
  set (w0 := {| cb := xcb x; log := []; self := get_m r' x |}) in *.
  pose proof (op_clone_acct (env_map sc) (get_m r x) [] w0 (WFx_get_m r x Hwf) (WFx_get_m r' x Hwf) Hc) as H.
  cbv zeta in H. unfold wp in H.
  destruct (replace_with _ _ _ w0) as [body w|w|]; cbn [finish fst snd] in *; [|discriminate Hobs|destruct H].
  rewrite cf_get_m_put_same. destruct H as (_ & _ & _ & _ & _ & _ & HP & _).
  intros id Hid Hsrc. rewrite <- (owned_mids sc) in Hid.
  pose proof (clone_made_map_ge sc _ _ _ _ _ (Permutation_in id HP Hid)) as Hge. cbn [cb w0] in Hge.
  specialize (Hx id (incl_get_m r x id Hsrc)). lia.
Qed.

(* the headline: in EVERY state the interpreter reaches from its initial state by
   any history (any script) of operations that hand in identities below the
   initial counter 100000, cloning one register into the other yields a copy that
   shares no identity with the original (or leaves the destination untouched) *)
Theorem reachable_OClone_disjoint debug sc ops c0 c1 c2 c3 r r' :
  Forall safe_op ops ->
  (forall o id, In o ops -> In id (op_ids o) -> (id < 100000)%N) ->
  ~ same_m r' r ->
  let x := run_final debug sc ops (init_world c0 c1 c2 c3) in
  let x1 := snd (step debug sc (OClone r r') x) in
  get_m r x1 = get_m r x /\
  (get_m r' x1 = get_m r' x \/ forall id, In id (mids (get_m r' x1)) -> ~ In id (mids (get_m r x1))).
Proof.
  intros Hs Hids Hn x. apply step_OClone_disjoint; [|apply run_final_WFx_safe; [apply init_WFx | exact Hs] | exact Hn].
  apply run_below_init. exact Hids.
Qed.

Theorem reachable_SClone_disjoint debug sc ops c0 c1 c2 c3 r r' :
  Forall safe_op ops ->
  (forall o id, In o ops -> In id (op_ids o) -> (id < 100000)%N) ->
  ~ same_s r' r ->
  let x := run_final debug sc ops (init_world c0 c1 c2 c3) in
  let x1 := snd (step debug sc (SClone r r') x) in
  get_s r x1 = get_s r x /\
  (get_s r' x1 = get_s r' x \/ forall id, In id (sids (get_s r' x1)) -> ~ In id (sids (get_s r x1))).
Proof.
  intros Hs Hids Hn x. apply step_SClone_disjoint; [|apply run_final_WFx_safe; [apply init_WFx | exact Hs] | exact Hn].
  apply run_below_init. exact Hids.
Qed.
